#!/bin/sh
# Builds /verif/.bin/cocasa from /verif/sa offline (x/tools v0.29.0 from the module cache). Rebuilds only when a source is newer.
set -eu
cd "$(dirname "$0")"
VERIF=$(pwd)
export GOFLAGS=-mod=mod GOPROXY=off GOSUMDB=off GOTOOLCHAIN=local GONOSUMDB='*' GONOSUMCHECK=1
unset GOWORK || true
BIN="$VERIF/.bin/cocasa"
if [ -x "$BIN" ] && [ -z "$(find "$VERIF/sa" -newer "$BIN" \( -name '*.go' -o -name 'go.mod' -o -name 'go.sum' \) -print -quit)" ]; then
  exit 0
fi
mkdir -p "$VERIF/.bin"
TMP="$VERIF/.bin/cocasa.$$"
(cd "$VERIF/sa" && go build -o "$TMP" .)
mv -f "$TMP" "$BIN"
