package main

// E4 — iteration-order sensitivity: map ranges, promised orders, binary-search precondition, scheduling audit.

import (
	"fmt"
	"go/ast"
	"go/constant"
	"go/token"
	"go/types"
	"sort"
	"strings"

	"golang.org/x/tools/go/packages"
	"golang.org/x/tools/go/ssa"
)

func init() { register("E4-order", runE4) }

type rangeCtx struct {
	p       *Program
	pk      *packages.Package
	info    *types.Info
	fnDecl  ast.Node // enclosing FuncDecl or FuncLit
	fnKey   string
	rs      *ast.RangeStmt
	locals  map[types.Object]bool     // declared inside the range statement (incl. key/value)
	defs    map[types.Object]ast.Expr // single-assignment locals -> defining expression
	notes   []string
	bad     []string
	collect map[string]ast.Expr // outer slices appended to
	flags   map[types.Object]string
	sp      *Spec
}

func exprStr(e ast.Expr) string { return types.ExprString(e) }

func (rc *rangeCtx) obj(id *ast.Ident) types.Object {
	if o := rc.info.Defs[id]; o != nil {
		return o
	}
	return rc.info.Uses[id]
}

// rootIdent: the identifier at the root of an lvalue / selector / index chain.
func rootIdent(e ast.Expr) *ast.Ident {
	for {
		switch x := e.(type) {
		case *ast.Ident:
			return x
		case *ast.SelectorExpr:
			e = x.X
		case *ast.IndexExpr:
			e = x.X
		case *ast.StarExpr:
			e = x.X
		case *ast.ParenExpr:
			e = x.X
		case *ast.CallExpr:
			return nil
		default:
			return nil
		}
	}
}

func (rc *rangeCtx) isLocal(e ast.Expr) bool {
	id := rootIdent(e)
	if id == nil {
		return false
	}
	o := rc.obj(id)
	return o != nil && rc.locals[o]
}

// loopAtoms: the loop-dependent variables an expression depends on, resolving single-assignment locals.
func (rc *rangeCtx) loopAtoms(e ast.Expr, out map[types.Object]bool, depth int) {
	if e == nil || depth > 8 {
		return
	}
	ast.Inspect(e, func(n ast.Node) bool {
		id, ok := n.(*ast.Ident)
		if !ok {
			return true
		}
		o := rc.obj(id)
		if o == nil || !rc.locals[o] {
			return true
		}
		if d, ok := rc.defs[o]; ok && d != nil {
			rc.loopAtoms(d, out, depth+1)
		} else {
			out[o] = true
		}
		return true
	})
}

// keyParts flattens a string concatenation into its operands.
func flattenConcat(e ast.Expr, out *[]ast.Expr) {
	if p, ok := e.(*ast.ParenExpr); ok {
		flattenConcat(p.X, out)
		return
	}
	if b, ok := e.(*ast.BinaryExpr); ok && b.Op == token.ADD {
		flattenConcat(b.X, out)
		flattenConcat(b.Y, out)
		return
	}
	*out = append(*out, e)
}

// injectiveKey: is the map key an injective function of its loop-dependent operands?
// single operand, or a concatenation in which any two variable operands are separated by a non-empty constant.
func (rc *rangeCtx) injectiveKey(key ast.Expr) (bool, string) {
	key = rc.resolve(key, 0)
	var parts []ast.Expr
	flattenConcat(key, &parts)
	// an operand computed by a call (merge(key), strings.ToLower(x) …) can map different inputs to one key
	for _, p := range parts {
		if tv, ok := rc.info.Types[p]; ok && tv.Value != nil {
			continue
		}
		hasCall := false
		ast.Inspect(p, func(n ast.Node) bool {
			if c, ok := n.(*ast.CallExpr); ok {
				if tv, ok := rc.info.Types[c.Fun]; !ok || !tv.IsType() {
					hasCall = true
				}
			}
			return true
		})
		if hasCall {
			return false, "the key " + exprStr(key) + " is computed by a call, so different elements can map to the same key"
		}
	}
	if len(parts) == 1 {
		return true, "single operand"
	}
	lastVar := false
	for _, p := range parts {
		tv, ok := rc.info.Types[p]
		isConst := ok && tv.Value != nil
		if isConst {
			if tv.Value.Kind() == constant.String && constant.StringVal(tv.Value) != "" {
				lastVar = false
			}
			continue
		}
		if lastVar {
			return false, "variable operands " + exprStr(key) + " are concatenated without a separator"
		}
		lastVar = true
	}
	return true, "operands separated by constants"
}

// resolve replaces a single-assignment local identifier by its definition (one level at a time).
func (rc *rangeCtx) resolve(e ast.Expr, depth int) ast.Expr {
	if depth > 6 {
		return e
	}
	if id, ok := e.(*ast.Ident); ok {
		if o := rc.obj(id); o != nil && rc.locals[o] {
			if d, ok := rc.defs[o]; ok && d != nil {
				return rc.resolve(d, depth+1)
			}
		}
	}
	return e
}

func isAppendTo(call *ast.CallExpr, lhs ast.Expr) bool {
	id, ok := call.Fun.(*ast.Ident)
	if !ok || id.Name != "append" || len(call.Args) == 0 {
		return false
	}
	return exprStr(call.Args[0]) == exprStr(lhs)
}

func isNumeric(t types.Type) bool {
	b, ok := t.Underlying().(*types.Basic)
	return ok && b.Info()&types.IsNumeric != 0
}

// calleeOf returns the *types.Func a call statically resolves to.
func (rc *rangeCtx) calleeOf(call *ast.CallExpr) *types.Func {
	var id *ast.Ident
	switch f := call.Fun.(type) {
	case *ast.Ident:
		id = f
	case *ast.SelectorExpr:
		id = f.Sel
	default:
		return nil
	}
	fn, _ := rc.info.Uses[id].(*types.Func)
	return fn
}

func funcFullName(fn *types.Func) string {
	if fn == nil {
		return ""
	}
	sig := fn.Type().(*types.Signature)
	if recv := sig.Recv(); recv != nil {
		pk, n := namedTypeName(recv.Type())
		if n == "" {
			// interface method
			return "(iface)." + fn.Name()
		}
		return pk + ".(" + n + ")." + fn.Name()
	}
	if fn.Pkg() != nil {
		return fn.Pkg().Path() + "." + fn.Name()
	}
	return fn.Name()
}

// pure external packages: calls into them have no effect on program state the reports depend on.
var purePkgs = map[string]bool{"strings": true, "strconv": true, "path/filepath": true, "unicode": true, "unicode/utf8": true,
	"regexp": true, "time": true, "math": true, "bytes": true, "path": true, "sort": false, "reflect": true, "errors": true}

var emissionFuncs = map[string]string{
	"fmt.Fprintf": "emission", "fmt.Fprintln": "emission", "fmt.Fprint": "emission", "fmt.Println": "emission", "fmt.Printf": "emission", "fmt.Print": "emission",
	"github.com/awalterschulze/gographviz.(Graph).AddNode":     "emission (DOT node)",
	"github.com/awalterschulze/gographviz.(Graph).AddEdge":     "emission (DOT edge)",
	"github.com/awalterschulze/gographviz.(Graph).AddSubGraph": "emission (DOT subgraph)",
	"github.com/olekukonko/tablewriter.(Table).Append":         "emission (table row)",
}

// callEffect classifies a call made inside the loop body. class ∈ pure, emission, commutative, sort-element, unknown.
func (rc *rangeCtx) callEffect(call *ast.CallExpr) (class, why string) {
	if id, ok := call.Fun.(*ast.Ident); ok {
		if _, isB := rc.info.Uses[id].(*types.Builtin); isB {
			switch id.Name {
			case "delete":
				return "commutative", "delete"
			case "len", "cap", "make", "new", "append", "string", "copy", "min", "max":
				return "pure", "builtin"
			case "panic":
				return "pure", "panic"
			}
			return "pure", "builtin " + id.Name
		}
	}
	// conversions
	if tv, ok := rc.info.Types[call.Fun]; ok && tv.IsType() {
		return "pure", "conversion"
	}
	fn := rc.calleeOf(call)
	if fn == nil {
		// call of a function value (parameter / field): the property's own filters such as include(key), merge(key)
		return "pure-assumed", "function value " + exprStr(call.Fun) + " (caller-supplied predicate/mapping, assumed deterministic and side-effect free)"
	}
	full := funcFullName(fn)
	if c, ok := emissionFuncs[full]; ok {
		return "emission", c
	}
	if fn.Pkg() != nil && purePkgs[fn.Pkg().Path()] {
		return "pure", full
	}
	if full == "sort.Slice" || full == "sort.Strings" || full == "sort.Sort" || full == "sort.Ints" || full == "github.com/yourbasic/radix.SortSlice" {
		if len(call.Args) > 0 && rc.isLocal(call.Args[0]) {
			return "pure", "sorts a per-iteration value"
		}
		return "unknown", "sorts an outer slice inside the loop"
	}
	if fn.Pkg() != nil && strings.HasPrefix(fn.Pkg().Path(), modPath) {
		sf := rc.p.SSA.FuncValue(fn)
		if sf != nil {
			if ok, why := rc.p.pureFunc(sf, map[*ssa.Function]bool{}); ok {
				return "pure", "own function without heap/global writes"
			} else if c, ok := rc.sp.Tables.CommutativeCallees[rc.p.FuncKey(sf)]; ok {
				return "commutative", "table: " + c
			} else {
				return "unknown", full + ": " + why
			}
		}
	}
	if c, ok := rc.sp.Tables.CommutativeCallees[full]; ok {
		return "commutative", "table: " + c
	}
	return "unknown", "call to " + full
}

// pureFunc: no store outside locally allocated objects, no map update on non-local maps, no calls except pure ones.
func (p *Program) pureFunc(fn *ssa.Function, seen map[*ssa.Function]bool) (bool, string) {
	if seen[fn] {
		return true, ""
	}
	seen[fn] = true
	if len(fn.Blocks) == 0 {
		return false, "no body for " + fn.Name()
	}
	var localRoot func(v ssa.Value) bool
	localRoot = func(v ssa.Value) bool {
		for {
			switch x := v.(type) {
			case *ssa.Alloc:
				return true
			case *ssa.MakeMap, *ssa.MakeSlice:
				return true
			case *ssa.UnOp:
				// value loaded from a local variable cell: local if everything stored into the cell is local
				al, ok := x.X.(*ssa.Alloc)
				if !ok || x.Op != token.MUL {
					return false
				}
				for _, ref := range *al.Referrers() {
					if st, ok := ref.(*ssa.Store); ok && st.Addr == ssa.Value(al) {
						if !localRoot(st.Val) {
							return false
						}
					}
				}
				return true
			case *ssa.FieldAddr:
				v = x.X
			case *ssa.IndexAddr:
				v = x.X
			case *ssa.Slice:
				v = x.X
			case *ssa.Phi:
				return false
			default:
				return false
			}
		}
	}
	for _, b := range fn.Blocks {
		for _, in := range b.Instrs {
			switch x := in.(type) {
			case *ssa.Store:
				if !localRoot(x.Addr) {
					return false, fmt.Sprintf("%s stores through %s", fn.Name(), x.Addr.Name())
				}
			case *ssa.MapUpdate:
				if !localRoot(x.Map) {
					return false, fn.Name() + " updates a non-local map"
				}
			case *ssa.Send, *ssa.Go, *ssa.Defer:
				return false, fn.Name() + " has send/go/defer"
			case ssa.CallInstruction:
				cc := x.Common()
				if _, ok := cc.Value.(*ssa.Builtin); ok {
					continue
				}
				callee := cc.StaticCallee()
				if callee == nil {
					return false, fn.Name() + " makes a dynamic call"
				}
				if p.IsOwnFunc(callee) {
					if ok, why := p.pureFunc(callee, seen); !ok {
						return false, why
					}
					continue
				}
				if callee.Pkg != nil && purePkgs[callee.Pkg.Pkg.Path()] {
					continue
				}
				if callee.Pkg != nil && callee.Pkg.Pkg.Path() == "fmt" && strings.HasPrefix(callee.Name(), "Sprint") {
					continue
				}
				return false, fn.Name() + " calls " + fullFuncName(callee)
			}
		}
	}
	return true, ""
}

// analyseBody walks the statements of the loop body.
func (rc *rangeCtx) analyseBody(stmts []ast.Stmt) {
	for _, s := range stmts {
		rc.stmt(s)
	}
}

func (rc *rangeCtx) declare(e ast.Expr, def ast.Expr) {
	if id, ok := e.(*ast.Ident); ok {
		if o := rc.info.Defs[id]; o != nil {
			rc.locals[o] = true
			if _, seen := rc.defs[o]; seen {
				rc.defs[o] = nil
			} else {
				rc.defs[o] = def
			}
		}
	}
}

func (rc *rangeCtx) stmt(s ast.Stmt) {
	switch x := s.(type) {
	case *ast.BlockStmt:
		rc.analyseBody(x.List)
	case *ast.DeclStmt:
		if gd, ok := x.Decl.(*ast.GenDecl); ok {
			for _, spec := range gd.Specs {
				if vs, ok := spec.(*ast.ValueSpec); ok {
					for i, n := range vs.Names {
						var d ast.Expr
						if i < len(vs.Values) {
							d = vs.Values[i]
							rc.expr(d)
						}
						rc.declare(n, d)
						if d == nil {
							if o := rc.info.Defs[n]; o != nil {
								rc.defs[o] = nil
							}
						}
					}
				}
			}
		}
	case *ast.AssignStmt:
		for _, r := range x.Rhs {
			rc.expr(r)
		}
		for i, l := range x.Lhs {
			var r ast.Expr
			if len(x.Rhs) == len(x.Lhs) {
				r = x.Rhs[i]
			}
			if x.Tok == token.DEFINE {
				if id, ok := l.(*ast.Ident); ok && rc.info.Defs[id] != nil {
					rc.declare(l, r)
					continue
				}
			}
			rc.assign(l, r, x.Tok, s)
		}
	case *ast.IncDecStmt:
		if !rc.isLocal(x.X) {
			rc.notes = append(rc.notes, "counter "+exprStr(x.X))
		}
	case *ast.ExprStmt:
		rc.expr(x.X)
	case *ast.IfStmt:
		if x.Init != nil {
			rc.stmt(x.Init)
		}
		rc.cond(x.Cond)
		rc.stmt(x.Body)
		if x.Else != nil {
			rc.stmt(x.Else)
		}
	case *ast.ForStmt:
		if x.Init != nil {
			rc.stmt(x.Init)
		}
		if x.Cond != nil {
			rc.cond(x.Cond)
		}
		if x.Post != nil {
			rc.stmt(x.Post)
		}
		rc.stmt(x.Body)
	case *ast.RangeStmt:
		rc.expr(x.X)
		if x.Tok == token.DEFINE {
			if x.Key != nil {
				rc.declare(x.Key, nil)
				if id, ok := x.Key.(*ast.Ident); ok {
					if o := rc.info.Defs[id]; o != nil {
						rc.defs[o] = nil
					}
				}
			}
			if x.Value != nil {
				rc.declare(x.Value, nil)
				if id, ok := x.Value.(*ast.Ident); ok {
					if o := rc.info.Defs[id]; o != nil {
						rc.defs[o] = nil
					}
				}
			}
		}
		if _, isMap := rc.info.TypeOf(x.X).Underlying().(*types.Map); isMap && x != rc.rs {
			rc.notes = append(rc.notes, "nested map range over "+exprStr(x.X)+" (classified separately)")
		}
		rc.stmt(x.Body)
	case *ast.SwitchStmt:
		if x.Init != nil {
			rc.stmt(x.Init)
		}
		if x.Tag != nil {
			rc.cond(x.Tag)
		}
		rc.stmt(x.Body)
	case *ast.TypeSwitchStmt:
		rc.stmt(x.Body)
	case *ast.CaseClause:
		for _, e := range x.List {
			rc.cond(e)
		}
		rc.analyseBody(x.Body)
	case *ast.BranchStmt:
		if x.Tok == token.BREAK {
			// a break of the map range itself = first match
			rc.notes = append(rc.notes, "break")
			rc.bad = append(rc.bad, "break out of the map range: the iterations that run depend on the order ("+rc.p.Pos(x.Pos())+")")
		}
	case *ast.ReturnStmt:
		dep := map[types.Object]bool{}
		for _, r := range x.Results {
			rc.loopAtoms(r, dep, 0)
		}
		if len(dep) > 0 {
			rc.bad = append(rc.bad, "return of a loop-dependent value from inside the map range (first match wins) ("+rc.p.Pos(x.Pos())+")")
		} else {
			rc.notes = append(rc.notes, "existential return")
		}
	case *ast.EmptyStmt, *ast.LabeledStmt:
	case *ast.GoStmt, *ast.DeferStmt, *ast.SendStmt, *ast.SelectStmt:
		rc.bad = append(rc.bad, "go/defer/send/select inside a map range ("+rc.p.Pos(s.Pos())+")")
	default:
		rc.bad = append(rc.bad, fmt.Sprintf("unsupported statement %T (%s)", s, rc.p.Pos(s.Pos())))
	}
}

// cond: a condition that reads an outer variable which the loop also assigns makes the iteration order observable.
func (rc *rangeCtx) cond(e ast.Expr) {
	rc.expr(e)
}

func (rc *rangeCtx) expr(e ast.Expr) {
	if e == nil {
		return
	}
	ast.Inspect(e, func(n ast.Node) bool {
		switch c := n.(type) {
		case *ast.FuncLit:
			return false
		case *ast.CallExpr:
			class, why := rc.callEffect(c)
			switch class {
			case "pure":
			case "pure-assumed":
				rc.notes = append(rc.notes, why)
			case "emission":
				rc.notes = append(rc.notes, why)
				rc.collect["<output>"] = nil
			case "commutative":
				rc.notes = append(rc.notes, "commutative call: "+why)
			default:
				rc.bad = append(rc.bad, "call with unclassified effects: "+why+" ("+rc.p.Pos(c.Pos())+")")
			}
		}
		return true
	})
}

func (rc *rangeCtx) assign(l, r ast.Expr, tok token.Token, s ast.Stmt) {
	if id, ok := l.(*ast.Ident); ok && id.Name == "_" {
		return
	}
	if rc.isLocal(l) {
		// assignment to a local declared inside the loop; if it is a plain ident reassigned, forget its definition
		if id, ok := l.(*ast.Ident); ok {
			if o := rc.obj(id); o != nil {
				rc.defs[o] = nil
			}
		}
		return
	}
	lt := rc.info.TypeOf(l)
	switch tok {
	case token.ADD_ASSIGN, token.SUB_ASSIGN, token.MUL_ASSIGN, token.OR_ASSIGN, token.AND_ASSIGN, token.XOR_ASSIGN:
		if lt != nil && isNumeric(lt) {
			rc.notes = append(rc.notes, "accumulator "+exprStr(l))
			return
		}
		rc.bad = append(rc.bad, "non-numeric compound assignment "+exprStr(l)+" "+tok.String()+" … : concatenation order follows iteration order ("+rc.p.Pos(s.Pos())+")")
		return
	}
	// x = append(x, …)
	if call, ok := r.(*ast.CallExpr); ok && isAppendTo(call, l) {
		if ix, ok := l.(*ast.IndexExpr); ok {
			if _, isMap := rc.info.TypeOf(ix.X).Underlying().(*types.Map); isMap {
				// m[k] = append(m[k], v): the per-key lists are independent of the iteration order only when no two
				// iterations hit the same key, i.e. the key is an injective function of the (unique) range key
				keyAtoms := map[types.Object]bool{}
				rc.loopAtoms(ix.Index, keyAtoms, 0)
				inj, _ := rc.injectiveKey(ix.Index)
				hasRangeKey := false
				if kid, ok := rc.rs.Key.(*ast.Ident); ok {
					if ko := rc.obj(kid); ko != nil && keyAtoms[ko] {
						hasRangeKey = true
					}
				}
				if inj && hasRangeKey {
					rc.notes = append(rc.notes, "per-key collection "+exprStr(ix.X)+" (one key per iteration)")
					return
				}
				rc.collect[exprStr(l)] = l
				return
			}
		}
		rc.collect[exprStr(l)] = l
		return
	}
	// x = x + e  (numeric accumulation written long-hand)
	if b, ok := r.(*ast.BinaryExpr); ok && lt != nil && isNumeric(lt) && (b.Op == token.ADD || b.Op == token.SUB) && exprStr(b.X) == exprStr(l) {
		rc.notes = append(rc.notes, "accumulator "+exprStr(l))
		return
	}
	// map / slice element store
	if ix, ok := l.(*ast.IndexExpr); ok {
		if _, isMap := rc.info.TypeOf(ix.X).Underlying().(*types.Map); isMap {
			keyAtoms := map[types.Object]bool{}
			rc.loopAtoms(ix.Index, keyAtoms, 0)
			valAtoms := map[types.Object]bool{}
			rc.loopAtoms(r, valAtoms, 0)
			inj, why := rc.injectiveKey(ix.Index)
			// does the key contain the range key itself?
			hasRangeKey := false
			if kid, ok := rc.rs.Key.(*ast.Ident); ok {
				if ko := rc.obj(kid); ko != nil && keyAtoms[ko] {
					hasRangeKey = true
				}
			}
			sub := true
			for o := range valAtoms {
				if !keyAtoms[o] {
					sub = false
				}
			}
			sameAsKey := exprStr(rc.resolve(r, 0)) == exprStr(rc.resolve(ix.Index, 0))
			switch {
			case sameAsKey:
				rc.notes = append(rc.notes, "store of the key itself into "+exprStr(ix.X)+" (idempotent)")
			case len(valAtoms) == 0:
				rc.notes = append(rc.notes, "store of a loop-independent value into "+exprStr(ix.X)+" (idempotent whatever the key)")
			case !inj:
				rc.bad = append(rc.bad, "map store "+exprStr(l)+": "+why+", so two iterations can hit one key and the last writer wins ("+rc.p.Pos(s.Pos())+")")
			case hasRangeKey && len(keyAtoms) == 1:
				rc.notes = append(rc.notes, "store under the (unique) range key into "+exprStr(ix.X))
			case sub:
				rc.notes = append(rc.notes, "idempotent store into "+exprStr(ix.X)+" (value determined by the injective key)")
			default:
				rc.bad = append(rc.bad, "map store "+exprStr(l)+" = "+exprStr(r)+": the value depends on loop variables that the key does not determine; on a key collision the last writer wins ("+rc.p.Pos(s.Pos())+")")
			}
			return
		}
		// slice element store indexed by a counter: pl[i] = …; i++  (fill then sort) — treat as collection
		rc.collect[exprStr(ix.X)] = ix.X
		return
	}
	// field of an element reached through the loop variables: per-element effect
	if id := rootIdent(l); id != nil {
		if o := rc.obj(id); o != nil && rc.locals[o] {
			return
		}
	}
	// constant flag
	dep := map[types.Object]bool{}
	rc.loopAtoms(r, dep, 0)
	if tv, ok := rc.info.Types[r]; ok && tv.Value != nil {
		if id, ok := l.(*ast.Ident); ok {
			if o := rc.obj(id); o != nil {
				v := tv.Value.ExactString()
				if prev, seen := rc.flags[o]; seen && prev != v {
					rc.bad = append(rc.bad, "variable "+id.Name+" is assigned different constants inside the map range ("+rc.p.Pos(s.Pos())+")")
				}
				rc.flags[o] = v
				rc.notes = append(rc.notes, "monotone flag "+id.Name)
				return
			}
		}
	}
	if len(dep) == 0 {
		rc.notes = append(rc.notes, "loop-independent assignment "+exprStr(l))
		return
	}
	rc.bad = append(rc.bad, "assignment "+exprStr(l)+" = "+exprStr(r)+" keeps the value of the last iteration (last writer wins) ("+rc.p.Pos(s.Pos())+")")
}

// sortAfter: is the collected slice sorted after the loop in the same function?
func (rc *rangeCtx) sortAfter(name string) string {
	found := ""
	ast.Inspect(rc.fnDecl, func(n ast.Node) bool {
		call, ok := n.(*ast.CallExpr)
		if !ok || call.Pos() < rc.rs.End() || len(call.Args) == 0 {
			return true
		}
		fn := rc.calleeOf(call)
		full := funcFullName(fn)
		switch full {
		case "sort.Slice", "sort.SliceStable", "sort.Strings", "sort.Ints", "sort.Sort", "github.com/yourbasic/radix.SortSlice":
			if exprStr(call.Args[0]) == name {
				found = full
			}
		default:
			// own helper that sorts its argument (SortInterface, SortAPIs…)
			if fn != nil && fn.Pkg() != nil && strings.HasPrefix(fn.Pkg().Path(), modPath) && exprStr(call.Args[0]) == name {
				if sf := rc.p.SSA.FuncValue(fn); sf != nil && sortsParam0(sf) {
					found = full
				}
			}
		}
		return true
	})
	return found
}

// tieFields: name is sorted with sort.Slice after the range, its element type has identifying fields (the table is from the
// property statements), and the comparator looks at none of them: the fields it does compare, else "".
func (rc *rangeCtx) tieFields(name string, sp *Spec) string {
	out := ""
	ast.Inspect(rc.fnDecl, func(n ast.Node) bool {
		call, ok := n.(*ast.CallExpr)
		if !ok || call.Pos() < rc.rs.End() || len(call.Args) != 2 || out != "" {
			return true
		}
		full := funcFullName(rc.calleeOf(call))
		if (full != "sort.Slice" && full != "sort.SliceStable") || exprStr(call.Args[0]) != name {
			return true
		}
		lit, ok := call.Args[1].(*ast.FuncLit)
		if !ok {
			return true
		}
		tv, ok := rc.info.Types[call.Args[0]]
		if !ok {
			return true
		}
		sl, ok := tv.Type.Underlying().(*types.Slice)
		if !ok {
			return true
		}
		pk, tn := namedTypeName(sl.Elem())
		ident := sp.Tables.IdentityFields[rel(pk)+"."+tn]
		if len(ident) == 0 {
			return true
		}
		compared := map[string]bool{}
		// (an identity of "<key>" says that only the map key tells two elements apart: no comparator over the values is total)
		ast.Inspect(lit.Body, func(m ast.Node) bool {
			se, ok := m.(*ast.SelectorExpr)
			if !ok {
				return true
			}
			// first-level field of an element: name[i].F…
			x := se
			for {
				inner, ok := x.X.(*ast.SelectorExpr)
				if !ok {
					break
				}
				x = inner
			}
			if ix, ok := x.X.(*ast.IndexExpr); ok && exprStr(ix.X) == name {
				compared[x.Sel.Name] = true
			}
			return true
		})
		for _, f := range ident {
			if compared[f] {
				return true
			}
		}
		var cs []string
		for f := range compared {
			cs = append(cs, f)
		}
		sort.Strings(cs)
		out = strings.Join(cs, ", ")
		if out == "" {
			out = "a key that does not identify the element"
		}
		return true
	})
	return out
}

// storedIntoSink: after the range, name is assigned to a field that the table lists as order-sensitive further on.
func (rc *rangeCtx) storedIntoSink(name string, sp *Spec) string {
	out := ""
	ast.Inspect(rc.fnDecl, func(n ast.Node) bool {
		as, ok := n.(*ast.AssignStmt)
		if !ok || as.Pos() < rc.rs.End() || out != "" || len(as.Lhs) != len(as.Rhs) {
			return true
		}
		for i, r := range as.Rhs {
			if exprStr(r) != name {
				continue
			}
			se, ok := as.Lhs[i].(*ast.SelectorExpr)
			if !ok {
				continue
			}
			tv, ok := rc.info.Types[se.X]
			if !ok {
				continue
			}
			t := tv.Type
			if pt, ok := t.Underlying().(*types.Pointer); ok {
				t = pt.Elem()
			}
			pk, tn := namedTypeName(t)
			if why, ok := sp.Tables.OrderSinks[rel(pk)+"."+tn+"."+se.Sel.Name]; ok {
				out = "it is kept in " + tn + "." + se.Sel.Name + " (" + rc.p.Pos(as.Pos()) + "): " + why
			}
		}
		return true
	})
	return out
}

func sortsParam0(fn *ssa.Function) bool {
	if len(fn.Params) == 0 {
		return false
	}
	for _, b := range fn.Blocks {
		for _, in := range b.Instrs {
			if c, ok := in.(*ssa.Call); ok {
				if callee := c.Call.StaticCallee(); callee != nil {
					n := fullFuncName(callee)
					if (strings.HasPrefix(n, "sort.") || strings.HasSuffix(n, "radix.SortSlice")) && len(c.Call.Args) > 0 {
						a := c.Call.Args[0]
						if mi, ok := a.(*ssa.MakeInterface); ok {
							a = mi.X
						}
						if a == ssa.Value(fn.Params[0]) {
							return true
						}
					}
				}
			}
		}
	}
	return false
}

func runE4(p *Program, sp *Spec, c *Collector) {
	nRanges := 0
	for _, pk := range p.Pkgs {
		if isGeneratedPkg(pk.PkgPath) {
			continue
		}
		for _, file := range pk.Syntax {
			// enclosing function stack
			var stack []ast.Node
			counter := map[string]int{}
			ast.Inspect(file, func(n ast.Node) bool {
				if n == nil {
					stack = stack[:len(stack)-1]
					return true
				}
				stack = append(stack, n)
				rs, ok := n.(*ast.RangeStmt)
				if !ok {
					return true
				}
				t := pk.TypesInfo.TypeOf(rs.X)
				if t == nil {
					return true
				}
				if _, isMap := t.Underlying().(*types.Map); !isMap {
					return true
				}
				// find enclosing function
				var fnNode ast.Node
				fnName := ""
				for i := len(stack) - 1; i >= 0; i-- {
					switch f := stack[i].(type) {
					case *ast.FuncDecl:
						if fnNode == nil {
							fnNode = f
						}
						if fnName == "" {
							if obj, ok := pk.TypesInfo.Defs[f.Name].(*types.Func); ok {
								if sf := p.SSA.FuncValue(obj); sf != nil {
									fnName = p.FuncKey(sf)
								}
							}
						}
					case *ast.FuncLit:
						if fnNode == nil {
							fnNode = f
						}
					}
				}
				if fnName == "" {
					fnName = rel(pk.PkgPath) + ".<init>"
				}
				nRanges++
				counter[fnName+"|"+exprStr(rs.X)]++
				key := fmt.Sprintf("maprange:%s over %s", fnName, exprStr(rs.X))
				if k := counter[fnName+"|"+exprStr(rs.X)]; k > 1 {
					key += fmt.Sprintf("#%d", k)
				}
				rc := &rangeCtx{p: p, pk: pk, info: pk.TypesInfo, fnDecl: fnNode, fnKey: fnName, rs: rs, locals: map[types.Object]bool{},
					defs: map[types.Object]ast.Expr{}, collect: map[string]ast.Expr{}, flags: map[types.Object]string{}, sp: sp}
				if rs.Key != nil {
					rc.declare(rs.Key, nil)
					if id, ok := rs.Key.(*ast.Ident); ok {
						if o := pk.TypesInfo.Defs[id]; o != nil {
							rc.defs[o] = nil
						}
					}
				}
				if rs.Value != nil {
					rc.declare(rs.Value, nil)
					if id, ok := rs.Value.(*ast.Ident); ok {
						if o := pk.TypesInfo.Defs[id]; o != nil {
							rc.defs[o] = nil
						}
					}
				}
				rc.analyseBody(rs.Body.List)
				props := []string{"C08"}
				for _, extra := range sp.Tables.RangeProps[fnName] {
					props = append(props, extra)
				}
				pos := p.Pos(rs.Pos())
				if ex, ok := sp.Tables.RangeExempt[fnName]; ok {
					c.Ob(props, "E4.map-range", key, Discharged, "exempt by the property statement: "+ex, pos, false)
					return true
				}
				if len(rc.bad) > 0 {
					c.Ob(props, "E4.map-range", key, Violated, "order-dependent: "+strings.Join(rc.bad, "; "), pos, false)
					return true
				}
				var colls []string
				for name := range rc.collect {
					if name == "<output>" {
						colls = append(colls, "emission per element")
						continue
					}
					if s := rc.sortAfter(name); s != "" {
						// a sort that leaves ties keeps the map's order inside each tie group: harmless for a report read as a
						// collection, not for a consumer that cuts the list or keeps a single element
						if tie := rc.tieFields(name, sp); tie != "" {
							if why := rc.orderedConsumer(name); why != "" {
								rc.bad = append(rc.bad, name+" is sorted by "+tie+" only, so elements that tie stay in map order, and "+why)
							} else if why := rc.storedIntoSink(name, sp); why != "" {
								rc.bad = append(rc.bad, name+" is sorted by "+tie+" only, so elements that tie stay in map order, and "+why)
							}
						}
						colls = append(colls, name+" collected then sorted by "+s)
					} else {
						if why := rc.orderedConsumer(name); why != "" {
							rc.bad = append(rc.bad, name+" is collected in map order, never sorted, and "+why)
						}
						colls = append(colls, name+" is an unordered collection (no order-sensitive consumer found)")
					}
				}
				if len(rc.bad) == 0 {
					for name := range rc.collect {
						if name == "<output>" || rc.sortAfter(name) != "" {
							continue
						}
						if why := orderedProducerWhy(p, sp, rel(pk.PkgPath)); why != "" {
							rc.bad = append(rc.bad, name+" is collected in map order, never sorted, and "+why)
						}
					}
				}
				if len(rc.bad) > 0 {
					c.Ob(props, "E4.map-range", key, Violated, "order-dependent: "+strings.Join(rc.bad, "; "), pos, false)
					return true
				}
				sort.Strings(colls)
				notes := dedupStrings(rc.notes)
				reason := "commutative"
				if len(colls) > 0 {
					reason = "collection: " + strings.Join(colls, "; ")
				}
				if len(notes) > 0 {
					reason += " [" + strings.Join(notes, "; ") + "]"
				}
				c.Ob(props, "E4.map-range", key, Discharged, reason, pos, true)
				return true
			})
		}
	}
	c.Count("E4.map_ranges", nRanges)
	if nRanges < sp.Tables.Floors["E4.map_ranges"] {
		c.Anchor([]string{"C08"}, "E4: only %d map ranges found, floor is %d", nRanges, sp.Tables.Floors["E4.map_ranges"])
	}
	for _, op := range sp.Tables.OrderedProducers {
		key := "orderedproducer:" + op.Pkg + " -> " + op.Consumer
		if p.Func(op.Consumer) == nil {
			c.Anchor(op.Props, "E4: ordered producer: consumer %s does not resolve", op.Consumer)
			continue
		}
		if why := orderedProducerWhy(p, sp, op.Pkg); why != "" {
			c.Ob(op.Props, "E4.ordered-producer", key, Discharged, "every map range of "+op.Pkg+" is held to a sorted result: "+why, p.FuncPos(p.Func(op.Consumer)), true)
		} else {
			c.Ob(op.Props, "E4.ordered-producer", key, Discharged, shortFn(op.Consumer)+" no longer selects among the results of "+op.Pkg+" by position: the entry binds nothing", p.FuncPos(p.Func(op.Consumer)), true)
		}
	}
	runE4Orders(p, sp, c)
	runE4Search(p, sp, c)
	runE4Sched(p, sp, c)
}

func dedupStrings(in []string) []string {
	seen := map[string]bool{}
	var out []string
	for _, s := range in {
		if !seen[s] {
			seen[s] = true
			out = append(out, s)
		}
	}
	sort.Strings(out)
	return out
}

// ---------------------------------------------------------------------------------------------
// promised orders: the function must end with a sort of the result by the promised key and direction.

type OrderSpec struct {
	Props []string `json:"props"`
	Func  string   `json:"func"` // function key in which the sort must occur
	Key   string   `json:"key"`  // field path compared, e.g. "RevsCount" or "FanIn+FanOut" or "Age" or "<elem>"
	Dir   string   `json:"dir"`  // "asc" | "desc"
	Via   string   `json:"via"`  // "sort.Slice" | "radix" | "Before"
	What  string   `json:"what"`
	// PerGroup: the function sorts every group inside a loop (SortSmellByType, SortLangeByCode); Guard names the only
	// condition allowed to skip a group ("param:<name>" = a predicate passed in by the caller).
	PerGroup bool   `json:"per_group"`
	Guard    string `json:"guard"`
}

// comparatorOf normalises the less-closure of sort.Slice: returns (keyExpr, dir).
// Recognised shapes: return a[i].F < a[j].F, >, and a[i].F.Before(a[j].F) / After; sums of fields.
func comparatorOf(fn *ssa.Function) (string, string, bool) {
	// single return of a comparison
	var ret *ssa.Return
	nret := 0
	for _, b := range fn.Blocks {
		for _, in := range b.Instrs {
			if r, ok := in.(*ssa.Return); ok {
				nret++
				ret = r
			}
		}
	}
	if nret > 1 && len(fn.Params) == 2 && len(fn.Blocks) > 0 {
		// a primary key with a tie-break: `if a.K != b.K { return a.K < b.K }; return <tie-break>` (or the == form with the
		// branches the other way round): the order promised is the primary key's
		entry := fn.Blocks[0]
		if ifs, ok := entry.Instrs[len(entry.Instrs)-1].(*ssa.If); ok && len(entry.Succs) == 2 {
			differ := -1
			key := ""
			cond := ifs.Cond
			neg := false
			if u, ok := cond.(*ssa.UnOp); ok && u.Op == token.NOT {
				cond, neg = u.X, true
			}
			switch x := cond.(type) {
			case *ssa.BinOp:
				l, li := sideTerm(x.X, fn)
				r, ri := sideTerm(x.Y, fn)
				if l != "" && l == r && li != ri && li >= 0 && ri >= 0 {
					key = l
					if (x.Op == token.NEQ) != neg {
						differ = 0
					} else if (x.Op == token.EQL) != neg {
						differ = 1
					}
				}
			case *ssa.Call:
				if callee := x.Call.StaticCallee(); callee != nil && fullFuncName(callee) == "time.(Time).Equal" && len(x.Call.Args) == 2 {
					l, li := sideTerm(x.Call.Args[0], fn)
					r, ri := sideTerm(x.Call.Args[1], fn)
					if l != "" && l == r && li != ri {
						key = l
						if neg {
							differ = 0
						} else {
							differ = 1
						}
					}
				}
			}
			if differ >= 0 {
				b := entry.Succs[differ]
				if r, ok := b.Instrs[len(b.Instrs)-1].(*ssa.Return); ok && len(r.Results) == 1 {
					if k, dir, ok := comparisonOf(r.Results[0], fn); ok && k == key {
						return k, dir, true
					}
				}
			}
		}
		return "", "", false
	}
	if ret == nil || len(ret.Results) != 1 || len(fn.Params) != 2 {
		return "", "", false
	}
	return comparisonOf(ret.Results[0], fn)
}

// comparisonOf: v is `a.K < b.K` (or >, <=, >=, Before, After) over the two elements: the key and the direction.
func comparisonOf(v ssa.Value, fn *ssa.Function) (string, string, bool) {
	side := func(v ssa.Value) (string, int) { return sideTerm(v, fn) }
	switch x := v.(type) {
	case *ssa.BinOp:
		l, li := side(x.X)
		r, ri := side(x.Y)
		if l == "" || l != r || li == ri || li < 0 || ri < 0 {
			return "", "", false
		}
		op := x.Op
		if li == 1 { // operands swapped: a[j] op a[i]
			switch op {
			case token.LSS:
				op = token.GTR
			case token.GTR:
				op = token.LSS
			case token.LEQ:
				op = token.GEQ
			case token.GEQ:
				op = token.LEQ
			}
		}
		switch op {
		case token.LSS:
			return l, "asc", true
		case token.GTR:
			return l, "desc", true
		case token.LEQ:
			return l, "asc(non-strict)", true
		case token.GEQ:
			return l, "desc(non-strict)", true
		}
	case *ssa.Call:
		if callee := x.Call.StaticCallee(); callee != nil && len(x.Call.Args) == 2 {
			n := fullFuncName(callee)
			l, li := side(x.Call.Args[0])
			r, ri := side(x.Call.Args[1])
			if l == "" || l != r || li == ri {
				return "", "", false
			}
			dir := ""
			switch n {
			case "time.(Time).Before":
				dir = "asc"
			case "time.(Time).After":
				dir = "desc"
			}
			if dir == "" {
				return "", "", false
			}
			if li == 1 {
				if dir == "asc" {
					dir = "desc"
				} else {
					dir = "asc"
				}
			}
			return l, dir, true
		}
	}
	return "", "", false
}

// sideTerm renders a value built from slice[param].Field… as "Field" (+ for sums) and tells which parameter (0=i,1=j) it uses.
func sideTerm(v ssa.Value, fn *ssa.Function) (string, int) {
	switch x := v.(type) {
	case *ssa.UnOp:
		if x.Op == token.MUL {
			return sideTerm(x.X, fn)
		}
	case *ssa.FieldAddr:
		base, idx := sideTerm(x.X, fn)
		st := x.X.Type().Underlying().(*types.Pointer).Elem().Underlying().(*types.Struct)
		name := st.Field(x.Field).Name()
		if base == "<elem>" {
			return name, idx
		}
		if base == "" {
			return "", -1
		}
		return base + "." + name, idx
	case *ssa.Field:
		base, idx := sideTerm(x.X, fn)
		st := x.X.Type().Underlying().(*types.Struct)
		name := st.Field(x.Field).Name()
		if base == "<elem>" {
			return name, idx
		}
		if base == "" {
			return "", -1
		}
		return base + "." + name, idx
	case *ssa.IndexAddr:
		for k, prm := range fn.Params {
			if x.Index == ssa.Value(prm) {
				return "<elem>", k
			}
		}
	case *ssa.Index:
		for k, prm := range fn.Params {
			if x.Index == ssa.Value(prm) {
				return "<elem>", k
			}
		}
	case *ssa.BinOp:
		if x.Op == token.ADD {
			l, li := sideTerm(x.X, fn)
			r, ri := sideTerm(x.Y, fn)
			if l != "" && r != "" && li == ri {
				parts := []string{l, r}
				sort.Strings(parts)
				return strings.Join(parts, "+"), li
			}
		}
	case *ssa.Call:
		// len(x[i].F)
		if b, ok := x.Call.Value.(*ssa.Builtin); ok && b.Name() == "len" {
			l, li := sideTerm(x.Call.Args[0], fn)
			if l != "" {
				return "len(" + l + ")", li
			}
		}
	}
	return "", -1
}

func runE4Orders(p *Program, sp *Spec, c *Collector) {
	for _, os := range sp.Tables.Orders {
		fn := p.Func(os.Func)
		key := "order:" + os.Func + " by " + os.Key + " " + os.Dir
		if fn == nil {
			c.Anchor(os.Props, "E4: promised order: function %s does not resolve", os.Func)
			continue
		}
		// find sort calls in fn (or in its anonymous functions)
		found := false
		var seenDesc []string
		var sortCall ssa.Instruction
		for _, b := range fn.Blocks {
			for _, in := range b.Instrs {
				call, ok := in.(*ssa.Call)
				if !ok {
					continue
				}
				callee := call.Call.StaticCallee()
				if callee == nil {
					continue
				}
				switch fullFuncName(callee) {
				case "sort.Slice", "sort.SliceStable":
					if len(call.Call.Args) == 2 {
						var less *ssa.Function
						switch l := call.Call.Args[1].(type) {
						case *ssa.MakeClosure:
							less, _ = l.Fn.(*ssa.Function)
						case *ssa.Function:
							less = l
						}
						if less != nil {
							// the closure captures the slice: resolve a[i] through free variables too
							k, d, ok := comparatorOfClosure(less)
							if ok && !comparesSortedSlice(call.Call.Args[0], call.Call.Args[1], less) {
								seenDesc = append(seenDesc, k+" "+d+" over the elements of ANOTHER slice than the one being sorted")
							} else if ok {
								seenDesc = append(seenDesc, k+" "+d)
								if k == os.Key && d == os.Dir {
									found = true
									sortCall = in
								}
							} else {
								seenDesc = append(seenDesc, "unrecognised comparator")
							}
						}
					}
				case "github.com/yourbasic/radix.SortSlice":
					if len(call.Call.Args) == 2 {
						var keyf *ssa.Function
						if mc, ok := call.Call.Args[1].(*ssa.MakeClosure); ok {
							keyf, _ = mc.Fn.(*ssa.Function)
						} else if f, ok := call.Call.Args[1].(*ssa.Function); ok {
							keyf = f
						}
						if keyf != nil {
							k, ok := radixKeyOf(keyf)
							if ok {
								seenDesc = append(seenDesc, k+" asc (radix)")
								if k == os.Key && os.Dir == "asc" {
									found = true
									sortCall = in
								}
							}
						}
					}
				}
			}
		}
		if !found {
			c.Ob(os.Props, "E4.promised-order", key, Violated, fmt.Sprintf("%s: no sort by (%s, %s) in %s; sorts seen: %v", os.What, os.Key, os.Dir, os.Func, seenDesc), p.FuncPos(fn), false)
			continue
		}
		if os.PerGroup {
			region := loopRegion(fn, sortCall.Block())
			if region == nil {
				c.Ob(os.Props, "E4.promised-order", key, Violated, os.What+": the per-group sort is not inside the loop over the groups", p.InstrPos(sortCall), false)
				continue
			}
			// conditions inside the loop that guard the sort
			var guards []string
			okGuards := true
			for b := range region {
				if len(b.Instrs) == 0 {
					continue
				}
				iff, isIf := b.Instrs[len(b.Instrs)-1].(*ssa.If)
				if !isIf || !b.Dominates(sortCall.Block()) || b == sortCall.Block() {
					continue
				}
				// the loop's own continuation test (range next / index compare) is not a guard
				if isLoopTest(iff, region) {
					continue
				}
				g := "condition"
				if call, ok := iff.Cond.(*ssa.Call); ok && !call.Call.IsInvoke() {
					if prm, ok := call.Call.Value.(*ssa.Parameter); ok {
						g = "param:" + prm.Name()
					}
				}
				guards = append(guards, g)
				if g != os.Guard {
					okGuards = false
				}
			}
			if !okGuards || (os.Guard != "" && len(guards) == 0) {
				c.Ob(os.Props, "E4.promised-order", key, Violated, fmt.Sprintf("%s: the per-group sort is guarded by %v, promised guard is %q", os.What, guards, os.Guard), p.InstrPos(sortCall), false)
				continue
			}
			c.Ob(os.Props, "E4.promised-order", key, Discharged, fmt.Sprintf("%s: every group is sorted by (%s, %s) inside the loop, guard %v", os.What, os.Key, os.Dir, guards), p.InstrPos(sortCall), true)
			continue
		}
		// the sort must be executed on every path to a return that follows an append to the slice: require that the
		// sort call's block dominates every return block reachable from it and that no append to the sorted slice follows it.
		okDom := true
		why := ""
		for _, b := range fn.Blocks {
			if len(b.Instrs) == 0 {
				continue
			}
			if r, ok := b.Instrs[len(b.Instrs)-1].(*ssa.Return); ok {
				if !instrDominates(sortCall, r) {
					// a return not dominated by the sort is allowed only if it precedes any collection (early exit with empty result)
					if loopsBefore(fn, b) {
						okDom = false
						why = "a return at " + p.InstrPos(r) + " is reachable after the collection loop without passing the sort"
					}
				}
			}
		}
		if !okDom {
			c.Ob(os.Props, "E4.promised-order", key, Violated, os.What+": "+why, p.InstrPos(sortCall), false)
			continue
		}
		c.Ob(os.Props, "E4.promised-order", key, Discharged, os.What+": sorted by ("+os.Key+", "+os.Dir+") on every path to the return", p.InstrPos(sortCall), true)
	}
	c.Count("E4.promised_orders", len(sp.Tables.Orders))
}

// loopsBefore: is block b reachable from a loop (i.e. after some collection could have happened)?
func loopsBefore(fn *ssa.Function, b *ssa.BasicBlock) bool {
	// conservative: any back edge whose header dominates b or reaches b
	for _, x := range fn.Blocks {
		for _, s := range x.Succs {
			if s.Dominates(x) && reaches(s, b) {
				return true
			}
		}
	}
	return false
}

func reaches(from, to *ssa.BasicBlock) bool {
	seen := map[*ssa.BasicBlock]bool{}
	stack := []*ssa.BasicBlock{from}
	for len(stack) > 0 {
		x := stack[len(stack)-1]
		stack = stack[:len(stack)-1]
		if x == to {
			return true
		}
		if seen[x] {
			continue
		}
		seen[x] = true
		stack = append(stack, x.Succs...)
	}
	return false
}

// comparatorOfClosure handles less-closures whose slice is a free variable: a[i] appears as IndexAddr(*freevar, i).
func comparatorOfClosure(fn *ssa.Function) (string, string, bool) {
	return comparatorOf(fn)
}

func radixKeyOf(fn *ssa.Function) (string, bool) {
	var ret *ssa.Return
	for _, b := range fn.Blocks {
		for _, in := range b.Instrs {
			if r, ok := in.(*ssa.Return); ok {
				ret = r
			}
		}
	}
	if ret == nil || len(ret.Results) != 1 || len(fn.Params) != 1 {
		return "", false
	}
	k, idx := sideTerm(ret.Results[0], fn)
	if k == "" || idx != 0 {
		return "", false
	}
	return k, true
}

// ---------------------------------------------------------------------------------------------
// binary-search precondition

var searchFuncs = map[string]bool{"sort.SearchStrings": true, "sort.SearchInts": true, "sort.SearchFloat64s": true, "sort.Search": true,
	"(sort.StringSlice).Search": true, "slices.BinarySearch": true, "slices.BinarySearchFunc": true}

func runE4Search(p *Program, sp *Spec, c *Collector) {
	props := []string{"C08", "C10", "C18"}
	n := 0
	for _, fn := range p.OwnFuncs {
		for _, b := range fn.Blocks {
			for _, in := range b.Instrs {
				call, ok := in.(*ssa.Call)
				if !ok {
					continue
				}
				callee := call.Call.StaticCallee()
				if callee == nil || !searchFuncs[fullFuncName(callee)] {
					continue
				}
				n++
				key := "binsearch:" + p.FuncKey(fn) + " " + fullFuncName(callee)
				if fullFuncName(callee) == "sort.Search" {
					c.Ob(props, "E4.binary-search", key, Undecided, "sort.Search with a custom predicate: monotonicity not analysed", p.InstrPos(in), false)
					continue
				}
				ok2, why := sortedValue(p, call.Call.Args[0], fn, 0)
				if ok2 {
					c.Ob(props, "E4.binary-search", key, Discharged, why, p.InstrPos(in), true)
				} else {
					c.Ob(props, "E4.binary-search", key, Violated, "binary search over a slice that is not provably sorted: "+why+"; the answer depends on the order of the list", p.InstrPos(in), false)
				}
			}
		}
	}
	c.Count("E4.binary_search_sites", n)
}

// sortedValue: is v provably sorted (ascending) at this point? depth-limited through parameters.
func sortedValue(p *Program, v ssa.Value, fn *ssa.Function, depth int) (bool, string) {
	if depth > 2 {
		return false, "caller chain too deep"
	}
	switch x := v.(type) {
	case *ssa.Parameter:
		n := p.CG.Nodes[fn]
		if n == nil || len(n.In) == 0 {
			return false, "parameter " + x.Name() + " of an entry point (callers unknown)"
		}
		idx := -1
		for i, prm := range fn.Params {
			if prm == x {
				idx = i
			}
		}
		var bad []string
		for _, e := range n.In {
			args := e.Site.Common().Args
			k := idx
			if fn.Signature.Recv() != nil && !e.Site.Common().IsInvoke() {
				// receiver is Args[0] in static method calls
			}
			if k < 0 || k >= len(args) {
				bad = append(bad, "call at "+p.InstrPos(e.Site)+" not resolvable")
				continue
			}
			ok, why := sortedValue(p, args[k], e.Caller, depth+1)
			if !ok {
				bad = append(bad, shortFn(p.FuncKey(e.Caller))+" passes "+why)
			}
		}
		if len(bad) > 0 {
			sort.Strings(bad)
			return false, strings.Join(bad, "; ")
		}
		return true, "every caller passes a sorted slice"
	case *ssa.Slice:
		// composite literal: slice of a freshly allocated array filled with constants
		if al, ok := x.X.(*ssa.Alloc); ok {
			var vals []string
			okAll := true
			for _, ref := range *al.Referrers() {
				if ia, ok := ref.(*ssa.IndexAddr); ok {
					for _, r2 := range *ia.Referrers() {
						if st, ok := r2.(*ssa.Store); ok {
							if s, ok := constString(st.Val); ok {
								i, _ := constInt(ia.Index)
								for len(vals) <= int(i) {
									vals = append(vals, "")
								}
								vals[i] = s
							} else {
								okAll = false
							}
						}
					}
				}
			}
			if okAll && len(vals) > 0 {
				if sort.StringsAreSorted(vals) {
					return true, "sorted literal"
				}
				return false, fmt.Sprintf("an unsorted literal %q", vals)
			}
		}
		return false, "a slice expression"
	case *ssa.UnOp:
		if x.Op == token.MUL {
			if fa, ok := x.X.(*ssa.FieldAddr); ok {
				st := fa.X.Type().Underlying().(*types.Pointer).Elem().Underlying().(*types.Struct)
				return false, "field " + st.Field(fa.Field).Name() + " (filled in source order, never sorted)"
			}
			if g, ok := x.X.(*ssa.Global); ok {
				return false, "package variable " + g.Name()
			}
		}
	}
	// dominated by a sort call on the same value in this function
	for _, b := range fn.Blocks {
		for _, in := range b.Instrs {
			if call, ok := in.(*ssa.Call); ok {
				if callee := call.Call.StaticCallee(); callee != nil {
					n := fullFuncName(callee)
					if (n == "sort.Strings" || n == "sort.Ints") && len(call.Call.Args) == 1 && call.Call.Args[0] == v {
						return true, "sorted by " + n + " in the same function"
					}
				}
			}
		}
	}
	return false, "value " + v.Name() + " of unknown order"
}

// ---------------------------------------------------------------------------------------------
// scheduling / randomness audit

func runE4Sched(p *Program, sp *Spec, c *Collector) {
	props := []string{"C08"}
	perPkg := map[string][]string{}
	posOf := map[string]string{}
	for _, fn := range p.OwnFuncs {
		pk := ""
		q := fn
		for q.Parent() != nil {
			q = q.Parent()
		}
		if q.Pkg != nil {
			pk = rel(q.Pkg.Pkg.Path())
		}
		for _, b := range fn.Blocks {
			for _, in := range b.Instrs {
				what := ""
				switch x := in.(type) {
				case *ssa.Go:
					what = "go statement"
					// the allowance for goroutines rests on "one channel, one sender": a go statement inside a loop that hands
					// every goroutine the same channel (made outside the loop) has several senders, and what is received follows
					// the order in which they finish
					if region := loopRegion(fn, b); region != nil {
						var chans []ssa.Value
						for _, a := range x.Call.Args {
							chans = append(chans, a)
						}
						if mc, ok := x.Call.Value.(*ssa.MakeClosure); ok {
							chans = append(chans, mc.Bindings...)
						}
						for _, cv := range chans {
							t := cv.Type()
							if pt, ok := t.Underlying().(*types.Pointer); ok {
								t = pt.Elem()
							}
							if _, isChan := t.Underlying().(*types.Chan); !isChan {
								continue
							}
							def, ok := cv.(ssa.Instruction)
							if !ok || !region[def.Block()] {
								perPkg[pk+"|shared"] = append(perPkg[pk+"|shared"], "goroutines started in a loop of "+shortFn(p.FuncKey(fn))+" all send on one channel made outside it")
								if posOf[pk+"|shared"] == "" {
									posOf[pk+"|shared"] = p.InstrPos(in)
								}
							}
						}
					}
				case *ssa.Select:
					what = "select"
				case *ssa.Call:
					if callee := x.Call.StaticCallee(); callee != nil && callee.Pkg != nil {
						pp := callee.Pkg.Pkg.Path()
						if pp == "math/rand" || pp == "crypto/rand" || pp == "math/rand/v2" {
							what = "call into " + pp
						}
					}
					for _, a := range x.Call.Args {
						if s, ok := constString(a); ok && strings.Contains(s, "%p") {
							what = "%p in a format string"
						}
					}
				}
				if what != "" {
					perPkg[pk] = append(perPkg[pk], what+" in "+shortFn(p.FuncKey(fn)))
					if posOf[pk] == "" {
						posOf[pk] = p.InstrPos(in)
					}
				}
			}
		}
	}
	for _, pk := range sortedKeys(perPkg) {
		key := "sched:" + pk
		if strings.HasSuffix(pk, "|shared") {
			c.Ob(props, "E4.sched-audit", "sched:"+strings.TrimSuffix(pk, "|shared")+" shared channel", Violated, "results are received in the order the goroutines finish: "+strings.Join(dedupStrings(perPkg[pk]), "; "), posOf[pk], false)
			continue
		}
		if why, ok := sp.Tables.SchedAllowed[pk]; ok {
			c.Ob(props, "E4.sched-audit", key, Discharged, "allowed: "+why+" ("+strings.Join(dedupStrings(perPkg[pk]), "; ")+")", posOf[pk], false)
		} else {
			c.Ob(props, "E4.sched-audit", key, Violated, "scheduling- or randomness-dependent construct in a package that feeds reports: "+strings.Join(dedupStrings(perPkg[pk]), "; "), posOf[pk], false)
		}
	}
	c.Ob(props, "E4.sched-audit", "sched:<module>", Discharged, fmt.Sprintf("%d own functions scanned for go/select/rand/%%p; packages with such constructs: %v", len(p.OwnFuncs), sortedKeys(perPkg)), "", false)
}

// isLoopTest: the If that decides whether the loop continues (one successor leaves the region).
func isLoopTest(iff *ssa.If, region map[*ssa.BasicBlock]bool) bool {
	b := iff.Block()
	for _, s := range b.Succs {
		if !region[s] {
			return true
		}
	}
	return false
}

// ---------------------------------------------------------------------------------------------
// unordered collections: a slice filled in map order and never sorted is fine as a report ("identical as a collection"), but not
// as the input of a first-match search whose result is the matched element: then the answer depends on the iteration order.

// orderedConsumer follows the collection `name` (after the range statement) into own functions it is handed to — directly as an
// argument, or through a package-level variable the callee stores it in — and reports a first-match search over it.
func (rc *rangeCtx) orderedConsumer(name string) string {
	why := ""
	ast.Inspect(rc.fnDecl, func(n ast.Node) bool {
		call, ok := n.(*ast.CallExpr)
		if !ok || why != "" || call.Pos() < rc.rs.End() {
			return true
		}
		for i, a := range call.Args {
			if exprStr(a) != name {
				continue
			}
			fn := rc.calleeOf(call)
			if fn == nil || fn.Pkg() == nil || !strings.HasPrefix(fn.Pkg().Path(), modPath) {
				continue
			}
			sf := rc.p.SSA.FuncValue(fn)
			if sf == nil || len(sf.Blocks) == 0 {
				continue
			}
			idx := i
			if sf.Signature.Recv() != nil {
				idx++
			}
			if idx < len(sf.Params) {
				if w := rc.p.firstMatchThrough(sf, sf.Params[idx], 0, map[*ssa.Function]bool{}); w != "" {
					why = "is handed to " + shortFn(rc.p.FuncKey(sf)) + " (" + rc.p.Pos(call.Pos()) + "): " + w
				}
			}
		}
		return true
	})
	if why != "" {
		return why
	}
	// the collection (or the map of lists it is an entry of) is the function's result: follow it into the callers
	root := name
	if i := strings.IndexAny(root, "[."); i > 0 {
		root = root[:i]
	}
	returned := false
	ast.Inspect(rc.fnDecl, func(n ast.Node) bool {
		if ret, ok := n.(*ast.ReturnStmt); ok {
			for _, r := range ret.Results {
				if id := rootIdent(r); id != nil && id.Name == root {
					returned = true
				}
			}
		}
		return true
	})
	self := rc.p.Func(rc.fnKey)
	if !returned || self == nil || self.Signature.Results().Len() != 1 {
		return ""
	}
	for _, caller := range rc.p.OwnFuncs {
		for _, b := range caller.Blocks {
			for _, in := range b.Instrs {
				call, ok := in.(*ssa.Call)
				if !ok || call.Call.StaticCallee() != self {
					continue
				}
				if w := rc.p.firstMatchThrough(caller, call, 0, map[*ssa.Function]bool{}); w != "" {
					return "is returned to " + shortFn(rc.p.FuncKey(caller)) + " (" + rc.p.InstrPos(call) + "): " + w
				}
			}
		}
	}
	return ""
}

// budgetedOver: fn walks the elements of x (or of an entry x[k] of a map of lists) in a loop and gives up — returns early —
// when a package-level counter it advances itself reaches a bound: which elements are still served follows their order.
func (p *Program) budgetedOver(fn *ssa.Function, x ssa.Value) string {
	derived := map[ssa.Value]bool{x: true}
	for _, b := range fn.Blocks {
		for _, in := range b.Instrs {
			switch e := in.(type) {
			case *ssa.Lookup:
				if derived[e.X] {
					derived[e] = true
				}
			case *ssa.Extract:
				if derived[e.Tuple] {
					derived[e] = true
				}
			}
		}
	}
	walks := false
	for _, loop := range naturalLoops(fn) {
		for b := range loop {
			for _, in := range b.Instrs {
				switch e := in.(type) {
				case *ssa.IndexAddr:
					walks = walks || derived[e.X]
				case *ssa.Index:
					walks = walks || derived[e.X]
				}
			}
		}
	}
	if !walks {
		return ""
	}
	for _, b := range fn.Blocks {
		if len(b.Instrs) == 0 {
			continue
		}
		iff, ok := b.Instrs[len(b.Instrs)-1].(*ssa.If)
		if !ok {
			continue
		}
		cmp, ok := iff.Cond.(*ssa.BinOp)
		if !ok {
			continue
		}
		g := loadedGlobal(cmp.X)
		if g == nil {
			g = loadedGlobal(cmp.Y)
		}
		if g == nil || !p.Own[g.Pkg.Pkg] {
			continue
		}
		leaves := false
		for _, sx := range b.Succs {
			if len(sx.Instrs) > 0 {
				if _, isRet := sx.Instrs[len(sx.Instrs)-1].(*ssa.Return); isRet {
					leaves = true
				}
			}
		}
		advances := false
		for _, b2 := range fn.Blocks {
			for _, in := range b2.Instrs {
				if st, ok := in.(*ssa.Store); ok && st.Addr == ssa.Value(g) {
					advances = true
				}
			}
		}
		if leaves && advances {
			return shortFn(p.FuncKey(fn)) + " walks it under a budget (it returns early once " + g.Name() + " reaches its bound, " + p.InstrPos(iff) + "), so which elements are still served follows the map's iteration order"
		}
	}
	return ""
}

// firstMatchThrough: does a first-match search with an element-dependent result run over value x (a parameter of fn), in fn, in
// an own callee x is passed to, or in any own function that reads a package-level variable x is stored in?
func (p *Program) firstMatchThrough(fn *ssa.Function, x ssa.Value, depth int, seen map[*ssa.Function]bool) string {
	if depth > 3 || seen[fn] {
		return ""
	}
	seen[fn] = true
	if w := p.firstMatchOver(fn, x); w != "" {
		return w
	}
	if w := p.budgetedOver(fn, x); w != "" {
		return w
	}
	if w := p.lastWinsOver(fn, x); w != "" {
		return w
	}
	if w := p.cutOver(fn, x); w != "" {
		return w
	}
	refs := x.Referrers()
	if refs == nil {
		return ""
	}
	for _, r := range *refs {
		switch in := r.(type) {
		case *ssa.Store:
			if in.Val != x {
				continue
			}
			g, whole := globalOfAddr(in.Addr)
			if g == nil || !whole {
				continue
			}
			// every own function that loads g
			for _, f := range p.OwnFuncs {
				for _, b := range f.Blocks {
					for _, ins := range b.Instrs {
						if u, ok := ins.(*ssa.UnOp); ok && u.Op == token.MUL {
							if gg, wh := globalOfAddr(u.X); gg == g && wh {
								if w := p.firstMatchOver(f, u); w != "" {
									return "it is kept in " + p.GlobalKey(g) + ", and " + w
								}
							}
						}
					}
				}
			}
		case ssa.CallInstruction:
			if in.Common().StaticCallee() == nil && !in.Common().IsInvoke() {
				continue
			}
			// the resolved callees: the static callee, the concrete method behind a delegating method / promoted wrapper, or the
			// module's implementations of an invoked interface method (receiver first in both conventions)
			for _, callee := range p.ownCallees(in) {
				if callee.Pkg == nil || !p.Own[callee.Pkg.Pkg] || len(callee.Blocks) == 0 {
					continue
				}
				off := 0
				if in.Common().IsInvoke() {
					off = 1 // an invoke lists the arguments without the receiver
				}
				for i, a := range in.Common().Args {
					if a == x && i+off < len(callee.Params) {
						if w := p.firstMatchThrough(callee, callee.Params[i+off], depth+1, seen); w != "" {
							return w
						}
					}
				}
			}
		}
	}
	return ""
}

// cutOver: fn keeps a prefix of x (x[:n]): which elements are kept follows their order.
func (p *Program) cutOver(fn *ssa.Function, x ssa.Value) string {
	refs := x.Referrers()
	if refs == nil {
		return ""
	}
	for _, r := range *refs {
		if sl, ok := r.(*ssa.Slice); ok && sl.X == x && sl.High != nil && sl.Parent() == fn {
			if c, isC := sl.High.(*ssa.Const); isC && c.Value == nil {
				continue
			}
			return "only its first elements are kept (" + p.InstrPos(sl) + "): which ones they are follows the order"
		}
	}
	// a list built element by element from x, in x's order, and then cut
	for _, loop := range naturalLoops(fn) {
		walksX := false
		for b := range loop {
			for _, in := range b.Instrs {
				switch e := in.(type) {
				case *ssa.IndexAddr:
					walksX = walksX || e.X == x
				case *ssa.Index:
					walksX = walksX || e.X == x
				}
			}
		}
		if !walksX {
			continue
		}
		for b := range loop {
			for _, in := range b.Instrs {
				call, ok := in.(*ssa.Call)
				if !ok {
					continue
				}
				if bi, ok := call.Call.Value.(*ssa.Builtin); !ok || bi.Name() != "append" {
					continue
				}
				seen := map[ssa.Value]bool{}
				work := []ssa.Value{call}
				for len(work) > 0 {
					v := work[len(work)-1]
					work = work[:len(work)-1]
					if seen[v] || v.Referrers() == nil {
						continue
					}
					seen[v] = true
					for _, r := range *v.Referrers() {
						switch u := r.(type) {
						case *ssa.Phi:
							work = append(work, u)
						case *ssa.Slice:
							if u.X == v && u.High != nil {
								return "a list built from it element by element is cut to its first elements (" + p.InstrPos(u) + "): which ones they are follows the order"
							}
						}
					}
				}
			}
		}
	}
	return ""
}

// firstMatchOver: fn contains a loop over the elements of x that is left from inside its body, and a value returned after that
// exit depends on the element (for _, e := range x { if P(e) { return e } }). A constant result (an existential test) is fine.
func (p *Program) firstMatchOver(fn *ssa.Function, x ssa.Value) string {
	elems := map[ssa.Value]bool{}
	var elemBlocks []*ssa.BasicBlock
	for _, b := range fn.Blocks {
		for _, in := range b.Instrs {
			switch e := in.(type) {
			case *ssa.IndexAddr:
				if e.X == x {
					elems[e] = true
					elemBlocks = append(elemBlocks, b)
				}
			case *ssa.Index:
				if e.X == x {
					elems[e] = true
					elemBlocks = append(elemBlocks, b)
				}
			}
		}
	}
	if len(elems) == 0 {
		return ""
	}
	var dep func(v ssa.Value, seen map[ssa.Value]bool) bool
	dep = func(v ssa.Value, seen map[ssa.Value]bool) bool {
		if v == nil || seen[v] {
			return false
		}
		seen[v] = true
		if elems[v] {
			return true
		}
		in, ok := v.(ssa.Instruction)
		if !ok {
			return false
		}
		if _, isPhi := v.(*ssa.Phi); isPhi {
			for _, e := range v.(*ssa.Phi).Edges {
				if dep(e, seen) {
					return true
				}
			}
			return false
		}
		for _, op := range in.Operands(nil) {
			if *op != nil && dep(*op, seen) {
				return true
			}
		}
		return false
	}
	for _, loop := range naturalLoops(fn) {
		h := loopHeader(loop)
		inLoop := false
		for _, b := range elemBlocks {
			if loop[b] {
				inLoop = true
			}
		}
		if !inLoop {
			continue
		}
		for u := range loop {
			if u == h {
				continue
			}
			for _, w := range u.Succs {
				if loop[w] {
					continue
				}
				// early exit u -> w: does a return reachable from w (outside the loop) depend on an element?
				seenB := map[*ssa.BasicBlock]bool{}
				stack := []*ssa.BasicBlock{w}
				for len(stack) > 0 {
					b := stack[len(stack)-1]
					stack = stack[:len(stack)-1]
					if seenB[b] || loop[b] {
						continue
					}
					seenB[b] = true
					for _, in := range b.Instrs {
						if ret, ok := in.(*ssa.Return); ok {
							for _, r := range ret.Results {
								if dep(r, map[ssa.Value]bool{}) {
									return shortFn(p.FuncKey(fn)) + " searches it for the first match and returns the matched element (" + p.InstrPos(ret) + "), so the result follows the map's iteration order"
								}
							}
						}
					}
					stack = append(stack, b.Succs...)
				}
			}
		}
	}
	return ""
}

// comparesSortedSlice: sort.Slice(x, less) calls less(i, j) with positions of x; a comparator that looks the positions up in
// another slice orders x by unrelated elements. Both sides are reduced to an origin (through closure bindings, single-store
// cells, conversions) and compared.
func comparesSortedSlice(sorted, lessVal ssa.Value, less *ssa.Function) bool {
	var bindings []ssa.Value
	if mc, ok := lessVal.(*ssa.MakeClosure); ok {
		bindings = mc.Bindings
	}
	var origin func(v ssa.Value, fn *ssa.Function, depth int) string
	origin = func(v ssa.Value, fn *ssa.Function, depth int) string {
		if depth > 8 {
			return "?"
		}
		switch x := v.(type) {
		case *ssa.MakeInterface:
			return origin(x.X, fn, depth+1)
		case *ssa.ChangeType:
			return origin(x.X, fn, depth+1)
		case *ssa.Convert:
			return origin(x.X, fn, depth+1)
		case *ssa.UnOp:
			if x.Op == token.MUL {
				return origin(x.X, fn, depth+1)
			}
		case *ssa.FreeVar:
			for i, fv := range fn.FreeVars {
				if fv == x && i < len(bindings) && fn == less {
					return origin(bindings[i], less.Parent(), depth+1)
				}
			}
			return "free:" + x.Name()
		case *ssa.Alloc:
			// a cell with a single store stands for the stored value
			var st *ssa.Store
			n := 0
			if refs := x.Referrers(); refs != nil {
				for _, r := range *refs {
					if s, ok := r.(*ssa.Store); ok && s.Addr == ssa.Value(x) {
						st = s
						n++
					}
				}
			}
			if n == 1 {
				return origin(st.Val, fn, depth+1)
			}
			return "cell:" + x.Name() + "@" + x.Parent().Name()
		case *ssa.Lookup:
			return "lookup(" + origin(x.X, fn, depth+1) + "," + origin(x.Index, fn, depth+1) + ")"
		case *ssa.Extract:
			// range value / comma-ok element
			if nx, ok := x.Tuple.(*ssa.Next); ok {
				if r, ok := nx.Iter.(*ssa.Range); ok {
					if x.Index == 2 {
						return "lookup(" + origin(r.X, fn, depth+1) + ",key:" + nx.Name() + ")"
					}
					return "key:" + nx.Name()
				}
			}
			if lk, ok := x.Tuple.(*ssa.Lookup); ok && x.Index == 0 {
				return origin(lk, fn, depth+1)
			}
		case *ssa.Parameter:
			return "param:" + x.Name() + "@" + x.Parent().Name()
		case *ssa.Global:
			return "global:" + x.Name()
		case *ssa.Field:
			return origin(x.X, fn, depth+1) + "." + fmt.Sprint(x.Field)
		case *ssa.FieldAddr:
			return origin(x.X, fn, depth+1) + "." + fmt.Sprint(x.Field)
		}
		if v == nil {
			return "?"
		}
		return "v:" + v.Name() + "@" + fmt.Sprint(v.Parent())
	}
	want := origin(sorted, less.Parent(), 0)
	same := true
	seen := 0
	for _, b := range less.Blocks {
		for _, in := range b.Instrs {
			var base, idx ssa.Value
			switch x := in.(type) {
			case *ssa.IndexAddr:
				base, idx = x.X, x.Index
			case *ssa.Index:
				base, idx = x.X, x.Index
			default:
				continue
			}
			isPos := false
			for _, prm := range less.Params {
				if idx == ssa.Value(prm) {
					isPos = true
				}
			}
			if !isPos {
				continue
			}
			seen++
			if origin(base, less, 0) != want {
				same = false
			}
		}
	}
	return same && seen > 0
}

// OrderedProducer: the results of package Pkg reach Consumer, which selects among them by position (the last qualifying
// element wins); everything Pkg collects in map order therefore shows in the consumer's answer. The checker re-validates on
// every run that Consumer still calls into Pkg and still selects by position; otherwise the entry binds nothing.
type OrderedProducer struct {
	Props    []string `json:"props"`
	Pkg      string   `json:"pkg"`
	Consumer string   `json:"consumer"`
	What     string   `json:"what"`
}

var orderedProducerMemo = map[string]string{}

func orderedProducerWhy(p *Program, sp *Spec, pkg string) string {
	for _, op := range sp.Tables.OrderedProducers {
		if op.Pkg != pkg {
			continue
		}
		k := op.Pkg + "|" + op.Consumer
		if w, ok := orderedProducerMemo[k]; ok {
			return w
		}
		w := ""
		if fn := p.Func(op.Consumer); fn != nil {
			if at := lastWinsOverCallInto(p, fn, pkg); at != "" {
				w = "the results of this package reach " + shortFn(op.Consumer) + ", which keeps the last qualifying element (" + at + "): " + op.What
			}
		}
		orderedProducerMemo[k] = w
		return w
	}
	return ""
}

// lastWinsOverCallInto: fn calls a function of package pkg and, in a loop over the elements of that call's result, stores an
// element-dependent value into a location that is the same on every iteration (not an append): the last iteration wins.
func lastWinsOverCallInto(p *Program, fn *ssa.Function, pkg string) string {
	var results []ssa.Value
	for _, b := range fn.Blocks {
		for _, in := range b.Instrs {
			if call, ok := in.(*ssa.Call); ok {
				if callee := call.Call.StaticCallee(); callee != nil && callee.Pkg != nil && rel(callee.Pkg.Pkg.Path()) == pkg {
					results = append(results, call)
				}
			}
		}
	}
	if len(results) == 0 {
		return ""
	}
	isResult := func(v ssa.Value) bool {
		for _, r := range results {
			if r == v {
				return true
			}
		}
		return false
	}
	for _, loop := range naturalLoops(fn) {
		over := false
		for b := range loop {
			for _, in := range b.Instrs {
				switch e := in.(type) {
				case *ssa.IndexAddr:
					over = over || isResult(e.X)
				case *ssa.Index:
					over = over || isResult(e.X)
				}
			}
		}
		if !over {
			continue
		}
		for b := range loop {
			for _, in := range b.Instrs {
				st, ok := in.(*ssa.Store)
				if !ok {
					continue
				}
				if ai, ok := st.Addr.(ssa.Instruction); ok && ai.Block() != nil && loop[ai.Block()] {
					if _, isFA := st.Addr.(*ssa.FieldAddr); !isFA {
						continue
					}
					// a field address computed inside the loop from loop-invariant operands is still one location
					if definedInDeep(st.Addr, loop, map[ssa.Value]bool{}) {
						continue
					}
				}
				if call, ok := st.Val.(*ssa.Call); ok {
					if bi, ok := call.Call.Value.(*ssa.Builtin); ok && bi.Name() == "append" {
						continue
					}
				}
				if _, isAlloc := st.Addr.(*ssa.Alloc); isAlloc {
					continue
				}
				if definedInDeep(st.Val, loop, map[ssa.Value]bool{}) {
					return p.InstrPos(st)
				}
			}
		}
	}
	return ""
}

// lastWinsOver: fn walks the elements of x and hands each to an own function that assigns, through a pointer argument that is
// the same on every iteration, a field with a value that does not build on the field's previous value: after the loop the
// field holds what the last (qualifying) element produced.
func (p *Program) lastWinsOver(fn *ssa.Function, x ssa.Value) string {
	for _, loop := range naturalLoops(fn) {
		elems := map[ssa.Value]bool{}
		for b := range loop {
			for _, in := range b.Instrs {
				switch e := in.(type) {
				case *ssa.IndexAddr:
					if e.X == x {
						elems[e] = true
					}
				case *ssa.Index:
					if e.X == x {
						elems[e] = true
					}
				}
			}
		}
		if len(elems) == 0 {
			continue
		}
		var fromElem func(v ssa.Value, d int) bool
		fromElem = func(v ssa.Value, d int) bool {
			if d > 6 || v == nil {
				return false
			}
			if elems[v] {
				return true
			}
			switch y := v.(type) {
			case *ssa.UnOp:
				if al, ok := y.X.(*ssa.Alloc); ok && al.Referrers() != nil {
					for _, r := range *al.Referrers() {
						if st, ok := r.(*ssa.Store); ok && st.Addr == ssa.Value(al) && fromElem(st.Val, d+1) {
							return true
						}
					}
				}
				return fromElem(y.X, d+1)
			case *ssa.FieldAddr:
				return fromElem(y.X, d+1)
			case *ssa.Field:
				return fromElem(y.X, d+1)
			}
			return false
		}
		for b := range loop {
			for _, in := range b.Instrs {
				call, ok := in.(*ssa.Call)
				if !ok || call.Call.StaticCallee() == nil {
					continue
				}
				hasElem := false
				for _, a := range call.Call.Args {
					if fromElem(a, 0) {
						hasElem = true
					}
				}
				if !hasElem {
					continue
				}
				for _, callee := range p.ownCallees(call) {
					if len(callee.Blocks) == 0 {
						continue
					}
					sf := newSymFn(p, callee, 0)
					sf.inlineOK = func(*ssa.Function) bool { return false }
					for _, e := range sf.emissions() {
						if !strings.HasPrefix(e.target, "paramfield:") || e.elem == nil || len(e.elem.Kids) == 0 {
							continue
						}
						var idx int
						var path string
						if _, err := fmt.Sscanf(strings.TrimPrefix(e.target, "paramfield:"), "%d.%s", &idx, &path); err != nil || idx >= len(call.Call.Args) {
							continue
						}
						// the pointer argument is loop-invariant in fn
						if ai, ok := call.Call.Args[idx].(ssa.Instruction); ok && ai.Block() != nil && loop[ai.Block()] {
							continue
						}
						val := e.elem.Kids[0]
						if val.Op == "const" {
							continue // a flag set to a constant is the same whoever sets it last
						}
						self := fmt.Sprintf("p%d.%s", idx, path)
						builds := false
						val.walk(func(t *Sym) {
							if t.String() == self {
								builds = true
							}
						})
						if builds {
							continue
						}
						return shortFn(p.FuncKey(fn)) + " hands each element to " + shortFn(p.FuncKey(callee)) + ", which overwrites " + path + " of the shared result (" + e.pos + "): the last qualifying element wins, so the result follows the map's iteration order"
					}
				}
			}
		}
	}
	return ""
}
