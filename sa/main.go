package main

import (
	"crypto/sha256"
	"encoding/hex"
	"encoding/json"
	"flag"
	"fmt"
	"io"
	"os"
	"path/filepath"
	"runtime/debug"
	"sort"
	"strconv"
	"strings"
	"time"
)

type engine struct {
	name string
	run  func(p *Program, sp *Spec, c *Collector)
}

var engines = []engine{}

func register(name string, run func(p *Program, sp *Spec, c *Collector)) {
	engines = append(engines, engine{name, run})
}

func treeHash(repo, verif string) string {
	h := sha256.New()
	var files []string
	_ = filepath.Walk(repo, func(path string, fi os.FileInfo, err error) error {
		if err != nil {
			return nil
		}
		if fi.IsDir() {
			if fi.Name() == ".git" {
				return filepath.SkipDir
			}
			return nil
		}
		n := fi.Name()
		if strings.HasSuffix(n, ".go") || strings.HasSuffix(n, ".g4") || strings.HasSuffix(n, ".tokens") || n == "go.mod" || n == "go.sum" {
			files = append(files, path)
		}
		return nil
	})
	_ = filepath.Walk(filepath.Join(verif, "spec"), func(path string, fi os.FileInfo, err error) error {
		if err == nil && !fi.IsDir() {
			files = append(files, path)
		}
		return nil
	})
	if exe, err := os.Executable(); err == nil {
		files = append(files, exe)
	}
	sort.Strings(files)
	for _, f := range files {
		fh, err := os.Open(f)
		if err != nil {
			continue
		}
		fmt.Fprintf(h, "%s\n", f)
		_, _ = io.Copy(h, fh)
		fh.Close()
	}
	return hex.EncodeToString(h.Sum(nil))[:24]
}

func analyse(repo, verif string) *Result {
	c := NewCollector()
	t0 := time.Now()
	sp, err := LoadSpec(filepath.Join(verif, "spec"))
	if err != nil {
		c.Fatal("spec: %v", err)
		return c.res
	}
	p, err := LoadProgram(repo)
	if err != nil {
		c.Fatal("load: %v", err)
		return c.res
	}
	c.res.LoadSeconds = time.Since(t0).Seconds()
	c.res.Packages = len(p.Pkgs)
	c.res.OwnPackages = len(p.Own)
	c.res.Functions = len(p.OwnFuncs)
	if err := sp.LoadGrammars(repo); err != nil {
		c.Fatal("grammar: %v", err)
		return c.res
	}
	t1 := time.Now()
	for _, e := range engines {
		func() {
			defer func() {
				if r := recover(); r != nil {
					c.Fatal("engine %s panicked: %v\n%s", e.name, r, debug.Stack())
				}
			}()
			e.run(p, sp, c)
		}()
	}
	c.res.RunSeconds = time.Since(t1).Seconds()
	return c.res
}

type controlExpect struct {
	Rule      string `json:"rule"`
	Construct string `json:"construct"`
	Status    string `json:"status"`
}

// runControls analyses the positive-control module (sa/testdata/controls: one seeded violation and one correct instance
// per rule) with the same engines and compares every obligation with the frozen expectation. A rule that stops firing
// on its control (or starts firing on the correct instance) makes the whole run fatal: its verdicts cannot be trusted.
func runControls(verif string) (fired []string, problems []string) {
	dir := filepath.Join(verif, "sa", "testdata", "controls")
	var want []controlExpect
	if err := readJSON(filepath.Join(dir, "expected.json"), &want); err != nil {
		return nil, []string{"controls: " + err.Error()}
	}
	saved := theState
	theState = nil
	res := analyse(dir, dir)
	theState = saved
	for _, f := range res.Fatal {
		problems = append(problems, "controls: "+f)
	}
	got := map[string]string{}
	for _, o := range res.Obligations {
		got[o.Rule+"|"+o.Construct] = o.Status
	}
	for _, w := range want {
		k := w.Rule + "|" + w.Construct
		st, ok := got[k]
		switch {
		case !ok:
			problems = append(problems, fmt.Sprintf("control %s [%s] produced no obligation (expected %s)", w.Construct, w.Rule, w.Status))
		case st != w.Status:
			problems = append(problems, fmt.Sprintf("control %s [%s] is %s, expected %s", w.Construct, w.Rule, st, w.Status))
		case w.Status == Violated:
			fired = append(fired, w.Rule+": "+w.Construct)
		}
		delete(got, k)
	}
	for k, st := range got {
		problems = append(problems, fmt.Sprintf("control produced an unexpected obligation %s (%s)", k, st))
	}
	sort.Strings(fired)
	sort.Strings(problems)
	return fired, problems
}

func main() {
	repo := flag.String("repo", "/repo", "repository to analyse")
	verif := flag.String("verif", "/verif", "verification directory (spec/, known_findings.json, evidence/)")
	prop := flag.String("property", "", "property id (C01..C20), or 'all'")
	tier := flag.String("tier", "quick", "quick|thorough")
	dump := flag.Bool("dump", false, "print every obligation")
	nocache := flag.Bool("nocache", false, "ignore the result cache")
	evdir := flag.String("evidence-dir", "", "write evidence under this directory instead of <verif>")
	noControls := flag.Bool("nocontrols", false, "skip the positive controls (debugging only)")
	symOf := flag.String("sym", "", "debug: print the symbolic summary of the named functions (comma separated) and exit")
	flag.Parse()
	start := time.Now()
	if *symOf != "" {
		p, err := LoadProgram(*repo)
		if err != nil {
			fmt.Println(err)
			os.Exit(2)
		}
		for _, k := range strings.Split(*symOf, ",") {
			fmt.Println("==", k)
			debugSym(p, k)
		}
		return
	}
	seed := 0
	if s := os.Getenv("VERIF_SEED"); s != "" {
		seed, _ = strconv.Atoi(s)
	}
	hash := treeHash(*repo, *verif)
	cacheDir := filepath.Join(*verif, ".cache")
	cacheFile := filepath.Join(cacheDir, hash+".json")
	var res *Result
	if !*nocache {
		if b, err := os.ReadFile(cacheFile); err == nil {
			var r Result
			if json.Unmarshal(b, &r) == nil && r.TreeHash == hash {
				res = &r
			}
		}
	}
	if res == nil {
		res = analyse(*repo, *verif)
		res.TreeHash = hash
		if !*noControls {
			fired, problems := runControls(*verif)
			res.Controls = fired
			for _, pr := range problems {
				res.Fatal = append(res.Fatal, pr)
			}
		}
		if len(res.Fatal) == 0 {
			_ = os.MkdirAll(cacheDir, 0o755)
			if b, err := json.Marshal(res); err == nil {
				tmp := cacheFile + fmt.Sprintf(".%d", os.Getpid())
				if os.WriteFile(tmp, b, 0o644) == nil {
					_ = os.Rename(tmp, cacheFile)
				}
			}
			// keep the cache small
			if ents, err := os.ReadDir(cacheDir); err == nil && len(ents) > 40 {
				for _, e := range ents {
					if e.Name() != hash+".json" {
						_ = os.Remove(filepath.Join(cacheDir, e.Name()))
					}
				}
			}
		}
	}
	if *dump {
		obs := append([]Obligation{}, res.Obligations...)
		sort.SliceStable(obs, func(i, j int) bool {
			if obs[i].Rule != obs[j].Rule {
				return obs[i].Rule < obs[j].Rule
			}
			return obs[i].Construct < obs[j].Construct
		})
		for _, o := range obs {
			if *prop != "" && *prop != "all" && !hasProp(o, *prop) {
				continue
			}
			fmt.Printf("%-10s %-28s %-70s %s %s — %s\n", o.Status, o.Rule, o.Construct, strings.Join(o.Props, ","), o.Pos, o.Reason)
		}
		for _, f := range res.Fatal {
			fmt.Println("FATAL:", f)
		}
		fmt.Printf("load %.1fs run %.1fs packages %d own %d funcs %d obligations %d\n", res.LoadSeconds, res.RunSeconds, res.Packages, res.OwnPackages, res.Functions, len(res.Obligations))
		return
	}
	known, err := loadKnown(filepath.Join(*verif, "known_findings.json"))
	if err != nil {
		fmt.Println("FATAL: known_findings.json:", err)
		os.Exit(2)
	}
	out := *verif
	if *evdir != "" {
		out = *evdir
	}
	ids := []string{*prop}
	if *prop == "all" {
		ids = nil
		for i := 1; i <= 20; i++ {
			ids = append(ids, fmt.Sprintf("C%02d", i))
		}
	}
	exit := 0
	for _, id := range ids {
		pi := propInfo[id]
		if pi.Explanation == "" {
			fmt.Printf("FATAL: unknown property %q\n", id)
			os.Exit(2)
		}
		e := report(res, id, *tier, seed, known, out, time.Since(start).Seconds(), pi.Explanation, pi.Assumptions)
		if e > exit {
			exit = e
		}
	}
	os.Exit(exit)
}
