package main

import (
	"encoding/json"
	"fmt"
	"os"
	"path/filepath"
)

// PassSpec describes one analysis pass of coca: how a unit (file, history, graph) is started and what runs per unit.
type PassSpec struct {
	Name       string   `json:"name"`
	Props      []string `json:"props"`
	Kind       string   `json:"kind"`        // "listener" | "function"
	Entry      []string `json:"entry"`       // unit entry sequence, in driver order (constructor, setters) / the entry function
	Listener   string   `json:"listener"`    // rel/pkg.Type for listener passes
	Grammar    string   `json:"grammar"`     // java|python|groovy
	Start      string   `json:"start"`       // grammar start rule
	Walk       string   `json:"walk"`        // callee name that runs the unit body in the driver ("Walk")
	Drivers    []string `json:"drivers"`     // restrict the driver functions considered (default: every caller of the constructor)
	EpochRoots []string `json:"epoch_roots"` // entry points from which stale-epoch reads are searched (default: every root of the program)
	Pure       bool     `json:"pure"`        // function pass whose result must be a function of its arguments: it reads no mutable package-level variable, not even one that others set
	// Accepted: globals whose cross-unit value is provably irrelevant for a reason outside rules 1-5; each with the
	// obligation that keeps the reason true (checked, not assumed).
	Accepted []AcceptedState `json:"accepted"`
}

type AcceptedState struct {
	Global string `json:"global"`
	Reason string `json:"reason"`
	// MustWriteConst: callbacks that must assign the given constant on every path (keeps the reason true).
	MustReset []string `json:"must_reset"`
	Value     string   `json:"value"`
}

type GrammarSpec struct {
	Name   string `json:"name"`
	File   string `json:"file"`
	Tokens string `json:"tokens"`
	GoPkg  string `json:"gopkg"` // rel path of generated package
}

type Spec struct {
	Dir           string
	Passes        []PassSpec             `json:"passes"`
	Grammars      []GrammarSpec          `json:"grammars"`
	ReceiverState []ReceiverStateSpec    `json:"receiver_state"`
	G             map[string]*Grammar    `json:"-"`
	Raw           map[string]interface{} `json:"-"`
	Tables        *Tables                `json:"-"`
}

func readJSON(path string, v interface{}) error {
	b, err := os.ReadFile(path)
	if err != nil {
		return err
	}
	if err := json.Unmarshal(b, v); err != nil {
		return fmt.Errorf("%s: %v", path, err)
	}
	return nil
}

func LoadSpec(dir string) (*Spec, error) {
	sp := &Spec{Dir: dir, G: map[string]*Grammar{}}
	if err := readJSON(filepath.Join(dir, "passes.json"), sp); err != nil {
		return nil, err
	}
	t, err := LoadTables(dir)
	if err != nil {
		return nil, err
	}
	sp.Tables = t
	return sp, nil
}

func (sp *Spec) LoadGrammars(repo string) error {
	for _, gs := range sp.Grammars {
		tok := ""
		if gs.Tokens != "" {
			tok = filepath.Join(repo, gs.Tokens)
		}
		g, err := ParseGrammar(filepath.Join(repo, gs.File), tok)
		if err != nil {
			return err
		}
		if len(g.Rules) == 0 {
			return fmt.Errorf("grammar %s: no rules", gs.File)
		}
		sp.G[gs.Name] = g
	}
	return nil
}

func (sp *Spec) Pass(name string) *PassSpec {
	for i := range sp.Passes {
		if sp.Passes[i].Name == name {
			return &sp.Passes[i]
		}
	}
	return nil
}

type PropInfo struct {
	Explanation string
	Assumptions []string
}

var commonAssumptions = []string{
	"go/packages + go/types + go/ssa (x/tools v0.29.0) resolve /repo's program as the go build does (no build tags exist in the module)",
	"ANTLR-generated parsers under languages/ and third-party modules are the trusted base; on a syntactically valid unit the parse tree conforms to the shipped .g4 grammar, the walker fires Enter/Exit in document order and accessors return nil for absent children",
	"the check decides the structural clauses listed in DESIGN.md §4 for this property, not the behaviour over all inputs",
}

var propInfo = map[string]PropInfo{}

func init() {
	add := func(id, expl string, extra ...string) {
		propInfo[id] = PropInfo{Explanation: expl, Assumptions: append(append([]string{}, commonAssumptions...), extra...)}
	}
	add("C01", "Static rules over the two Java listeners: override completeness against the generated listener interface (E6), must-record on every CFG path of the declaration callbacks (E6), field provenance of the recorded entries (E5), file-filter decision tables (E5), per-file state discipline of both passes (E3).")
	add("C02", "Static rules over the full listener: EnterMethodCall/EnterCreator declared and must-record (E6), position provenance of call sites against grammar first-token facts (E5+E1), equality of the current-function key at read and write (E5), per-file state of the receiver tables (E3), rune/byte unit note (E7).")
	add("C03", "Termination of BuildCallChain by budget-counter ranking (E6), budget reset at every entry (E3), edge provenance and emission-loop completeness (E5/E6), DOT quoting of spliced operands (E7).")
	add("C04", "Termination of BuildRCallChain by budget-counter ranking (E6), reset of loopCount/lastChild at entry (E3), guard table of BuildMethodCallMap (E5), emission loop without discarding exits (E6), DOT quoting (E7).")
	add("C05", "Unit agreement between rune columns and byte offsets in the splice (E7), stale-coordinate rule for repeated in-place edits (E7), frame rules: same separator, same path, only the addressed line stored (E7), matching guard table (E5).")
	add("C06", "No stale read across per-file epochs (E3), keep/delete decision table incl. the empty domain (E5), declared reference-recording callbacks (E6), frame rules of removeLine (E7).")
	add("C07", "Process-global state discipline (E3): every mutable package-level variable read by a pass is killed with a state-independent value at unit entry, is self-only, is injected per unit, or is a bracketed flag proved from the grammar; budget counters of call/rcall are killed at every entry.")
	add("C08", "Iteration-order sensitivity (E4): every range over a map in coca's packages is classified commutative / collection(+sorted) / order-dependent; promised orders are established by a sort with the promised comparator; binary-search precondition; goroutine/select/rand audit.")
	add("C09", "Shape/nil/bounds abstract interpretation (E2) of every function reachable from the Java listeners and the todo scan, against the shipped JavaParser.g4 (E1): unchecked assertions, nil dereferences of optional children, constant-index slicing; JSON-serialisable result types; no recover/log.Fatal/os.Exit in a pass.")
	add("C10", "Decision tables of the bad-smell detectors compared with the thresholds stated in the property by exhaustive valuation over order regions (E5); thresholds effectively final (E3); provenance of File/Line/Size (E5); sort comparator and sized-kind membership (E4).")
	add("C11", "Decision tables of the test-smell detectors and predicates compared with the property's table (E5); gate on IsJunitTest; provenance of FileName/Line; map range monotone (E4); cmd/tbs.go feeds only test files.")
	add("C12", "Per-file state of the API listener (E3), annotation/verb decision tables (E5), must-record of handler entries (E6), shape obligations of the listener (E2).")
	add("C13", "Guard tables of the architecture graph builder (E5), relation provenance (E5), injective map keys for relations (E7), DOT edge guard between laid-out nodes (E5).")
	add("C14", "Classifier anchoring of the line regexps (E7), bounds of submatch indexing (E2), parser register reset (E3), agreement between the git --pretty format and the extraction order / numstat field provenance (E7/E5).")
	add("C15", "Comparator direction of promised orders (E4), provenance of summary fields (E5), accumulate-once rules for commit/line counters (E6), delete guard (E5).")
	add("C16", "Must-precede of per-directory processor options before runProcessor on every path (E6), ignore-dir table (E5), row layout/sum idiom (E5), top-file comparator and slice bound (E4/E2).")
	add("C17", "Bounds and prefix/strip agreement in ParseComment (E2/E7), token-type literals equal the generated lexer constants (E7), identifier table effectively final and prefix recognition (E5), line provenance, extension filter table (E5).")
	add("C18", "Binary-search precondition at IsStatic (E4), count structure of BuildCallMap (E5), SortWord key order (E4), nullable decision table and map de-duplication (E5), IsReturnNull accumulator rule (E5).")
	add("C19", "Shape obligations of the Groovy walker against GroovyParser.g4 and of the Maven reader (E2), quote-stripping provenance (E5), unused ⇔ no import contains GroupId (E5), declaration order preserved (E4).")
	add("C20", "Pointer aliasing of loop-carried structs in the Go visitor (E7), nil dereference of map lookups and optional go/ast fields (E2), Python listener override completeness and shape obligations (E6/E2), interface guard vs spec (E5), SortInterface by name (E4).")
}
