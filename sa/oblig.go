package main

import (
	"crypto/sha256"
	"encoding/hex"
	"encoding/json"
	"fmt"
	"os"
	"path/filepath"
	"sort"
	"strings"
)

const (
	Discharged = "discharged"
	Violated   = "violated"
	Undecided  = "undecided"
	Note       = "note" // advisory; never affects the verdict
)

// Obligation is one decided (or failed) proof obligation about one construct.
type Obligation struct {
	Props      []string `json:"props"`
	Rule       string   `json:"rule"`
	Construct  string   `json:"construct"`
	Status     string   `json:"status"`
	Reason     string   `json:"reason"`
	Pos        string   `json:"pos,omitempty"`
	Nontrivial bool     `json:"nontrivial,omitempty"` // discharge needed a non-syntactic argument
	Tier       string   `json:"tier,omitempty"`       // "thorough" = only reported in the thorough tier
}

type Result struct {
	TreeHash    string         `json:"tree_hash"`
	Packages    int            `json:"packages"`
	OwnPackages int            `json:"own_packages"`
	Functions   int            `json:"functions"`
	Obligations []Obligation   `json:"obligations"`
	Controls    []string       `json:"controls_fired"`
	Counts      map[string]int `json:"counts"`
	LoadSeconds float64        `json:"load_s"`
	RunSeconds  float64        `json:"run_s"`
	Fatal       []string       `json:"fatal,omitempty"` // unresolved anchors, engine panics, floors
}

type Collector struct {
	res  *Result
	seen map[string]int
}

func NewCollector() *Collector {
	return &Collector{res: &Result{Counts: map[string]int{}}, seen: map[string]int{}}
}

func (c *Collector) Add(o Obligation) {
	k := o.Rule + "|" + o.Construct
	if n, ok := c.seen[k]; ok {
		// same rule+construct twice: disambiguate deterministically
		c.seen[k] = n + 1
		o.Construct = fmt.Sprintf("%s#%d", o.Construct, n+1)
	} else {
		c.seen[k] = 1
	}
	c.res.Obligations = append(c.res.Obligations, o)
}

func (c *Collector) Ob(props []string, rule, construct, status, reason, pos string, nontrivial bool) {
	c.Add(Obligation{Props: props, Rule: rule, Construct: construct, Status: status, Reason: reason, Pos: pos, Nontrivial: nontrivial})
}

func (c *Collector) Fatal(format string, a ...interface{}) {
	c.res.Fatal = append(c.res.Fatal, fmt.Sprintf(format, a...))
}

// Anchor: a function, type, variable or call site that a rule instance is anchored in no longer resolves. The rule
// cannot be evaluated, which fails the properties it serves (an undecided obligation), not the whole run.
func (c *Collector) Anchor(props []string, format string, a ...interface{}) {
	msg := fmt.Sprintf(format, a...)
	if len(props) == 0 {
		c.Fatal("%s", msg)
		return
	}
	c.Add(Obligation{Props: props, Rule: "anchor", Construct: msg, Status: Undecided, Reason: "rule instance lost its anchor: " + msg})
}

func (c *Collector) Count(k string, n int) { c.res.Counts[k] += n }

// ---------------------------------------------------------------------------------------------
// known findings

type Finding struct {
	Property  string `json:"property"`
	Rule      string `json:"rule"`
	Construct string `json:"construct"`
	What      string `json:"what"`
	Witness   string `json:"witness"`
}

type KnownFindings struct {
	Findings []Finding `json:"findings"`
	Fixed    []string  `json:"fixed"`
}

func loadKnown(path string) (*KnownFindings, error) {
	var k KnownFindings
	b, err := os.ReadFile(path)
	if err != nil {
		if os.IsNotExist(err) {
			return &k, nil
		}
		return nil, err
	}
	if err := json.Unmarshal(b, &k); err != nil {
		return nil, err
	}
	return &k, nil
}

func (k *KnownFindings) match(prop string, o Obligation) *Finding {
	for i := range k.Findings {
		f := &k.Findings[i]
		if f.Property == prop && f.Rule == o.Rule && f.Construct == o.Construct {
			return f
		}
	}
	return nil
}

// ---------------------------------------------------------------------------------------------
// evidence

func hasProp(o Obligation, id string) bool {
	for _, p := range o.Props {
		if p == id {
			return true
		}
	}
	return false
}

type sample struct {
	Rule      string `json:"rule"`
	Construct string `json:"construct"`
	Status    string `json:"status"`
	Reason    string `json:"reason"`
	Pos       string `json:"pos,omitempty"`
}

// report filters the result for one property, prints the verdict lines and writes the evidence file.
// Returns the process exit code.
func report(res *Result, id, tier string, seed int, known *KnownFindings, verifDir string, wall float64, explanation string, assumptions []string) int {
	var obs []Obligation
	for _, o := range res.Obligations {
		if !hasProp(o, id) {
			continue
		}
		if o.Tier == "thorough" && tier != "thorough" {
			continue
		}
		obs = append(obs, o)
	}
	sort.SliceStable(obs, func(i, j int) bool {
		if obs[i].Rule != obs[j].Rule {
			return obs[i].Rule < obs[j].Rule
		}
		return obs[i].Construct < obs[j].Construct
	})
	exit := 0
	var nObl, nDis, nViol, nKnown, nNotes int
	distinct := map[string]bool{}
	rules := map[string]int{}
	var samples []sample
	var violSamples []sample
	var knownMatched []string
	for _, o := range obs {
		if o.Status == Note {
			nNotes++
			continue
		}
		nObl++
		rules[o.Rule]++
		switch o.Status {
		case Discharged:
			nDis++
			if o.Nontrivial {
				distinct[o.Rule+"|"+o.Construct] = true
			}
		default:
			if f := known.match(id, o); f != nil && o.Status == Violated {
				nKnown++
				knownMatched = append(knownMatched, o.Rule+"|"+o.Construct)
				fmt.Printf("KNOWN-FINDING: property=%s %s [%s %s] %s\n", id, f.What, o.Rule, o.Construct, o.Pos)
				continue
			}
			nViol++
			violSamples = append(violSamples, sample{o.Rule, o.Construct, o.Status, o.Reason, o.Pos})
		}
	}
	// samples: up to 3 per rule, violations first
	perRule := map[string]int{}
	samples = append(samples, violSamples...)
	for _, o := range obs {
		if o.Status != Discharged {
			continue
		}
		if perRule[o.Rule] >= 3 {
			continue
		}
		perRule[o.Rule]++
		samples = append(samples, sample{o.Rule, o.Construct, o.Status, o.Reason, o.Pos})
	}
	if len(samples) > 80 {
		samples = samples[:80]
	}
	if len(res.Fatal) > 0 {
		for _, f := range res.Fatal {
			fmt.Printf("FATAL: %s\n", f)
		}
		exit = 2
	}
	if nObl == 0 {
		fmt.Printf("FATAL: property %s has no obligations (vacuous check)\n", id)
		exit = 2
	}
	if nViol > 0 {
		// replay file: the violated obligations, reproducible by re-running the check
		dir := filepath.Join(verifDir, "evidence", "violations")
		_ = os.MkdirAll(dir, 0o755)
		h := sha256.New()
		for _, v := range violSamples {
			h.Write([]byte(v.Rule + "|" + v.Construct + "\n"))
		}
		name := fmt.Sprintf("%s-%s.json", id, hex.EncodeToString(h.Sum(nil))[:12])
		path := filepath.Join(dir, name)
		b, _ := json.MarshalIndent(map[string]interface{}{"property": id, "tree_hash": res.TreeHash, "violations": violSamples,
			"replay": fmt.Sprintf("cd /verif && ./check %s %s", id, tier)}, "", " ")
		_ = os.WriteFile(path, b, 0o644)
		for _, v := range violSamples {
			fmt.Printf("  %s: %s [%s] %s: %s\n", v.Status, v.Pos, v.Rule, v.Construct, v.Reason)
		}
		fmt.Printf("VIOLATION property=%s replay=%s\n", id, path)
		if exit == 0 {
			exit = 1
		}
	}
	ruleNames := make([]string, 0, len(rules))
	for r := range rules {
		ruleNames = append(ruleNames, fmt.Sprintf("%s×%d", r, rules[r]))
	}
	sort.Strings(ruleNames)
	ev := map[string]interface{}{
		"property_id": id,
		"tier":        tier,
		"seed":        seed,
		"level":       "other",
		"coverage": map[string]interface{}{
			"explanation":            explanation,
			"obligations":            nObl,
			"discharged":             nDis,
			"evaluations":            nObl,
			"distinct_nontrivial":    len(distinct),
			"rule":                   "one obligation per (rule, construct) found in /repo's type-checked program; distinct_nontrivial counts discharged obligations whose discharge needed a dominance, dataflow, grammar or table-equivalence argument (not a mere presence check)",
			"samples":                samples,
			"rule_instances":         ruleNames,
			"known_findings_matched": knownMatched,
			"notes":                  nNotes,
			"packages":               res.Packages,
			"own_packages":           res.OwnPackages,
			"functions_analysed":     res.Functions,
			"controls_fired":         res.Controls,
			"tree_hash":              res.TreeHash,
			"counts":                 res.Counts,
			"checker_cmd":            fmt.Sprintf("./check %s %s", id, tier),
			"trusted_base":           []string{"go/types + go/ssa (x/tools v0.29.0)", "ANTLR-generated parsers under languages/", "third-party modules"},
			"exhaustive":             false,
		},
		"assumptions": assumptions,
		"wall_s":      wall,
		"violations":  nViol,
	}
	b, _ := json.MarshalIndent(ev, "", " ")
	_ = os.MkdirAll(filepath.Join(verifDir, "evidence"), 0o755)
	if err := os.WriteFile(filepath.Join(verifDir, "evidence", id+".json"), b, 0o644); err != nil {
		fmt.Printf("FATAL: cannot write evidence: %v\n", err)
		return 2
	}
	fmt.Printf("%s %s: %d obligations, %d discharged, %d known findings, %d violations, %d notes (%s)\n",
		id, tier, nObl, nDis, nKnown, nViol, nNotes, strings.Join(ruleNames, " "))
	return exit
}
