package main

import (
	"os"
	"path/filepath"
)

// Tables: frozen oracle tables derived from the property statements and from confirmed reading of the code
// (never source text or positions; functions are named by their resolved keys).
type Tables struct {
	// E4
	CommutativeCallees map[string]string   `json:"commutative_callees"` // callee -> reason
	RangeProps         map[string][]string `json:"range_props"`         // function -> extra properties its map ranges serve
	RangeExempt        map[string]string   `json:"range_exempt"`        // function -> reason (exemption granted by a property statement)
	Orders             []OrderSpec         `json:"orders"`
	SchedAllowed       map[string]string   `json:"sched_allowed"`
	OrderedProducers   []OrderedProducer   `json:"ordered_producers"` // packages whose results feed an order-sensitive selection
	Floors             map[string]int      `json:"floors"`
	OrderSinks         map[string]string   `json:"order_sinks"` // "<rel pkg>.<Type>.<Field>" -> why the order of the list kept there matters (a budgeted or first-match consumer further on)
	IdentityFields     map[string][]string `json:"identity_fields"` // element type -> fields that identify an element (from the property statements: per entity, per author)
	// E6
	Listeners     []ListenerSpec      `json:"listeners"`
	MustCall      []MustCallSpec      `json:"must_call"`
	Pairs         []PairSpec          `json:"pairs"`
	EmissionLoops []LoopSpec          `json:"emission_loops"`
	Precede       []PrecedeSpec       `json:"precede"`
	ConsumeReset  []ConsumeResetSpec  `json:"consume_reset"`
	Nesting       []NestingSpec       `json:"nesting"`
	CoAccess      []CoAccessSpec      `json:"co_access"`
	NestedKills   []NestedKillSpec    `json:"nested_kills"`
	RuleCoverage  []RuleCoverageSpec  `json:"rule_coverage"`
	Positional    []PositionalSpec    `json:"positional_access"`
	Termination   TermSpec            `json:"termination"`
	FuncProps     map[string][]string `json:"func_props"` // function key -> properties that depend on its termination
	// E5
	E5 []E5Row `json:"e5"`
	// E2
	E2 []E2Scope `json:"e2"`
	// E7
	E7 E7Spec `json:"e7"`
}

func LoadTables(dir string) (*Tables, error) {
	t := &Tables{CommutativeCallees: map[string]string{}, RangeProps: map[string][]string{}, RangeExempt: map[string]string{}, SchedAllowed: map[string]string{}, Floors: map[string]int{}, FuncProps: map[string][]string{}}
	for _, f := range []string{"e4.json", "e6.json", "e5.json", "e2.json", "e7.json"} {
		path := filepath.Join(dir, f)
		if _, err := os.Stat(path); err != nil {
			continue
		}
		if err := readJSON(path, t); err != nil {
			return nil, err
		}
	}
	return t, nil
}
