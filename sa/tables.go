package main

type Tables struct{}

func LoadTables(dir string) (*Tables, error) { return &Tables{}, nil }
