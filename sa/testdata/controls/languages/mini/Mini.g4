parser grammar Mini;

unit
    : item* EOF
    ;

item
    : KW name opt? body
    | SEMI
    ;

name
    : ID
    ;

opt
    : LP ID RP
    ;

body
    : LB item* RB
    ;
