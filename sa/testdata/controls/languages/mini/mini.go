// Package parser is a hand-written stand-in for an ANTLR-generated parser: just enough surface (context types, child
// accessors, listener interface) for the analyser's positive controls. It is never executed.
package parser

type Tree interface {
	GetChild(i int) Tree
	GetParent() Tree
	GetText() string
	GetChildCount() int
}

type ParseTree = Tree

type base struct {
	children []Tree
	parent   Tree
}

func (b *base) GetChild(i int) Tree {
	if len(b.children) >= i {
		return b.children[i]
	}
	return nil
}
func (b *base) GetParent() Tree    { return b.parent }
func (b *base) GetText() string    { return "" }
func (b *base) GetChildCount() int { return len(b.children) }

type TerminalNode interface{ Tree }

type IUnitContext interface{ Tree }
type IItemContext interface{ Tree }
type INameContext interface{ Tree }
type IOptContext interface{ Tree }
type IBodyContext interface{ Tree }

type UnitContext struct{ base }
type ItemContext struct{ base }
type NameContext struct{ base }
type OptContext struct{ base }
type BodyContext struct{ base }

func (s *UnitContext) AllItem() []IItemContext { return nil }
func (s *ItemContext) Name() INameContext {
	for _, c := range s.children {
		if t, ok := c.(INameContext); ok {
			return t
		}
	}
	return nil
}
func (s *ItemContext) Opt() IOptContext {
	for _, c := range s.children {
		if t, ok := c.(*OptContext); ok {
			return t
		}
	}
	return nil
}
func (s *ItemContext) Body() IBodyContext { return nil }
func (s *ItemContext) KW() TerminalNode   { return nil }
func (s *OptContext) ID() TerminalNode    { return nil }
func (s *BodyContext) AllItem() []IItemContext {
	return nil
}

type MiniListener interface {
	EnterUnit(c *UnitContext)
	ExitUnit(c *UnitContext)
	EnterItem(c *ItemContext)
	ExitItem(c *ItemContext)
	EnterName(c *NameContext)
	ExitName(c *NameContext)
	EnterOpt(c *OptContext)
	ExitOpt(c *OptContext)
	EnterBody(c *BodyContext)
	ExitBody(c *BodyContext)
}

type BaseMiniListener struct{}

func (s *BaseMiniListener) EnterUnit(c *UnitContext) {}
func (s *BaseMiniListener) ExitUnit(c *UnitContext)  {}
func (s *BaseMiniListener) EnterItem(c *ItemContext) {}
func (s *BaseMiniListener) ExitItem(c *ItemContext)  {}
func (s *BaseMiniListener) EnterName(c *NameContext) {}
func (s *BaseMiniListener) ExitName(c *NameContext)  {}
func (s *BaseMiniListener) EnterOpt(c *OptContext)   {}
func (s *BaseMiniListener) ExitOpt(c *OptContext)    {}
func (s *BaseMiniListener) EnterBody(c *BodyContext) {}
func (s *BaseMiniListener) ExitBody(c *BodyContext)  {}

type Walker struct{}

func (w *Walker) Walk(l MiniListener, t Tree) {}
