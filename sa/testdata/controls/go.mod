module github.com/modernizing/coca

go 1.18
