package ctl

import (
	"path/filepath"
	"strings"
)

// ---- round 10: read-only shared table, path as pattern, list flattened twice, raw list handed to a reader, goroutines sharing
// a channel, characters against bytes

var sharedIdents map[string]int

func SetSharedIdents(m map[string]int) { sharedIdents = m }

func LookupIdentGood(name string) int { return sharedIdents[name] }

func RegisterIdentBad(name string) { sharedIdents[name] = 1 }

func SubdirsBad(root string) []string {
	m, _ := filepath.Glob(filepath.Join(root, "*"))
	return m
}

func countFlat(us []Unit) int {
	n := 0
	for _, u := range flattenUnits(us) {
		n += len(u.Methods)
	}
	return n
}

func CountTwiceBad(us []Unit) int {
	all := flattenUnits(us)
	return countFlat(all)
}

func methodsOf(us []Unit) int {
	n := 0
	for _, u := range us {
		n += len(u.Methods)
	}
	return n
}

func CountRawReaderBad(us []Unit) int {
	total := methodsOf(us)
	for _, u := range flattenUnits(us) {
		total += len(u.Methods)
	}
	return total
}

func FanOutBad(items []string) []string {
	out := make(chan string)
	for _, it := range items {
		go func(s string) { out <- s }(it)
	}
	var got []string
	for range items {
		got = append(got, <-out)
	}
	return got
}

func ShortenBad(msg string) string {
	if len(msg) <= 8 {
		return msg
	}
	return string([]rune(msg)[:8])
}

func ShortenGood(msg string) string {
	r := []rune(msg)
	if len(r) <= 8 {
		return msg
	}
	return string(r[:8])
}

// ---- fresh record

type FileRec struct {
	Pkg  string
	Name string
}

func NewFileRec() *FileRec { return &FileRec{} }

var curRecOfFile = NewFileRec()
var pkgOfFile string

func NextRecBad()  { curRecOfFile = NewFileRec() }
func NextRecGood() { curRecOfFile = NewFileRec(); curRecOfFile.Pkg = pkgOfFile }
func SetPkgOfFile(p string) {
	pkgOfFile = p
	curRecOfFile.Pkg = p
}

// ---- copied record

type TypeRec struct {
	Pkg    string
	Super  string
	Ifaces []string
}

var curTypeRec = &TypeRec{}

func EnterMemberBad() {
	member := *curTypeRec
	curTypeRec = &member
}

func EnterMemberGood() {
	member := *curTypeRec
	member.Super = ""
	member.Ifaces = nil
	curTypeRec = &member
}

// ---- length of a trimmed copy used as an offset

func AfterNameBad(t, match string) string {
	name := trimBlanks(match[1 : len(match)-1])
	_ = name
	return t[len(strings.TrimSpace(match))+2:]
}

func AfterNameGood(t, match string) string {
	return t[len(match):]
}

func trimBlanks(s string) string {
	for len(s) > 0 && s[0] == ' ' {
		s = s[1:]
	}
	return s
}
