package ctl

import "sort"

// ---- E4: a sort that leaves ties, consumed by a cut or kept in an order-sensitive field; E7: render once, cross product;
// E2: arithmetic slice bounds

type Ranked struct {
	Name  string
	Count int
}

func rankedByCountBad(m map[string]int) []Ranked {
	var rows []Ranked
	for k, v := range m {
		rows = append(rows, Ranked{k, v})
	}
	sort.Slice(rows, func(i, j int) bool { return rows[i].Count > rows[j].Count })
	return rows
}

func rankedByCountGood(m map[string]int) []Ranked {
	var rows []Ranked
	for k, v := range m {
		rows = append(rows, Ranked{k, v})
	}
	sort.Slice(rows, func(i, j int) bool {
		if rows[i].Count != rows[j].Count {
			return rows[i].Count > rows[j].Count
		}
		return rows[i].Name < rows[j].Name
	})
	return rows
}

func TopRankedBad(m map[string]int, n int) []Ranked {
	rows := rankedByCountBad(m)
	if len(rows) > n {
		rows = rows[:n]
	}
	return rows
}

func TopRankedGood(m map[string]int, n int) []Ranked {
	rows := rankedByCountGood(m)
	if len(rows) > n {
		rows = rows[:n]
	}
	return rows
}

type Shelf struct{ Items []Ranked }

func (s *Shelf) FillBad(m map[string]Ranked) {
	var rows []Ranked
	for _, v := range m {
		rows = append(rows, v)
	}
	sort.Slice(rows, func(i, j int) bool { return rows[i].Count < rows[j].Count })
	s.Items = rows
}

type MiniTable struct{ rows [][]string }

func (t *MiniTable) Append(r []string) { t.rows = append(t.rows, r) }
func (t *MiniTable) Render() int       { return len(t.rows) }
func (t *MiniTable) ClearRows()        { t.rows = nil }

func ReportBad(a, b []string) int {
	t := &MiniTable{}
	t.Append(a)
	n := t.Render()
	t.Append(b)
	return n + t.Render()
}

func ReportGood(a, b []string) int {
	t := &MiniTable{}
	t.Append(a)
	n := t.Render()
	t.ClearRows()
	t.Append(b)
	return n + t.Render()
}

type Stmt struct {
	Lhs, Rhs []string
}

type Body struct{ Calls []string }

func CallsOfBad(st *Stmt, body *Body) {
	for range st.Lhs {
		for _, r := range st.Rhs {
			if r != "" {
				body.Calls = append(body.Calls, r)
			}
		}
	}
}

func CallsOfGood(st *Stmt, body *Body) {
	for _, l := range st.Lhs {
		for _, r := range st.Rhs {
			if r != "" {
				body.Calls = append(body.Calls, l+"="+r)
			}
		}
	}
}

var topSize int

func FirstFewBad(files []string) []string {
	n := len(files)
	if n >= topSize {
		n = topSize
	}
	return files[:n]
}

func FirstFewGood(files []string) []string {
	n := len(files)
	if n >= topSize {
		n = topSize
	}
	if n < 0 {
		n = 0
	}
	return files[:n]
}

func SetTopSize(n int) { topSize = n }
