package ctl

import (
	"go/ast"
	"strings"
)

// ---- E7: text identity, grown while ranged, append only, paired undo, handled means filed, constant word as cutset, getter
// result filtered in place, imports before the own package; E2: unchecked assertion on a go/ast interface

func lexText(code string) int { return len(code) }

func LexBad(code string) int  { return lexText(strings.ToValidUTF8(code, "?")) }
func LexGood(code string) int { return lexText(code) }

func FlattenBad(us []Unit) []Unit {
	all := append([]Unit{}, us...)
	for _, u := range all {
		all = append(all, u.Members...)
	}
	return all
}

func FlattenGood(us []Unit) []Unit {
	all := append([]Unit{}, us...)
	for i := 0; i < len(all); i++ {
		all = append(all, all[i].Members...)
	}
	return all
}

var parsedLines []string

func ParseLinesGood(in []string) {
	parsedLines = nil
	for _, l := range in {
		parsedLines = append(parsedLines, l)
	}
}

func ParseLinesBad(in []string) {
	ParseLinesGood(in)
	if len(parsedLines) > 1 {
		parsedLines[0], parsedLines[len(parsedLines)-1] = parsedLines[len(parsedLines)-1], parsedLines[0]
	}
}

type DepthListener struct{}

type DepthCtx struct{ Block *int }

var defDepth int
var blockDepth int

func (d *DepthListener) EnterDef(ctx *DepthCtx) {
	if defDepth > 0 {
		return
	}
	defDepth++
}

func (d *DepthListener) ExitDef(ctx *DepthCtx) {
	if defDepth > 0 {
		defDepth--
	}
}

func (d *DepthListener) EnterBlock(ctx *DepthCtx) {
	blockDepth++
	if blockDepth > 1 {
		return
	}
}

func (d *DepthListener) ExitBlock(ctx *DepthCtx) {
	if blockDepth > 0 {
		blockDepth--
	}
}

var filed []string

func FileIfKnownBad(name string, known []string) bool {
	for _, k := range known {
		if k == name {
			if strings.HasPrefix(name, "svc") {
				filed = append(filed, name)
				break
			}
		}
	}
	return true
}

func FileIfKnownGood(name string, known []string) bool {
	for _, k := range known {
		if k == name && strings.HasPrefix(name, "svc") {
			filed = append(filed, name)
			return true
		}
	}
	return false
}

func StripThisBad(s string) string  { return strings.TrimLeft(s, "this.") }
func StripThisGood(s string) string { return strings.TrimPrefix(s, "this.") }

type ImportHolder struct{ imports []string }

func (h *ImportHolder) GetImports() []string { return h.imports }

func UnusedBad(h *ImportHolder) []string {
	out := h.GetImports()[:0]
	for _, i := range h.GetImports() {
		if i != "" {
			out = append(out, i)
		}
	}
	return out
}

func ResolveOwnFirstBad(name string) string {
	if classIndex[currentPkg+"."+name] {
		return currentPkg + "." + name
	}
	for _, imp := range imports {
		if strings.HasSuffix(imp, "."+name) {
			return imp
		}
	}
	return ""
}

func ResolveImportFirstGood(name string) string {
	for _, imp := range imports {
		if strings.HasSuffix(imp, "."+name) {
			return imp
		}
	}
	if classIndex[currentPkg+"."+name] {
		return currentPkg + "." + name
	}
	return ""
}

func RecvNameBad(e ast.Expr) string { return e.(*ast.Ident).Name }

func RecvNameGood(e ast.Expr) string {
	if id, ok := e.(*ast.Ident); ok {
		return id.Name
	}
	return ""
}
