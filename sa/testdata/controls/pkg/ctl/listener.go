package ctl

import (
	"reflect"

	parser "github.com/modernizing/coca/languages/mini"
)

// ---- listener pass "mini": E3 (leak, kill, bracket), E6 (override / orphan), E2 (grammar-typed navigation)

var seenNames []string               // killed at entry: ok
var leakyTable = map[string]string{} // never re-made: leaky
var inItem = false                   // bracketed by Enter/ExitItem: ok
var stuck = false                    // set in EnterOpt, reset nowhere after it: not bracketed

type MiniListener struct {
	parser.BaseMiniListener
}

func NewMiniListener() *MiniListener {
	seenNames = nil
	return &MiniListener{}
}

func (s *MiniListener) EnterItem(ctx *parser.ItemContext) {
	inItem = true
	// ok: name is mandatory in the `KW name opt? body` alternative only — the SEMI alternative has no name: nil deref
	n := ctx.Name().GetText()
	seenNames = append(seenNames, n+leakyTable[n])
	leakyTable[n] = n
	// bad: opt is optional
	_ = ctx.Opt().GetText()
	// ok: guarded
	if ctx.Opt() != nil {
		_ = ctx.Opt().GetText()
	}
	// bad: child 1 of `KW name …` is a name, of `SEMI` it does not exist
	_ = ctx.GetChild(1).(*parser.OptContext)
	// ok: type test first
	if reflect.TypeOf(ctx.GetChild(1)).String() == "*parser.NameContext" {
		_ = ctx.GetChild(1).(*parser.NameContext)
	}
	if inItem && stuck {
		seenNames = nil
	}
}

func (s *MiniListener) ExitItem(ctx *parser.ItemContext) {
	inItem = false
	// bad: the comma-ok result boxed into an interface is never == nil, the nil *OptContext is used
	if o := optOf(ctx); o != nil {
		_ = o.(*parser.OptContext).ID()
	}
	// ok: the pointer itself is tested
	if o, ok := ctx.GetChild(2).(*parser.OptContext); ok {
		_ = o.ID()
	}
	// bad: child 0 of an item is a terminal (KW or SEMI), terminals have no children: TypeOf(nil).String()
	if reflect.TypeOf(ctx.GetChild(0).GetChild(0)).String() == "*parser.NameContext" {
		_ = 1
	}
}

func optOf(ctx *parser.ItemContext) parser.IOptContext {
	o, _ := ctx.GetChild(2).(*parser.OptContext)
	return o
}

// ---- E6 nested kill: body → item → body; a lookup table re-made on every body loses the enclosing body's entries
var scopeTable = map[string]string{}
var outerTable = map[string]string{}
var bodyDepth = 0

func (s *MiniListener) EnterBody(ctx *parser.BodyContext) {
	bodyDepth++
	scopeTable = map[string]string{} // bad: also for a nested body
}

func (s *MiniListener) ExitBody(ctx *parser.BodyContext) {
	bodyDepth--
	if bodyDepth == 0 {
		outerTable = map[string]string{} // ok: only when the outermost body ends
	}
}

func (s *MiniListener) EnterOpt(ctx *parser.OptContext) {
	stuck = true
}

// orphan: looks like a callback, is none
func (s *MiniListener) EnterNmae(ctx *parser.NameContext) {}

func (s *MiniListener) Names() []string { return seenNames }

func Drive(trees []parser.Tree) []string {
	var out []string
	for _, t := range trees {
		l := NewMiniListener()
		new(parser.Walker).Walk(l, t)
		out = append(out, l.Names()...)
	}
	return out
}

// hoisted: the listener is built once for all units
func DriveHoisted(trees []parser.Tree) []string {
	l := NewMiniListener()
	for _, t := range trees {
		new(parser.Walker).Walk(l, t)
	}
	return l.Names()
}

// co-access: the name of an item without a look at its optional part
func nameOnly(ctx *parser.ItemContext) string {
	if ctx.Name() == nil {
		return ""
	}
	return ctx.Name().GetText()
}
