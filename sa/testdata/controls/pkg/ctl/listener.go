package ctl

import (
	"reflect"

	parser "github.com/modernizing/coca/languages/mini"
)

// ---- listener pass "mini": E3 (leak, kill, bracket), E6 (override / orphan), E2 (grammar-typed navigation)

var seenNames []string               // killed at entry: ok
var leakyTable = map[string]string{} // never re-made: leaky
var inItem = false                   // bracketed by Enter/ExitItem: ok
var stuck = false                    // set in EnterOpt, reset nowhere after it: not bracketed

type MiniListener struct {
	parser.BaseMiniListener
}

func NewMiniListener() *MiniListener {
	seenNames = nil
	return &MiniListener{}
}

func (s *MiniListener) EnterItem(ctx *parser.ItemContext) {
	inItem = true
	if ctx.Opt() != nil {
		mode = "opt"
		mode2 = "opt"
	}
	_ = bodyOfBad(ctx)
	_ = bodyOfGood(ctx)
	// ok: name is mandatory in the `KW name opt? body` alternative only — the SEMI alternative has no name: nil deref
	n := ctx.Name().GetText()
	seenNames = append(seenNames, n+leakyTable[n])
	leakyTable[n] = n
	// bad: opt is optional
	_ = ctx.Opt().GetText()
	// ok: guarded
	if ctx.Opt() != nil {
		_ = ctx.Opt().GetText()
	}
	// bad: child 1 of `KW name …` is a name, of `SEMI` it does not exist
	_ = ctx.GetChild(1).(*parser.OptContext)
	// ok: type test first
	if reflect.TypeOf(ctx.GetChild(1)).String() == "*parser.NameContext" {
		_ = ctx.GetChild(1).(*parser.NameContext)
	}
	if inItem && stuck {
		seenNames = nil
	}
}

func (s *MiniListener) ExitItem(ctx *parser.ItemContext) {
	inItem = false
	mode = ""
	if ctx.Opt() != nil {
		mode2 = ""
	}
	inBodyFlag = false
	if ctx.Opt() != nil {
		inBodyFlag2 = false
	}
	// bad: the comma-ok result boxed into an interface is never == nil, the nil *OptContext is used
	if o := optOf(ctx); o != nil {
		_ = o.(*parser.OptContext).ID()
	}
	// ok: the pointer itself is tested
	if o, ok := ctx.GetChild(2).(*parser.OptContext); ok {
		_ = o.ID()
	}
	// bad: child 0 of an item is a terminal (KW or SEMI), terminals have no children: TypeOf(nil).String()
	if reflect.TypeOf(ctx.GetChild(0).GetChild(0)).String() == "*parser.NameContext" {
		_ = 1
	}
}

func optOf(ctx *parser.ItemContext) parser.IOptContext {
	o, _ := ctx.GetChild(2).(*parser.OptContext)
	return o
}

// ---- E6 nested kill: body → item → body; a lookup table re-made on every body loses the enclosing body's entries
var scopeTable = map[string]string{}
var outerTable = map[string]string{}
var bodyDepth = 0

func (s *MiniListener) EnterBody(ctx *parser.BodyContext) {
	inBodyFlag = true
	inBodyFlag2 = true
	bodyDepth++
	scopeTable = map[string]string{} // bad: also for a nested body
}

func (s *MiniListener) ExitBody(ctx *parser.BodyContext) {
	bodyDepth--
	if bodyDepth == 0 {
		outerTable = map[string]string{} // ok: only when the outermost body ends
	}
}

// ---- E6 nested bracket / cross bracket / positional access
var mode = ""          // set for items with an opt only, taken back for every item: bad
var mode2 = ""         // taken back under the same test: ok
var inBodyFlag = false // set when a body begins, taken back when ANY item ends (items also hang under unit): bad
var inBodyFlag2 = false

// bad: the body of `KW name opt? body` is child 2 without an opt and child 3 with one
func bodyOfBad(ctx *parser.ItemContext) *parser.BodyContext {
	b, _ := ctx.GetChild(2).(*parser.BodyContext)
	return b
}

func bodyOfGood(ctx *parser.ItemContext) *parser.BodyContext {
	if b, ok := ctx.GetChild(2).(*parser.BodyContext); ok {
		return b
	}
	b, _ := ctx.GetChild(3).(*parser.BodyContext)
	return b
}

func (s *MiniListener) EnterOpt(ctx *parser.OptContext) {
	if mode != "" || mode2 != "" || inBodyFlag || inBodyFlag2 {
		seenNames = append(seenNames, "flagged")
	}
	stuck = true
}

// orphan: looks like a callback, is none
func (s *MiniListener) EnterNmae(ctx *parser.NameContext) {}

func (s *MiniListener) Names() []string { return seenNames }

func Drive(trees []parser.Tree) []string {
	var out []string
	for _, t := range trees {
		l := NewMiniListener()
		new(parser.Walker).Walk(l, t)
		out = append(out, l.Names()...)
	}
	return out
}

// hoisted: the listener is built once for all units
func DriveHoisted(trees []parser.Tree) []string {
	l := NewMiniListener()
	for _, t := range trees {
		new(parser.Walker).Walk(l, t)
	}
	return l.Names()
}

// co-access: the name of an item without a look at its optional part
func nameOnly(ctx *parser.ItemContext) string {
	if ctx.Name() == nil {
		return ""
	}
	return ctx.Name().GetText()
}
