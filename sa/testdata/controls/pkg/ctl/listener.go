package ctl

import (
	"reflect"

	parser "github.com/modernizing/coca/languages/mini"
)

// ---- listener pass "mini": E3 (leak, kill, bracket), E6 (override / orphan), E2 (grammar-typed navigation)

var seenNames []string // killed at entry: ok
var leakyTable = map[string]string{} // never re-made: leaky
var inItem = false // bracketed by Enter/ExitItem: ok
var stuck = false  // set in EnterOpt, reset nowhere after it: not bracketed

type MiniListener struct {
	parser.BaseMiniListener
}

func NewMiniListener() *MiniListener {
	seenNames = nil
	return &MiniListener{}
}

func (s *MiniListener) EnterItem(ctx *parser.ItemContext) {
	inItem = true
	// ok: name is mandatory in the `KW name opt? body` alternative only — the SEMI alternative has no name: nil deref
	n := ctx.Name().GetText()
	seenNames = append(seenNames, n+leakyTable[n])
	leakyTable[n] = n
	// bad: opt is optional
	_ = ctx.Opt().GetText()
	// ok: guarded
	if ctx.Opt() != nil {
		_ = ctx.Opt().GetText()
	}
	// bad: child 1 of `KW name …` is a name, of `SEMI` it does not exist
	_ = ctx.GetChild(1).(*parser.OptContext)
	// ok: type test first
	if reflect.TypeOf(ctx.GetChild(1)).String() == "*parser.NameContext" {
		_ = ctx.GetChild(1).(*parser.NameContext)
	}
	if inItem && stuck {
		seenNames = nil
	}
}

func (s *MiniListener) ExitItem(ctx *parser.ItemContext) {
	inItem = false
}

func (s *MiniListener) EnterOpt(ctx *parser.OptContext) {
	stuck = true
}

// orphan: looks like a callback, is none
func (s *MiniListener) EnterNmae(ctx *parser.NameContext) {}

func (s *MiniListener) Names() []string { return seenNames }

func Drive(trees []parser.Tree) []string {
	var out []string
	for _, t := range trees {
		l := NewMiniListener()
		new(parser.Walker).Walk(l, t)
		out = append(out, l.Names()...)
	}
	return out
}

// hoisted: the listener is built once for all units
func DriveHoisted(trees []parser.Tree) []string {
	l := NewMiniListener()
	for _, t := range trees {
		new(parser.Walker).Walk(l, t)
	}
	return l.Names()
}
