package ctl

// ---- E7: last one wins

type TypeDecl struct {
	Super string
	Ifcs  []string
}

var curTypeDecl = &TypeDecl{}

func SupersBad(names []string) {
	for _, n := range names {
		curTypeDecl.Super = "p." + n
	}
}

func SupersGood(names []string) {
	for i, n := range names {
		if i == 0 {
			curTypeDecl.Super = "p." + n
			continue
		}
		curTypeDecl.Ifcs = append(curTypeDecl.Ifcs, "p."+n)
	}
}

func SupersSelected(names []string) {
	for _, n := range names {
		if n == "Base" {
			curTypeDecl.Super = "p." + n
		}
	}
}
