package ctl

import (
	"bufio"
	"io/ioutil"
	"strings"
)

// ---- E7: write-back of an element copy, in-place filter, scanner limit, lost update; E5: glued key parts; frame line unit

type Tally struct {
	Name  string
	Count int
	Lines int
}

// TallyBad stores the copy back inside the inner loop only: an item without parts loses its count.
func TallyBad(items []Type) map[string]Tally {
	out := map[string]Tally{}
	for _, it := range items {
		t := out[it.Name]
		t.Name = it.Name
		t.Count++
		for _, f := range it.Functions {
			t.Lines += f.Line
			out[it.Name] = t
		}
	}
	return out
}

func TallyGood(items []Type) map[string]Tally {
	out := map[string]Tally{}
	for _, it := range items {
		t := out[it.Name]
		t.Name = it.Name
		t.Count++
		for _, f := range it.Functions {
			t.Lines += f.Line
		}
		out[it.Name] = t
	}
	return out
}

// KeepBad filters into the backing array of its argument.
func KeepBad(xs []Row, min int) []Row {
	out := xs[:0]
	for _, x := range xs {
		if x.N >= min {
			out = append(out, x)
		}
	}
	return out
}

func KeepGood(xs []Row, min int) []Row {
	var out []Row
	for _, x := range xs {
		if x.N >= min {
			out = append(out, x)
		}
	}
	return out
}

func LinesBad(text string) int {
	n := 0
	sc := bufio.NewScanner(strings.NewReader(text))
	for sc.Scan() {
		n++
	}
	return n
}

func LinesGood(text string) (int, error) {
	n := 0
	sc := bufio.NewScanner(strings.NewReader(text))
	for sc.Scan() {
		n++
	}
	return n, sc.Err()
}

var cache []Row

func fillCache() { cache = append(cache, Row{"x", 1}) }

func RefreshBad(have bool) int {
	if !have {
		fillCache()
	}
	cache = nil
	return len(cache)
}

func RefreshGood(have bool) int {
	if !have {
		fillCache()
	} else {
		cache = nil
	}
	return len(cache)
}

func KeyGlued(m Method) string { return m.Name + ":" + itoa(m.Line) + itoa(m.Col) }

func DropLineBad(path string, n int) {
	data, _ := ioutil.ReadFile(path)
	sep := "\n"
	if strings.Contains(string(data), "\r\n") {
		sep = "\r\n"
	}
	lines := strings.Split(string(data), sep)
	lines = append(lines[:n], lines[n+1:]...)
	_ = ioutil.WriteFile(path, []byte(strings.Join(lines, sep)), 0644)
}

func DropLineGood(path string, n int) {
	data, _ := ioutil.ReadFile(path)
	lines := strings.Split(string(data), "\n")
	lines = append(lines[:n], lines[n+1:]...)
	_ = ioutil.WriteFile(path, []byte(strings.Join(lines, "\n")), 0644)
}

// ---- E3: a pure function pass reads nobody's state

var lastParsed []Row

func RememberRows(rows []Row) { lastParsed = rows }

func SummaryBad(rows []Row) int  { return len(lastParsed) }
func SummaryGood(rows []Row) int { return len(rows) }
