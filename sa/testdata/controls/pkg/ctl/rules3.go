package ctl

import (
	"sort"
	"strings"

	"github.com/modernizing/coca/pkg/ctlprod"
)

// ---- E7: every element / bulk overwrite / shared backing array / lossy identifier

type Dependency struct{ Group, Scope string }

func convert(s string) *Dependency { return &Dependency{Group: s} }

// FoundBad keeps only the last notation of a statement.
func FoundBad(args []string, scope string) []Dependency {
	var out []Dependency
	var found *Dependency
	for _, a := range args {
		found = convert(a)
	}
	if found != nil {
		found.Scope = scope
		out = append(out, *found)
	}
	return out
}

func FoundGood(args []string, scope string) []Dependency {
	var out []Dependency
	for _, a := range args {
		d := convert(a)
		d.Scope = scope
		out = append(out, *d)
	}
	return out
}

type Entry struct {
	Class string
	Index int
}

var entries []Entry
var currentClass string

func AddEntry() { entries = append(entries, Entry{Class: currentClass}) }

// EntriesBad re-attributes every accumulated entry with the class that happens to be current at the end.
func EntriesBad() []Entry {
	for i := range entries {
		entries[i].Class = currentClass
	}
	return entries
}

func EntriesGood() []Entry {
	for i := range entries {
		entries[i].Index = i
	}
	return entries
}

type Tagged struct {
	Tags  []string
	Marks []string
}

var spareTags = make([]string, 0, 4)
var noMarks = []string{}
var exactTags = make([]string, 0)

func NewTagged() Tagged { return Tagged{Tags: spareTags, Marks: noMarks} }
func AddTag(t *Tagged, s string) {
	t.Tags = append(t.Tags, s)
	t.Marks = append(t.Marks, s)
}
func NewExact() Tagged { return Tagged{Marks: exactTags} }

type Registry struct{ names map[string]string }

func (r *Registry) AddBox(parent, name string) { r.names[name] = parent }

func RegisterBad(r *Registry, path string)         { r.AddBox("G", "box_"+strings.ReplaceAll(path, ".", "_")) }
func RegisterGood(r *Registry, path string, i int) { r.AddBox("G", "box"+itoa(i)) }

// ---- E4: comparator over another slice; per-key lists filled in map order and walked under a budget; ordered producer

func SortOtherBad(rows, other []Row) []Row {
	sort.Slice(rows, func(i, j int) bool { return other[i].N > other[j].N })
	return rows
}

func SortLocalGood(groups map[string][]Row, k string) []Row {
	g := groups[k]
	sort.Slice(g, func(i, j int) bool { return g[j].N < g[i].N })
	return g
}

func GroupBad(m map[string]string) map[string][]string {
	out := map[string][]string{}
	for k, v := range m {
		out[v] = append(out[v], k)
	}
	return out
}

func GroupGood(m map[string]string) map[string][]string {
	out := map[string][]string{}
	for k, v := range m {
		out[k] = append(out[k], v)
	}
	return out
}

var served = 0

func walkBudget(lists map[string][]string, k string) string {
	if served >= 3 {
		return ""
	}
	served++
	s := ""
	for _, e := range lists[k] {
		s += e + walkBudget(lists, e)
	}
	return s
}

func UseGroups(m map[string]string) string {
	return walkBudget(GroupBad(m), "a") + walkBudget(GroupGood(m), "a")
}

var picked []string

func PickLast(m map[string][]string) {
	for _, set := range ctlprod.ItemSetsBad(m) {
		if len(set) >= 2 {
			picked = set
		}
	}
	for _, set := range ctlprod.ItemSetsGood(m) {
		if len(set) >= 2 {
			picked = set
		}
	}
}

// ---- E7: input map written

func MapInputBad(m map[string][]string, k string) int {
	l := m[k]
	if len(l) > 0 {
		l[0] = "x"
	}
	return len(l)
}

func MapInputBad2(m map[string][]string, k string) int {
	m[k] = nil
	return len(m)
}

func MapInputGood(m map[string][]string, k string) int {
	l := append([]string{}, m[k]...)
	if len(l) > 0 {
		l[0] = "x"
	}
	return len(l)
}

// ---- E5: stores to a captured variable under a type switch

func each(nodes []interface{}, f func(interface{})) {
	for _, n := range nodes {
		f(n)
	}
}

func VisitGood(nodes []interface{}) string {
	var cur Type
	each(nodes, func(n interface{}) {
		switch x := n.(type) {
		case *Method:
			_ = x
		case *Type:
			cur = Type{Name: x.Name}
		}
	})
	return cur.Name
}

func VisitBad(nodes []interface{}, seen map[string]bool) string {
	var cur Type
	each(nodes, func(n interface{}) {
		switch x := n.(type) {
		case *Method:
			_ = x
		case *Type:
			if !seen[x.Name] {
				cur = Type{Name: x.Name}
			}
		}
	})
	return cur.Name
}

// ---- E2: a slice bound that is the plain result of a substring search

func PkgOfBad(name string) string { return name[:strings.LastIndex(name, ".")] }

func PkgOfGood(name string) string {
	if i := strings.LastIndex(name, "."); i >= 0 {
		return name[:i]
	}
	return ""
}

// ---- E7: a list-valued tree field read at a fixed position

type Ident struct{ Name string }
type Decl struct{ Names []*Ident }

func FirstNameBad(d *Decl) string {
	if len(d.Names) < 1 {
		return ""
	}
	return d.Names[0].Name
}

func AllNamesGood(d *Decl) []string {
	var out []string
	for _, n := range d.Names {
		out = append(out, n.Name)
	}
	return out
}

// ---- E5: an argument whose elements are overwritten before the call; an assumption about the input

func useExts(exts []string) int { return len(exts) }

func ExtsBad(list string) int {
	exts := strings.Split(list, ",")
	for i := range exts {
		exts[i] = strings.ToLower(exts[i])
	}
	return useExts(exts)
}

func ExtsGood(list string) int { return useExts(strings.Split(list, ",")) }

func isMarker(s string) bool { return strings.HasPrefix(s, "TODO") }

// the caller guarantees that t starts with "//" or "#"
func AfterMarkerGood(t string) bool {
	if strings.HasPrefix(t, "//") {
		t = t[2:]
	} else if strings.HasPrefix(t, "#") {
		t = t[1:]
	}
	return isMarker(t)
}

func AfterMarkerBad(t string) bool {
	if strings.HasPrefix(t, "//") {
		t = t[2:]
	}
	if strings.HasPrefix(t, "#") {
		t = t[1:]
	}
	return isMarker(t)
}
