package ctl

import "strings"

// ---- E7: shadowed result, forbidden call, cross append; call graph: delegating method + last-wins through a callee

func compute(n int) []Row { return []Row{{"x", n}} }

func ShadowBad(fresh bool) int {
	var rows []Row
	if fresh {
		rows := compute(1)
		_ = len(rows)
	}
	return len(rows)
}

func ShadowGood(fresh bool) int {
	var rows []Row
	if fresh {
		rows = compute(1)
	}
	return len(rows)
}

func ShoutBad(s string) string  { return strings.ToUpper(s) }
func ShoutGood(s string) string { return strings.ToLower(s) }

type Holder struct {
	Name  string
	Parts []Holder
}

func FileBad(outer, member *Holder) { outer.Parts = append(member.Parts, *member) }
func FileGood(outer, member *Holder) {
	m := *member
	m.Parts = nil
	outer.Parts = append(outer.Parts, m)
}

type Result struct {
	Last string
	All  []string
}

type Eval interface{ Do(r *Result, s string) }

type Wrap struct{ E Eval }

func (w *Wrap) Do(r *Result, s string) { w.E.Do(r, s) }

type KeepLast struct{}

func (KeepLast) Do(r *Result, s string) {
	if s != "" {
		r.Last = s
	}
}

type KeepAll struct{}

func (KeepAll) Do(r *Result, s string) { r.All = append(r.All, s) }

func consumeLast(keys []string) Result {
	var r Result
	w := Wrap{KeepLast{}}
	for _, k := range keys {
		w.Do(&r, k)
	}
	return r
}

func consumeAll(keys []string) Result {
	var r Result
	w := Wrap{KeepAll{}}
	for _, k := range keys {
		w.Do(&r, k)
	}
	return r
}

func KeysLastBad(m map[string]int) Result {
	var keys []string
	for k := range m {
		keys = append(keys, k)
	}
	return consumeLast(keys)
}

func KeysAllGood(m map[string]int) Result {
	var keys []string
	for k := range m {
		keys = append(keys, k)
	}
	return consumeAll(keys)
}
