package ctl

import (
	"encoding/xml"
	"io"
)

// ---- E7: stale copy of a map entry, prefix re-slice grown with append, library configuration

type CallTally struct {
	Name  string
	Calls []string
}

var tallies = map[string]CallTally{}
var heldTally CallTally
var heldName string

func AddCallToTally(name, call string) {
	t := tallies[name]
	t.Calls = append(t.Calls, call)
	tallies[name] = t
}

func OpenTallyBad(name string) {
	heldName = name
	heldTally = tallies[name]
}

func CloseTallyBad(extra string) {
	heldTally.Calls = append(heldTally.Calls, extra)
	tallies[heldName] = heldTally
}

func InsertBehindBad(nodes []Unit, i int, extra Unit) []Unit {
	all := nodes[:i+1]
	all = append(all, extra)
	return all
}

func InsertBehindGood(nodes []Unit, i int, extra Unit) []Unit {
	all := append([]Unit{}, nodes[:i+1]...)
	all = append(all, extra)
	return all
}

func NamesOfBad(r io.Reader) []string {
	d := xml.NewDecoder(r)
	d.Strict = false
	var out []string
	for {
		tok, err := d.Token()
		if err != nil {
			return out
		}
		if se, ok := tok.(xml.StartElement); ok {
			out = append(out, se.Name.Local)
		}
	}
}
