package ctl

import "strings"

// ---- E7: nested model, exact before fuzzy, direct children only

type Unit struct {
	Name    string
	Methods []string
	Members []Unit
}

func CountUnitsBad(us []Unit) int {
	n := 0
	for _, u := range us {
		n += len(u.Methods)
	}
	return n
}

func CountUnitsGood(us []Unit) int {
	n := 0
	for _, u := range us {
		n += len(u.Methods)
		n += CountUnitsGood(u.Members)
	}
	return n
}

var projectClasses []string
var classIndex map[string]bool
var currentPkg string

func LookupBad(name string) string {
	for _, c := range projectClasses {
		if strings.HasSuffix(c, "."+name) {
			return c
		}
	}
	if classIndex[currentPkg+"."+name] {
		return currentPkg + "." + name
	}
	return ""
}

func LookupGood(name string) string {
	if classIndex[currentPkg+"."+name] {
		return currentPkg + "." + name
	}
	for _, c := range projectClasses {
		if strings.HasSuffix(c, "."+name) {
			return c
		}
	}
	return ""
}

type Elem struct {
	Tag, Text string
	Kids      []*Elem
}

func findDeep(e *Elem, tag string) *Elem {
	for _, k := range e.Kids {
		if k.Tag == tag {
			return k
		}
		if r := findDeep(k, tag); r != nil {
			return r
		}
	}
	return nil
}

func findChild(e *Elem, tag string) *Elem {
	for _, k := range e.Kids {
		if k.Tag == tag {
			return k
		}
	}
	return nil
}

func BuildDepBad(e *Elem) string {
	if g := findDeep(e, "groupId"); g != nil {
		return g.Text
	}
	return ""
}

func BuildDepGood(e *Elem) string {
	if g := findChild(e, "groupId"); g != nil {
		return g.Text
	}
	return ""
}

func SetCurrentPkg(p string, classes []string) {
	currentPkg = p
	projectClasses = classes
	classIndex = map[string]bool{}
	for _, c := range classes {
		classIndex[c] = true
	}
}
