package ctl

import (
	"regexp"
	"sort"
	"strings"
)

// ---- E3 function pass: budget read before reset

var budget = 0
var limit = 3

func Expand(n int) int {
	if budget > limit {
		return 0
	}
	budget++
	return 1 + Expand(n-1)
}

func RunBad(n int) int  { return Expand(n) }
func RunGood(n int) int { budget = 0; return Expand(n) }

// no ranking argument at all
func Spin(n int) int {
	if n == 42 {
		return n
	}
	return Spin(n + 1)
}

// ---- E4

type Row struct {
	Name string
	N    int
}

func LastWriter(m map[string]int) string {
	last := ""
	for k := range m {
		last = k
	}
	return last
}

func Collect(m map[string]int) []Row {
	var rows []Row
	for k, v := range m {
		rows = append(rows, Row{k, v})
	}
	sort.Slice(rows, func(i, j int) bool { return rows[i].N > rows[j].N })
	return rows
}

func CollectUnsortedPromised(m map[string]int) []Row {
	var rows []Row
	for k, v := range m {
		rows = append(rows, Row{k, v})
	}
	sort.Slice(rows, func(i, j int) bool { return rows[i].N < rows[j].N })
	return rows
}

func Member(list []string, x string) bool {
	i := sort.SearchStrings(list, x)
	return i < len(list) && list[i] == x
}

func UsesMember(x string) bool { return Member([]string{"zeta", "alpha"}, x) }

// ---- E5

type Finding struct {
	Kind string
	Size int
}

func CheckLong(length int, out *[]Finding) {
	if length >= 30 {
		*out = append(*out, Finding{Kind: "long", Size: length})
	}
}

func CheckLongOK(length int, out *[]Finding) {
	if length > 30 {
		*out = append(*out, Finding{Kind: "long", Size: length})
	}
}

// ---- E6

func EmitAll(xs []string) string {
	out := ""
	for _, x := range xs {
		if x == "" {
			return out
		}
		out += x
	}
	return out
}

var recorded []string
var pending = false

func record(s string) { recorded = append(recorded, s) }

func MaybeRecord(s string) {
	if s == "skip" {
		return
	}
	record(s)
}

func AlwaysRecord(s string) {
	if s == "" {
		record("<empty>")
		return
	}
	record(s)
}

func Consume(s string) {
	if pending {
		recorded = append(recorded, s)
		if s != "keep" {
			pending = false
		}
	}
}

// ---- E7

type Rel struct{ From, To string }

func Aliased(src string, tos []string) map[string]*Rel {
	out := map[string]*Rel{}
	r := &Rel{From: src}
	for _, t := range tos {
		r.To = t
		out[src+"->"+t] = r
	}
	return out
}

type Dep struct{ Group, Scope string }

func Carried(groups []string) []Dep {
	var out []Dep
	d := &Dep{}
	for _, g := range groups {
		d.Group = g
		if strings.HasPrefix(g, "test") {
			d.Scope = "test"
		}
		out = append(out, *d)
	}
	return out
}

type Call struct{ Pkg, Name string }

func Dedupe(calls []Call) []string {
	seen := map[string]bool{}
	var out []string
	for _, c := range calls {
		if seen[c.Name] {
			continue
		}
		seen[c.Name] = true
		out = append(out, c.Pkg+"."+c.Name)
	}
	return out
}

func FilterInPlace(xs []string, bad string) []string {
	for i := 0; i < len(xs); i++ {
		if xs[i] == bad {
			xs = append(xs[:i], xs[i+1:]...)
		}
	}
	return xs
}

var headerReg = regexp.MustCompile(`\[([0-9a-f]+)\]`)

func IsHeader(line string) bool { return headerReg.MatchString(line) }

func Quote(a, b string) string {
	return "\"" + a + "\" -> \"" + strings.ReplaceAll(strings.ReplaceAll(b, "\\", "\\\\"), "\"", "\\\"") + "\";"
}

// quotes escaped, backslashes not: a name ending in a backslash swallows the closing quote
func QuoteHalf(b string) string { return "\"" + strings.ReplaceAll(b, "\"", "\\\"") + "\";" }

func Touch(rows []Row) int {
	n := 0
	for i := range rows {
		rows[i].N = 0
		n++
	}
	return n
}

// ---- E2 without grammar

func Strip(t string) string {
	if strings.HasPrefix(t, "#") {
		return t[2:]
	}
	if strings.HasPrefix(t, "//") {
		return t[2:]
	}
	return t
}

type Node struct{ Funcs []string }

func Deref(m map[string]*Node, k string) int { return len(m[k].Funcs) }
