package ctl

import (
	"encoding/json"
	"strconv"
	"strings"
)

// ---- E4: an unordered collection handed to a first-match search (bad) and to an existential test (good)

var known []string

func KeepNames(names []string) { known = names }

func Resolve(suffix string) string {
	for _, n := range known {
		if strings.HasSuffix(n, suffix) {
			return n
		}
	}
	return ""
}

func NamesFromMapBad(m map[string]int) {
	var names []string
	for k := range m {
		names = append(names, k)
	}
	KeepNames(names)
}

func hasName(names []string, x string) bool {
	for _, n := range names {
		if n == x {
			return true
		}
	}
	return false
}

func NamesFromMapGood(m map[string]int, x string) bool {
	var names []string
	for k := range m {
		names = append(names, k)
	}
	return hasName(names, x)
}

// ---- E7: shared map, pre-sized holes, double registration

type Info struct {
	Name    string
	Authors map[string]string
}

func SharedMapBad(files []string, author string, infos map[string]Info) {
	authors := map[string]string{author: author}
	for _, f := range files {
		infos[f] = Info{f, authors}
	}
}

func SharedMapGood(files []string, author string, infos map[string]Info) {
	for _, f := range files {
		authors := map[string]string{author: author}
		infos[f] = Info{f, authors}
	}
}

func AddAuthor(infos map[string]Info, f, author string) { infos[f].Authors[author] = author }

func HolesBad(names []string) []Row {
	out := make([]Row, len(names))
	for i, n := range names {
		if n == "" {
			continue
		}
		out[i] = Row{n, i}
	}
	return out
}

func HolesGood(names []string) []Row {
	out := make([]Row, len(names))
	for i, n := range names {
		out[i] = Row{n, i}
	}
	return out
}

type Fn struct{ Calls []Call }

func addCall(f *Fn, name string) Call {
	c := Call{Name: name}
	f.Calls = append(f.Calls, c)
	return c
}

func DoubleBad(f *Fn, name string) {
	c := addCall(f, name)
	if c.Name != "" {
		f.Calls = append(f.Calls, c)
	}
}

func DoubleGood(f *Fn, name string) int {
	c := addCall(f, name)
	return len(c.Name)
}

// ---- E6: per-iteration state of a callee (auto_reads)

var memo = map[string]string{}
var steps = 0

func chain(root string) string {
	if steps > 3 {
		return ""
	}
	if c, ok := memo[root]; ok {
		return c
	}
	steps++
	memo[root] = root + ";"
	return memo[root]
}

func ChainsBad(roots []string) string {
	out := ""
	memo = map[string]string{}
	for _, r := range roots {
		steps = 0
		out += chain(r)
	}
	return out
}

func ChainsGood(roots []string) string {
	out := ""
	for _, r := range roots {
		steps = 0
		memo = map[string]string{}
		out += chain(r)
	}
	return out
}

// ---- E5: string library, any-site guard, in-loop guard, loop that starts in the middle

func ClassOfBad(path string) string { return strings.Replace(path, "."+MethodOf(path), "", 1) }

func ClassOfGood(path string) string {
	if i := strings.LastIndex(path, "."); i >= 0 {
		return path[:i]
	}
	return ""
}

func MethodOf(path string) string {
	parts := strings.Split(path, ".")
	return parts[len(parts)-1]
}

func EdgesBad(node string, callers []string, budgetLeft int) string {
	out := ""
	for _, c := range callers {
		if budgetLeft <= 0 && c != "" {
			continue
		}
		out += edge(c, node)
	}
	return out
}

func EdgesGood(node string, callers []string) string {
	out := ""
	for _, c := range callers {
		out += edge(c, node)
	}
	return out
}

func edge(a, b string) string { return a + " -> " + b + ";\n" }

type Lang struct{ Name string }

func LookupFromMiddle(keys []string, file []byte, out map[string]Lang) {
	var langs []Lang
	_ = json.Unmarshal(file, &langs)
	next := 0
	for _, k := range keys {
		for i := next; i < len(langs); i++ {
			if langs[i].Name == k {
				out[k] = langs[i]
				next = i + 1
				break
			}
		}
	}
}

func LookupWhole(keys []string, file []byte, out map[string]Lang) {
	var langs []Lang
	_ = json.Unmarshal(file, &langs)
	for _, k := range keys {
		for _, l := range langs {
			if l.Name == k {
				out[k] = l
				break
			}
		}
	}
}

// ---- E2: typed nil

type Boxer interface{ Len() int }
type box struct{ n int }

func (b *box) Len() int { return b.n }

// ---- E7: method-keyed maps, dotted suffix; E5 key identity

type Method struct {
	Name  string
	Line  int
	Col   int
	Calls []string
}
type Type struct {
	Name      string
	Functions []Method
}

func CalleesBad(types []Type) map[string][]string {
	out := map[string][]string{}
	for _, t := range types {
		for _, m := range t.Functions {
			out[t.Name+"."+m.Name] = m.Calls
		}
	}
	return out
}

func CalleesGood(types []Type) map[string][]string {
	out := map[string][]string{}
	for _, t := range types {
		for _, m := range t.Functions {
			out[t.Name+"."+m.Name] = append(out[t.Name+"."+m.Name], m.Calls...)
		}
	}
	return out
}

var imports []string

func ResolveBad(simple string) string {
	for _, imp := range imports {
		if strings.HasSuffix(imp, simple) {
			return imp
		}
	}
	return ""
}

func ResolveGood(simple string) string {
	for _, imp := range imports {
		if strings.HasSuffix(imp, "."+simple) {
			return imp
		}
	}
	return ""
}

func KeyBad(m Method) string  { return m.Name + ":" + itoa(m.Line) }
func KeyGood(m Method) string { return m.Name + ":" + itoa(m.Line) + ":" + itoa(m.Col) }

func itoa(i int) string { return strconv.Itoa(i) }

// ---- E7: nil-able global pointer, cutset trimming, decoding into a global, returning a global's address

var current *Node

func EnterNode()       { current = &Node{} }
func ExitNodeBad() int { n := len(current.Funcs); current = nil; return n }
func ExitNodeGood() int {
	if current != nil {
		n := len(current.Funcs)
		current = nil
		return n
	}
	return 0
}

func LocationBad(path, dir string) string  { return strings.TrimLeft(path, dir) }
func LocationGood(path, dir string) string { return strings.TrimPrefix(path, dir) }
func MarkerGood(t string) string           { return strings.TrimLeft(t, ":") }

var model []Type

func LoadBad(data []byte) int { _ = json.Unmarshal(data, &model); return len(model) }
func LoadGood(data []byte) int {
	model = nil
	_ = json.Unmarshal(data, &model)
	return len(model)
}

var lastRows []Row

func RowsBad(names []string) *[]Row {
	lastRows = nil
	for i, n := range names {
		lastRows = append(lastRows, Row{n, i})
	}
	return &lastRows
}
