package ctl

import "os"

// ---- E7: stale element pointer (package-level and local form), dropped error

type Rec struct {
	Name  string
	Count int
}

var recQueue []Rec
var curRec *Rec

func PopRec() {
	if len(recQueue) >= 1 {
		curRec = &recQueue[len(recQueue)-1]
	} else {
		curRec = &Rec{}
	}
}

func PushRecBad(name string) {
	recQueue = append(recQueue, *curRec)
	curRec.Name = name
}

func PushRecGood(name string) {
	recQueue = append(recQueue, *curRec)
	fresh := *curRec
	curRec = &fresh
	curRec.Name = name
}

func CountNamesBad(names []string) []Rec {
	recs := make([]Rec, 0, 4)
	index := map[string]*Rec{}
	for _, n := range names {
		r := index[n]
		if r == nil {
			recs = append(recs, Rec{Name: n})
			r = &recs[len(recs)-1]
			index[n] = r
		}
		r.Count++
	}
	return recs
}

func CountNamesGood(names []string) []Rec {
	index := map[string]*Rec{}
	var order []string
	for _, n := range names {
		if index[n] == nil {
			index[n] = &Rec{Name: n}
			order = append(order, n)
		}
		index[n].Count++
	}
	var recs []Rec
	for _, n := range order {
		recs = append(recs, *index[n])
	}
	return recs
}

func CountNamesPresized(names []string) []Rec {
	recs := make([]Rec, 0, len(names))
	index := map[string]*Rec{}
	for _, n := range names {
		r := index[n]
		if r == nil {
			recs = append(recs, Rec{Name: n})
			r = &recs[len(recs)-1]
			index[n] = r
		}
		r.Count++
	}
	return recs
}

func SizeBad(path string) int64 {
	f, _ := os.Open(path)
	st, _ := f.Stat()
	return st.Size()
}

func SizeGood(path string) int64 {
	f, err := os.Open(path)
	if err != nil {
		return 0
	}
	st, _ := f.Stat()
	return st.Size()
}
