package ctl

import "sort"

// ---- E7: save and restore, size gate, emptied in place, raw walk beside a flattened list, in-place sort of the input,
// de-duplication through a position index

type ScopeListener struct{}

type ScopeCtx struct{ Name string }

var curScope string
var scopeStack []string
var curOwner string
var ownerStack []string

func (s *ScopeListener) EnterScope(ctx *ScopeCtx) {
	curScope = ctx.Name
	scopeStack = append(scopeStack, curScope)
}

func (s *ScopeListener) ExitScope(ctx *ScopeCtx) {
	if len(scopeStack) <= 1 {
		return
	}
	scopeStack = scopeStack[:len(scopeStack)-1]
	curScope = scopeStack[len(scopeStack)-1]
}

func (s *ScopeListener) EnterOwner(ctx *ScopeCtx) {
	ownerStack = append(ownerStack, curOwner)
	curOwner = ctx.Name
}

func (s *ScopeListener) ExitOwner(ctx *ScopeCtx) {
	if len(ownerStack) < 1 {
		return
	}
	curOwner = ownerStack[len(ownerStack)-1]
	ownerStack = ownerStack[:len(ownerStack)-1]
}

func ScanGatedBad(stmts []string) int {
	n := 0
	if len(stmts) < 8 {
		return n
	}
	for _, s := range stmts {
		if s == "if" {
			n++
		}
	}
	return n
}

func ScanGatedGood(stmts []string) int {
	n := 0
	if len(stmts) > 100 {
		return n
	}
	for _, s := range stmts {
		if s == "if" {
			n++
		}
	}
	return n
}

type ItemHolder struct{ Items []string }

var itemHolder *ItemHolder

func ResetHolderBad() {
	if itemHolder == nil {
		itemHolder = &ItemHolder{}
	}
	itemHolder.Items = itemHolder.Items[:0]
}

func ResetHolderGood() {
	if itemHolder == nil {
		itemHolder = &ItemHolder{}
	}
	itemHolder.Items = nil
}

func flattenUnits(us []Unit) []Unit {
	var all []Unit
	for _, u := range us {
		all = append(all, u)
		all = append(all, flattenUnits(u.Members)...)
	}
	return all
}

func CountFlatBad(us []Unit) int {
	all := flattenUnits(us)
	declared := 0
	for _, u := range us {
		declared += len(u.Methods)
	}
	for _, u := range all {
		declared += len(u.Name)
	}
	return declared
}

func CountFlatGood(us []Unit) int {
	us = flattenUnits(us)
	declared := 0
	for _, u := range us {
		declared += len(u.Methods)
	}
	return declared
}

func OldestFirstBad(ms []Method) string {
	sort.Slice(ms, func(i, j int) bool { return ms[i].Line < ms[j].Line })
	if len(ms) == 0 {
		return ""
	}
	return ms[0].Name
}

func FoldBad(calls []Call) []Call {
	known := map[string]int{}
	var out []Call
	for _, c := range calls {
		if _, ok := known[c.Name]; ok {
			continue
		}
		known[c.Name] = len(out)
		out = append(out, c)
	}
	return out
}
