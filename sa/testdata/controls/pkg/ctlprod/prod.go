// Package ctlprod: positive control for the ordered-producer rule (its results are selected by position in ctl.PickLast).
package ctlprod

import "sort"

// ItemSetsBad collects the key sets in map order.
func ItemSetsBad(m map[string][]string) [][]string {
	var out [][]string
	for _, v := range m {
		out = append(out, v)
	}
	return out
}

// ItemSetsGood sorts what it collected.
func ItemSetsGood(m map[string][]string) [][]string {
	var keys []string
	for k := range m {
		keys = append(keys, k)
	}
	sort.Strings(keys)
	var out [][]string
	for _, k := range keys {
		out = append(out, m[k])
	}
	return out
}
