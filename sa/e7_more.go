package main

import (
	"go/token"
	"go/types"
	"sort"
	"strconv"
	"strings"

	"golang.org/x/tools/go/ssa"
)

// ---------------------------------------------------------------------------------------------
// stale element pointer: a package-level pointer P that some function of the package sets to the address of an element of a
// package-level slice S (P = &S[i]) keeps pointing at that element when S is grown with append: if the append does not
// re-allocate, P is the queued element itself; if it does, P is a detached copy. A function that appends to S and afterwards
// writes through P without first giving P a new target therefore edits the queue's element on some capacities and a
// private copy on others (the full listener: from the third member class on, the queued outer class is renamed to the member
// class and the whole file is lost).

func runStaleElement(p *Program, c *Collector, a FuncRuleSpec) {
	fns := expandFuncs(p, c, a.Funcs, a.Props...)
	runStaleLocal(p, c, a, fns)
	type pair struct{ P, S *ssa.Global }
	var pairs []pair
	seenPair := map[pair]bool{}
	var all []*ssa.Function
	for _, fn := range fns {
		all = append(all, fn)
	}
	for _, fn := range all {
		for _, b := range fn.Blocks {
			for _, in := range b.Instrs {
				st, ok := in.(*ssa.Store)
				if !ok {
					continue
				}
				P, whole := globalOfAddr(st.Addr)
				if P == nil || !whole {
					continue
				}
				ia, ok := st.Val.(*ssa.IndexAddr)
				if !ok {
					continue
				}
				S := loadedGlobal(ia.X)
				if S == nil {
					continue
				}
				if _, isSlice := S.Type().(*types.Pointer).Elem().Underlying().(*types.Slice); !isSlice {
					continue
				}
				if !seenPair[pair{P, S}] {
					seenPair[pair{P, S}] = true
					pairs = append(pairs, pair{P, S})
				}
			}
		}
	}
	sort.Slice(pairs, func(i, j int) bool {
		return pairs[i].P.Name()+pairs[i].S.Name() < pairs[j].P.Name()+pairs[j].S.Name()
	})
	if len(pairs) == 0 {
		c.Ob(a.Props, "E7.stale-element", "staleelem:"+strings.Join(a.Funcs, ","), Discharged, a.What+": no package-level pointer is set to the address of an element of a package-level slice", "", true)
		return
	}
	// writesThrough: the instruction stores into *P (a field or element of the record P points at)
	writesThrough := func(in ssa.Instruction, P *ssa.Global) bool {
		st, ok := in.(*ssa.Store)
		if !ok {
			return false
		}
		addr := st.Addr
		for {
			switch x := addr.(type) {
			case *ssa.FieldAddr:
				addr = x.X
				continue
			case *ssa.IndexAddr:
				addr = x.X
				continue
			}
			break
		}
		return loadedGlobal(addr) == P
	}
	for _, pr := range pairs {
		for _, fn := range all {
			var appends []ssa.Instruction
			for _, b := range fn.Blocks {
				for _, in := range b.Instrs {
					st, ok := in.(*ssa.Store)
					if !ok {
						continue
					}
					if g, whole := globalOfAddr(st.Addr); g != pr.S || !whole {
						continue
					}
					if call, ok := st.Val.(*ssa.Call); ok {
						if bi, ok := call.Call.Value.(*ssa.Builtin); ok && bi.Name() == "append" {
							appends = append(appends, in)
						}
					}
				}
			}
			if len(appends) == 0 {
				continue
			}
			key := "staleelem:" + p.FuncKey(fn) + " " + pr.P.Name() + " into " + pr.S.Name()
			var bad, from ssa.Instruction
			for _, ap := range appends {
				// forward walk from the append; a store to P itself ends the walk on that path
				type item struct {
					b *ssa.BasicBlock
					i int
				}
				seen := map[*ssa.BasicBlock]bool{}
				idx := 0
				for i, in := range ap.Block().Instrs {
					if in == ap {
						idx = i + 1
					}
				}
				work := []item{{ap.Block(), idx}}
				for len(work) > 0 && bad == nil {
					it := work[len(work)-1]
					work = work[:len(work)-1]
					killed := false
					for _, in := range it.b.Instrs[it.i:] {
						if st, ok := in.(*ssa.Store); ok {
							if g, whole := globalOfAddr(st.Addr); g == pr.P && whole {
								killed = true
								break
							}
						}
						if writesThrough(in, pr.P) {
							bad, from = in, ap
							break
						}
					}
					if killed || bad != nil {
						continue
					}
					for _, s := range it.b.Succs {
						if !seen[s] {
							seen[s] = true
							work = append(work, item{s, 0})
						}
					}
				}
				if bad != nil {
					break
				}
			}
			if bad != nil {
				c.Ob(a.Props, "E7.stale-element", key, Violated, a.What+": "+pr.P.Name()+" may hold the address of an element of "+pr.S.Name()+"; "+shortFn(p.FuncKey(fn))+" grows "+pr.S.Name()+" with append ("+p.InstrPos(from)+") and then writes through "+pr.P.Name()+" without giving it a new target: when the append does not re-allocate the write lands in the queued element itself, when it does it lands in a detached copy", p.InstrPos(bad), false)
			} else {
				c.Ob(a.Props, "E7.stale-element", key, Discharged, pr.P.Name()+" is given a new target before anything is written through it after the append", p.FuncPos(fn), true)
			}
		}
	}
}

// the local form: the address of an element of a slice variable is put into a map, a list, a field or a package variable
// (m[k] = &xs[i]), and the same variable is grown with append where that can happen afterwards (typically the next iteration):
// once append re-allocates, the kept pointers address the abandoned array and updates through them are lost. A slice made with
// a capacity computed from a run-time length is taken to be pre-sized for its input.
func runStaleLocal(p *Program, c *Collector, a FuncRuleSpec, fns []*ssa.Function) {
	for _, fn := range fns {
		if len(fn.Blocks) == 0 {
			continue
		}
		parent := map[ssa.Value]ssa.Value{}
		var find func(v ssa.Value) ssa.Value
		find = func(v ssa.Value) ssa.Value {
			if q, ok := parent[v]; ok && q != v {
				r := find(q)
				parent[v] = r
				return r
			}
			return v
		}
		members := map[ssa.Value]bool{}
		union := func(x, y ssa.Value) {
			members[x], members[y] = true, true
			rx, ry := find(x), find(y)
			if rx != ry {
				parent[rx] = ry
			}
		}
		isSlice := func(v ssa.Value) bool {
			_, ok := v.Type().Underlying().(*types.Slice)
			return ok
		}
		for _, b := range fn.Blocks {
			for _, in := range b.Instrs {
				switch x := in.(type) {
				case *ssa.UnOp:
					if x.Op == token.MUL && isSlice(x) {
						union(x, x.X) // load of a cell (local or captured variable, package variable)
					}
				case *ssa.Store:
					if isSlice(x.Val) {
						union(x.Val, x.Addr)
					}
				case *ssa.Phi:
					if isSlice(x) {
						for _, e := range x.Edges {
							union(x, e)
						}
					}
				case *ssa.Slice:
					if isSlice(x) && isSlice(x.X) {
						union(x, x.X)
					}
				case *ssa.Call:
					if bi, ok := x.Call.Value.(*ssa.Builtin); ok && bi.Name() == "append" && len(x.Call.Args) > 0 {
						union(x, x.Call.Args[0])
					}
				}
			}
		}
		presized := map[ssa.Value]bool{}
		for _, b := range fn.Blocks {
			for _, in := range b.Instrs {
				if ms, ok := in.(*ssa.MakeSlice); ok {
					if _, isConst := ms.Cap.(*ssa.Const); !isConst {
						presized[find(ms)] = true
					}
				}
			}
		}
		type esc struct {
			at ssa.Instruction
			ia *ssa.IndexAddr
		}
		var escapes []esc
		var appends []*ssa.Call
		for _, b := range fn.Blocks {
			for _, in := range b.Instrs {
				switch x := in.(type) {
				case *ssa.Store:
					if ia, ok := x.Val.(*ssa.IndexAddr); ok && isSlice(ia.X) {
						if al, local := x.Addr.(*ssa.Alloc); local && !al.Heap {
							continue // a plain local pointer variable
						}
						escapes = append(escapes, esc{in, ia})
					}
				case *ssa.MapUpdate:
					if ia, ok := x.Value.(*ssa.IndexAddr); ok && isSlice(ia.X) {
						escapes = append(escapes, esc{in, ia})
					}
				case *ssa.Call:
					if bi, ok := x.Call.Value.(*ssa.Builtin); ok && bi.Name() == "append" && len(x.Call.Args) > 0 {
						appends = append(appends, x)
					}
				}
			}
		}
		done := map[ssa.Value]bool{}
		for _, e := range escapes {
			fam := find(e.ia.X)
			if done[fam] {
				continue
			}
			name := ""
			for v := range members {
				if find(v) == fam {
					switch y := v.(type) {
					case *ssa.Alloc:
						if y.Comment != "" && (name == "" || y.Comment < name) {
							name = y.Comment
						}
					case *ssa.Global:
						name = y.Name()
					case *ssa.Phi:
						if y.Comment != "" && (name == "" || y.Comment < name) {
							name = y.Comment
						}
					}
				}
			}
			if name == "" {
				name = "a slice"
			}
			key := "stalelocal:" + p.FuncKey(fn) + " " + name
			var bad *ssa.Call
			for _, ap := range appends {
				if find(ap.Call.Args[0]) != fam {
					continue
				}
				after := false
				if ap.Block() == e.at.Block() {
					ai, ei := -1, -1
					for i, in := range ap.Block().Instrs {
						if in == ssa.Instruction(ap) {
							ai = i
						}
						if in == e.at {
							ei = i
						}
					}
					after = ai > ei
				}
				if !after {
					for _, s := range e.at.Block().Succs {
						if reaches(s, ap.Block()) {
							after = true
						}
					}
				}
				if after {
					bad = ap
					break
				}
			}
			done[fam] = true
			switch {
			case bad == nil:
				c.Ob(a.Props, "E7.stale-element", key, Discharged, "the slice is not grown after the address of an element is kept", p.InstrPos(e.at), true)
			case presized[fam]:
				c.Ob(a.Props, "E7.stale-element", key, Discharged, "the slice is made with a capacity computed from its input", p.InstrPos(e.at), true)
			default:
				c.Ob(a.Props, "E7.stale-element", key, Violated, a.What+": "+shortFn(p.FuncKey(fn))+" keeps the address of an element of "+name+" ("+p.InstrPos(e.at)+") and grows "+name+" with append afterwards ("+p.InstrPos(bad)+"): when append re-allocates, the kept pointers address the abandoned array and what is written through them is lost", p.InstrPos(e.at), false)
			}
		}
	}
}

// ---------------------------------------------------------------------------------------------
// dropped error: some library constructors return a nil value together with the error (the table comes from the libraries'
// documentation and source: antlr.NewFileStream `return nil, err`; regexp.Compile `return nil, err`). A caller that throws
// the error away and goes on to use the value hands a nil pointer to the code behind it: one unreadable file (a dangling
// link named x.java) then ends the whole run.

type DroppedErrorSpec struct {
	Props   []string `json:"props"`
	Funcs   []string `json:"funcs"`
	Callees []string `json:"callees"` // full names of constructors whose value is nil when the error is not
	What    string   `json:"what"`
}

func runDroppedError(p *Program, c *Collector, de DroppedErrorSpec) {
	n := 0
	for _, fn := range expandFuncs(p, c, de.Funcs, de.Props...) {
		k := 0
		for _, b := range fn.Blocks {
			for _, in := range b.Instrs {
				call, ok := in.(*ssa.Call)
				if !ok || call.Call.StaticCallee() == nil {
					continue
				}
				name := fullFuncName(call.Call.StaticCallee())
				listed := false
				for _, x := range de.Callees {
					if x == name {
						listed = true
					}
				}
				if !listed {
					continue
				}
				k++
				n++
				key := "droppederr:" + p.FuncKey(fn) + " #" + strconv.Itoa(k) + " " + shortFn(name)
				valueUsed, errUsed := false, false
				if refs := call.Referrers(); refs != nil {
					for _, r := range *refs {
						ex, ok := r.(*ssa.Extract)
						if !ok {
							continue
						}
						used := false
						if er := ex.Referrers(); er != nil {
							for _, u := range *er {
								if _, dbg := u.(*ssa.DebugRef); !dbg {
									used = true
								}
							}
						}
						if ex.Index == 0 && used {
							valueUsed = true
						}
						if ex.Index == 1 && used {
							errUsed = true
						}
					}
				}
				switch {
				case errUsed:
					c.Ob(de.Props, "E7.dropped-error", key, Discharged, "the error of "+shortFn(name)+" is looked at", p.InstrPos(call), true)
				case !valueUsed:
					c.Ob(de.Props, "E7.dropped-error", key, Discharged, "neither result is used", p.InstrPos(call), true)
				default:
					c.Ob(de.Props, "E7.dropped-error", key, Violated, de.What+": "+shortFn(p.FuncKey(fn))+" drops the error of "+shortFn(name)+" and uses the value, which is nil whenever the error is not: a file that cannot be opened (a dangling link, a link to a directory) becomes a nil pointer dereference inside the lexer", p.InstrPos(call), false)
				}
			}
		}
	}
	if n == 0 {
		c.Ob(de.Props, "E7.dropped-error", "droppederr:"+strings.Join(de.Funcs, ","), Undecided, de.What+": no call of "+strings.Join(de.Callees, ", ")+" found (anchor lost)", "", false)
	}
}

var _ = token.MUL

// ---------------------------------------------------------------------------------------------
// save and restore: Enter<R> overwrites a package variable V and Exit<R> gives V a value taken from a package-level stack Q
// that Enter<R> pushes onto. What Enter pushes must be the value V had *before* the overwrite; when it pushes the new value,
// the stack only ever holds inner values and what V held before the outermost R is never restored (after `outer.new Inner()`
// the current class stayed "Inner" for the rest of the file).
func runSaveRestore(p *Program, c *Collector, a FuncRuleSpec) {
	type pairKey struct{ recv, rule string }
	enters, exits := map[pairKey]*ssa.Function{}, map[pairKey]*ssa.Function{}
	for _, fn := range expandFuncs(p, c, a.Funcs, a.Props...) {
		if fn.Signature.Recv() == nil || fn.Parent() != nil {
			continue
		}
		_, rn := namedTypeName(fn.Signature.Recv().Type())
		switch {
		case strings.HasPrefix(fn.Name(), "Enter"):
			enters[pairKey{rn, strings.TrimPrefix(fn.Name(), "Enter")}] = fn
		case strings.HasPrefix(fn.Name(), "Exit"):
			exits[pairKey{rn, strings.TrimPrefix(fn.Name(), "Exit")}] = fn
		}
	}
	var keys []pairKey
	for k := range enters {
		if exits[k] != nil {
			keys = append(keys, k)
		}
	}
	sort.Slice(keys, func(i, j int) bool { return keys[i].recv+keys[i].rule < keys[j].recv+keys[j].rule })
	before := func(x, y ssa.Instruction) bool {
		if x.Block() == y.Block() {
			for _, in := range x.Block().Instrs {
				if in == x {
					return true
				}
				if in == y {
					return false
				}
			}
		}
		return x.Block().Dominates(y.Block())
	}
	n := 0
	for _, k := range keys {
		enter, exit := enters[k], exits[k]
		// V: stored whole in both; in Exit from an element of a package slice Q
		for _, b := range exit.Blocks {
			for _, in := range b.Instrs {
				st, ok := in.(*ssa.Store)
				if !ok {
					continue
				}
				V, whole := globalOfAddr(st.Addr)
				if V == nil || !whole {
					continue
				}
				ld, ok := st.Val.(*ssa.UnOp)
				if !ok || ld.Op != token.MUL {
					continue
				}
				ia, ok := ld.X.(*ssa.IndexAddr)
				if !ok {
					continue
				}
				Q := loadedGlobal(ia.X)
				if Q == nil {
					// a re-sliced stack: q = q[:len(q)-1]; v = q[len(q)-1]
					if sl, ok := ia.X.(*ssa.Slice); ok {
						Q = loadedGlobal(sl.X)
					}
				}
				if Q == nil {
					continue
				}
				// Enter: the store to V and the append to Q
				var storeV *ssa.Store
				var pushed []ssa.Value
				for _, eb := range enter.Blocks {
					for _, ein := range eb.Instrs {
						est, ok := ein.(*ssa.Store)
						if !ok {
							continue
						}
						if g, w := globalOfAddr(est.Addr); g == V && w {
							storeV = est
						}
						if g, w := globalOfAddr(est.Addr); g == Q && w {
							if call, ok := est.Val.(*ssa.Call); ok {
								if bi, ok := call.Call.Value.(*ssa.Builtin); ok && bi.Name() == "append" && len(call.Call.Args) == 2 {
									pushed = append(pushed, variadicElems(call.Call.Args[1])...)
								}
							}
						}
					}
				}
				if storeV == nil || len(pushed) == 0 {
					continue
				}
				n++
				key := "saverestore:" + p.FuncKey(enter) + " " + V.Name() + " via " + Q.Name()
				saved := false
				for _, x := range pushed {
					if l, ok := x.(*ssa.UnOp); ok && l.Op == token.MUL {
						if g, w := globalOfAddr(l.X); g == V && w && before(l, storeV) {
							saved = true
						}
					}
				}
				// the bottom of the stack handled by hand: Exit also gives V a constant (nil outside every class)
				bottom := false
				for _, xb := range exit.Blocks {
					for _, xin := range xb.Instrs {
						if xst, ok := xin.(*ssa.Store); ok {
							if g, w := globalOfAddr(xst.Addr); g == V && w {
								if _, isConst := xst.Val.(*ssa.Const); isConst {
									bottom = true
								}
							}
						}
					}
				}
				if saved {
					c.Ob(a.Props, "E7.save-restore", key, Discharged, enter.Name()+" pushes what "+V.Name()+" held before it overwrites it", p.InstrPos(storeV), true)
				} else if bottom {
					c.Ob(a.Props, "E7.save-restore", key, Discharged, exit.Name()+" gives "+V.Name()+" its outermost value explicitly when the stack runs empty", p.InstrPos(storeV), true)
				} else {
					c.Ob(a.Props, "E7.save-restore", key, Violated, a.What+": "+enter.Name()+" overwrites "+V.Name()+" and pushes the new value onto "+Q.Name()+"; "+exit.Name()+" restores "+V.Name()+" from that stack, which never holds what "+V.Name()+" was before the outermost "+k.rule+": after it, "+V.Name()+" keeps the inner value for the rest of the file", p.InstrPos(storeV), false)
				}
			}
		}
	}
	if n == 0 {
		c.Ob(a.Props, "E7.save-restore", "saverestore:"+strings.Join(a.Funcs, ","), Discharged, a.What+": no callback pair restores a package variable from a stack", "", true)
	}
}

// variadicElems: the element values of the implicit slice of a variadic call (new [n]T; stores to its elements; slice).
func variadicElems(v ssa.Value) []ssa.Value {
	sl, ok := v.(*ssa.Slice)
	if !ok {
		return nil
	}
	al, ok := sl.X.(*ssa.Alloc)
	if !ok || al.Referrers() == nil {
		return nil
	}
	var out []ssa.Value
	for _, r := range *al.Referrers() {
		if ia, ok := r.(*ssa.IndexAddr); ok && ia.Referrers() != nil {
			for _, r2 := range *ia.Referrers() {
				if st, ok := r2.(*ssa.Store); ok && st.Addr == ssa.Value(ia) {
					out = append(out, st.Val)
				}
			}
		}
	}
	return out
}

// ---------------------------------------------------------------------------------------------
// size gate: what is done for each element of a list must not depend on how many elements the list has. A loop that is
// reached only when len(list) passes a threshold of 2 or more ("fewer than eight statements cannot add up to a repeated
// switch") silently skips the per-element work — and everything else that work feeds — for the short lists. Tests for
// emptiness (0, 1) are not thresholds.
func runSizeGate(p *Program, c *Collector, a FuncRuleSpec) {
	n := 0
	for _, fn := range expandFuncs(p, c, a.Funcs, a.Props...) {
		if len(fn.Blocks) == 0 {
			continue
		}
		sf := newSymFn(p, fn, 0)
		sf.inlineOK = func(*ssa.Function) bool { return false }
		var hs []*ssa.BasicBlock
		for h := range sf.headers {
			hs = append(hs, h)
		}
		sort.Slice(hs, func(i, j int) bool { return hs[i].Index < hs[j].Index })
		for _, h := range hs {
			coll := sf.loopCollection(h)
			if coll == nil {
				continue
			}
			if has, _ := coll.hasUnknown(); has {
				continue
			}
			n++
			cs := coll.String()
			// the condition under which the loop is entered: what holds in the blocks that jump to the header from outside
			var outside *Sym
			for _, pred := range h.Preds {
				if !sf.headers[h][pred] {
					pc := sf.pathCond(pred)
					if outside == nil {
						outside = pc
					} else {
						outside = sOr(outside, pc)
					}
				}
			}
			if outside == nil {
				continue
			}
			bad := ""
			// only demands for a minimum length count (len >= k, !(len < k)); a cap (len <= k) leaves the short lists in
			var look func(x *Sym, neg bool)
			look = func(x *Sym, neg bool) {
				if x == nil {
					return
				}
				if x.Op == "not" && len(x.Kids) == 1 {
					look(x.Kids[0], !neg)
					return
				}
				if x.Op == "bin" && len(x.Kids) == 2 && (x.Name == "&&" || x.Name == "||") {
					look(x.Kids[0], neg)
					look(x.Kids[1], neg)
					return
				}
				if x.Op != "bin" || len(x.Kids) != 2 {
					return
				}
				for i := 0; i < 2; i++ {
					l, k := x.Kids[i], x.Kids[1-i]
					if l.Op != "len" || len(l.Kids) != 1 || l.Kids[0].String() != cs {
						continue
					}
					v, ok := symInt(k)
					if !ok {
						continue
					}
					op := x.Name
					if i == 1 { // k OP len  ->  len OP' k
						op = map[string]string{"<": ">", "<=": ">=", ">": "<", ">=": "<=", "==": "==", "!=": "!="}[op]
					}
					if neg {
						op = map[string]string{"<": ">=", "<=": ">", ">": "<=", ">=": "<", "==": "!=", "!=": "=="}[op]
					}
					min := int64(0) // the smallest length the test lets through
					switch op {
					case ">":
						min = v + 1
					case ">=", "==":
						min = v
					}
					if min >= 2 {
						bad = x.String()
						if neg {
							bad = "!" + bad
						}
					}
				}
			}
			look(outside, false)
			key := "sizegate:" + p.FuncKey(fn) + " loop over " + clip(cs, 60)
			if bad != "" {
				c.Ob(a.Props, "E7.size-gate", key, Violated, a.What+": the loop over "+clip(cs, 60)+" in "+shortFn(p.FuncKey(fn))+" is entered only under "+bad+": for a shorter list none of the per-element work is done", p.InstrPos(h.Instrs[0]), false)
			} else {
				c.Ob(a.Props, "E7.size-gate", key, Discharged, "the loop is entered whatever the length of the list", p.InstrPos(h.Instrs[0]), true)
			}
		}
	}
	if n == 0 {
		c.Ob(a.Props, "E7.size-gate", "sizegate:"+strings.Join(a.Funcs, ","), Undecided, a.What+": no loop over a list found (anchor lost)", "", false)
	}
}

// ---------------------------------------------------------------------------------------------
// stale copy: the entries of a package-level map are records (values, not pointers), so `G = M[k]` takes a copy. When one
// function takes the copy into a package-level variable and another function writes it back (`M[k] = G`), every update of
// the entry made in between — by the functions that do their own read-modify-write on M — is overwritten by the old copy
// (the calls recorded inside an anonymous class were lost from the enclosing method).
func runStaleCopy(p *Program, c *Collector, a FuncRuleSpec) {
	fns := expandFuncs(p, c, a.Funcs, a.Props...)
	type gm struct{ G, M *ssa.Global }
	taken := map[gm][]*ssa.Function{}
	back := map[gm][]ssa.Instruction{}
	updaters := map[*ssa.Global]map[*ssa.Function]bool{}
	for _, fn := range fns {
		for _, b := range fn.Blocks {
			for _, in := range b.Instrs {
				switch x := in.(type) {
				case *ssa.Store:
					G, whole := globalOfAddr(x.Addr)
					if G == nil || !whole {
						continue
					}
					v := x.Val
					if ex, ok := v.(*ssa.Extract); ok {
						v = ex.Tuple
					}
					if lk, ok := v.(*ssa.Lookup); ok {
						if M := loadedGlobal(lk.X); M != nil {
							if _, isStruct := G.Type().(*types.Pointer).Elem().Underlying().(*types.Struct); isStruct {
								taken[gm{G, M}] = append(taken[gm{G, M}], fn)
							}
						}
					}
				case *ssa.MapUpdate:
					M := loadedGlobal(x.Map)
					if M == nil {
						continue
					}
					if updaters[M] == nil {
						updaters[M] = map[*ssa.Function]bool{}
					}
					updaters[M][fn] = true
					if G := loadedGlobal(x.Value); G != nil {
						back[gm{G, M}] = append(back[gm{G, M}], in)
					}
				}
			}
		}
	}
	var keys []gm
	for k := range back {
		if len(taken[k]) > 0 {
			keys = append(keys, k)
		}
	}
	sort.Slice(keys, func(i, j int) bool { return keys[i].G.Name()+keys[i].M.Name() < keys[j].G.Name()+keys[j].M.Name() })
	n := 0
	for _, k := range keys {
		for _, wb := range back[k] {
			n++
			key := "stalecopy:" + p.FuncKey(wb.Parent()) + " " + k.G.Name() + " into " + k.M.Name()
			sameFn := false
			for _, t := range taken[k] {
				if t == wb.Parent() {
					sameFn = true
				}
			}
			others := 0
			for f := range updaters[k.M] {
				if f != wb.Parent() {
					others++
				}
			}
			switch {
			case sameFn:
				c.Ob(a.Props, "E7.stale-copy", key, Discharged, "the copy is taken and written back within one function", p.InstrPos(wb), true)
			case others == 0:
				c.Ob(a.Props, "E7.stale-copy", key, Discharged, "no other function updates the entries of "+k.M.Name(), p.InstrPos(wb), true)
			default:
				c.Ob(a.Props, "E7.stale-copy", key, Violated, a.What+": "+k.G.Name()+" is a copy of an entry of "+k.M.Name()+" taken in "+shortFn(p.FuncKey(taken[k][0]))+"; "+shortFn(p.FuncKey(wb.Parent()))+" writes it back, and "+strconv.Itoa(others)+" other function(s) update entries of "+k.M.Name()+" in between: their updates are overwritten by the old copy", p.InstrPos(wb), false)
			}
		}
	}
	if n == 0 {
		c.Ob(a.Props, "E7.stale-copy", "stalecopy:"+strings.Join(a.Funcs, ","), Discharged, a.What+": no package-level copy of a map entry is written back", "", true)
	}
}

// ---------------------------------------------------------------------------------------------
// library configuration: some switches of a library object change what it accepts. encoding/xml's Decoder with Strict=false or
// an AutoClose table reads well-formed XML differently (an element named like an HTML void element — <link>, <meta>, <param> —
// closes at once and the explicit end tag then tears down its ancestors): a reader of build files must leave them alone.
type FieldStoreSpec struct {
	Props  []string `json:"props"`
	Funcs  []string `json:"funcs"`
	Type   string   `json:"type"`   // "<pkg path>.<type>"
	Fields []string `json:"fields"` // fields that may not be assigned
	What   string   `json:"what"`
}

func runForbiddenFieldStore(p *Program, c *Collector, fs FieldStoreSpec) {
	uses := 0
	for _, fn := range expandFuncs(p, c, fs.Funcs, fs.Props...) {
		for _, b := range fn.Blocks {
			for _, in := range b.Instrs {
				// the object is made or used here
				if v, ok := in.(ssa.Value); ok {
					t := v.Type()
					if pt, ok := t.Underlying().(*types.Pointer); ok {
						t = pt.Elem()
					}
					if pk, n := namedTypeName(t); pk+"."+n == fs.Type {
						uses++
					}
				}
				st, ok := in.(*ssa.Store)
				if !ok {
					continue
				}
				fa, ok := st.Addr.(*ssa.FieldAddr)
				if !ok {
					continue
				}
				t := fa.X.Type()
				if pt, ok := t.Underlying().(*types.Pointer); ok {
					t = pt.Elem()
				}
				if pk, n := namedTypeName(t); pk+"."+n != fs.Type {
					continue
				}
				fname, _ := fieldOf(fa.X.Type(), fa.Field)
				for _, f := range fs.Fields {
					if f == fname {
						c.Ob(fs.Props, "E7.library-configuration", "fieldstore:"+p.FuncKey(fn)+" "+fs.Type+"."+fname, Violated, fs.What+": "+shortFn(p.FuncKey(fn))+" sets "+fname+" of the "+fs.Type+": the reader then accepts and structures documents differently from what they say", p.InstrPos(in), false)
					}
				}
			}
		}
	}
	if uses == 0 {
		c.Ob(fs.Props, "E7.library-configuration", "fieldstore:"+strings.Join(fs.Funcs, ",")+" "+fs.Type, Undecided, fs.What+": no "+fs.Type+" is used in the named functions any more (anchor lost)", "", false)
	} else {
		c.Ob(fs.Props, "E7.library-configuration", "fieldstore:"+strings.Join(fs.Funcs, ",")+" "+fs.Type+" default", Discharged, "the "+fs.Type+" is used as the library configures it", "", true)
	}
}

// ---------------------------------------------------------------------------------------------
// render once: a tablewriter.Table keeps the rows appended to it; Render() prints all of them and clears nothing. One table
// value that is rendered at two places prints the rows of the first section again in the second (the team table of `coca
// git` began with the four rows of the basic summary). ClearRows() between the two is the library's way out.
type RenderOnceSpec struct {
	Props  []string `json:"props"`
	Funcs  []string `json:"funcs"`
	Render []string `json:"render"` // full names of the printing method (default: tablewriter's Render)
	Clear  []string `json:"clear"`  // full names of the method that empties the table (default: tablewriter's ClearRows)
	What   string   `json:"what"`
}

func runRenderOnce(p *Program, c *Collector, a RenderOnceSpec) {
	if len(a.Render) == 0 {
		a.Render = []string{"github.com/olekukonko/tablewriter.(Table).Render"}
	}
	if len(a.Clear) == 0 {
		a.Clear = []string{"github.com/olekukonko/tablewriter.(Table).ClearRows"}
	}
	isOneOf := func(name string, list []string) bool {
		for _, x := range list {
			if x == name {
				return true
			}
		}
		return false
	}
	n := 0
	for _, fn := range expandFuncs(p, c, a.Funcs, a.Props...) {
		renders := map[ssa.Value][]ssa.Instruction{}
		clears := map[ssa.Value]bool{}
		for _, f := range append([]*ssa.Function{fn}, allAnon(fn)...) {
			for _, b := range f.Blocks {
				for _, in := range b.Instrs {
					call, ok := in.(ssa.CallInstruction)
					if !ok || call.Common().StaticCallee() == nil || len(call.Common().Args) == 0 {
						continue
					}
					name := fullFuncName(call.Common().StaticCallee())
					if !isOneOf(name, a.Render) && !isOneOf(name, a.Clear) {
						continue
					}
					recv := call.Common().Args[0]
					// a table held in a captured variable: all loads of the cell are the same table
					if u, ok := recv.(*ssa.UnOp); ok && u.Op == token.MUL {
						recv = u.X
					}
					if isOneOf(name, a.Clear) {
						clears[recv] = true
					} else {
						renders[recv] = append(renders[recv], in)
					}
				}
			}
		}
		var vs []ssa.Value
		for v := range renders {
			vs = append(vs, v)
		}
		sort.Slice(vs, func(i, j int) bool { return renders[vs[i]][0].Pos() < renders[vs[j]][0].Pos() })
		for i, v := range vs {
			n++
			key := "renderonce:" + p.FuncKey(fn) + " table#" + strconv.Itoa(i+1)
			if len(renders[v]) > 1 && !clears[v] {
				c.Ob(a.Props, "E7.render-once", key, Violated, a.What+": one table is rendered at "+strconv.Itoa(len(renders[v]))+" places in "+shortFn(p.FuncKey(fn))+" ("+p.InstrPos(renders[v][0])+", "+p.InstrPos(renders[v][1])+", …) and never cleared: every section after the first prints the rows of the sections before it again", p.InstrPos(renders[v][1]), false)
			} else {
				c.Ob(a.Props, "E7.render-once", key, Discharged, "the table is rendered once (or cleared between renderings)", p.InstrPos(renders[v][0]), true)
			}
		}
	}
	if n == 0 {
		c.Ob(a.Props, "E7.render-once", "renderonce:"+strings.Join(a.Funcs, ","), Undecided, a.What+": no table is rendered in the named functions (anchor lost)", "", false)
	}
}

// ---------------------------------------------------------------------------------------------
// cross product: a record is filed inside two nested loops, and neither the record nor the condition under which it is filed
// depends on the element of the outer loop: it is filed once for every outer element (`f, err := os.Open(n)` listed the call
// twice, once per left-hand name).
func runCrossProduct(p *Program, c *Collector, a FuncRuleSpec) {
	n := 0
	for _, fn := range expandFuncs(p, c, a.Funcs, a.Props...) {
		if len(fn.Blocks) == 0 {
			continue
		}
		sf := newSymFn(p, fn, 0)
		sf.inlineOK = func(*ssa.Function) bool { return false }
		if len(sf.headers) < 2 {
			continue
		}
		k := 0
		for _, e := range sf.emissions() {
			if strings.HasPrefix(e.target, "mapstore:") || strings.HasPrefix(e.target, "globalstore:") || strings.HasPrefix(e.target, "freestore:") || strings.HasPrefix(e.target, "paramfield:") || strings.HasPrefix(e.target, "local:") {
				continue // only appends to lists: a store is idempotent
			}
			var hs []*ssa.BasicBlock
			for h, l := range sf.headers {
				if l[e.block] {
					hs = append(hs, h)
				}
			}
			if len(hs) < 2 {
				continue
			}
			sort.Slice(hs, func(i, j int) bool { return len(sf.headers[hs[i]]) > len(sf.headers[hs[j]]) })
			if has, _ := e.elem.hasUnknown(); has {
				continue
			}
			if has, _ := e.cond.hasUnknown(); has {
				continue
			}
			k++
			n++
			key := "crossproduct:" + p.FuncKey(fn) + " #" + strconv.Itoa(k) + " into " + clip(e.target, 60)
			bad := ""
			inner := sf.binderName(hs[len(hs)-1])
			for _, h := range hs[:len(hs)-1] {
				name := sf.binderName(h)
				coll := sf.loopCollection(h)
				if coll == nil || e.elem.mentions(name) || e.cond.mentions(name) || e.elem.mentions(name+"_k") || e.cond.mentions(name+"_k") {
					continue
				}
				// the inner collection itself may depend on the outer element (for c in classes: for m in c.methods): then the
				// inner element does
				dep := false
				for _, h2 := range hs {
					if h2 == h {
						continue
					}
					if c2 := sf.loopCollection(h2); c2 != nil && (c2.mentions(name) || c2.mentions(name+"_k")) {
						dep = true
					}
				}
				if dep || !(e.elem.mentions(inner) || e.cond.mentions(inner)) {
					continue
				}
				bad = clip(coll.String(), 80)
			}
			if bad != "" {
				c.Ob(a.Props, "E7.cross-product", key, Violated, a.What+": "+shortFn(p.FuncKey(fn))+" files a record inside nested loops, and neither the record nor its condition depends on the element of the loop over "+bad+": the record is filed once per element of that list", e.pos, false)
			} else {
				c.Ob(a.Props, "E7.cross-product", key, Discharged, "the record depends on the element of every loop around it", e.pos, true)
			}
		}
	}
	if n == 0 {
		c.Ob(a.Props, "E7.cross-product", "crossproduct:"+strings.Join(a.Funcs, ","), Discharged, a.What+": no record is filed inside nested loops", "", true)
	}
}

// ---------------------------------------------------------------------------------------------
// text identity: the text handed to a lexer is the text that was read or given — positions recorded by the listeners are
// offsets into it, and the rename writes through them into the file. A string that went through a transforming library call
// (strings.ToValidUTF8, a Replace, a regexp, a Trim…) on its way into antlr.NewInputStream is another text.
type TextIdentitySpec struct {
	Props []string `json:"props"`
	Funcs []string `json:"funcs"`
	Sinks []string `json:"sinks"` // full names of the functions whose first argument must be the text as it is
	What  string   `json:"what"`
}

func runTextIdentity(p *Program, c *Collector, ti TextIdentitySpec) {
	isSink := func(f *ssa.Function) bool {
		if f == nil {
			return false
		}
		n, k := fullFuncName(f), p.FuncKey(f)
		for _, s := range ti.Sinks {
			if s == n || s == k {
				return true
			}
		}
		return false
	}
	n := 0
	for _, fn := range expandFuncs(p, c, ti.Funcs, ti.Props...) {
		k := 0
		for _, b := range fn.Blocks {
			for _, in := range b.Instrs {
				call, ok := in.(*ssa.Call)
				if !ok || !isSink(call.Call.StaticCallee()) || len(call.Call.Args) == 0 {
					continue
				}
				k++
				n++
				key := "textidentity:" + p.FuncKey(fn) + " #" + strconv.Itoa(k) + " -> " + shortFn(fullFuncName(call.Call.StaticCallee()))
				bad := ""
				seen := map[ssa.Value]bool{}
				var walk func(v ssa.Value)
				walk = func(v ssa.Value) {
					if v == nil || seen[v] || bad != "" {
						return
					}
					seen[v] = true
					switch x := v.(type) {
					case *ssa.Parameter, *ssa.Const, *ssa.FreeVar, *ssa.Global:
					case *ssa.Convert:
						walk(x.X)
					case *ssa.ChangeType:
						walk(x.X)
					case *ssa.Phi:
						for _, e := range x.Edges {
							walk(e)
						}
					case *ssa.Extract:
						walk(x.Tuple)
					case *ssa.UnOp:
						walk(x.X)
					case *ssa.Call:
						callee := x.Call.StaticCallee()
						if callee == nil {
							return
						}
						full := fullFuncName(callee)
						switch {
						case full == "io/ioutil.ReadFile" || full == "os.ReadFile" || full == "io/ioutil.ReadAll" || full == "io.ReadAll":
						case p.IsOwnFunc(callee):
						default:
							pkgPath := ""
							if callee.Pkg != nil {
								pkgPath = callee.Pkg.Pkg.Path()
							}
							switch pkgPath {
							case "strings", "bytes", "regexp", "unicode/utf8", "unicode", "golang.org/x/text/transform":
								bad = full
							}
							if callee.Signature.Recv() != nil {
								if pk, _ := namedTypeName(callee.Signature.Recv().Type()); pk == "regexp" || pk == "strings" || pk == "bytes" {
									bad = full
								}
							}
						}
					case *ssa.BinOp:
						bad = "a concatenation"
					}
				}
				walk(call.Call.Args[0])
				if bad != "" {
					c.Ob(ti.Props, "E7.text-identity", key, Violated, ti.What+": the text "+shortFn(p.FuncKey(fn))+" hands on has gone through "+bad+": it is no longer the text of the file, and the lines and columns recorded from it point elsewhere", p.InstrPos(call), false)
				} else {
					c.Ob(ti.Props, "E7.text-identity", key, Discharged, "the text is handed on as it was read or given", p.InstrPos(call), true)
				}
			}
		}
	}
	if n == 0 {
		c.Ob(ti.Props, "E7.text-identity", "textidentity:"+strings.Join(ti.Funcs, ","), Discharged, ti.What+": no text is handed to a lexer in the named functions (files are opened by path)", "", true)
	}
}

// ---------------------------------------------------------------------------------------------
// grown while ranged: `for _, x := range xs { xs = append(xs, …) }` — the range expression is evaluated once, so what the body
// appends is never visited: a work list written this way handles one level only (member types of member types dropped out).
// A loop that re-reads len(xs) every time (for i := 0; i < len(xs); i++) does visit them.
func runGrownWhileRanged(p *Program, c *Collector, a FuncRuleSpec) {
	n := 0
	for _, fn := range expandFuncs(p, c, a.Funcs, a.Props...) {
		if len(fn.Blocks) == 0 {
			continue
		}
		k := 0
		for _, loop := range naturalLoops(fn) {
			h := loopHeader(loop)
			if h == nil {
				continue
			}
			// the bound: header compares an index phi with len(xs) computed outside the loop
			var ranged ssa.Value
			for _, in := range h.Instrs {
				bo, ok := in.(*ssa.BinOp)
				if !ok || bo.Op != token.LSS {
					continue
				}
				if lc, ok := bo.Y.(*ssa.Call); ok {
					if bi, ok := lc.Call.Value.(*ssa.Builtin); ok && bi.Name() == "len" && !loop[lc.Block()] {
						if _, isSlice := lc.Call.Args[0].Type().Underlying().(*types.Slice); isSlice {
							ranged = lc.Call.Args[0]
						}
					}
				}
			}
			if ranged == nil {
				continue
			}
			k++
			n++
			key := "grownwhileranged:" + p.FuncKey(fn) + " loop#" + strconv.Itoa(k)
			// an append inside the loop whose first argument is the ranged list or a value that becomes it on the next round
			fam := map[ssa.Value]bool{ranged: true}
			for changed := true; changed; {
				changed = false
				for b := range loop {
					for _, in := range b.Instrs {
						switch x := in.(type) {
						case *ssa.Phi:
							for _, e := range x.Edges {
								if fam[e] && !fam[x] {
									fam[x], changed = true, true
								}
							}
						case *ssa.Call:
							if bi, ok := x.Call.Value.(*ssa.Builtin); ok && bi.Name() == "append" && len(x.Call.Args) > 0 && fam[x.Call.Args[0]] && !fam[x] {
								fam[x], changed = true, true
							}
						}
					}
				}
			}
			// loads of the same cell count as the list too
			var cell ssa.Value
			if u, ok := ranged.(*ssa.UnOp); ok && u.Op == token.MUL {
				cell = u.X
			}
			var bad ssa.Instruction
			for b := range loop {
				for _, in := range b.Instrs {
					call, ok := in.(*ssa.Call)
					if !ok {
						continue
					}
					if bi, ok := call.Call.Value.(*ssa.Builtin); !ok || bi.Name() != "append" || len(call.Call.Args) == 0 {
						continue
					}
					a0 := call.Call.Args[0]
					same := fam[a0]
					if u, ok := a0.(*ssa.UnOp); ok && u.Op == token.MUL && cell != nil && u.X == cell {
						same = true
					}
					if same {
						bad = in
					}
				}
			}
			if bad != nil {
				c.Ob(a.Props, "E7.grown-while-ranged", key, Violated, a.What+": "+shortFn(p.FuncKey(fn))+" appends to the list it ranges over ("+p.InstrPos(bad)+"): the range was fixed when the loop began, so the appended elements are never visited", p.InstrPos(bad), false)
			} else {
				c.Ob(a.Props, "E7.grown-while-ranged", key, Discharged, "the ranged list is not grown inside the loop", p.InstrPos(h.Instrs[0]), true)
			}
		}
	}
	if n == 0 {
		c.Ob(a.Props, "E7.grown-while-ranged", "grownwhileranged:"+strings.Join(a.Funcs, ","), Discharged, a.What+": no range loop over a list", "", true)
	}
}

// ---------------------------------------------------------------------------------------------
// append only: a package-level list that holds parsed records in the order they were read is only ever reset or appended to;
// assigning its elements, swapping them or sorting it changes the order the property promises.
type AppendOnlySpec struct {
	Props  []string `json:"props"`
	Funcs  []string `json:"funcs"`
	Global string   `json:"global"` // "<rel pkg>.<var>"
	What   string   `json:"what"`
}

func runAppendOnly(p *Program, c *Collector, ao AppendOnlySpec) {
	key := "appendonly:" + ao.Global
	found := false
	var bad ssa.Instruction
	why := ""
	for _, fn := range expandFuncs(p, c, ao.Funcs, ao.Props...) {
		for _, b := range fn.Blocks {
			for _, in := range b.Instrs {
				switch x := in.(type) {
				case *ssa.Store:
					g, whole := globalOfAddr(x.Addr)
					if g == nil || p.GlobalKey(g) != ao.Global {
						// an element reached through a load of the list
						if ia, ok := x.Addr.(*ssa.IndexAddr); ok {
							if lg := loadedGlobal(ia.X); lg != nil && p.GlobalKey(lg) == ao.Global && bad == nil {
								bad, why = in, "an element of the list is assigned"
							}
						}
						continue
					}
					found = true
					if whole {
						continue
					}
				case *ssa.Call:
					if callee := x.Call.StaticCallee(); callee != nil && strings.HasPrefix(fullFuncName(callee), "sort.") && len(x.Call.Args) > 0 {
						a0 := x.Call.Args[0]
						if mi, ok := a0.(*ssa.MakeInterface); ok {
							a0 = mi.X
						}
						if lg := loadedGlobal(a0); lg != nil && p.GlobalKey(lg) == ao.Global && bad == nil {
							bad, why = in, "the list is sorted"
						}
					}
				}
			}
		}
	}
	switch {
	case !found:
		c.Ob(ao.Props, "E7.append-only", key, Undecided, ao.What+": "+ao.Global+" is not assigned in the named functions any more (anchor lost)", "", false)
	case bad != nil:
		c.Ob(ao.Props, "E7.append-only", key, Violated, ao.What+": "+why+" ("+shortFn(p.FuncKey(bad.Parent()))+"): the records no longer stand in the order they were read", p.InstrPos(bad), false)
	default:
		c.Ob(ao.Props, "E7.append-only", key, Discharged, "the list is only reset and appended to", "", true)
	}
}

// ---------------------------------------------------------------------------------------------
// paired undo: Exit<R> takes one level off a package-level depth counter or pops a package-level stack without looking at its
// node; then Enter<R> must have added that level, or pushed, on every path — an Enter that returns early before the increment
// (or pushes only for some nodes) lets the Exit undo something an enclosing node did.
func runPairedUndo(p *Program, c *Collector, a FuncRuleSpec) {
	type pairKey struct{ recv, rule string }
	enters, exits := map[pairKey]*ssa.Function{}, map[pairKey]*ssa.Function{}
	for _, fn := range expandFuncs(p, c, a.Funcs, a.Props...) {
		if fn.Signature.Recv() == nil || fn.Parent() != nil || len(fn.Blocks) == 0 {
			continue
		}
		_, rn := namedTypeName(fn.Signature.Recv().Type())
		switch {
		case strings.HasPrefix(fn.Name(), "Enter"):
			enters[pairKey{rn, strings.TrimPrefix(fn.Name(), "Enter")}] = fn
		case strings.HasPrefix(fn.Name(), "Exit"):
			exits[pairKey{rn, strings.TrimPrefix(fn.Name(), "Exit")}] = fn
		}
	}
	var keys []pairKey
	for k := range enters {
		if exits[k] != nil {
			keys = append(keys, k)
		}
	}
	sort.Slice(keys, func(i, j int) bool { return keys[i].recv+keys[i].rule < keys[j].recv+keys[j].rule })
	// the "do" and "undo" stores of a function on package-level counters and stacks
	type op struct {
		g  *ssa.Global
		in ssa.Instruction
		up bool
	}
	opsOf := func(fn *ssa.Function) []op {
		var out []op
		for _, b := range fn.Blocks {
			for _, in := range b.Instrs {
				st, ok := in.(*ssa.Store)
				if !ok {
					continue
				}
				g, whole := globalOfAddr(st.Addr)
				if g == nil || !whole {
					continue
				}
				switch v := st.Val.(type) {
				case *ssa.BinOp:
					if loadedGlobal(v.X) == g {
						if k, isC := constInt(v.Y); isC && k == 1 {
							if v.Op == token.ADD {
								out = append(out, op{g, in, true})
							} else if v.Op == token.SUB {
								out = append(out, op{g, in, false})
							}
						}
					}
				case *ssa.Call:
					if bi, ok := v.Call.Value.(*ssa.Builtin); ok && bi.Name() == "append" && len(v.Call.Args) > 0 && loadedGlobal(v.Call.Args[0]) == g {
						out = append(out, op{g, in, true})
					}
				case *ssa.Slice:
					if loadedGlobal(v.X) == g && v.High != nil && v.Low == nil {
						out = append(out, op{g, in, false})
					}
				}
			}
		}
		return out
	}
	n := 0
	for _, k := range keys {
		enter, exit := enters[k], exits[k]
		sx := newSymFn(p, exit, 0)
		sx.inlineOK = func(*ssa.Function) bool { return false }
		eo := opsOf(enter)
		for _, undo := range opsOf(exit) {
			if undo.up {
				continue
			}
			var do *op
			for i := range eo {
				if eo[i].g == undo.g && eo[i].up {
					do = &eo[i]
				}
			}
			if do == nil {
				continue
			}
			n++
			key := "pairedundo:" + p.FuncKey(enter) + " " + undo.g.Name()
			// Exit decides by its own node: nothing to demand of Enter
			byNode := false
			sx.pathCond(undo.in.Block()).walk(func(x *Sym) {
				if x.Op == "param" && x.Name == "p1" {
					byNode = true
				}
			})
			if byNode {
				c.Ob(a.Props, "E7.paired-undo", key, Discharged, exit.Name()+" undoes under a test of its own node", p.InstrPos(undo.in), true)
				continue
			}
			var skipping *ssa.BasicBlock
			for _, b := range enter.Blocks {
				if len(b.Instrs) == 0 {
					continue
				}
				if _, isRet := b.Instrs[len(b.Instrs)-1].(*ssa.Return); isRet && !do.in.Block().Dominates(b) {
					skipping = b
				}
			}
			if skipping != nil {
				c.Ob(a.Props, "E7.paired-undo", key, Violated, a.What+": "+exit.Name()+" takes "+undo.g.Name()+" back for every "+k.rule+" ("+p.InstrPos(undo.in)+"), but "+enter.Name()+" can return ("+p.InstrPos(skipping.Instrs[len(skipping.Instrs)-1])+") without having advanced it ("+p.InstrPos(do.in)+"): the Exit then undoes what an enclosing node did", p.InstrPos(do.in), false)
			} else {
				c.Ob(a.Props, "E7.paired-undo", key, Discharged, enter.Name()+" advances "+undo.g.Name()+" on every path", p.InstrPos(do.in), true)
			}
		}
	}
	if n == 0 {
		c.Ob(a.Props, "E7.paired-undo", "pairedundo:"+strings.Join(a.Funcs, ","), Discharged, a.What+": no callback pair advances and takes back a package-level counter or stack", "", true)
	}
}

// ---------------------------------------------------------------------------------------------
// handled means filed: a helper that tells its caller "I have taken care of this one" (returns true), after which the caller
// stops, may say so only on paths on which it has filed the record: every `return true` is dominated by the append to the
// package-level list (the handler of an interface-declared method vanished when the helper reported true without an entry).
type HandledSpec struct {
	Props  []string `json:"props"`
	Func   string   `json:"func"`
	Global string   `json:"global"` // "<rel pkg>.<var>": the list the record is filed in
	What   string   `json:"what"`
}

func runHandledMeansFiled(p *Program, c *Collector, h HandledSpec) {
	fn := p.Func(h.Func)
	if fn == nil {
		c.Anchor(h.Props, "E7: handled-means-filed: %s does not resolve", h.Func)
		return
	}
	key := "handled:" + h.Func
	var files []ssa.Instruction
	for _, b := range fn.Blocks {
		for _, in := range b.Instrs {
			if st, ok := in.(*ssa.Store); ok {
				if g, whole := globalOfAddr(st.Addr); g != nil && whole && p.GlobalKey(g) == h.Global {
					if call, ok := st.Val.(*ssa.Call); ok {
						if bi, ok := call.Call.Value.(*ssa.Builtin); ok && bi.Name() == "append" {
							files = append(files, in)
						}
					}
				}
			}
		}
	}
	if len(files) == 0 {
		c.Ob(h.Props, "E7.handled-means-filed", key, Undecided, h.What+": "+shortFn(h.Func)+" no longer appends to "+h.Global+" (anchor lost)", p.FuncPos(fn), false)
		return
	}
	var bad ssa.Instruction
	nTrue := 0
	for _, b := range fn.Blocks {
		if len(b.Instrs) == 0 {
			continue
		}
		ret, ok := b.Instrs[len(b.Instrs)-1].(*ssa.Return)
		if !ok || len(ret.Results) != 1 {
			continue
		}
		// the blocks in which the result is the constant true: the return block itself, or the predecessors that feed true
		// into a phi
		var trueBlocks []*ssa.BasicBlock
		switch v := ret.Results[0].(type) {
		case *ssa.Const:
			if v.Value != nil && v.Value.String() == "true" {
				trueBlocks = append(trueBlocks, b)
			}
		case *ssa.Phi:
			for i, e := range v.Edges {
				if cst, ok := e.(*ssa.Const); ok && cst.Value != nil && cst.Value.String() == "true" {
					trueBlocks = append(trueBlocks, v.Block().Preds[i])
				}
			}
		default:
			nTrue++ // a computed result: not decided here
		}
		for _, tb := range trueBlocks {
			nTrue++
			ok := false
			for _, f := range files {
				if f.Block() == tb || f.Block().Dominates(tb) {
					ok = true
				}
			}
			if !ok && bad == nil {
				bad = tb.Instrs[len(tb.Instrs)-1]
			}
		}
	}
	switch {
	case bad != nil:
		c.Ob(h.Props, "E7.handled-means-filed", key, Violated, h.What+": "+shortFn(h.Func)+" reports the record as handled on a path ("+p.InstrPos(bad)+") on which it has not filed it in "+h.Global+": the caller stops there and the record is lost", p.InstrPos(bad), false)
	case nTrue == 0:
		c.Ob(h.Props, "E7.handled-means-filed", key, Undecided, h.What+": "+shortFn(h.Func)+" never reports true any more (anchor lost)", p.FuncPos(fn), false)
	default:
		c.Ob(h.Props, "E7.handled-means-filed", key, Discharged, "true is reported only after the record was filed", p.FuncPos(fn), true)
	}
}

// ---------------------------------------------------------------------------------------------
// last one wins: inside a loop over a list, a value computed from the element is assigned to one and the same field of a
// package-level record on every iteration — a slot for one where the source has several (an interface that extends three
// interfaces kept the last). An append, or a store under a key that depends on the element, keeps them all.
func runLastOneWins(p *Program, c *Collector, a FuncRuleSpec) {
	n := 0
	for _, fn := range expandFuncs(p, c, a.Funcs, a.Props...) {
		if len(fn.Blocks) == 0 {
			continue
		}
		sf := newSymFn(p, fn, 0)
		sf.inlineOK = func(*ssa.Function) bool { return false }
		k := 0
		for _, e := range sf.emissions() {
			if !strings.HasPrefix(e.target, "globalstore:") || e.elem == nil || len(e.elem.Kids) != 1 {
				continue
			}
			h, _ := sf.loopOf(e.block)
			if h == nil {
				continue
			}
			name := sf.binderName(h)
			v := e.elem.Kids[0]
			if has, _ := v.hasUnknown(); has {
				continue
			}
			if !v.mentions(name) {
				continue // the same value every time
			}
			// a store under a test of the element or of its position picks one element (the pair named "value", the parameter
			// annotated @RequestBody, the first of the list): a selection, not a slot filled once per element
			if rel := sf.pathCondFrom(h, e.block, sf.headers[h]); !isTrue(rel) {
				continue
			}
			// an accumulation reads the field it writes (x.F = x.F + …, append): not a slot
			tgt := strings.TrimPrefix(e.target, "globalstore:")
			field := tgt[strings.LastIndex(tgt, ".")+1:]
			acc := false
			v.walk(func(x *Sym) {
				if x.Op == "field" && x.Name == field {
					acc = true
				}
				if x.Op == "append" {
					acc = true
				}
			})
			if acc {
				continue
			}
			k++
			n++
			key := "lastonewins:" + p.FuncKey(fn) + " " + shortFn(tgt)
			c.Ob(a.Props, "E7.last-one-wins", key, Violated, a.What+": "+shortFn(p.FuncKey(fn))+" assigns "+shortFn(tgt)+" once per element of "+clip(sf.loopCollection(h).String(), 60)+": the field has room for one, every element but the last is lost", e.pos, false)
		}
	}
	if n == 0 {
		c.Ob(a.Props, "E7.last-one-wins", "lastonewins:"+strings.Join(a.Funcs, ","), Discharged, a.What+": no field of a package-level record is overwritten once per element of a list", "", true)
	}
}

// ---------------------------------------------------------------------------------------------
// read-only shared table: a package-level map that a constructor receives from its caller and keeps for look-ups (the
// identifier table every file's listener is handed) is shared by all units: a callback that adds to it makes what later
// files see depend on which files came before.
type ReadOnlySpec struct {
	Props  []string `json:"props"`
	Funcs  []string `json:"funcs"`
	Global string   `json:"global"` // "<rel pkg>.<var>"
	What   string   `json:"what"`
}

func runReadOnlyGlobal(p *Program, c *Collector, ro ReadOnlySpec) {
	key := "readonly:" + ro.Global
	seen := false
	var bad ssa.Instruction
	for _, fn := range expandFuncs(p, c, ro.Funcs, ro.Props...) {
		for _, b := range fn.Blocks {
			for _, in := range b.Instrs {
				switch x := in.(type) {
				case *ssa.UnOp:
					if g := loadedGlobal(x); g != nil && p.GlobalKey(g) == ro.Global {
						seen = true
					}
				case *ssa.MapUpdate:
					if g := loadedGlobal(x.Map); g != nil && p.GlobalKey(g) == ro.Global && bad == nil {
						bad = in
					}
				case *ssa.Call:
					if bi, ok := x.Call.Value.(*ssa.Builtin); ok && bi.Name() == "delete" && len(x.Call.Args) > 0 {
						if g := loadedGlobal(x.Call.Args[0]); g != nil && p.GlobalKey(g) == ro.Global && bad == nil {
							bad = in
						}
					}
				}
			}
		}
	}
	switch {
	case bad != nil:
		c.Ob(ro.Props, "E7.read-only-table", key, Violated, ro.What+": "+shortFn(p.FuncKey(bad.Parent()))+" writes into "+ro.Global+", the table handed to every unit's listener: what a later file sees depends on the files before it", p.InstrPos(bad), false)
	case !seen:
		c.Ob(ro.Props, "E7.read-only-table", key, Undecided, ro.What+": "+ro.Global+" is not read in the named functions any more (anchor lost)", "", false)
	default:
		c.Ob(ro.Props, "E7.read-only-table", key, Discharged, "the table is only looked up", "", true)
	}
}

// ---------------------------------------------------------------------------------------------
// a path is no pattern: filepath.Glob / filepath.Match read `[`, `*`, `?` and `\` in their pattern argument as syntax. A pattern
// put together from a directory the user named (Join(dir, "*")) matches nothing when that directory is called app[v2].
func runPathAsPattern(p *Program, c *Collector, a FuncRuleSpec) {
	n := 0
	for _, fn := range expandFuncs(p, c, a.Funcs, a.Props...) {
		k := 0
		for _, b := range fn.Blocks {
			for _, in := range b.Instrs {
				call, ok := in.(*ssa.Call)
				if !ok || call.Call.StaticCallee() == nil {
					continue
				}
				name := fullFuncName(call.Call.StaticCallee())
				if name != "path/filepath.Glob" && name != "path/filepath.Match" && name != "path.Match" {
					continue
				}
				k++
				n++
				key := "pathpattern:" + p.FuncKey(fn) + " " + name + "#" + strconv.Itoa(k)
				if _, isC := constString(call.Call.Args[0]); isC {
					c.Ob(a.Props, "E7.path-as-pattern", key, Discharged, "the pattern is a constant", p.InstrPos(call), true)
				} else {
					c.Ob(a.Props, "E7.path-as-pattern", key, Violated, a.What+": "+shortFn(p.FuncKey(fn))+" builds the pattern of "+name+" from a path: `[`, `*`, `?` in a directory name are read as pattern syntax and the directory matches nothing", p.InstrPos(call), false)
				}
			}
		}
	}
	if n == 0 {
		c.Ob(a.Props, "E7.path-as-pattern", "pathpattern:"+strings.Join(a.Funcs, ","), Discharged, a.What+": directories are listed, not matched against patterns", "", true)
	}
}

// ---------------------------------------------------------------------------------------------
// fresh record: a listener keeps the record under construction in a package-level pointer and starts the next one with a
// constructor call. What is known once per unit (the package of the file) is written into the record by the callback of a rule
// that occurs once per unit — so a record started later in the same unit never gets it, unless the function that starts it
// copies it over: after `P = NewX()` a store to P.<field> must follow in the same function.
type FreshRecordSpec struct {
	Props  []string `json:"props"`
	Funcs  []string `json:"funcs"`  // the functions that may start a record (checked); others are not looked at
	Global string   `json:"global"` // "<rel pkg>.<var>": the pointer
	Ctor   string   `json:"ctor"`   // function key of the constructor
	Fields []string `json:"fields"` // fields that must be set on a record started in mid-unit
	What   string   `json:"what"`
}

func runFreshRecord(p *Program, c *Collector, fr FreshRecordSpec) {
	n := 0
	for _, fn := range expandFuncs(p, c, fr.Funcs, fr.Props...) {
		k := 0
		for _, b := range fn.Blocks {
			for _, in := range b.Instrs {
				st, ok := in.(*ssa.Store)
				if !ok {
					continue
				}
				g, whole := globalOfAddr(st.Addr)
				if g == nil || !whole || p.GlobalKey(g) != fr.Global {
					continue
				}
				call, ok := st.Val.(*ssa.Call)
				if !ok || call.Call.StaticCallee() == nil {
					continue
				}
				if h := call.Call.StaticCallee(); p.FuncKey(h) != fr.Ctor {
					// a helper that makes the record and fills it in before handing it back
					var made *ssa.Call
					for _, hb := range h.Blocks {
						for _, hin := range hb.Instrs {
							if hc, ok := hin.(*ssa.Call); ok && hc.Call.StaticCallee() != nil && p.FuncKey(hc.Call.StaticCallee()) == fr.Ctor {
								made = hc
							}
						}
					}
					if made == nil || !p.IsOwnFunc(h) {
						continue
					}
					k++
					n++
					key := "freshrecord:" + p.FuncKey(fn) + " #" + strconv.Itoa(k)
					missing := ""
					for _, f := range fr.Fields {
						set := false
						if made.Referrers() != nil {
							for _, r := range *made.Referrers() {
								if fa, ok := r.(*ssa.FieldAddr); ok {
									if name, _ := fieldOf(fa.X.Type(), fa.Field); name == f && fa.Referrers() != nil {
										for _, r2 := range *fa.Referrers() {
											if st2, ok := r2.(*ssa.Store); ok && st2.Addr == ssa.Value(fa) {
												set = true
											}
										}
									}
								}
							}
						}
						if !set {
							missing = f
						}
					}
					if missing != "" {
						c.Ob(fr.Props, "E7.fresh-record", key, Violated, fr.What+": "+shortFn(p.FuncKey(fn))+" starts the next record through "+shortFn(p.FuncKey(h))+", which does not give it its "+missing, p.InstrPos(in), false)
					} else {
						c.Ob(fr.Props, "E7.fresh-record", key, Discharged, "the record is started by "+shortFn(p.FuncKey(h))+", which gives it what is known once per unit", p.InstrPos(in), true)
					}
					continue
				}
				k++
				n++
				key := "freshrecord:" + p.FuncKey(fn) + " #" + strconv.Itoa(k)
				missing := ""
				for _, f := range fr.Fields {
					set := false
					for _, b2 := range fn.Blocks {
						for _, in2 := range b2.Instrs {
							st2, ok := in2.(*ssa.Store)
							if !ok {
								continue
							}
							fa, ok := st2.Addr.(*ssa.FieldAddr)
							if !ok || loadedGlobal(fa.X) != g {
								continue
							}
							if name, _ := fieldOf(fa.X.Type(), fa.Field); name != f {
								continue
							}
							if b2 == b {
								after := false
								for _, x := range b.Instrs {
									if x == in {
										after = true
									}
									if x == in2 && after {
										set = true
									}
								}
							} else if b.Dominates(b2) {
								set = true
							}
						}
					}
					if !set {
						missing = f
					}
				}
				if missing != "" {
					c.Ob(fr.Props, "E7.fresh-record", key, Violated, fr.What+": "+shortFn(p.FuncKey(fn))+" starts the next record ("+p.InstrPos(in)+") and does not give it its "+missing+": that is written once per unit, by a callback that has already run", p.InstrPos(in), false)
				} else {
					c.Ob(fr.Props, "E7.fresh-record", key, Discharged, "the record started here is given what is known once per unit", p.InstrPos(in), true)
				}
			}
		}
	}
	if n == 0 {
		c.Ob(fr.Props, "E7.fresh-record", "freshrecord:"+strings.Join(fr.Funcs, ","), Undecided, fr.What+": no record is started in the named functions any more (anchor lost)", "", false)
	}
}

// ---------------------------------------------------------------------------------------------
// copied record: a listener starts the record of a member type as a copy of the enclosing type's record (so that it keeps what
// belongs to the file: package, imports, path). What belongs to the *type* — its superclass, the interfaces it implements, the
// calls made by its field initialisers — must be cleared on the copy in the same function, or the member inherits them.
type CopiedRecordSpec struct {
	Props  []string `json:"props"`
	Func   string   `json:"func"`
	Global string   `json:"global"` // the pointer that is re-pointed to the copy
	Fields []string `json:"fields"` // per-type fields that must be cleared on the copy
	What   string   `json:"what"`
}

func runCopiedRecord(p *Program, c *Collector, cr CopiedRecordSpec) {
	fn := p.Func(cr.Func)
	if fn == nil {
		c.Anchor(cr.Props, "E7: copied record: %s does not resolve", cr.Func)
		return
	}
	key := "copiedrecord:" + cr.Func
	// the copy: a store of *P (the whole record) into a fresh cell whose address is then stored into P
	var cell ssa.Value
	var at ssa.Instruction
	for _, b := range fn.Blocks {
		for _, in := range b.Instrs {
			st, ok := in.(*ssa.Store)
			if !ok {
				continue
			}
			if g, whole := globalOfAddr(st.Addr); g != nil && whole && p.GlobalKey(g) == cr.Global {
				if al, ok := st.Val.(*ssa.Alloc); ok {
					// was the cell filled from *P?
					for _, r := range *al.Referrers() {
						if st2, ok := r.(*ssa.Store); ok && st2.Addr == ssa.Value(al) {
							if ld, ok := st2.Val.(*ssa.UnOp); ok && ld.Op == token.MUL {
								if lg := loadedGlobal(ld.X); lg != nil && p.GlobalKey(lg) == cr.Global {
									cell, at = al, in
								}
							}
						}
					}
				}
			}
		}
	}
	if cell == nil {
		c.Ob(cr.Props, "E7.copied-record", key, Discharged, cr.What+": "+shortFn(cr.Func)+" does not start a record as a copy of the current one", p.FuncPos(fn), true)
		return
	}
	missing := ""
	for _, f := range cr.Fields {
		cleared := false
		for _, b := range fn.Blocks {
			for _, in := range b.Instrs {
				st, ok := in.(*ssa.Store)
				if !ok {
					continue
				}
				fa, ok := st.Addr.(*ssa.FieldAddr)
				if !ok {
					continue
				}
				if name, _ := fieldOf(fa.X.Type(), fa.Field); name != f {
					continue
				}
				// through the cell itself or through P after it was re-pointed
				viaCell := fa.X == cell
				viaP := false
				if lg := loadedGlobal(fa.X); lg != nil && p.GlobalKey(lg) == cr.Global && (at.Block().Dominates(in.Block()) || at.Block() == in.Block()) {
					viaP = true
				}
				if !viaCell && !viaP {
					continue
				}
				if cst, ok := st.Val.(*ssa.Const); ok && (cst.Value == nil || cst.Value.String() == `""`) {
					// an unconditional clearing: its block is the copy's block or is dominated by it and post-dominates it in
					// practice — here: same block as the copy
					if in.Block() == at.Block() {
						cleared = true
					}
				}
			}
		}
		// or by a helper that is handed the copy and clears the field
		if !cleared {
			for _, b := range fn.Blocks {
				for _, in := range b.Instrs {
					call, ok := in.(*ssa.Call)
					if !ok || call.Call.StaticCallee() == nil || !p.IsOwnFunc(call.Call.StaticCallee()) {
						continue
					}
					callee := call.Call.StaticCallee()
					for i, a := range call.Call.Args {
						isCopy := a == cell
						if lg := loadedGlobal(a); lg != nil && p.GlobalKey(lg) == cr.Global && at.Block().Dominates(in.Block()) {
							isCopy = true
						}
						if !isCopy || i >= len(callee.Params) {
							continue
						}
						for _, hb := range callee.Blocks {
							for _, hin := range hb.Instrs {
								if st, ok := hin.(*ssa.Store); ok {
									if fa, ok := st.Addr.(*ssa.FieldAddr); ok && fa.X == ssa.Value(callee.Params[i]) {
										if name, _ := fieldOf(fa.X.Type(), fa.Field); name == f {
											if cst, ok := st.Val.(*ssa.Const); ok && (cst.Value == nil || cst.Value.String() == `""`) {
												cleared = true
											}
										}
									}
								}
							}
						}
					}
				}
			}
		}
		if !cleared {
			missing = f
		}
	}
	if missing != "" {
		c.Ob(cr.Props, "E7.copied-record", key, Violated, cr.What+": "+shortFn(cr.Func)+" starts the member's record as a copy of the enclosing type's ("+p.InstrPos(at)+") and does not clear "+missing+": the member type inherits it", p.InstrPos(at), false)
	} else {
		c.Ob(cr.Props, "E7.copied-record", key, Discharged, "what belongs to the enclosing type is cleared on the copy", p.InstrPos(at), true)
	}
}

// ---------------------------------------------------------------------------------------------
// length of another text: a string is cut at an offset computed from the length of a *trimmed* (or otherwise shortened) copy of
// one of its parts. The trimmed copy is shorter than what actually stands in the text whenever there was something to trim, so
// the cut falls short: `t[len(TrimSpace(match[1:len(match)-1]))+2:]` leaves ") : …" behind for `( bob )`.
func runTrimmedLength(p *Program, c *Collector, a FuncRuleSpec) {
	n := 0
	for _, fn := range expandFuncs(p, c, a.Funcs, a.Props...) {
		if len(fn.Blocks) == 0 {
			continue
		}
		sf := newSymFn(p, fn, 0)
		sf.inlineOK = func(*ssa.Function) bool { return false }
		k := 0
		for _, b := range fn.Blocks {
			for _, in := range b.Instrs {
				sl, ok := in.(*ssa.Slice)
				if !ok {
					continue
				}
				if bt, ok := sl.X.Type().Underlying().(*types.Basic); !ok || bt.Info()&types.IsString == 0 {
					continue
				}
				base := sf.val(sl.X)
				for _, bnd := range []ssa.Value{sl.Low, sl.High} {
					if bnd == nil {
						continue
					}
					t := sf.val(bnd)
					// the bound itself is len(T) or len(T) ± constant, T a trimmed text (a length buried in an argument of some
					// call says nothing about the offset)
					var trimmed *Sym
					lenOf := func(x *Sym) *Sym {
						if x.Op == "len" && len(x.Kids) == 1 && x.Kids[0].Op == "pred" && strings.HasPrefix(x.Kids[0].Name, "trim") {
							return x.Kids[0]
						}
						return nil
					}
					if tr := lenOf(t); tr != nil {
						trimmed = tr
					} else if t.Op == "bin" && (t.Name == "+" || t.Name == "-") && len(t.Kids) == 2 {
						for i := 0; i < 2; i++ {
							if _, isC := symIntC(t.Kids[1-i]); isC {
								if tr := lenOf(t.Kids[i]); tr != nil {
									trimmed = tr
								}
							}
						}
					}
					if trimmed == nil {
						continue
					}
					k++
					n++
					key := "trimmedlength:" + p.FuncKey(fn) + " #" + strconv.Itoa(k)
					if trimmed.String() == base.String() {
						c.Ob(a.Props, "E7.trimmed-length", key, Discharged, "the text that is cut is the trimmed text itself", p.InstrPos(in), true)
					} else {
						c.Ob(a.Props, "E7.trimmed-length", key, Violated, a.What+": "+shortFn(p.FuncKey(fn))+" cuts "+clip(base.String(), 60)+" at an offset computed from the length of the trimmed text "+clip(trimmed.String(), 80)+": what stands in the text is longer whenever there was something to trim", p.InstrPos(in), false)
					}
				}
			}
		}
	}
	if n == 0 {
		c.Ob(a.Props, "E7.trimmed-length", "trimmedlength:"+strings.Join(a.Funcs, ","), Discharged, a.What+": no text is cut by the length of a trimmed copy", "", true)
	}
}
