package main

// Symbolic terms for E5: canonical expressions extracted from SSA or parsed from the spec tables, and their
// comparison by exhaustive evaluation over finite candidate valuations (a decision procedure for the fragment:
// integer terms compared with constants, string terms tested with literals, opaque booleans, bounded quantifiers).

import (
	"fmt"
	"go/ast"
	"go/constant"
	"go/parser"
	"go/token"
	"sort"
	"strconv"
	"strings"
)

type Sym struct {
	Op     string // const param field global len bin not ite call pred lookup has index elem exists forall count sum collect last struct append unknown acc nil
	Name   string
	Kids   []*Sym
	C      constant.Value
	Fields []string // for struct: field names parallel to Kids
	Kind   string   // "int" "string" "bool" "list" "" (unknown) — best-effort type tag of the term's value
	str    string   // cached canonical string
	RK     string   // for tree accessor calls: Go type name of the receiver (IFooContext / FooContext)
	Boxed  bool     // a pointer value converted to an interface (MakeInterface): as an interface it never equals nil, even when the pointer is nil
}

func sConst(v constant.Value) *Sym {
	k := ""
	switch v.Kind() {
	case constant.Int:
		k = "int"
	case constant.String:
		k = "string"
	case constant.Bool:
		k = "bool"
	}
	return &Sym{Op: "const", C: v, Kind: k}
}
func sInt(i int64) *Sym      { return sConst(constant.MakeInt64(i)) }
func sStr(s string) *Sym     { return sConst(constant.MakeString(s)) }
func sBool(b bool) *Sym      { return sConst(constant.MakeBool(b)) }
func sUnknown(w string) *Sym { return &Sym{Op: "unknown", Name: w} }
func sNot(x *Sym) *Sym {
	if x.Op == "const" && x.C.Kind() == constant.Bool {
		return sBool(!constant.BoolVal(x.C))
	}
	if x.Op == "not" {
		return x.Kids[0]
	}
	return &Sym{Op: "not", Kids: []*Sym{x}, Kind: "bool"}
}
func sBin(op string, a, b *Sym) *Sym {
	if op == "+" {
		if i, ok := symIntC(a); ok && i == 0 && b.Kind != "string" {
			return b
		}
		if i, ok := symIntC(b); ok && i == 0 && a.Kind != "string" {
			return a
		}
	}
	k := "int"
	switch op {
	case "==", "!=", "<", "<=", ">", ">=", "&&", "||":
		k = "bool"
	case "+":
		if a.Kind == "string" || b.Kind == "string" {
			k = "string"
		}
	}
	return &Sym{Op: "bin", Name: op, Kids: []*Sym{a, b}, Kind: k}
}
func sAnd(a, b *Sym) *Sym {
	if isTrue(a) {
		return b
	}
	if isTrue(b) {
		return a
	}
	if isFalse(a) || isFalse(b) {
		return sBool(false)
	}
	return sBin("&&", a, b)
}
func conjuncts(x *Sym, out *[]*Sym) {
	if x.Op == "bin" && x.Name == "&&" {
		conjuncts(x.Kids[0], out)
		conjuncts(x.Kids[1], out)
		return
	}
	*out = append(*out, x)
}

// mergeComplement: (A && c) || (A && !c)  →  A
func mergeComplement(a, b *Sym) *Sym {
	var ca, cb []*Sym
	conjuncts(a, &ca)
	conjuncts(b, &cb)
	if len(ca) != len(cb) {
		return nil
	}
	diff := -1
	for i := range ca {
		if ca[i].String() == cb[i].String() {
			continue
		}
		if diff >= 0 {
			return nil
		}
		diff = i
	}
	if diff < 0 {
		return a
	}
	if sNot(ca[diff]).String() != cb[diff].String() {
		return nil
	}
	out := sBool(true)
	for i := range ca {
		if i != diff {
			out = sAnd(out, ca[i])
		}
	}
	return out
}

func sOr(a, b *Sym) *Sym {
	if !isFalse(a) && !isFalse(b) && !isTrue(a) && !isTrue(b) {
		if m := mergeComplement(a, b); m != nil {
			return m
		}
	}
	if isFalse(a) {
		return b
	}
	if isFalse(b) {
		return a
	}
	if isTrue(a) || isTrue(b) {
		return sBool(true)
	}
	return sBin("||", a, b)
}
func sIte(c, a, b *Sym) *Sym {
	if isTrue(c) {
		return a
	}
	if isFalse(c) {
		return b
	}
	if a.String() == b.String() {
		return a
	}
	// canonical form: no negated condition (ite(!c, a, b) = ite(c, b, a)), so that opaque terms built over a conditional
	// argument get the same name however the source wrote the test
	if c.Op == "not" && len(c.Kids) == 1 {
		c, a, b = c.Kids[0], b, a
	}
	// ite(c, X, ite(d, X, Y)) = ite(c || d, X, Y): two paths that deliver the same value are one case
	if b.Op == "ite" && len(b.Kids) == 3 && b.Kids[1].String() == a.String() {
		return sIte(sOr(c, b.Kids[0]), a, b.Kids[2])
	}
	if b.Op == "ite" && len(b.Kids) == 3 && b.Kids[2].String() == a.String() {
		// ite(c, X, ite(d, Y, X)) = ite(!c && d, Y, X)
		return sIte(sAnd(sNot(c), b.Kids[0]), b.Kids[1], a)
	}
	if a.Op == "ite" && len(a.Kids) == 3 && a.Kids[1].String() == b.String() {
		// ite(c, ite(d, Y, X), Y) = ite(c && !d, X, Y)
		return sIte(sAnd(c, sNot(a.Kids[0])), a.Kids[2], b)
	}
	if a.Op == "ite" && len(a.Kids) == 3 && a.Kids[2].String() == b.String() {
		// ite(c, ite(d, X, Y), Y) = ite(c && d, X, Y)
		return sIte(sAnd(c, a.Kids[0]), a.Kids[1], b)
	}
	k := a.Kind
	if k == "" {
		k = b.Kind
	}
	return &Sym{Op: "ite", Kids: []*Sym{c, a, b}, Kind: k}
}
func isTrue(s *Sym) bool {
	return s.Op == "const" && s.C.Kind() == constant.Bool && constant.BoolVal(s.C)
}
func isFalse(s *Sym) bool {
	return s.Op == "const" && s.C.Kind() == constant.Bool && !constant.BoolVal(s.C)
}

func (s *Sym) String() string {
	if s == nil {
		return "<nil>"
	}
	if s.str == "" {
		s.str = s.string1()
	}
	return s.str
}

func (s *Sym) string1() string {
	switch s.Op {
	case "const":
		if s.C == nil {
			return "nil"
		}
		return s.C.ExactString()
	case "nil":
		return "nil"
	case "param", "elem", "acc":
		return s.Name
	case "global":
		return "global(" + s.Name + ")"
	case "anycall":
		return "anycall(" + s.Name + ")"
	case "field":
		return s.Kids[0].String() + "." + s.Name
	case "len":
		return "len(" + s.Kids[0].String() + ")"
	case "not":
		return "!(" + s.Kids[0].String() + ")"
	case "bin":
		return "(" + s.Kids[0].String() + " " + s.Name + " " + s.Kids[1].String() + ")"
	case "ite":
		return "ite(" + s.Kids[0].String() + ", " + s.Kids[1].String() + ", " + s.Kids[2].String() + ")"
	case "struct":
		var parts []string
		for i, f := range s.Fields {
			parts = append(parts, f+": "+s.Kids[i].String())
		}
		return s.Name + "{" + strings.Join(parts, ", ") + "}"
	case "unknown":
		return "?(" + s.Name + ")"
	}
	var parts []string
	for _, k := range s.Kids {
		parts = append(parts, k.String())
	}
	n := s.Op
	if s.Name != "" {
		n += ":" + s.Name
	}
	return n + "(" + strings.Join(parts, ", ") + ")"
}

func (s *Sym) walk(f func(*Sym)) {
	if s == nil {
		return
	}
	f(s)
	for _, k := range s.Kids {
		k.walk(f)
	}
}

func (s *Sym) hasUnknown() (bool, string) {
	found := ""
	s.walk(func(x *Sym) {
		if (x.Op == "unknown" || x.Op == "acc") && found == "" {
			found = x.String()
		}
	})
	return found != "", found
}

// subst replaces elem/param leaves by name.
func (s *Sym) subst(m map[string]*Sym) *Sym {
	if s == nil {
		return nil
	}
	if (s.Op == "param" || s.Op == "elem" || s.Op == "acc") && m[s.Name] != nil {
		return m[s.Name]
	}
	if len(s.Kids) == 0 {
		return s
	}
	n := *s
	n.str = ""
	n.Kids = make([]*Sym, len(s.Kids))
	for i, k := range s.Kids {
		n.Kids[i] = k.subst(m)
	}
	return &n
}

// ---------------------------------------------------------------------------------------------
// spec expression parser (Go expression syntax)

type specParser struct {
	params  map[string]string // name -> canonical param name (p0, p1 …)
	binders map[string]bool
	globals map[string]*Sym
}

func parseSpecExpr(src string, params []string, globals map[string]*Sym) (*Sym, error) {
	e, err := parser.ParseExpr(src)
	if err != nil {
		return nil, fmt.Errorf("spec expr %q: %v", src, err)
	}
	sp := &specParser{params: map[string]string{}, binders: map[string]bool{}, globals: globals}
	for i, p := range params {
		if p != "" && p != "_" {
			sp.params[p] = fmt.Sprintf("p%d", i)
		}
	}
	return sp.expr(e)
}

func (sp *specParser) expr(e ast.Expr) (*Sym, error) {
	switch x := e.(type) {
	case *ast.ParenExpr:
		return sp.expr(x.X)
	case *ast.BasicLit:
		switch x.Kind {
		case token.INT:
			v, _ := strconv.ParseInt(x.Value, 0, 64)
			return sInt(v), nil
		case token.STRING:
			s, err := strconv.Unquote(x.Value)
			if err != nil {
				return nil, err
			}
			return sStr(s), nil
		}
		return nil, fmt.Errorf("unsupported literal %s", x.Value)
	case *ast.Ident:
		switch x.Name {
		case "true":
			return sBool(true), nil
		case "false":
			return sBool(false), nil
		case "nil":
			return &Sym{Op: "nil"}, nil
		}
		if sp.binders[x.Name] {
			return &Sym{Op: "elem", Name: x.Name}, nil
		}
		if p, ok := sp.params[x.Name]; ok {
			return &Sym{Op: "param", Name: p}, nil
		}
		if strings.HasPrefix(x.Name, "free_") {
			return &Sym{Op: "param", Name: x.Name}, nil
		}
		return nil, fmt.Errorf("unknown identifier %q in spec expression", x.Name)
	case *ast.SelectorExpr:
		b, err := sp.expr(x.X)
		if err != nil {
			return nil, err
		}
		return &Sym{Op: "field", Name: x.Sel.Name, Kids: []*Sym{b}}, nil
	case *ast.UnaryExpr:
		v, err := sp.expr(x.X)
		if err != nil {
			return nil, err
		}
		switch x.Op {
		case token.NOT:
			return sNot(v), nil
		case token.SUB:
			if i, ok := symIntC(v); ok {
				return sInt(-i), nil
			}
			return sBin("-", sInt(0), v), nil
		}
	case *ast.BinaryExpr:
		a, err := sp.expr(x.X)
		if err != nil {
			return nil, err
		}
		b, err := sp.expr(x.Y)
		if err != nil {
			return nil, err
		}
		switch x.Op {
		case token.LAND:
			return sAnd(a, b), nil
		case token.LOR:
			return sOr(a, b), nil
		}
		return sBin(x.Op.String(), a, b), nil
	case *ast.IndexExpr:
		a, err := sp.expr(x.X)
		if err != nil {
			return nil, err
		}
		b, err := sp.expr(x.Index)
		if err != nil {
			return nil, err
		}
		return &Sym{Op: "index", Kids: []*Sym{a, b}}, nil
	case *ast.CallExpr:
		fn, ok := x.Fun.(*ast.Ident)
		if !ok {
			return nil, fmt.Errorf("unsupported call in spec expression")
		}
		switch fn.Name {
		case "exists", "forall", "count", "sum":
			if len(x.Args) != 3 {
				return nil, fmt.Errorf("%s(coll, x, body)", fn.Name)
			}
			coll, err := sp.expr(x.Args[0])
			if err != nil {
				return nil, err
			}
			b := x.Args[1].(*ast.Ident).Name
			sp.binders[b] = true
			body, err := sp.expr(x.Args[2])
			delete(sp.binders, b)
			if err != nil {
				return nil, err
			}
			k := "bool"
			if fn.Name == "count" || fn.Name == "sum" {
				k = "int"
			}
			return &Sym{Op: fn.Name, Name: b, Kids: []*Sym{coll, body}, Kind: k}, nil
		case "collect":
			if len(x.Args) != 4 {
				return nil, fmt.Errorf("collect(coll, x, cond, expr)")
			}
			coll, err := sp.expr(x.Args[0])
			if err != nil {
				return nil, err
			}
			b := x.Args[1].(*ast.Ident).Name
			sp.binders[b] = true
			cond, err := sp.expr(x.Args[2])
			if err != nil {
				return nil, err
			}
			val, err := sp.expr(x.Args[3])
			delete(sp.binders, b)
			if err != nil {
				return nil, err
			}
			return &Sym{Op: "collect", Name: b, Kids: []*Sym{coll, cond, val}, Kind: "list"}, nil
		case "global":
			if len(x.Args) == 1 {
				if lit, ok := x.Args[0].(*ast.BasicLit); ok {
					k, _ := strconv.Unquote(lit.Value)
					if g, ok := sp.globals[k]; ok {
						return g, nil
					}
					return &Sym{Op: "global", Name: k}, nil
				}
			}
			return nil, fmt.Errorf("global(\"rel/pkg.name\")")
		case "anycall":
			// anycall("pkg.Func"): stands for the one call of that function that occurs in the code term, whatever its arguments
			if len(x.Args) == 1 {
				if lit, ok := x.Args[0].(*ast.BasicLit); ok {
					k, _ := strconv.Unquote(lit.Value)
					return &Sym{Op: "anycall", Name: k}, nil
				}
			}
			return nil, fmt.Errorf("anycall(\"rel/pkg.Func\")")
		case "call":
			if len(x.Args) >= 1 {
				if lit, ok := x.Args[0].(*ast.BasicLit); ok {
					k, _ := strconv.Unquote(lit.Value)
					var kids []*Sym
					for _, a := range x.Args[1:] {
						s, err := sp.expr(a)
						if err != nil {
							return nil, err
						}
						kids = append(kids, s)
					}
					return &Sym{Op: "call", Name: k, Kids: kids}, nil
				}
			}
			return nil, fmt.Errorf("call(\"key\", args…)")
		case "ite":
			if len(x.Args) == 3 {
				c, err := sp.expr(x.Args[0])
				if err != nil {
					return nil, err
				}
				a, err := sp.expr(x.Args[1])
				if err != nil {
					return nil, err
				}
				b, err := sp.expr(x.Args[2])
				if err != nil {
					return nil, err
				}
				return sIte(c, a, b), nil
			}
		}
		var kids []*Sym
		for _, a := range x.Args {
			s, err := sp.expr(a)
			if err != nil {
				return nil, err
			}
			kids = append(kids, s)
		}
		switch fn.Name {
		case "list":
			return &Sym{Op: "array", Kids: kids, Kind: "list"}, nil
		case "newmap":
			if len(kids) == 1 {
				if i, ok := symIntC(kids[0]); ok {
					return &Sym{Op: "call", Name: fmt.Sprintf("makemap%d", i), Kind: "map"}, nil
				}
			}
			return nil, fmt.Errorf("newmap(n)")
		case "len":
			if len(kids) == 1 && kids[0].Op == "array" {
				return sInt(int64(len(kids[0].Kids))), nil
			}
			return &Sym{Op: "len", Kids: kids, Kind: "int"}, nil
		case "hasPrefix", "hasSuffix", "contains", "equalFold":
			return &Sym{Op: "pred", Name: fn.Name, Kids: kids, Kind: "bool"}, nil
		case "lower", "upper", "trimSpace", "itoa", "replaceAll", "base", "trimSuffix", "ext", "toSlash":
			return &Sym{Op: "pred", Name: fn.Name, Kids: kids, Kind: "string"}, nil
		case "lookup":
			return &Sym{Op: "lookup", Kids: kids}, nil
		case "has":
			return &Sym{Op: "has", Kids: kids, Kind: "bool"}, nil
		}
		if fn.Name != "" && fn.Name[0] >= 'A' && fn.Name[0] <= 'Z' {
			return &Sym{Op: "call", Name: "invoke:" + fn.Name, Kids: kids}, nil
		}
		return nil, fmt.Errorf("unknown function %q in spec expression", fn.Name)
	}
	return nil, fmt.Errorf("unsupported spec expression %T", e)
}

// ---------------------------------------------------------------------------------------------
// evaluation

type val struct {
	k    byte // 'i' 's' 'b' 'l' 'r' (record) 'n' nil 'o' opaque
	i    int64
	s    string
	b    bool
	list []val
	rec  map[string]val
}

func (v val) String() string {
	switch v.k {
	case 'i':
		return strconv.FormatInt(v.i, 10)
	case 's':
		return strconv.Quote(v.s)
	case 'b':
		return strconv.FormatBool(v.b)
	case 'n':
		return "nil"
	case 'l':
		var p []string
		for _, x := range v.list {
			p = append(p, x.String())
		}
		return "[" + strings.Join(p, " ") + "]"
	case 'r':
		var ks []string
		for k := range v.rec {
			ks = append(ks, k)
		}
		sort.Strings(ks)
		var p []string
		for _, k := range ks {
			p = append(p, k+":"+v.rec[k].String())
		}
		return "{" + strings.Join(p, " ") + "}"
	}
	return "?"
}

// env assigns values to base terms (by canonical string).
type env map[string]val

type evaluator struct {
	e       env
	missing map[string]string // base terms requested but not assigned -> kind hint
	elemIdx map[string]string // binder -> instance suffix
	kinds   map[string]string // kind of each base term (shared by both sides of a comparison)
	// learning mode (discovery rounds): which string literals each base term is compared with
	learn bool
	probe bool
	touch []string
	assoc map[string]map[string]bool
	links map[string]map[string]bool
}

// learnFrom records that the base terms touched while evaluating kid i meet the literal (or the terms) of the other kids.
func (ev *evaluator) learnFrom(kids []*Sym, touched [][]string) {
	for i, k := range kids {
		if k.Op == "const" && k.C != nil && k.C.Kind() == constant.String {
			lit := constant.StringVal(k.C)
			for j := range kids {
				if j == i {
					continue
				}
				for _, t := range touched[j] {
					if ev.assoc[t] == nil {
						ev.assoc[t] = map[string]bool{}
					}
					ev.assoc[t][lit] = true
				}
			}
		}
	}
	// terms compared with each other share their literals
	for i := range kids {
		for j := i + 1; j < len(kids); j++ {
			if len(touched[i]) > 4 || len(touched[j]) > 4 {
				continue
			}
			for _, a := range touched[i] {
				for _, b := range touched[j] {
					if a == b {
						continue
					}
					if ev.links[a] == nil {
						ev.links[a] = map[string]bool{}
					}
					if ev.links[b] == nil {
						ev.links[b] = map[string]bool{}
					}
					ev.links[a][b] = true
					ev.links[b][a] = true
				}
			}
		}
	}
}

// learnKids evaluates each kid once more, in learning mode only, to find the base terms it depends on.
func (ev *evaluator) learnKids(kids []*Sym) {
	if !ev.learn || len(kids) < 2 {
		return
	}
	hasString := false
	for _, k := range kids {
		if k.Kind == "string" || (k.Op == "const" && k.C != nil && k.C.Kind() == constant.String) || k.Op == "pred" {
			hasString = true
		}
	}
	if !hasString {
		return
	}
	ev.learn = false // no nested learning while probing
	wasProbe := ev.probe
	touched := make([][]string, len(kids))
	for i, k := range kids {
		m := len(ev.touch)
		ev.probe = true
		ev.eval(k, "")
		touched[i] = append([]string{}, ev.touch[m:]...)
		if !wasProbe {
			ev.touch = ev.touch[:m]
		}
	}
	ev.probe = wasProbe
	ev.learn = true
	ev.learnFrom(kids, touched)
}

// baseKey returns the canonical key of a base term under the current binder instantiation.
func (ev *evaluator) baseKey(s *Sym) string {
	str := s.String()
	if len(ev.elemIdx) == 0 {
		return str
	}
	// replace whole-word occurrences of bound variables by their (name-independent) instance
	var bs []string
	for b := range ev.elemIdx {
		bs = append(bs, b)
	}
	sort.Strings(bs)
	for _, b := range bs {
		str = replaceWord(str, b, ev.elemIdx[b])
	}
	return str
}

func replaceWord(s, w, r string) string {
	var out strings.Builder
	i := 0
	for i < len(s) {
		j := strings.Index(s[i:], w)
		if j < 0 {
			out.WriteString(s[i:])
			break
		}
		j += i
		before := j == 0 || !isIdentChar(s[j-1])
		after := j+len(w) >= len(s) || !isIdentChar(s[j+len(w)])
		out.WriteString(s[i:j])
		if before && after {
			out.WriteString(r)
		} else {
			out.WriteString(w)
		}
		i = j + len(w)
	}
	return out.String()
}

func isIdentChar(c byte) bool {
	return c == '_' || c == '#' || (c >= '0' && c <= '9') || (c >= 'a' && c <= 'z') || (c >= 'A' && c <= 'Z')
}

func (ev *evaluator) base(s *Sym, hint string) val {
	k := ev.baseKey(s)
	if ev.probe {
		ev.touch = append(ev.touch, k)
	}
	if v, ok := ev.e[k]; ok {
		return v
	}
	if ev.kinds != nil {
		if s.Kind != "" && ev.kinds[k] == "" {
			ev.kinds[k] = s.Kind
		}
		if ev.kinds[k] != "" {
			hint = ev.kinds[k]
		} else if hint != "" {
			ev.kinds[k] = hint
		}
	}
	if hint == "" {
		hint = s.Kind
	}
	if old, ok := ev.missing[k]; !ok || old == "" {
		ev.missing[k] = hint
	}
	switch hint {
	case "string":
		return val{k: 's'}
	case "bool":
		return val{k: 'b'}
	case "list":
		return val{k: 'l'}
	}
	return val{k: 'i'}
}

func (ev *evaluator) eval(s *Sym, hint string) val {
	switch s.Op {
	case "const":
		switch s.C.Kind() {
		case constant.Int:
			i, _ := constant.Int64Val(s.C)
			return val{k: 'i', i: i}
		case constant.String:
			return val{k: 's', s: constant.StringVal(s.C)}
		case constant.Bool:
			return val{k: 'b', b: constant.BoolVal(s.C)}
		}
		return val{k: 'o'}
	case "nil":
		return val{k: 'n'}
	case "not":
		return val{k: 'b', b: !ev.eval(s.Kids[0], "bool").b}
	case "ite":
		c := ev.eval(s.Kids[0], "bool").b
		a, b := ev.eval(s.Kids[1], hint), ev.eval(s.Kids[2], hint)
		if c {
			return a
		}
		return b
	case "len":
		x := s.Kids[0]
		// len of a string-valued term is computed; len of a collection is a base int term
		if x.Kind == "string" || x.Op == "pred" || (x.Kind == "" && ev.kinds != nil && ev.kinds[ev.baseKey(x)] == "string") {
			return val{k: 'i', i: int64(len(ev.eval(x, "string").s))}
		}
		if x.Op == "collect" {
			return val{k: 'i', i: int64(len(ev.eval(x, "list").list))}
		}
		if interpretedList(x) {
			return val{k: 'i', i: int64(len(ev.eval(x, "list").list))}
		}
		n := ev.base(&Sym{Op: "len", Kids: []*Sym{x}, Kind: "int"}, "int")
		if n.i < 0 {
			n.i = 0
		}
		return n
	case "bin":
		op := s.Name
		switch op {
		case "&&":
			// no short-circuit: both sides are evaluated so that every base term is discovered
			l, r := ev.eval(s.Kids[0], "bool").b, ev.eval(s.Kids[1], "bool").b
			return val{k: 'b', b: l && r}
		case "||":
			l, r := ev.eval(s.Kids[0], "bool").b, ev.eval(s.Kids[1], "bool").b
			return val{k: 'b', b: l || r}
		}
		ev.learnKids(s.Kids)
		h := ""
		if s.Kids[0].Op == "const" {
			h = s.Kids[0].Kind
		} else if s.Kids[1].Op == "const" {
			h = s.Kids[1].Kind
		} else if s.Kids[0].Kind != "" {
			h = s.Kids[0].Kind
		} else {
			h = s.Kids[1].Kind
		}
		if h == "" && (op == "+" || op == "-" || op == "<" || op == ">" || op == "<=" || op == ">=" || op == "*" || op == "/") {
			h = "int"
		}
		if s.Kids[0].Op == "nil" || s.Kids[1].Op == "nil" {
			h = "bool" // x == nil : model "is nil" as an opaque boolean of x
			other := s.Kids[0]
			if other.Op == "nil" {
				other = s.Kids[1]
			}
			isNil := ev.base(&Sym{Op: "call", Name: "isnil", Kids: []*Sym{other}, Kind: "bool"}, "bool").b
			if op == "==" {
				return val{k: 'b', b: isNil}
			}
			return val{k: 'b', b: !isNil}
		}
		a := ev.eval(s.Kids[0], h)
		b := ev.eval(s.Kids[1], h)
		if a.k == 's' || b.k == 's' {
			switch op {
			case "+":
				return val{k: 's', s: a.s + b.s}
			case "==":
				return val{k: 'b', b: a.s == b.s}
			case "!=":
				return val{k: 'b', b: a.s != b.s}
			case "<":
				return val{k: 'b', b: a.s < b.s}
			case ">":
				return val{k: 'b', b: a.s > b.s}
			}
		}
		if a.k == 'b' && b.k == 'b' {
			switch op {
			case "==":
				return val{k: 'b', b: a.b == b.b}
			case "!=":
				return val{k: 'b', b: a.b != b.b}
			}
		}
		switch op {
		case "+":
			return val{k: 'i', i: a.i + b.i}
		case "-":
			return val{k: 'i', i: a.i - b.i}
		case "*":
			return val{k: 'i', i: a.i * b.i}
		case "/":
			if b.i == 0 {
				return val{k: 'i', i: 0}
			}
			return val{k: 'i', i: a.i / b.i}
		case "==":
			return val{k: 'b', b: a.i == b.i}
		case "!=":
			return val{k: 'b', b: a.i != b.i}
		case "<":
			return val{k: 'b', b: a.i < b.i}
		case "<=":
			return val{k: 'b', b: a.i <= b.i}
		case ">":
			return val{k: 'b', b: a.i > b.i}
		case ">=":
			return val{k: 'b', b: a.i >= b.i}
		}
		return val{k: 'o'}
	case "pred":
		ev.learnKids(s.Kids)
		switch s.Name {
		case "hasPrefix":
			return val{k: 'b', b: strings.HasPrefix(ev.eval(s.Kids[0], "string").s, ev.eval(s.Kids[1], "string").s)}
		case "hasSuffix":
			return val{k: 'b', b: strings.HasSuffix(ev.eval(s.Kids[0], "string").s, ev.eval(s.Kids[1], "string").s)}
		case "contains":
			return val{k: 'b', b: strings.Contains(ev.eval(s.Kids[0], "string").s, ev.eval(s.Kids[1], "string").s)}
		case "equalFold":
			return val{k: 'b', b: strings.EqualFold(ev.eval(s.Kids[0], "string").s, ev.eval(s.Kids[1], "string").s)}
		case "lower":
			return val{k: 's', s: strings.ToLower(ev.eval(s.Kids[0], "string").s)}
		case "upper":
			return val{k: 's', s: strings.ToUpper(ev.eval(s.Kids[0], "string").s)}
		case "trimSpace":
			return val{k: 's', s: strings.TrimSpace(ev.eval(s.Kids[0], "string").s)}
		case "itoa":
			return val{k: 's', s: strconv.FormatInt(ev.eval(s.Kids[0], "int").i, 10)}
		case "replaceAll":
			return val{k: 's', s: strings.ReplaceAll(ev.eval(s.Kids[0], "string").s, ev.eval(s.Kids[1], "string").s, ev.eval(s.Kids[2], "string").s)}
		case "toSlash":
			return val{k: 's', s: ev.eval(s.Kids[0], "string").s}
		case "trimSuffix":
			return val{k: 's', s: strings.TrimSuffix(ev.eval(s.Kids[0], "string").s, ev.eval(s.Kids[1], "string").s)}
		}
		return ev.base(s, hint)
	case "exists", "forall", "count", "sum":
		if interpretedList(s.Kids[0]) {
			// a list computed by the string library (the segments of a path): quantify over its concrete elements
			acc := val{k: 'b', b: s.Op == "forall"}
			if s.Op == "count" || s.Op == "sum" {
				acc = val{k: 'i'}
			}
			for _, v := range ev.eval(s.Kids[0], "list").list {
				body := s.Kids[1].subst(map[string]*Sym{s.Name: sStr(v.s)})
				switch s.Op {
				case "exists":
					if ev.eval(body, "bool").b {
						acc.b = true
					}
				case "forall":
					if !ev.eval(body, "bool").b {
						acc.b = false
					}
				case "count":
					if ev.eval(body, "bool").b {
						acc.i++
					}
				case "sum":
					acc.i += ev.eval(body, "int").i
				}
			}
			return acc
		}
		if s.Kids[0].Op == "array" {
			acc := val{k: 'b', b: s.Op == "forall"}
			if s.Op == "count" || s.Op == "sum" {
				acc = val{k: 'i'}
			}
			for _, kid := range s.Kids[0].Kids {
				body := s.Kids[1].subst(map[string]*Sym{s.Name: kid})
				switch s.Op {
				case "exists":
					if ev.eval(body, "bool").b {
						acc.b = true
					}
				case "forall":
					if !ev.eval(body, "bool").b {
						acc.b = false
					}
				case "count":
					if ev.eval(body, "bool").b {
						acc.i++
					}
				case "sum":
					acc.i += ev.eval(body, "int").i
				}
			}
			return acc
		}
		n := int(ev.collLen(s.Kids[0]))
		acc := val{k: 'b', b: s.Op == "forall"}
		if s.Op == "count" || s.Op == "sum" {
			acc = val{k: 'i'}
		}
		for j := 0; j < n; j++ {
			ev.bind(s.Name, s.Kids[0], j)
			switch s.Op {
			case "exists":
				if ev.eval(s.Kids[1], "bool").b {
					acc.b = true
				}
			case "forall":
				if !ev.eval(s.Kids[1], "bool").b {
					acc.b = false
				}
			case "count":
				if ev.eval(s.Kids[1], "bool").b {
					acc.i++
				}
			case "sum":
				acc.i += ev.eval(s.Kids[1], "int").i
			}
			ev.unbind(s.Name)
		}
		return acc
	case "collect", "last":
		n := int(ev.collLen(s.Kids[0]))
		out := val{k: 'l'}
		for j := 0; j < n; j++ {
			ev.bind(s.Name, s.Kids[0], j)
			if ev.eval(s.Kids[1], "bool").b {
				out.list = append(out.list, ev.eval(s.Kids[2], ""))
			}
			ev.unbind(s.Name)
		}
		if s.Op == "last" {
			if len(out.list) == 0 {
				return ev.eval(s.Kids[3], hint)
			}
			return out.list[len(out.list)-1]
		}
		return out
	case "first":
		// value of the first element (in order) that satisfies the exit condition
		if s.Kids[0].Op == "array" {
			for _, kid := range s.Kids[0].Kids {
				m := map[string]*Sym{s.Name: kid}
				if ev.eval(s.Kids[1].subst(m), "bool").b {
					return ev.eval(s.Kids[2].subst(m), hint)
				}
			}
			return val{k: 'o'}
		}
		n := int(ev.collLen(s.Kids[0]))
		for j := 0; j < n; j++ {
			ev.bind(s.Name, s.Kids[0], j)
			if ev.eval(s.Kids[1], "bool").b {
				v := ev.eval(s.Kids[2], hint)
				ev.unbind(s.Name)
				return v
			}
			ev.unbind(s.Name)
		}
		return val{k: 'o'}
	case "tuple":
		out := val{k: 'l'}
		for _, k := range s.Kids {
			out.list = append(out.list, ev.eval(k, ""))
		}
		return out
	case "struct":
		r := val{k: 'r', rec: map[string]val{}}
		for i, f := range s.Fields {
			r.rec[f] = ev.eval(s.Kids[i], "")
		}
		return r
	case "append":
		out := val{k: 'l'}
		b := ev.eval(s.Kids[0], "list")
		out.list = append(out.list, b.list...)
		for _, k := range s.Kids[1:] {
			out.list = append(out.list, ev.eval(k, ""))
		}
		return out
	case "unknown", "acc":
		return val{k: 'o'}
	case "call":
		if v, ok := ev.stringLib(s); ok {
			return v
		}
	case "index":
		if len(s.Kids) == 2 && interpretedList(s.Kids[0]) {
			l := ev.eval(s.Kids[0], "list").list
			i := ev.eval(s.Kids[1], "int").i
			if i >= 0 && int(i) < len(l) {
				return l[i]
			}
			return val{k: 'o'} // out of range: the code panics (E2's business); both sides see the same opaque value
		}
	}
	// base term: param, field, global, call, lookup, has, index, elem
	return ev.base(s, hint)
}

// interpretedList: the term is a list of strings computed by string-library calls the evaluator interprets.
func interpretedList(x *Sym) bool {
	if x.Op != "call" {
		return false
	}
	switch x.Name {
	case "strings.Split", "strings.Fields":
		return true
	case "slice":
		return len(x.Kids) == 3 && interpretedList(x.Kids[0])
	}
	return false
}

// stringLib interprets the pure string-library calls coca uses for name manipulation, so that two differently written
// computations (Split/Join, LastIndex + slicing, Replace …) are compared by what they compute.
func (ev *evaluator) stringLib(s *Sym) (val, bool) {
	switch s.Name {
	case "strings.Split", "strings.Replace", "strings.Count", "strings.Index", "strings.LastIndex", "strings.TrimPrefix", "strings.Trim", "strings.TrimLeft", "strings.TrimRight", "beforeLast", "afterLast":
		ev.learnKids(s.Kids)
	}
	str := func(i int) string { return ev.eval(s.Kids[i], "string").s }
	switch s.Name {
	case "strings.Split":
		if len(s.Kids) != 2 {
			return val{}, false
		}
		out := val{k: 'l'}
		for _, p := range strings.Split(str(0), str(1)) {
			out.list = append(out.list, val{k: 's', s: p})
		}
		return out, true
	case "strings.Fields":
		out := val{k: 'l'}
		for _, p := range strings.Fields(str(0)) {
			out.list = append(out.list, val{k: 's', s: p})
		}
		return out, true
	case "strings.Join":
		if len(s.Kids) != 2 || !interpretedList(s.Kids[0]) {
			return val{}, false
		}
		var parts []string
		for _, v := range ev.eval(s.Kids[0], "list").list {
			parts = append(parts, v.s)
		}
		return val{k: 's', s: strings.Join(parts, str(1))}, true
	case "strings.Replace":
		if len(s.Kids) != 4 {
			return val{}, false
		}
		return val{k: 's', s: strings.Replace(str(0), str(1), str(2), int(ev.eval(s.Kids[3], "int").i))}, true
	case "strings.Count":
		return val{k: 'i', i: int64(strings.Count(str(0), str(1)))}, true
	case "strings.Index":
		return val{k: 'i', i: int64(strings.Index(str(0), str(1)))}, true
	case "strings.LastIndex":
		return val{k: 'i', i: int64(strings.LastIndex(str(0), str(1)))}, true
	case "strings.TrimPrefix":
		return val{k: 's', s: strings.TrimPrefix(str(0), str(1))}, true
	case "strings.Trim":
		return val{k: 's', s: strings.Trim(str(0), str(1))}, true
	case "strings.TrimLeft":
		return val{k: 's', s: strings.TrimLeft(str(0), str(1))}, true
	case "strings.TrimRight":
		return val{k: 's', s: strings.TrimRight(str(0), str(1))}, true
	case "beforeLast": // everything before the last occurrence of the separator; "" when there is none
		x, sep := str(0), str(1)
		if i := strings.LastIndex(x, sep); i >= 0 && sep != "" {
			return val{k: 's', s: x[:i]}, true
		}
		return val{k: 's', s: ""}, true
	case "afterLast": // everything after the last occurrence of the separator; the whole string when there is none
		x, sep := str(0), str(1)
		if i := strings.LastIndex(x, sep); i >= 0 && sep != "" {
			return val{k: 's', s: x[i+len(sep):]}, true
		}
		return val{k: 's', s: x}, true
	case "slice":
		if len(s.Kids) != 3 {
			return val{}, false
		}
		lo, hi := ev.eval(s.Kids[1], "int").i, ev.eval(s.Kids[2], "int").i
		if interpretedList(s.Kids[0]) {
			l := ev.eval(s.Kids[0], "list").list
			if lo < 0 || hi > int64(len(l)) || lo > hi {
				return val{k: 'o'}, true
			}
			return val{k: 'l', list: l[lo:hi]}, true
		}
		if s.Kids[0].Kind == "string" || s.Kids[0].Op == "pred" || (ev.kinds != nil && ev.kinds[ev.baseKey(s.Kids[0])] == "string") {
			x := str(0)
			if lo < 0 || hi > int64(len(x)) || lo > hi {
				return val{k: 'o'}, true
			}
			return val{k: 's', s: x[lo:hi]}, true
		}
	}
	return val{}, false
}

func (ev *evaluator) collLen(coll *Sym) int64 {
	if coll.Op == "collect" {
		return int64(len(ev.eval(coll, "list").list))
	}
	n := ev.base(&Sym{Op: "len", Kids: []*Sym{coll}, Kind: "int"}, "int").i
	if n < 0 {
		n = 0
	}
	if n > 3 {
		n = 3
	}
	return n
}

func (ev *evaluator) bind(binder string, coll *Sym, j int) {
	if ev.elemIdx == nil {
		ev.elemIdx = map[string]string{}
	}
	ev.elemIdx[binder] = fmt.Sprintf("el%s_%d", shortHash(ev.baseKey(coll)), j)
}
func (ev *evaluator) unbind(binder string) { delete(ev.elemIdx, binder) }

func shortHash(s string) string {
	h := uint32(2166136261)
	for i := 0; i < len(s); i++ {
		h ^= uint32(s[i])
		h *= 16777619
	}
	return strconv.FormatUint(uint64(h%9973), 36)
}

// ---------------------------------------------------------------------------------------------
// equivalence by enumeration

type cmpResult struct {
	Equal       bool
	Evaluations int
	Terms       []string
	Witness     string // distinguishing valuation
	Left, Right string
	Truncated   bool
}

func collectConsts(s *Sym, ints map[int64]bool, strs map[string]bool) {
	s.walk(func(x *Sym) {
		if x.Op == "const" {
			switch x.C.Kind() {
			case constant.Int:
				i, _ := constant.Int64Val(x.C)
				ints[i] = true
			case constant.String:
				strs[constant.StringVal(x.C)] = true
			}
		}
	})
}

// compareSyms decides whether two terms agree on every candidate valuation of their base terms.
func compareSyms(a, b *Sym, hint string) cmpResult {
	ints := map[int64]bool{0: true, 1: true}
	strs := map[string]bool{}
	collectConsts(a, ints, strs)
	collectConsts(b, ints, strs)
	// a term that trims blanks is told apart from one that does not only by texts that carry blanks
	for _, t := range []*Sym{a, b} {
		t.walk(func(x *Sym) {
			if x.Op == "pred" && strings.HasPrefix(x.Name, "trim") {
				strs[" "] = true
			}
		})
	}
	var intC []int64
	seenI := map[int64]bool{}
	for c := range ints {
		for _, d := range []int64{c - 1, c, c + 1} {
			if !seenI[d] {
				seenI[d] = true
				intC = append(intC, d)
			}
		}
	}
	sort.Slice(intC, func(i, j int) bool { return intC[i] < intC[j] })
	var strC []string
	seenS := map[string]bool{}
	addS := func(s string) {
		if !seenS[s] {
			seenS[s] = true
			strC = append(strC, s)
		}
	}
	addS("")
	addS("q")
	var lits []string
	for s := range strs {
		lits = append(lits, s)
	}
	sort.Strings(lits)
	strC = variantsOf(strs)
	for _, s := range strC {
		seenS[s] = true
	}
	// discover base terms by evaluating once with an empty environment, repeatedly (quantifier bodies appear once
	// their collection has a length)
	a, b = canonBinders(a), canonBinders(b)
	e := env{}
	kinds := map[string]string{}
	terms := map[string]string{}
	assoc := map[string]map[string]bool{}
	links := map[string]map[string]bool{}
	for round := 0; round < 6; round++ {
		ev := &evaluator{e: e, missing: map[string]string{}, kinds: kinds, learn: true, assoc: assoc, links: links}
		ev.eval(a, hint)
		ev.eval(b, hint)
		grew := false
		for k, h := range ev.missing {
			if _, ok := terms[k]; !ok {
				terms[k] = h
				grew = true
				// seed so that dependent terms show up: lengths 2, bools true
				switch h {
				case "string":
					e[k] = val{k: 's', s: "q"}
				case "bool":
					e[k] = val{k: 'b', b: true}
				default:
					if strings.HasPrefix(k, "len(") {
						e[k] = val{k: 'i', i: 2}
					} else {
						e[k] = val{k: 'i', i: 1}
					}
				}
			}
		}
		if !grew {
			break
		}
	}
	for k := range terms {
		if kinds[k] != "" {
			terms[k] = kinds[k]
		}
	}
	names := sortedKeys(terms)
	// candidate sets
	prio := map[string][]val{}
	cands := make([][]val, len(names))
	total := 1.0
	for i, n := range names {
		switch terms[n] {
		case "string":
			// literals this term (or a term it is compared with) meets; none known: all of them
			mine := map[string]bool{}
			for l := range assoc[n] {
				mine[l] = true
			}
			for o := range links[n] {
				for l := range assoc[o] {
					mine[l] = true
				}
			}
			list := strC
			if len(mine) > 0 {
				list = variantsOf(mine)
			}
			if strs[" "] {
				// some term trims blanks: texts that carry blanks belong to every string's candidates
				extra := []string{" ", " q", "q ", " q "}
				for l := range mine {
					if l != "" && l != " " {
						extra = append(extra, " "+l, l+" ")
					}
				}
				sort.Strings(extra)
				have := map[string]bool{}
				for _, s := range list {
					have[s] = true
				}
				list = append([]string{}, list...)
				for _, s := range extra {
					if !have[s] {
						have[s] = true
						list = append(list, s)
					}
				}
			}
			for _, s := range list {
				cands[i] = append(cands[i], val{k: 's', s: s})
			}
			// the exact literals first: the values at which conjunctions over several terms flip
			pr := []val{{k: 's', s: ""}, {k: 's', s: "q"}}
			var exact []string
			for l := range mine {
				exact = append(exact, l)
			}
			if len(mine) == 0 {
				for l := range strs {
					exact = append(exact, l)
				}
			}
			sort.Strings(exact)
			for _, l := range exact {
				pr = append(pr, val{k: 's', s: l})
			}
			prio[n] = pr
		case "bool":
			cands[i] = []val{{k: 'b', b: false}, {k: 'b', b: true}}
		default:
			if strings.HasPrefix(n, "len(") {
				lim := map[int64]bool{0: true, 1: true, 2: true}
				for _, c := range intC {
					if c >= 0 && c <= 3 {
						lim[c] = true
					}
				}
				// lengths compared with larger constants (parameter counts…): keep those boundaries too
				for _, c := range intC {
					if c > 3 && c < 64 {
						lim[c] = true
					}
				}
				var ks []int64
				for c := range lim {
					ks = append(ks, c)
				}
				sort.Slice(ks, func(i, j int) bool { return ks[i] < ks[j] })
				for _, c := range ks {
					cands[i] = append(cands[i], val{k: 'i', i: c})
				}
			} else {
				for _, c := range intC {
					cands[i] = append(cands[i], val{k: 'i', i: c})
				}
			}
		}
		total *= float64(len(cands[i]))
	}
	res := cmpResult{Equal: true, Terms: names}
	// bound the product deterministically: shrink the largest candidate sets (keep boundary values)
	const limit = 60000
	if total > limit {
		return comparePairwise(a, b, hint, names, cands, e, kinds, prio)
	}
	for total > limit {
		big := 0
		for i := range cands {
			if len(cands[i]) > len(cands[big]) {
				big = i
			}
		}
		if len(cands[big]) <= 2 {
			break
		}
		total /= float64(len(cands[big]))
		// drop every other interior candidate
		var kept []val
		for j, v := range cands[big] {
			if j == 0 || j == len(cands[big])-1 || j%2 == 0 {
				kept = append(kept, v)
			}
		}
		if len(kept) == len(cands[big]) {
			kept = kept[:len(kept)-1]
		}
		cands[big] = kept
		total *= float64(len(kept))
		res.Truncated = true
	}
	idx := make([]int, len(names))
	for {
		for i, n := range names {
			e[n] = cands[i][idx[i]]
		}
		ev := &evaluator{e: e, missing: map[string]string{}, kinds: kinds}
		va := ev.eval(a, hint)
		vb := ev.eval(b, hint)
		res.Evaluations++
		if va.String() != vb.String() {
			var parts []string
			for i, n := range names {
				parts = append(parts, n+" = "+cands[i][idx[i]].String())
			}
			res.Equal = false
			res.Witness = strings.Join(parts, ", ")
			res.Left = va.String()
			res.Right = vb.String()
			return res
		}
		// next
		k := 0
		for k < len(idx) {
			idx[k]++
			if idx[k] < len(cands[k]) {
				break
			}
			idx[k] = 0
			k++
		}
		if k == len(idx) {
			break
		}
	}
	return res
}

func symIntC(x *Sym) (int64, bool) {
	if x.Op == "const" && x.C != nil && x.C.Kind() == constant.Int {
		i, ok := constant.Int64Val(x.C)
		return i, ok
	}
	return 0, false
}

// canonBinders renames bound variables by nesting depth so that α-equivalent terms print identically.
func canonBinders(s *Sym) *Sym {
	var rec func(x *Sym, depth int, env map[string]*Sym) *Sym
	rec = func(x *Sym, depth int, env map[string]*Sym) *Sym {
		if x == nil {
			return nil
		}
		switch x.Op {
		case "elem":
			if r, ok := env[x.Name]; ok {
				return r
			}
			return x
		case "exists", "forall", "count", "sum", "collect", "last", "first":
			n := *x
			n.str = ""
			name := fmt.Sprintf("b%d", depth)
			n.Name = name
			n.Kids = make([]*Sym, len(x.Kids))
			n.Kids[0] = rec(x.Kids[0], depth, env)
			env2 := map[string]*Sym{}
			for k, v := range env {
				env2[k] = v
			}
			env2[x.Name] = &Sym{Op: "elem", Name: name, Kind: ""}
			env2[x.Name+"_k"] = &Sym{Op: "elem", Name: name + "_k", Kind: ""}
			for i := 1; i < len(x.Kids); i++ {
				n.Kids[i] = rec(x.Kids[i], depth+1, env2)
			}
			return &n
		}
		if len(x.Kids) == 0 {
			return x
		}
		n := *x
		n.str = ""
		n.Kids = make([]*Sym, len(x.Kids))
		for i, k := range x.Kids {
			n.Kids[i] = rec(k, depth, env)
		}
		return &n
	}
	return rec(s, 0, map[string]*Sym{})
}

// project selects component i of a tuple-valued term.
func project(x *Sym, i int) *Sym {
	switch x.Op {
	case "tuple":
		if i < len(x.Kids) {
			return x.Kids[i]
		}
	case "ite":
		return sIte(x.Kids[0], project(x.Kids[1], i), project(x.Kids[2], i))
	case "first":
		n := *x
		n.str = ""
		n.Kids = []*Sym{x.Kids[0], x.Kids[1], project(x.Kids[2], i)}
		return &n
	}
	return x
}

// comparePairwise: when the full product of candidates is too large, every pair of base terms is enumerated
// completely while the remaining terms are held at each of three base points (first, middle, last candidate).
func comparePairwise(a, b *Sym, hint string, names []string, cands [][]val, e env, kinds map[string]string, prio map[string][]val) cmpResult {
	res := cmpResult{Equal: true, Terms: names, Truncated: true}
	bases := [][]int{}
	for _, pick := range []int{0, 1, 2} {
		bp := make([]int, len(names))
		for i := range names {
			switch pick {
			case 0:
				bp[i] = 0
			case 1:
				bp[i] = len(cands[i]) / 2
			default:
				bp[i] = len(cands[i]) - 1
			}
		}
		bases = append(bases, bp)
	}
	try := func(idx []int) bool {
		for i, n := range names {
			e[n] = cands[i][idx[i]]
		}
		ev := &evaluator{e: e, missing: map[string]string{}, kinds: kinds}
		va := ev.eval(a, hint)
		vb := ev.eval(b, hint)
		res.Evaluations++
		if va.String() != vb.String() {
			var parts []string
			for i, n := range names {
				parts = append(parts, n+" = "+cands[i][idx[i]].String())
			}
			res.Equal = false
			res.Witness = strings.Join(parts, ", ")
			res.Left = va.String()
			res.Right = vb.String()
			return false
		}
		return true
	}
	for _, bp := range bases {
		for i := 0; i < len(names); i++ {
			for j := i + 1; j < len(names); j++ {
				idx := append([]int{}, bp...)
				for x := 0; x < len(cands[i]); x++ {
					for y := 0; y < len(cands[j]); y++ {
						idx[i], idx[j] = x, y
						if !try(idx) {
							return res
						}
					}
				}
			}
		}
		if len(names) == 1 {
			idx := append([]int{}, bp...)
			for x := 0; x < len(cands[0]); x++ {
				idx[0] = x
				if !try(idx) {
					return res
				}
			}
		}
	}
	// second phase: the complete product over a reduced candidate set per term — the exact literals the term is compared
	// with (where conjunctions over several terms flip), both booleans, boundary integers. Variants of the literals
	// (prefixes, case) matter term by term and are covered by the pairwise phase above.
	red := make([][]val, len(names))
	for i, n := range names {
		if p, ok := prio[n]; ok && len(p) > 0 {
			red[i] = p
		} else {
			red[i] = cands[i]
		}
	}
	for limit := 12; limit >= 2; limit-- {
		total := 1.0
		for i := range red {
			if len(red[i]) > limit {
				// keep the first `limit` (for strings: "", "q", then literals in order; for integers: spread)
				if red[i][0].k == 's' {
					red[i] = red[i][:limit]
				} else {
					var kept []val
					step := float64(len(red[i])-1) / float64(limit-1)
					for k := 0; k < limit; k++ {
						kept = append(kept, red[i][int(float64(k)*step+0.5)])
					}
					red[i] = kept
				}
			}
			total *= float64(len(red[i]))
		}
		if total <= 150000 {
			break
		}
	}
	total := 1.0
	for i := range red {
		total *= float64(len(red[i]))
	}
	if total <= 150000 {
		saved := cands
		cands = red
		idx := make([]int, len(names))
		for {
			if !try(idx) {
				return res
			}
			k := 0
			for k < len(idx) {
				idx[k]++
				if idx[k] < len(red[k]) {
					break
				}
				idx[k] = 0
				k++
			}
			if k == len(idx) {
				break
			}
		}
		cands = saved
	}
	return res
}

// stripAsserts removes successful (non comma-ok) type assertions from a term: x.(T) is x whenever it does not panic, and
// panics are decided by E2, not by the decision tables. Keeps E5 rows insensitive to how the code narrows interface types.
func stripAsserts(s *Sym) *Sym {
	var rec func(x *Sym, keep bool) *Sym
	rec = func(x *Sym, keep bool) *Sym {
		if x == nil {
			return nil
		}
		if !keep && x.Op == "call" && strings.HasPrefix(x.Name, "assert:") && len(x.Kids) == 1 {
			return rec(x.Kids[0], false)
		}
		if len(x.Kids) == 0 {
			return x
		}
		n := *x
		n.str = ""
		n.Kids = make([]*Sym, len(x.Kids))
		commaOk := x.Op == "call" && (x.Name == "extract0" || x.Name == "extract1")
		for i, k := range x.Kids {
			if commaOk && k != nil && k.Op == "call" && strings.HasPrefix(k.Name, "assert:") {
				kk := *k
				kk.str = ""
				kk.Kids = make([]*Sym, len(k.Kids))
				for j, g := range k.Kids {
					kk.Kids[j] = rec(g, false)
				}
				n.Kids[i] = &kk
				continue
			}
			n.Kids[i] = rec(k, false)
		}
		return &n
	}
	return rec(s, false)
}

// typeSwitchNorm drops, from a conjunction that contains a successful comma-ok assertion x.(*T), the failed assertions of
// the same x to other pointer types: a value has one dynamic type, so they are implied. This is what a type switch
// compiles to (case k holds and cases 1..k-1 do not); the tables then state "x is a *T" and nothing about case order.
func typeSwitchNorm(s *Sym) *Sym {
	okAssert := func(x *Sym) (typ, operand string, ok bool) {
		if x != nil && x.Op == "call" && x.Name == "extract1" && len(x.Kids) == 1 {
			k := x.Kids[0]
			if k != nil && k.Op == "call" && strings.HasPrefix(k.Name, "assert:*") && len(k.Kids) == 1 {
				return strings.TrimPrefix(k.Name, "assert:"), k.Kids[0].String(), true
			}
		}
		return "", "", false
	}
	var rec func(x *Sym) *Sym
	rec = func(x *Sym) *Sym {
		if x == nil || len(x.Kids) == 0 {
			return x
		}
		if x.Op == "bin" && x.Name == "&&" {
			var cs []*Sym
			conjuncts(x, &cs)
			pos := map[string]string{}
			for i := range cs {
				cs[i] = rec(cs[i])
				if t, o, ok := okAssert(cs[i]); ok {
					pos[o] = t
				}
			}
			out := sBool(true)
			for _, cj := range cs {
				if cj.Op == "not" && len(cj.Kids) == 1 {
					if t, o, ok := okAssert(cj.Kids[0]); ok && pos[o] != "" && pos[o] != t {
						continue
					}
				}
				out = sAnd(out, cj)
			}
			return out
		}
		n := *x
		n.str = ""
		n.Kids = make([]*Sym, len(x.Kids))
		for i, k := range x.Kids {
			n.Kids[i] = rec(k)
		}
		return &n
	}
	return rec(s)
}

// resolveAnyCalls replaces every anycall(name) of the table term by the unique call of that function in the code term.
func resolveAnyCalls(want, got *Sym) (*Sym, error) {
	names := map[string]bool{}
	want.walk(func(x *Sym) {
		if x.Op == "anycall" {
			names[x.Name] = true
		}
	})
	if len(names) == 0 {
		return want, nil
	}
	found := map[string]map[string]*Sym{}
	got.walk(func(x *Sym) {
		if x.Op == "call" && names[x.Name] {
			if found[x.Name] == nil {
				found[x.Name] = map[string]*Sym{}
			}
			found[x.Name][x.String()] = x
		}
	})
	var rec func(x *Sym) *Sym
	var err error
	rec = func(x *Sym) *Sym {
		if x == nil {
			return nil
		}
		if x.Op == "anycall" {
			if len(found[x.Name]) != 1 {
				err = fmt.Errorf("the table refers to the result of %s, the code term contains %d distinct calls of it", x.Name, len(found[x.Name]))
				return x
			}
			for _, v := range found[x.Name] {
				return v
			}
		}
		if len(x.Kids) == 0 {
			return x
		}
		n := *x
		n.str = ""
		n.Kids = make([]*Sym, len(x.Kids))
		for i, k := range x.Kids {
			n.Kids[i] = rec(k)
		}
		return &n
	}
	out := rec(want)
	return out, err
}

// fieldOf projects a record-valued term (or a collection / conditional of records) onto one field.
func symFieldOf(x *Sym, path string) *Sym {
	if path == "" || x == nil {
		return x
	}
	switch x.Op {
	case "collect", "last":
		n := *x
		n.str = ""
		n.Kids = append([]*Sym{}, x.Kids...)
		n.Kids[2] = symFieldOf(x.Kids[2], path)
		return &n
	case "ite":
		return sIte(x.Kids[0], symFieldOf(x.Kids[1], path), symFieldOf(x.Kids[2], path))
	case "struct":
		head, rest := path, ""
		if i := strings.Index(path, "."); i >= 0 {
			head, rest = path[:i], path[i+1:]
		}
		for i, f := range x.Fields {
			if f == head {
				return symFieldOf(x.Kids[i], rest)
			}
		}
		return sUnknown("record has no field " + head)
	}
	out := x
	for _, f := range strings.Split(path, ".") {
		out = &Sym{Op: "field", Name: f, Kids: []*Sym{out}}
	}
	return out
}

// variantsOf: candidate strings built from a set of literals: each literal, with a prefix / suffix, case-flipped, truncated,
// separator-like literals repeated, and concatenations of pairs (a string can satisfy two substring tests at once).
func variantsOf(set map[string]bool) []string {
	var out []string
	seen := map[string]bool{}
	add := func(s string) {
		if !seen[s] {
			seen[s] = true
			out = append(out, s)
		}
	}
	add("")
	add("q")
	var lits []string
	for s := range set {
		lits = append(lits, s)
	}
	sort.Strings(lits)
	for _, s := range lits {
		add(s)
		add(s + "x")
		add("x" + s)
		add("x" + s + "x")
		if up := strings.ToUpper(s); up != s {
			add(up)
		}
		if lo := strings.ToLower(s); lo != s {
			add(lo)
		}
		if len(s) > 1 {
			add(s[:len(s)-1])
		}
		if len(s) <= 3 {
			add("a" + s + "b")
			add("a" + s + "b" + s + "a" + s + "b")
		}
	}
	if len(lits) >= 2 && len(lits) <= 8 {
		for _, x := range lits {
			for _, y := range lits {
				if x != y && x != "" && y != "" {
					add(x + y)
				}
			}
		}
	}
	return out
}
