package main

import (
	"go/constant"
	"go/token"
	"go/types"
	"sort"
	"strings"

	"golang.org/x/tools/go/ssa"
)

// ---------------------------------------------------------------------------------------------
// helpers over SSA shared by the engines

// globalOfAddr: if addr is the address of (a field / element of) a package-level variable, return it.
// whole reports whether addr designates the whole variable.
func globalOfAddr(addr ssa.Value) (g *ssa.Global, whole bool) {
	switch a := addr.(type) {
	case *ssa.Global:
		return a, true
	case *ssa.FieldAddr:
		g, _ := globalOfAddr(a.X)
		return g, false
	case *ssa.IndexAddr:
		g, _ := globalOfAddr(a.X)
		return g, false
	}
	return nil, false
}

// ownCallees: resolved callees of a call site that are coca's own functions.
func (p *Program) ownCallees(site ssa.CallInstruction) []*ssa.Function {
	var out []*ssa.Function
	for _, f := range p.Callees(site) {
		if p.IsOwnFunc(f) {
			out = append(out, f)
		}
	}
	sort.Slice(out, func(i, j int) bool { return p.FuncKey(out[i]) < p.FuncKey(out[j]) })
	return out
}

// funcValuesIn: own functions referenced as values (closures, method values, function-typed operands) by fn.
func (p *Program) funcValuesIn(fn *ssa.Function) []*ssa.Function {
	seen := map[*ssa.Function]bool{}
	var out []*ssa.Function
	add := func(f *ssa.Function) {
		if f != nil && !seen[f] && p.IsOwnFunc(f) {
			seen[f] = true
			out = append(out, f)
		}
	}
	for _, b := range fn.Blocks {
		for _, in := range b.Instrs {
			if mc, ok := in.(*ssa.MakeClosure); ok {
				add(mc.Fn.(*ssa.Function))
				continue
			}
			var ops []*ssa.Value
			ops = in.Operands(ops)
			for i, o := range ops {
				f, ok := (*o).(*ssa.Function)
				if !ok {
					continue
				}
				// skip the callee position of a static call
				if ci, ok := in.(ssa.CallInstruction); ok && i == 0 && ci.Common().StaticCallee() == f {
					continue
				}
				add(f)
			}
		}
	}
	return out
}

// reach computes the set of own functions reachable from roots through resolved calls and function values.
func (p *Program) reach(roots []*ssa.Function) map[*ssa.Function]bool {
	seen := map[*ssa.Function]bool{}
	var work []*ssa.Function
	push := func(f *ssa.Function) {
		if f != nil && !seen[f] && p.IsOwnFunc(f) {
			seen[f] = true
			work = append(work, f)
		}
	}
	for _, r := range roots {
		push(r)
	}
	for len(work) > 0 {
		f := work[len(work)-1]
		work = work[:len(work)-1]
		for _, b := range f.Blocks {
			for _, in := range b.Instrs {
				if ci, ok := in.(ssa.CallInstruction); ok {
					for _, c := range p.ownCallees(ci) {
						push(c)
					}
				}
			}
		}
		for _, c := range p.funcValuesIn(f) {
			push(c)
		}
		for _, af := range f.AnonFuncs {
			push(af)
		}
	}
	return seen
}

// constInt returns the integer value of a constant SSA value.
func constInt(v ssa.Value) (int64, bool) {
	c, ok := v.(*ssa.Const)
	if !ok || c.Value == nil {
		return 0, false
	}
	if c.Value.Kind() != constant.Int {
		return 0, false
	}
	x, ok := constant.Int64Val(c.Value)
	return x, ok
}

func constString(v ssa.Value) (string, bool) {
	c, ok := v.(*ssa.Const)
	if !ok || c.Value == nil || c.Value.Kind() != constant.String {
		return "", false
	}
	return constant.StringVal(c.Value), true
}

func constBool(v ssa.Value) (bool, bool) {
	c, ok := v.(*ssa.Const)
	if !ok || c.Value == nil || c.Value.Kind() != constant.Bool {
		return false, false
	}
	return constant.BoolVal(c.Value), true
}

// calleeName: "pkgpath.Func" or "pkgpath.(T).M" of a static callee (any package), "" otherwise.
func calleeName(c *ssa.CallCommon) string {
	if c.IsInvoke() {
		return "invoke:" + c.Method.Name()
	}
	f := c.StaticCallee()
	if f == nil {
		if b, ok := c.Value.(*ssa.Builtin); ok {
			return "builtin:" + b.Name()
		}
		return ""
	}
	return fullFuncName(f)
}

func fullFuncName(f *ssa.Function) string {
	if f == nil {
		return ""
	}
	if recv := f.Signature.Recv(); recv != nil {
		t := recv.Type()
		if pt, ok := t.(*types.Pointer); ok {
			t = pt.Elem()
		}
		if nt, ok := t.(*types.Named); ok {
			pk := ""
			if nt.Obj().Pkg() != nil {
				pk = nt.Obj().Pkg().Path()
			}
			return pk + ".(" + nt.Obj().Name() + ")." + f.Name()
		}
	}
	if f.Pkg != nil {
		return f.Pkg.Pkg.Path() + "." + f.Name()
	}
	return f.Name()
}

// isBuiltinCall reports a call to the named builtin.
func isBuiltinCall(in ssa.Instruction, name string) (*ssa.Call, bool) {
	c, ok := in.(*ssa.Call)
	if !ok {
		return nil, false
	}
	b, ok := c.Call.Value.(*ssa.Builtin)
	if !ok || b.Name() != name {
		return nil, false
	}
	return c, true
}

func namedTypeName(t types.Type) (pkg, name string) {
	for {
		switch x := t.(type) {
		case *types.Pointer:
			t = x.Elem()
			continue
		case *types.Named:
			if x.Obj().Pkg() != nil {
				pkg = x.Obj().Pkg().Path()
			}
			return pkg, x.Obj().Name()
		}
		return "", ""
	}
}

func posLess(fset *token.FileSet, a, b token.Pos) bool {
	pa, pb := fset.Position(a), fset.Position(b)
	if pa.Filename != pb.Filename {
		return pa.Filename < pb.Filename
	}
	return pa.Offset < pb.Offset
}

func sortedKeys[V any](m map[string]V) []string {
	out := make([]string, 0, len(m))
	for k := range m {
		out = append(out, k)
	}
	sort.Strings(out)
	return out
}

func shortPkg(path string) string {
	if i := strings.LastIndex(path, "/"); i >= 0 {
		return path[i+1:]
	}
	return path
}

// methodsDeclaredOn returns the methods declared directly on the named type T (value or pointer receiver),
// not those promoted from embedded fields.
func (p *Program) methodsDeclaredOn(pkgRel, typeName string) []*ssa.Function {
	sp := p.SSAPkgs[joinMod(pkgRel)]
	if sp == nil {
		return nil
	}
	tm := sp.Type(typeName)
	if tm == nil {
		return nil
	}
	nt, ok := tm.Type().(*types.Named)
	if !ok {
		return nil
	}
	var out []*ssa.Function
	for i := 0; i < nt.NumMethods(); i++ {
		if f := p.SSA.FuncValue(nt.Method(i)); f != nil {
			out = append(out, f)
		}
	}
	sort.Slice(out, func(i, j int) bool { return out[i].Name() < out[j].Name() })
	return out
}

func splitTypeKey(key string) (pkgRel, typeName string) {
	i := strings.LastIndex(key, ".")
	if i < 0 {
		return "", key
	}
	return key[:i], key[i+1:]
}
