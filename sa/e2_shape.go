package main

// E2 — shape / nil / bounds: every instruction that can panic in the functions reachable from a pass is checked against
// the shipped grammar (E1) under the path condition of the instruction (symbuild), context-sensitively (call depth ≤ 4).

import (
	"fmt"
	"go/constant"
	"go/token"
	"go/types"
	"regexp/syntax"
	"sort"
	"strings"

	"golang.org/x/tools/go/ssa"
)

func init() { register("E2-shape", runE2) }

type E2Scope struct {
	Name     string            `json:"name"`
	Props    []string          `json:"props"`
	Grammar  string            `json:"grammar"`
	Listener string            `json:"listener"` // roots: the callbacks declared on this type
	Funcs    []string          `json:"funcs"`    // extra roots
	Floor    int               `json:"floor"`    // minimum number of root functions
	Trusted  map[string]string `json:"trusted"`  // construct -> reason (facts outside the domain)
}

type kindset map[string]bool

func (k kindset) String() string {
	var s []string
	for x := range k {
		s = append(s, x)
	}
	sort.Strings(s)
	return "{" + strings.Join(s, ",") + "}"
}

// binder name -> collection term (registered by symbuild when it creates an element variable)
var binderColls = map[string]*Sym{}

type shapeAn struct {
	p        *Program
	c        *Collector
	sc       *E2Scope
	g        *Grammar
	seen     map[string]bool
	rootKind map[string]kindset // param name -> kinds (per analysis root)
	nOps     int
	emitted  map[string]bool
}

func runE2(p *Program, sp *Spec, c *Collector) {
	for i := range sp.Tables.E2 {
		sc := &sp.Tables.E2[i]
		an := &shapeAn{p: p, c: c, sc: sc, g: sp.G[sc.Grammar], seen: map[string]bool{}, emitted: map[string]bool{}}
		var roots []*ssa.Function
		if sc.Listener != "" {
			pr, tn := splitTypeKey(sc.Listener)
			for _, m := range p.methodsDeclaredOn(pr, tn) {
				if _, _, ok := callbackRule(m.Name()); ok {
					roots = append(roots, m)
				}
			}
		}
		for _, f := range sc.Funcs {
			fn := p.Func(f)
			if fn == nil {
				c.Anchor(sc.Props, "E2: scope %s: %s does not resolve", sc.Name, f)
				continue
			}
			roots = append(roots, fn)
		}
		if len(roots) < sc.Floor {
			c.Anchor(sc.Props, "E2: scope %s: %d root functions, floor is %d", sc.Name, len(roots), sc.Floor)
		}
		// function literals of the roots run as callbacks of library walkers (ast.Inspect, filepath.Walk …): roots as well
		for i := 0; i < len(roots); i++ {
			roots = append(roots, roots[i].AnonFuncs...)
		}
		for _, r := range roots {
			an.rootKind = map[string]kindset{}
			// callback parameter: non-nil context of the callback's rule
			if _, rule, ok := callbackRule(r.Name()); ok && len(r.Params) == 2 && sc.Listener != "" {
				if an.g != nil {
					if _, isRule := an.g.Rules[rule]; isRule {
						an.rootKind["p1"] = kindset{rule: true}
					} else if rn, lbl, ok := an.g.RuleOfContext(ctxTypeName(r.Params[1].Type())); ok {
						an.rootKind["p1"] = kindset{rn + "#" + lbl: true}
					}
				}
			}
			an.analyze(r, nil, sBool(true), 0, shortFn(p.FuncKey(r)))
		}
		c.Count("E2."+sc.Name+".roots", len(roots))
		c.Count("E2."+sc.Name+".ops", an.nOps)
	}
}

func ctxTypeName(t types.Type) string {
	_, n := namedTypeName(t)
	return n
}

func lowerFirst(s string) string {
	if s == "" {
		return s
	}
	return strings.ToLower(s[:1]) + s[1:]
}

// ---------------------------------------------------------------------------------------------
// facts: a truth assignment to the atoms of the path condition

type facts map[string]bool // atom string -> value (absent = unknown)

// atoms collects the boolean leaves of a condition.
func atomsOf(c *Sym, out map[string]*Sym) {
	switch c.Op {
	case "bin":
		if c.Name == "&&" || c.Name == "||" {
			atomsOf(c.Kids[0], out)
			atomsOf(c.Kids[1], out)
			return
		}
	case "not":
		atomsOf(c.Kids[0], out)
		return
	case "ite":
		if c.Kind == "bool" {
			atomsOf(c.Kids[0], out)
			atomsOf(c.Kids[1], out)
			atomsOf(c.Kids[2], out)
			return
		}
	case "const":
		return
	}
	out[c.String()] = c
}

// eval3: Kleene evaluation of a condition under a partial assignment: 1 true, 0 false, -1 unknown.
func eval3(c *Sym, f facts) int {
	switch c.Op {
	case "const":
		if c.C != nil && c.C.Kind() == constant.Bool {
			if constant.BoolVal(c.C) {
				return 1
			}
			return 0
		}
		return -1
	case "not":
		v := eval3(c.Kids[0], f)
		if v < 0 {
			return -1
		}
		return 1 - v
	case "bin":
		if c.Name == "&&" {
			a, b := eval3(c.Kids[0], f), eval3(c.Kids[1], f)
			if a == 0 || b == 0 {
				return 0
			}
			if a == 1 && b == 1 {
				return 1
			}
			return -1
		}
		if c.Name == "||" {
			a, b := eval3(c.Kids[0], f), eval3(c.Kids[1], f)
			if a == 1 || b == 1 {
				return 1
			}
			if a == 0 && b == 0 {
				return 0
			}
			return -1
		}
	case "ite":
		if c.Kind == "bool" {
			k := eval3(c.Kids[0], f)
			switch k {
			case 1:
				return eval3(c.Kids[1], f)
			case 0:
				return eval3(c.Kids[2], f)
			}
			a, b := eval3(c.Kids[1], f), eval3(c.Kids[2], f)
			if a == b {
				return a
			}
			return -1
		}
	}
	if v, ok := f[c.String()]; ok {
		if v {
			return 1
		}
		return 0
	}
	return -1
}

// subject helpers ---------------------------------------------------------------------------

func isCall(s *Sym, name string) bool { return s.Op == "call" && s.Name == name }

func invokeName(s *Sym) (string, bool) {
	if s.Op == "call" && strings.HasPrefix(s.Name, "invoke:") {
		return strings.TrimPrefix(s.Name, "invoke:"), true
	}
	return "", false
}

// atomFact interprets one atom with its truth value as a structured fact about a subject term.
type sfact struct {
	kind    string // nonnil nil typeis typeisnot assertok assertnot textis textisnot cc prefix lenrel present
	subject string
	str     string
	op      string
	n       int64
}

func interpret(atom *Sym, val bool) []sfact {
	var out []sfact
	// x == nil / x != nil
	if atom.Op == "bin" && (atom.Name == "==" || atom.Name == "!=") {
		l, r := atom.Kids[0], atom.Kids[1]
		if r.Op == "nil" || l.Op == "nil" {
			sub := l
			if l.Op == "nil" {
				sub = r
			}
			isNil := (atom.Name == "==") == val
			if isNil {
				out = append(out, sfact{kind: "nil", subject: sub.String()})
			} else {
				out = append(out, sfact{kind: "nonnil", subject: sub.String()})
			}
			return out
		}
		// reflect.TypeOf(x).String() == "*parser.FooContext"
		for _, pair := range [][2]*Sym{{l, r}, {r, l}} {
			a, cst := pair[0], pair[1]
			s, isStr := symStr(cst)
			if !isStr {
				continue
			}
			if n, ok := invokeName(a); ok && n == "String" && len(a.Kids) == 1 && isCall(a.Kids[0], "reflect.TypeOf") {
				sub := a.Kids[0].Kids[0]
				eq := (atom.Name == "==") == val
				if eq {
					out = append(out, sfact{kind: "typeis", subject: sub.String(), str: s}, sfact{kind: "nonnil", subject: sub.String()})
				} else {
					out = append(out, sfact{kind: "typeisnot", subject: sub.String(), str: s})
				}
				return out
			}
			if n, ok := invokeName(a); ok && n == "GetText" && len(a.Kids) == 1 {
				eq := (atom.Name == "==") == val
				if eq {
					out = append(out, sfact{kind: "textis", subject: a.Kids[0].String(), str: s})
				} else {
					out = append(out, sfact{kind: "textisnot", subject: a.Kids[0].String(), str: s})
				}
				return out
			}
			// s == "" / s != ""
			eq := (atom.Name == "==") == val
			if s == "" {
				if eq {
					out = append(out, sfact{kind: "lenrel", subject: a.String(), op: "<=", n: 0})
				} else {
					out = append(out, sfact{kind: "lenrel", subject: a.String(), op: ">=", n: 1})
				}
				return out
			}
			if eq {
				out = append(out, sfact{kind: "lenrel", subject: a.String(), op: ">=", n: int64(len(s))}, sfact{kind: "lenrel", subject: a.String(), op: "<=", n: int64(len(s))})
				return out
			}
		}
	}
	// integer comparisons: len(x) op n, GetChildCount(x) op n, len(GetChildren(x)) op n
	if atom.Op == "bin" {
		switch atom.Name {
		case "<", "<=", ">", ">=", "==", "!=":
			l, r := atom.Kids[0], atom.Kids[1]
			op := atom.Name
			if _, ok := symIntC(l); ok {
				l, r = r, l
				op = map[string]string{"<": ">", "<=": ">=", ">": "<", ">=": "<=", "==": "==", "!=": "!="}[op]
			}
			if n, ok := symIntC(r); ok {
				if !val {
					op = map[string]string{"<": ">=", "<=": ">", ">": "<=", ">=": "<", "==": "!=", "!=": "=="}[op]
				}
				if l.Op == "len" {
					x := l.Kids[0]
					if x.Op == "call" && x.Name == "regexp.(Regexp).FindAllString" && len(x.Kids) >= 2 {
						if (op == "==" && n >= 1) || (op == ">=" && n >= 1) || (op == ">" && n >= 0) {
							out = append(out, sfact{kind: "matches", subject: x.Kids[0].String() + "|" + x.Kids[1].String()})
						}
					}
					if nm, ok := invokeName(x); ok && nm == "GetChildren" {
						out = append(out, sfact{kind: "cc", subject: x.Kids[0].String(), op: op, n: n})
					} else {
						out = append(out, sfact{kind: "lenrel", subject: x.String(), op: op, n: n})
					}
					return out
				}
				if nm, ok := invokeName(l); ok && nm == "GetChildCount" {
					out = append(out, sfact{kind: "cc", subject: l.Kids[0].String(), op: op, n: n})
					return out
				}
			}
		}
	}
	// comma-ok type assertion / type switch: extract1(assert:T(x))
	if atom.Op == "call" && atom.Name == "extract1" && len(atom.Kids) == 1 && atom.Kids[0].Op == "call" && strings.HasPrefix(atom.Kids[0].Name, "assert:") {
		t := strings.TrimPrefix(atom.Kids[0].Name, "assert:")
		sub := atom.Kids[0].Kids[0]
		if val {
			out = append(out, sfact{kind: "typeis", subject: sub.String(), str: t}, sfact{kind: "nonnil", subject: sub.String()})
		} else {
			out = append(out, sfact{kind: "typeisnot", subject: sub.String(), str: t})
		}
		return out
	}
	// strings.HasPrefix(s, lit)
	if atom.Op == "pred" && atom.Name == "hasPrefix" && val {
		if s, ok := symStr(atom.Kids[1]); ok {
			out = append(out, sfact{kind: "lenrel", subject: atom.Kids[0].String(), op: ">=", n: int64(len(s))})
		}
	}
	if atom.Op == "pred" && atom.Name == "contains" && val {
		if s, ok := symStr(atom.Kids[1]); ok {
			out = append(out, sfact{kind: "lenrel", subject: atom.Kids[0].String(), op: ">=", n: int64(len(s))})
			out = append(out, sfact{kind: "contains", subject: atom.Kids[0].String(), str: s})
		}
	}
	// regexp MatchString(re, s)
	if atom.Op == "call" && atom.Name == "regexp.(Regexp).MatchString" && val {
		out = append(out, sfact{kind: "matches", subject: atom.Kids[0].String() + "|" + atom.Kids[1].String()})
	}
	// map membership
	if atom.Op == "has" && val {
		out = append(out, sfact{kind: "present", subject: atom.Kids[0].String() + "|" + atom.Kids[1].String()})
	}
	return out
}

type factSet struct {
	list []sfact
}

func (fs *factSet) has(kind, subject string) bool {
	for _, f := range fs.list {
		if f.kind == kind && f.subject == subject {
			return true
		}
	}
	return false
}

func (fs *factSet) all(kind, subject string) []sfact {
	var out []sfact
	for _, f := range fs.list {
		if f.kind == kind && f.subject == subject {
			out = append(out, f)
		}
	}
	return out
}

// ---------------------------------------------------------------------------------------------
// kinds of a tree-valued term

func (an *shapeAn) ruleOfTypeString(s string) (string, bool) {
	// "*parser.FooContext" / "*FooContext" / "parser.IFooContext"
	s = strings.TrimPrefix(s, "*")
	if i := strings.LastIndex(s, "."); i >= 0 {
		s = s[i+1:]
	}
	if an.g == nil {
		return "", false
	}
	r, l, ok := an.g.RuleOfContext(s)
	if !ok {
		return "", false
	}
	if l != "" {
		return r + "#" + l, true
	}
	return r, true
}

func splitKind(k string) (rule, label string) {
	if i := strings.Index(k, "#"); i >= 0 {
		return k[:i], k[i+1:]
	}
	return k, ""
}

func (an *shapeAn) isRule(k string) bool {
	if an.g == nil {
		return false
	}
	r, _ := splitKind(k)
	_, ok := an.g.Rules[r]
	return ok
}

// consistentProfiles: derivations of rule compatible with the facts about subject (presence / absence of accessors,
// child-count relations).
func (an *shapeAn) consistentProfiles(kind string, subject *Sym, fs *factSet) []profile {
	rule, label := splitKind(kind)
	all := an.g.Profiles(rule, label)
	var out []profile
	subj := subject.String()
	for _, pf := range all {
		ok := true
		for _, f := range fs.list {
			switch f.kind {
			case "nonnil", "nil":
				// accessor of subject?  invoke:X(subject[, i])
				pre := "call:invoke:"
				if !strings.HasPrefix(f.subject, pre) {
					continue
				}
				rest := f.subject[len(pre):]
				par := strings.Index(rest, "(")
				if par < 0 {
					continue
				}
				acc := rest[:par]
				args := rest[par+1 : len(rest)-1]
				idx := int64(0)
				if args != subj {
					if !strings.HasPrefix(args, subj+", ") {
						continue
					}
					if _, err := fmt.Sscanf(args[len(subj)+2:], "%d", &idx); err != nil {
						continue
					}
				}
				sym := an.accessorSymbol(acc)
				if sym == "" {
					continue
				}
				cnt := int64(pf.counts[sym])
				if f.kind == "nonnil" && cnt <= idx && !(cnt >= many && idx >= many) {
					ok = false
				}
				if f.kind == "nil" && cnt > idx {
					ok = false
				}
			case "cc":
				if f.subject != subj {
					continue
				}
				t := int64(pf.total)
				capped := pf.total >= totalCap
				switch f.op {
				case "<":
					if t >= f.n && !(false) {
						ok = ok && (t < f.n)
					}
				case "<=":
					ok = ok && (t <= f.n)
				case ">":
					ok = ok && (t > f.n || capped)
				case ">=":
					ok = ok && (t >= f.n || capped)
				case "==":
					ok = ok && (t == f.n || (capped && f.n >= totalCap))
				case "!=":
					ok = ok && (t != f.n || capped)
				}
			}
		}
		if ok {
			out = append(out, pf)
		}
	}
	return out
}

// accessorSymbol: generated accessor name -> grammar symbol ("TypeType" -> typeType, "EXTENDS" -> EXTENDS, "AllX" -> x).
func (an *shapeAn) accessorSymbol(acc string) string {
	if an.g == nil {
		return ""
	}
	acc = strings.TrimPrefix(acc, "All")
	if _, ok := an.g.Rules[lowerFirst(acc)]; ok {
		return lowerFirst(acc)
	}
	if _, ok := an.g.Rules[acc]; ok {
		return acc
	}
	if _, ok := an.g.tokIndex[acc]; ok {
		return acc
	}
	return ""
}

var nonTreeAccessors = map[string]bool{"GetText": true, "GetStart": true, "GetStop": true, "GetSymbol": true, "GetChildCount": true, "GetChildren": true,
	"GetLine": true, "GetColumn": true, "GetTokenType": true, "GetRuleIndex": true, "String": true, "GetPayload": true, "GetSourceInterval": true,
	"GetBop": true, "GetPrefix": true, "GetPostfix": true, "ToStringTree": true, "GetParser": true, "GetRuleContext": true}

// kinds returns the possible kinds of term t under the facts; nil = not a tree term we can type.
func (an *shapeAn) kinds(t *Sym, fs *factSet, depth int) kindset {
	if an.g == nil || depth > 12 {
		return nil
	}
	var base kindset
	switch t.Op {
	case "param":
		if k, ok := an.rootKind[t.Name]; ok {
			base = kindset{}
			for x := range k {
				base[x] = true
			}
		}
	case "elem":
		coll := binderColls[strings.TrimSuffix(t.Name, "_k")]
		for coll != nil && coll.Op == "call" && coll.Name == "slice" && len(coll.Kids) == 3 {
			coll = coll.Kids[0] // a sub-slice has the same element kinds
		}
		// a collection chosen by a condition: union over the non-nil alternatives
		if coll != nil && coll.Op == "ite" {
			base = kindset{}
			var alts []*Sym
			var flat func(x *Sym)
			flat = func(x *Sym) {
				if x.Op == "ite" {
					flat(x.Kids[1])
					flat(x.Kids[2])
					return
				}
				alts = append(alts, x)
			}
			flat(coll)
			for _, a := range alts {
				if a.Op == "nil" {
					continue
				}
				n, ok := invokeName(a)
				sym := ""
				if ok && strings.HasPrefix(n, "All") {
					sym = an.accessorSymbol(n)
				}
				if sym == "" {
					base = nil
					break
				}
				base[sym] = true
			}
			coll = nil
		}
		if coll != nil {
			if n, ok := invokeName(coll); ok {
				if strings.HasPrefix(n, "All") {
					if sym := an.accessorSymbol(n); sym != "" {
						base = kindset{sym: true}
					}
				} else if n == "GetChildren" {
					pk := an.kinds(coll.Kids[0], fs, depth+1)
					if pk != nil {
						base = kindset{}
						for k := range pk {
							if an.isRule(k) {
								r, l := splitKind(k)
								for s := range an.g.Symbols(r, l) {
									base[s] = true
								}
							}
						}
					}
				}
			}
		}
	case "index":
		if n, ok := invokeName(t.Kids[0]); ok && strings.HasPrefix(n, "All") {
			if sym := an.accessorSymbol(n); sym != "" {
				base = kindset{sym: true}
			}
		}
	case "ite":
		a, b := an.kinds(t.Kids[1], fs, depth+1), an.kinds(t.Kids[2], fs, depth+1)
		if a != nil && b != nil {
			base = kindset{}
			for k := range a {
				base[k] = true
			}
			for k := range b {
				base[k] = true
			}
		}
	case "call":
		if strings.HasPrefix(t.Name, "assert:") {
			if r, ok := an.ruleOfTypeString(strings.TrimPrefix(t.Name, "assert:")); ok {
				// x.(*T) yields a T node. On a nil interface it panics (the assertion rule reports that); on an interface
				// holding a nil *T (TNIL: the failed result of an earlier comma-ok assertion) it succeeds and yields that nil pointer
				out := kindset{r: true}
				if inner := an.kinds(t.Kids[0], fs, depth+1); inner != nil && inner["TNIL"] {
					out["TNIL"] = true
				}
				return out
			}
			// assertion to an interface (antlr.ParseTree …): same node, non-nil
			inner := an.kinds(t.Kids[0], fs, depth+1)
			if inner != nil {
				out := kindset{}
				for k := range inner {
					if k != "NIL" {
						out[k] = true
					}
				}
				return out
			}
			return nil
		}
		if t.Name == "extract0" && len(t.Kids) == 1 {
			// v, ok := x.(*T): v is a T node when x is one, and a nil *T otherwise
			a := t.Kids[0]
			if a.Op == "call" && strings.HasPrefix(a.Name, "assert:") && len(a.Kids) == 1 {
				if r, ok := an.ruleOfTypeString(strings.TrimPrefix(a.Name, "assert:")); ok {
					inner := an.kinds(a.Kids[0], fs, depth+1)
					if inner == nil {
						return kindset{r: true}
					}
					out := kindset{}
					for k := range inner {
						if k == r {
							out[r] = true
						} else {
							out["TNIL"] = true // the zero value of *T: a nil pointer, which boxed into an interface is not == nil
						}
					}
					base = out
					break
				}
			}
			return an.kinds(t.Kids[0], fs, depth+1)
		}
		n, ok := invokeName(t)
		if !ok || len(t.Kids) == 0 {
			break
		}
		recv := an.kinds(t.Kids[0], fs, depth+1)
		if recv == nil && t.RK != "" {
			// receiver not typeable from the term: use its static Go type (non-nil: the call itself was checked)
			if r, ok := an.ruleOfTypeString(t.RK); ok {
				recv = kindset{r: true}
			}
		}
		if recv == nil {
			break
		}
		switch {
		case n == "GetChild" && len(t.Kids) == 2:
			idx, isC := symIntC(t.Kids[1])
			if !isC {
				break
			}
			base = kindset{}
			for k := range recv {
				if k == "NIL" {
					continue
				}
				if !an.isRule(k) {
					base["NIL"] = true // terminal nodes have no children
					continue
				}
				for s := range an.childAt(k, t.Kids[0], int(idx), fs) {
					base[s] = true
				}
			}
		case n == "GetParent" && len(t.Kids) == 1 && isDirectChildOf(t.Kids[0]) != nil:
			// the parent of a node obtained from u by a child accessor / GetChild is u
			pk := an.kinds(isDirectChildOf(t.Kids[0]), fs, depth+1)
			if pk != nil {
				base = kindset{}
				for k := range pk {
					if k != "NIL" {
						base[k] = true
					}
				}
			}
		case n == "GetParent":
			base = kindset{}
			for k := range recv {
				if k == "NIL" {
					continue
				}
				r, _ := splitKind(k)
				ps := an.g.Parents(r)
				if an.isRule(k) {
					for _, pr := range ps {
						base[pr] = true
					}
					if len(ps) == 0 {
						base["NIL"] = true
					}
				} else {
					// token: any rule that mentions it
					for _, rn := range an.g.Order {
						if an.g.Symbols(rn, "")[k] {
							base[rn] = true
						}
					}
				}
			}
		case nonTreeAccessors[n]:
			return nil
		default:
			sym := an.accessorSymbol(n)
			if sym == "" || strings.HasPrefix(n, "All") {
				break
			}
			idx := int64(0)
			if len(t.Kids) == 2 {
				if i, ok := symIntC(t.Kids[1]); ok {
					idx = i
				} else {
					break
				}
			}
			base = kindset{}
			for k := range recv {
				if k == "NIL" || !an.isRule(k) {
					continue
				}
				pfs := an.consistentProfiles(k, t.Kids[0], fs)
				for _, pf := range pfs {
					if int64(pf.counts[sym]) > idx || (pf.counts[sym] >= many) {
						base[sym] = true
					}
					if int64(pf.counts[sym]) <= idx {
						base["NIL"] = true
					}
				}
			}
		}
	}
	if base == nil {
		// a type fact alone can type an otherwise unknown term
		for _, f := range fs.all("typeis", t.String()) {
			if r, ok := an.ruleOfTypeString(f.str); ok {
				return kindset{r: true}
			}
		}
		return nil
	}
	// refine by facts on t itself
	subj := t.String()
	for _, f := range fs.all("typeis", subj) {
		if r, ok := an.ruleOfTypeString(f.str); ok {
			nb := kindset{}
			if base[r] {
				nb[r] = true
			}
			base = nb
		} else if strings.Contains(f.str, "TerminalNode") {
			nb := kindset{}
			for k := range base {
				if k != "NIL" && !an.isRule(k) {
					nb[k] = true
				}
			}
			base = nb
		}
	}
	for _, f := range fs.all("typeisnot", subj) {
		if r, ok := an.ruleOfTypeString(f.str); ok {
			delete(base, r)
		}
	}
	if fs.has("nonnil", subj) {
		delete(base, "NIL")
		delete(base, "TNIL")
	}
	if fs.has("nil", subj) {
		nb := kindset{}
		if base["NIL"] {
			nb["NIL"] = true
		}
		if base["TNIL"] {
			nb["TNIL"] = true
		}
		base = nb
	}
	return base
}

// isDirectChildOf: if t is invoke:X(u[, i]) for a child accessor X (or GetChild), return u.
func isDirectChildOf(t *Sym) *Sym {
	for t.Op == "call" && (strings.HasPrefix(t.Name, "assert:") || t.Name == "extract0") && len(t.Kids) == 1 {
		t = t.Kids[0]
	}
	n, ok := invokeName(t)
	if !ok || len(t.Kids) == 0 {
		return nil
	}
	if n == "GetParent" || nonTreeAccessors[n] || strings.HasPrefix(n, "All") {
		return nil
	}
	return t.Kids[0]
}

// childAt: symbols at child index i of a node of kind k under the facts about subject (child count, excluded texts).
// "NIL": fewer than i children; "PANIC": exactly i children (the runtime's GetChild indexes children[i] when len >= i).
func (an *shapeAn) childAt(k string, subject *Sym, i int, fs *factSet) kindset {
	rule, label := splitKind(k)
	out := kindset{}
	subj := subject.String()
	seqs := an.g.Sequences(rule, label, i+2)
	for _, sq := range seqs {
		// excluded / required exact texts
		skip := false
		if !sq.open {
			text, allLit := "", true
			for _, s := range sq.syms {
				lt, ok := an.g.LiteralText(s)
				if !ok {
					allLit = false
					break
				}
				text += lt
			}
			for _, f := range fs.all("textisnot", subj) {
				if allLit && text == f.str {
					skip = true
				}
			}
			for _, f := range fs.all("textis", subj) {
				if allLit && text != f.str {
					skip = true
				}
			}
		}
		// child count facts
		for _, f := range fs.all("cc", subj) {
			n := int64(len(sq.syms))
			switch f.op {
			case "<":
				if sq.open || n >= f.n {
					skip = skip || !(n < f.n && !sq.open)
				}
			case "<=":
				skip = skip || sq.open || n > f.n
			case ">":
				skip = skip || (!sq.open && n <= f.n)
			case ">=":
				skip = skip || (!sq.open && n < f.n)
			case "==":
				skip = skip || (!sq.open && n != f.n) || (sq.open && n > f.n)
			case "!=":
				skip = skip || (!sq.open && n == f.n)
			}
		}
		// nil / non-nil facts about other GetChild(subject, j)
		for _, f := range fs.list {
			if f.kind != "nonnil" && f.kind != "nil" {
				continue
			}
			pre := "call:invoke:GetChild(" + subj + ", "
			if !strings.HasPrefix(f.subject, pre) {
				continue
			}
			var j int
			if _, err := fmt.Sscanf(f.subject[len(pre):], "%d", &j); err != nil {
				continue
			}
			hasJ := len(sq.syms) > j
			if f.kind == "nonnil" && !hasJ && !sq.open {
				skip = true
			}
			if f.kind == "nil" && hasJ {
				skip = true
			}
		}
		if skip {
			continue
		}
		switch {
		case len(sq.syms) > i:
			out[sq.syms[i]] = true
		case len(sq.syms) == i && !sq.open:
			out["PANIC"] = true
		default:
			if sq.open {
				out[sq.syms[len(sq.syms)-1]] = true
			} else {
				out["NIL"] = true
			}
		}
	}
	return out
}

// ---------------------------------------------------------------------------------------------
// the analysis proper

func isTreeType(t types.Type) bool {
	pk, n := namedTypeName(t)
	if pk == "" {
		return false
	}
	if strings.HasPrefix(pk, modPath+"/languages/") && (strings.HasSuffix(n, "Context") || n == "Tree" || n == "TerminalNode") {
		return true
	}
	if strings.Contains(pk, "antlr") {
		switch n {
		case "Tree", "ParseTree", "RuleContext", "ParserRuleContext", "TerminalNode", "SyntaxTree", "RuleNode", "ErrorNode":
			return true
		}
	}
	return false
}

func (an *shapeAn) analyze(fn *ssa.Function, args []*Sym, ctx *Sym, depth int, chain string) {
	if len(fn.Blocks) == 0 {
		return
	}
	key := an.p.FuncKey(fn) + "|" + ctx.String()
	for _, a := range args {
		key += "|" + a.String()
	}
	if an.seen[key] {
		return
	}
	an.seen[key] = true
	sf := newSymFn(an.p, fn, 1) // values inline own callees up to depth 3
	for i, prm := range fn.Params {
		if args != nil && i < len(args) && args[i] != nil {
			sf.params[prm] = args[i]
		} else if depth > 0 || an.rootKind[fmt.Sprintf("p%d", i)] == nil {
			// parameters of non-root functions without a calling context: typed by their Go type
			if isTreeType(prm.Type()) {
				if r, ok := an.ruleOfTypeString(ctxTypeName(prm.Type())); ok {
					name := fmt.Sprintf("p%d", i)
					if depth > 0 {
						name = fmt.Sprintf("%s.p%d", shortFn(an.p.FuncKey(fn)), i)
						sf.params[prm] = &Sym{Op: "param", Name: name}
					}
					ks := kindset{r: true}
					if _, isIface := prm.Type().Underlying().(*types.Interface); isIface {
						ks["NIL"] = true
					}
					an.rootKind[name] = ks
				}
			}
		}
	}
	reach := map[*ssa.BasicBlock]bool{}
	var dfs func(b *ssa.BasicBlock)
	dfs = func(b *ssa.BasicBlock) {
		if reach[b] {
			return
		}
		reach[b] = true
		for _, s := range b.Succs {
			dfs(s)
		}
	}
	dfs(fn.Blocks[0])
	for _, b := range fn.Blocks {
		if !reach[b] {
			continue
		}
		var pcCache *Sym
		pc := func() *Sym {
			if pcCache == nil {
				pcCache = sAnd(ctx, sf.pathCond(b))
			}
			return pcCache
		}
		for _, in := range b.Instrs {
			switch x := in.(type) {
			case *ssa.TypeAssert:
				if x.CommaOk {
					continue
				}
				an.checkAssert(sf, x, pc(), chain)
			case *ssa.Call:
				an.checkCall(sf, x, pc(), chain)
				callee := x.Call.StaticCallee()
				if callee != nil && an.p.IsOwnFunc(callee) && depth < 4 && !x.Call.IsInvoke() {
					var as []*Sym
					for _, a := range x.Call.Args {
						if al, ok := a.(*ssa.Alloc); ok {
							if _, isStruct := al.Type().Underlying().(*types.Pointer).Elem().Underlying().(*types.Struct); isStruct {
								as = append(as, sf.structCell(al, x))
								continue
							}
						}
						as = append(as, sf.val(a))
					}
					an.analyze(callee, as, pc(), depth+1, chain+" → "+shortFn(an.p.FuncKey(callee)))
				}
			case *ssa.Slice:
				an.checkSlice(sf, x, pc(), chain)
			case *ssa.Index:
				an.checkIndex(sf, x.X, x.Index, x, pc(), chain)
			case *ssa.IndexAddr:
				an.checkIndex(sf, x.X, x.Index, x, pc(), chain)
			case *ssa.FieldAddr:
				an.checkFieldOfLookup(sf, x, pc(), chain)
			case *ssa.Panic:
				an.ob("E2.explicit-panic", "panic:"+an.p.FuncKey(fn), Violated, "explicit panic reachable from the pass ("+chain+")", an.p.InstrPos(in), false)
			}
		}
	}
}

func (an *shapeAn) ob(rule, construct, status, reason, pos string, nontrivial bool) {
	if tr, ok := an.sc.Trusted[construct]; ok && status != Discharged {
		status, reason, nontrivial = Discharged, "trusted fact: "+tr, false
	}
	k := rule + "|" + construct + "|" + status
	if an.emitted[k] {
		return
	}
	// a construct analysed in several contexts: a violation in any context wins
	an.emitted[k] = true
	an.c.Ob(an.sc.Props, rule, "scope:"+an.sc.Name+" "+construct, status, reason, pos, nontrivial)
}

// assignments enumerates the truth assignments of the atoms of pc that make pc not-false (Kleene), restricted to the
// atoms that mention one of the subject strings; calls f for each; stops when f returns false.
func (an *shapeAn) assignments(pc *Sym, subjects []string, f func(fs *factSet) bool) {
	atoms := map[string]*Sym{}
	atomsOf(pc, atoms)
	var rel []string
	for k := range atoms {
		for _, s := range subjects {
			if s != "" && strings.Contains(k, s) {
				rel = append(rel, k)
				break
			}
		}
	}
	sort.Strings(rel)
	if len(rel) > 14 {
		rel = rel[:14]
	}
	n := len(rel)
	for mask := 0; mask < 1<<n; mask++ {
		fa := facts{}
		for i, k := range rel {
			fa[k] = mask&(1<<i) != 0
		}
		if eval3(pc, fa) == 0 {
			continue
		}
		fs := &factSet{}
		for i, k := range rel {
			fs.list = append(fs.list, interpret(atoms[k], mask&(1<<i) != 0)...)
		}
		if !f(fs) {
			return
		}
	}
}

// rootSubject: the innermost receiver chain strings of a term (used to select relevant atoms).
func subjectsOf(t *Sym) []string {
	var out []string
	cur := t
	for cur != nil {
		out = append(out, cur.String())
		if cur.Op == "call" && len(cur.Kids) > 0 {
			cur = cur.Kids[0]
			continue
		}
		if cur.Op == "field" || cur.Op == "index" || cur.Op == "len" {
			cur = cur.Kids[0]
			continue
		}
		break
	}
	return out
}

func (an *shapeAn) describe(fs *factSet) string {
	var parts []string
	for _, f := range fs.list {
		switch f.kind {
		case "nonnil", "nil":
			parts = append(parts, f.subject+" is "+f.kind)
		case "typeis":
			parts = append(parts, f.subject+" is "+f.str)
		case "cc":
			parts = append(parts, fmt.Sprintf("children(%s) %s %d", f.subject, f.op, f.n))
		case "lenrel":
			parts = append(parts, fmt.Sprintf("len(%s) %s %d", f.subject, f.op, f.n))
		}
	}
	if len(parts) > 4 {
		parts = parts[:4]
	}
	return strings.Join(parts, "; ")
}

func (an *shapeAn) checkAssert(sf *symFn, x *ssa.TypeAssert, pc *Sym, chain string) {
	if !isTreeType(x.X.Type()) && !isTreeType(x.AssertedType) {
		// a node of go/ast's syntax tree: an interface (Expr, Stmt, Spec, Decl, Node) has many node kinds behind it, and no
		// grammar of ours says which; an assertion without a comma-ok form is decided only when the same operand was tested
		// for that type on the path
		if pk, n := namedTypeName(x.X.Type()); pk == "go/ast" {
			_, toIface := x.AssertedType.Underlying().(*types.Interface)
			if _, isIface := x.X.Type().Underlying().(*types.Interface); isIface && !toIface {
				an.nOps++
				t := sf.val(x.X)
				// one obligation per site (the walk reaches a helper once per caller): the n-th unchecked assertion of the function
				ord := 0
				for _, bb := range x.Parent().Blocks {
					for _, ii := range bb.Instrs {
						if ta, ok := ii.(*ssa.TypeAssert); ok && !ta.CommaOk {
							ord++
							if ta == x {
								goto found
							}
						}
					}
				}
			found:
				construct := fmt.Sprintf("assert:%s #%d .(%s)", an.p.FuncKey(x.Parent()), ord, ctxTypeName(x.AssertedType))
				pos := an.p.InstrPos(x)
				tested := false
				want := "assert:" + types.TypeString(x.AssertedType, func(p *types.Package) string { return p.Name() })
				pc.walk(func(y *Sym) {
					if y.Op == "call" && strings.HasPrefix(y.Name, "assert:") && strings.Contains(y.String(), t.String()) && strings.HasPrefix(y.Name, want) {
						tested = true
					}
				})
				// the reflective spelling: reflect.TypeOf(x).String() == "*ast.FuncLit"
				lit := "\"" + types.TypeString(x.AssertedType, func(p *types.Package) string { return p.Name() }) + "\""
				pc.walk(func(y *Sym) {
					if y.Op == "bin" && y.Name == "==" && len(y.Kids) == 2 {
						for i := 0; i < 2; i++ {
							if y.Kids[i].String() == lit && strings.Contains(y.Kids[1-i].String(), "reflect.TypeOf") {
								tested = true
							}
						}
					}
				})
				if tested {
					an.ob("E2.type-assertion", construct, Discharged, "the operand was tested for this type on the path", pos, true)
				} else {
					an.ob("E2.type-assertion", construct, Violated, "unchecked type assertion can panic: a go/ast."+n+" can be any of the node kinds that implement it, and nothing on the path tests for "+ctxTypeName(x.AssertedType)+" ["+chain+"]", pos, false)
				}
			}
		}
		return
	}
	an.nOps++
	t := sf.val(x.X)
	want, isCtx := an.ruleOfTypeString(types.TypeString(x.AssertedType, nil))
	construct := "assert:" + an.p.FuncKey(sf.fn) + " " + clip(t.String(), 160) + ".(" + ctxTypeName(x.AssertedType) + ")"
	_, toIface := x.AssertedType.Underlying().(*types.Interface)
	bad := ""
	undecided := false
	an.assignments(pc, subjectsOf(t), func(fs *factSet) bool {
		ks := an.kinds(t, fs, 0)
		if ks == nil {
			undecided = true
			return false
		}
		for k := range ks {
			switch {
			case k == "PANIC":
				continue // reported at the GetChild call
			case k == "TNIL":
				continue // an interface holding a nil pointer: the assertion to that pointer type succeeds; the dereference rule reports its use
			case k == "NIL":
				bad = "the operand can be nil (" + an.witness(t, fs) + ")"
			case isCtx && !toIface && k != want:
				bad = "the operand can be a " + k + " node (" + an.witness(t, fs) + ")"
			case isCtx && toIface && k != want:
				bad = "the operand can be a " + k + " node (" + an.witness(t, fs) + ")"
			}
			if bad != "" {
				return false
			}
		}
		return true
	})
	pos := an.p.InstrPos(x)
	switch {
	case undecided:
		an.ob("E2.type-assertion", construct, Undecided, "cannot type the operand of the unchecked assertion from the grammar ("+chain+")", pos, false)
	case bad != "":
		an.ob("E2.type-assertion", construct, Violated, "unchecked type assertion can panic: "+bad+" ["+chain+"]", pos, false)
	default:
		an.ob("E2.type-assertion", construct, Discharged, "under the path condition the grammar only allows "+ctxTypeName(x.AssertedType)+" here", pos, true)
	}
}

// witness: the grammar shape that produces the bad kind.
func (an *shapeAn) witness(t *Sym, fs *factSet) string {
	d := an.describe(fs)
	if d == "" {
		return "no guard on the path"
	}
	return "path allows: " + d
}

func (an *shapeAn) checkCall(sf *symFn, c *ssa.Call, pc *Sym, chain string) {
	cc := c.Common()
	var recv ssa.Value
	name := ""
	switch {
	case cc.IsInvoke():
		recv = cc.Value
		name = cc.Method.Name()
	case cc.StaticCallee() != nil && cc.StaticCallee().Signature.Recv() != nil && len(cc.Args) > 0:
		callee := cc.StaticCallee()
		if !isTreePkg(callee) {
			// reflect.TypeOf(x).String()
			if fullFuncName(callee) == "reflect.TypeOf" {
				return
			}
			return
		}
		recv = cc.Args[0]
		name = callee.Name()
		// a method promoted from the embedded *antlr.BaseParserRuleContext: the node is the enclosing context
		for {
			fa, ok := recv.(*ssa.FieldAddr)
			if !ok {
				break
			}
			if _, emb := fieldOf(fa.X.Type(), fa.Field); !emb {
				break
			}
			recv = fa.X
		}
		if u, ok := recv.(*ssa.UnOp); ok && u.Op == token.MUL {
			if fa, ok := u.X.(*ssa.FieldAddr); ok {
				if _, emb := fieldOf(fa.X.Type(), fa.Field); emb {
					recv = fa.X
				}
			}
		}
	default:
		if callee := cc.StaticCallee(); callee != nil && fullFuncName(callee) == "reflect.TypeOf" {
			// used as reflect.TypeOf(x).String()? then x must not be nil
			usedString := false
			if refs := c.Referrers(); refs != nil {
				for _, r := range *refs {
					if c2, ok := r.(*ssa.Call); ok && c2.Common().IsInvoke() && c2.Common().Method.Name() == "String" {
						usedString = true
					}
				}
			}
			if usedString {
				arg := cc.Args[0]
				for {
					if mi, ok := arg.(*ssa.MakeInterface); ok {
						arg = mi.X
						continue
					}
					if ci, ok := arg.(*ssa.ChangeInterface); ok {
						arg = ci.X
						continue
					}
					break
				}
				if isTreeType(arg.Type()) {
					an.checkNonNil(sf, arg, c, pc, chain, "reflect.TypeOf(x).String() with x == nil dereferences a nil reflect.Type")
				}
			}
		}
		return
	}
	if recv == nil || !isTreeType(recv.Type()) {
		return
	}
	if mi, ok := recv.(*ssa.MakeInterface); ok {
		recv = mi.X
	}
	// GetChild(i) with exactly i children panics inside the runtime
	if name == "GetChild" {
		an.checkGetChild(sf, recv, c, pc, chain)
	}
	an.checkNonNil(sf, recv, c, pc, chain, "method "+name+" called on a nil node")
}

func (an *shapeAn) checkGetChild(sf *symFn, recv ssa.Value, c *ssa.Call, pc *Sym, chain string) {
	args := c.Common().Args
	idxV := args[len(args)-1]
	idx, ok := constInt(idxV)
	if !ok {
		return
	}
	t := sf.val(recv)
	construct := fmt.Sprintf("getchild:%s %s.GetChild(%d)", an.p.FuncKey(sf.fn), clip(t.String(), 160), idx)
	bad := ""
	an.assignments(pc, subjectsOf(t), func(fs *factSet) bool {
		ks := an.kinds(t, fs, 0)
		if ks == nil {
			return true
		}
		for k := range ks {
			if k == "NIL" || k == "PANIC" || !an.isRule(k) {
				continue
			}
			if an.childAt(k, t, int(idx), fs)["PANIC"] {
				bad = fmt.Sprintf("a %s node can have exactly %d child(ren); the ANTLR runtime's GetChild(%d) then indexes children[%d] (it tests len >= i)", k, idx, idx, idx)
				return false
			}
		}
		return true
	})
	an.nOps++
	if bad != "" {
		an.ob("E2.getchild-bound", construct, Violated, bad+" ["+chain+"]", an.p.InstrPos(c), false)
	} else {
		an.ob("E2.getchild-bound", construct, Discharged, fmt.Sprintf("every node reaching here has more than %d children or fewer than %d", idx, idx), an.p.InstrPos(c), true)
	}
}

func (an *shapeAn) checkNonNil(sf *symFn, v ssa.Value, at ssa.Instruction, pc *Sym, chain, what string) {
	t := sf.val(v)
	// values produced by a successful assertion or by the callback parameter are non-nil by construction
	an.nOps++
	construct := "deref:" + an.p.FuncKey(sf.fn) + " " + clip(t.String(), 200)
	bad := ""
	typed := true
	an.assignments(pc, subjectsOf(t), func(fs *factSet) bool {
		ks := an.kinds(t, fs, 0)
		if ks == nil {
			typed = false
			return false
		}
		if ks["NIL"] || ks["TNIL"] {
			bad = an.witness(t, fs)
			return false
		}
		return true
	})
	if !typed {
		// not typeable from the grammar: pointer-typed results of assertions etc. — no obligation
		return
	}
	if bad != "" {
		an.ob("E2.nil-deref", construct, Violated, what+": the grammar allows this child to be absent ("+bad+") ["+chain+"]", an.p.InstrPos(at), false)
	} else {
		an.ob("E2.nil-deref", construct, Discharged, "non-nil on every path: mandatory child or guarded", an.p.InstrPos(at), true)
	}
}

// ---------------------------------------------------------------------------------------------
// bounds

// lenLower: a proven lower bound of len(t) under the facts.
func (an *shapeAn) lenLower(t *Sym, fs *factSet) int64 {
	lo := int64(0)
	subj := t.String()
	for _, f := range fs.all("lenrel", subj) {
		switch f.op {
		case ">=":
			if f.n > lo {
				lo = f.n
			}
		case ">":
			if f.n+1 > lo {
				lo = f.n + 1
			}
		case "==":
			if f.n > lo {
				lo = f.n
			}
		}
	}
	for changed := true; changed; {
		changed = false
		for _, f := range fs.all("lenrel", subj) {
			if f.op == "!=" && f.n == lo {
				lo++
				changed = true
			}
		}
	}
	// the characters of a text: at least one when the text is not empty (and never more than its bytes)
	if t.Op == "call" && t.Name == "runes" && len(t.Kids) == 1 {
		if an.lenLower(t.Kids[0], fs) >= 1 && lo < 1 {
			lo = 1
		}
	}
	switch t.Op {
	case "const":
		if s, ok := symStr(t); ok {
			return int64(len(s))
		}
	case "array":
		return int64(len(t.Kids))
	case "pred":
		// TrimSpace / ToLower … can shrink to 0 except case mapping
		if (t.Name == "lower" || t.Name == "upper") && len(t.Kids) == 1 {
			if l := an.lenLower(t.Kids[0], fs); l > lo {
				lo = l
			}
		}
	case "bin":
		if t.Name == "+" {
			if l := an.lenLower(t.Kids[0], fs) + an.lenLower(t.Kids[1], fs); l > lo {
				lo = l
			}
		}
	case "call":
		switch {
		case t.Name == "strings.Split":
			if sep, ok := symStr(t.Kids[1]); ok && sep != "" && lo < 1 {
				lo = 1
			}
			for _, f := range fs.all("contains", t.Kids[0].String()) {
				if sep, ok := symStr(t.Kids[1]); ok && f.str == sep && lo < 2 {
					lo = 2
				}
			}
			// the separator is the text matched in the very string that is split: it occurs at least once
			if sep := t.Kids[1]; sep.Op == "index" && sep.Kids[0].Op == "call" && sep.Kids[0].Name == "regexp.(Regexp).FindStringSubmatch" {
				if i, ok := symIntC(sep.Kids[1]); ok && i == 0 && sep.Kids[0].Kids[1].String() == t.Kids[0].String() &&
					fs.has("matches", sep.Kids[0].Kids[0].String()+"|"+sep.Kids[0].Kids[1].String()) && an.regexpMinLen(sep.Kids[0].Kids[0]) >= 1 && lo < 2 {
					lo = 2
				}
			}
		case t.Name == "regexp.(Regexp).FindString" && lo >= 1:
			// a non-empty result is a real match: at least the minimal match length of the pattern
			if m := an.regexpMinLen(t.Kids[0]); int64(m) > lo {
				lo = int64(m)
			}
		case t.Name == "regexp.(Regexp).FindStringSubmatch":
			if fs.has("matches", t.Kids[0].String()+"|"+t.Kids[1].String()) {
				if n := an.regexpGroups(t.Kids[0]); n >= 0 && int64(n+1) > lo {
					lo = int64(n + 1)
				}
			}
		case t.Name == "slice" && len(t.Kids) == 3:
			// len(x[a:len(x)-k]) = len(x) - k - a
			if a, ok := symIntC(t.Kids[1]); ok {
				if k, ok := lenMinus(t.Kids[2], t.Kids[0].String()); ok {
					if l := an.lenLower(t.Kids[0], fs) - k - a; l > lo {
						lo = l
					}
				}
			}
		default:
			if n, ok := invokeName(t); ok {
				switch {
				case n == "GetText" && len(t.Kids) == 1:
					ks := an.kinds(t.Kids[0], fs, 0)
					if ks != nil && !ks["NIL"] {
						nonEmpty := true
						for k := range ks {
							if an.isRule(k) {
								r, _ := splitKind(k)
								if an.g.Nullable(r) {
									nonEmpty = false
								}
							}
						}
						if nonEmpty && lo < 1 {
							lo = 1
						}
					}
				case strings.HasPrefix(n, "All") && len(t.Kids) == 1:
					sym := an.accessorSymbol(n)
					ks := an.kinds(t.Kids[0], fs, 0)
					if sym != "" && ks != nil {
						min := int64(many)
						for k := range ks {
							if !an.isRule(k) {
								min = 0
								continue
							}
							for _, pf := range an.consistentProfiles(k, t.Kids[0], fs) {
								if int64(pf.counts[sym]) < min {
									min = int64(pf.counts[sym])
								}
							}
						}
						if min > lo && min < many+1 {
							lo = min
						}
					}
				}
			}
		}
	}
	return lo
}

// regexpGroups: number of capture groups of an effectively-final regexp variable (-1 unknown).
func (an *shapeAn) regexpPattern(re *Sym) (string, bool) {
	if re.Op != "global" {
		return "", false
	}
	g := an.p.Global(re.Name)
	if g == nil || getStateAn(an.p).mutable[g] {
		return "", false
	}
	initFn := g.Pkg.Func("init")
	if initFn == nil {
		return "", false
	}
	for _, b := range initFn.Blocks {
		for _, in := range b.Instrs {
			st, ok := in.(*ssa.Store)
			if !ok || st.Addr != ssa.Value(g) {
				continue
			}
			if k, isConst := st.Val.(*ssa.Const); isConst && k.Value != nil && k.Value.Kind() == constant.String {
				// a pattern kept as an (effectively final) string variable and compiled where it is used
				return constant.StringVal(k.Value), true
			}
			call, ok := st.Val.(*ssa.Call)
			if !ok || call.Call.StaticCallee() == nil || fullFuncName(call.Call.StaticCallee()) != "regexp.MustCompile" {
				continue
			}
			sf := newSymFn(an.p, initFn, 2)
			if s, ok := symStr(sf.val(call.Call.Args[0])); ok {
				return s, true
			}
		}
	}
	return "", false
}

func (an *shapeAn) regexpGroups(re *Sym) int {
	if re.Op != "global" {
		return -1
	}
	g := an.p.Global(re.Name)
	if g == nil || getStateAn(an.p).mutable[g] {
		return -1
	}
	initFn := g.Pkg.Func("init")
	if initFn == nil {
		return -1
	}
	for _, b := range initFn.Blocks {
		for _, in := range b.Instrs {
			st, ok := in.(*ssa.Store)
			if !ok || st.Addr != ssa.Value(g) {
				continue
			}
			call, ok := st.Val.(*ssa.Call)
			if !ok || call.Call.StaticCallee() == nil || fullFuncName(call.Call.StaticCallee()) != "regexp.MustCompile" {
				continue
			}
			sf := newSymFn(an.p, initFn, 2)
			pat := sf.val(call.Call.Args[0])
			if s, ok := symStr(pat); ok {
				rx, err := syntax.Parse(s, syntax.Perl)
				if err != nil {
					return -1
				}
				return rx.MaxCap()
			}
		}
	}
	return -1
}

// regexpMinLen: minimal length of a match of an effectively-final regexp variable (0 if unknown).
func (an *shapeAn) regexpMinLen(re *Sym) int {
	pat, ok := an.regexpPattern(re)
	if !ok {
		return 0
	}
	rx, err := syntax.Parse(pat, syntax.Perl)
	if err != nil {
		return 0
	}
	var min func(r *syntax.Regexp) int
	min = func(r *syntax.Regexp) int {
		switch r.Op {
		case syntax.OpLiteral:
			return len(string(r.Rune))
		case syntax.OpCharClass, syntax.OpAnyChar, syntax.OpAnyCharNotNL:
			return 1
		case syntax.OpCapture:
			return min(r.Sub[0])
		case syntax.OpConcat:
			n := 0
			for _, s := range r.Sub {
				n += min(s)
			}
			return n
		case syntax.OpAlternate:
			m := -1
			for _, s := range r.Sub {
				if x := min(s); m < 0 || x < m {
					m = x
				}
			}
			if m < 0 {
				m = 0
			}
			return m
		case syntax.OpPlus:
			return min(r.Sub[0])
		case syntax.OpRepeat:
			return r.Min * min(r.Sub[0])
		}
		return 0
	}
	return min(rx)
}

// offset: t as len(base) - k  or a constant; returns (isLenMinus, k, const, ok)
func lenMinus(t *Sym, base string) (int64, bool) {
	if t.Op == "len" && t.Kids[0].String() == base {
		return 0, true
	}
	if t.Op == "bin" && t.Name == "-" && t.Kids[0].Op == "len" && t.Kids[0].Kids[0].String() == base {
		if k, ok := symIntC(t.Kids[1]); ok {
			return k, true
		}
	}
	return 0, false
}

func (an *shapeAn) checkSlice(sf *symFn, x *ssa.Slice, pc *Sym, chain string) {
	// only slices of strings and slices (arrays built for varargs are exact)
	if _, isPtr := x.X.Type().Underlying().(*types.Pointer); isPtr {
		return
	}
	base := sf.val(x.X)
	var lo, hi *Sym
	if x.Low != nil {
		lo = sf.val(x.Low)
	} else {
		lo = sInt(0)
	}
	if x.High != nil {
		hi = sf.val(x.High)
	}
	an.nOps++
	construct := "slice:" + an.p.FuncKey(sf.fn) + " " + clip(base.String(), 120) + "[" + lo.String() + ":" + func() string {
		if hi == nil {
			return ""
		}
		return clip(hi.String(), 60)
	}() + "]"
	need := int64(0) // required lower bound of len(base)
	decided := true
	loC, loIsC := symIntC(lo)
	switch {
	case hi == nil && loIsC:
		need = loC
	case hi != nil:
		if k, ok := lenMinus(hi, base.String()); ok && loIsC {
			need = loC + k
		} else if hC, ok := symIntC(hi); ok && loIsC {
			need = hC
			if loC > hC {
				need = 1 << 40
			}
		} else if _, ok := lenMinus(lo, base.String()); ok {
			need = 0
		} else {
			decided = false
		}
	default:
		if _, ok := lenMinus(lo, base.String()); !ok {
			decided = false
		}
	}
	pos := an.p.InstrPos(x)
	if !decided {
		// a bound that is the plain result of a substring search is -1 when nothing is found: the search must be guarded
		for _, bnd := range []*Sym{lo, hi} {
			if bnd == nil || bnd.Op != "call" || !searchIndexCall(bnd.Name) || len(bnd.Kids) < 2 {
				continue
			}
			guarded := false
			key := bnd.String()
			a0, a1 := bnd.Kids[0].String(), bnd.Kids[1].String()
			pc.walk(func(t *Sym) {
				if t.Op == "bin" && len(t.Kids) == 2 && (t.Kids[0].String() == key || t.Kids[1].String() == key) {
					guarded = true
				}
				if (t.Op == "pred" || t.Op == "call") && strings.Contains(strings.ToLower(t.Name), "contains") && len(t.Kids) >= 2 && t.Kids[0].String() == a0 && t.Kids[1].String() == a1 {
					guarded = true
				}
			})
			if !guarded {
				an.ob("E2.slice-bound", construct, Violated, "slice bounds can be out of range: the bound is the result of "+bnd.Name+", which is -1 when "+clip(a1, 40)+" does not occur in the text, and no test of that result (or of Contains) lies on the path ["+chain+"]", pos, false)
				return
			}
		}
		// bounds that are plain integer arithmetic over lengths, parameters and package variables (no call results): decided by
		// valuation — every candidate value of the integers, the negative ones included
		arith := hi != nil
		for _, bnd := range []*Sym{lo, hi} {
			if bnd == nil {
				continue
			}
			if has, _ := bnd.hasUnknown(); has {
				arith = false
			}
			bnd.walk(func(t *Sym) {
				if t.Op == "call" || t.Op == "pred" || t.Op == "elem" && t.Kind != "int" && false {
					arith = false
				}
			})
		}
		if arith {
			ln := &Sym{Op: "len", Kids: []*Sym{base}, Kind: "int"}
			inRange := sAnd(sBin("<=", sInt(0), lo), sAnd(sBin("<=", lo, hi), sBin("<=", hi, ln)))
			res := compareSyms(sOr(sNot(pc), inRange), sBool(true), "bool")
			if !res.Equal {
				an.ob("E2.slice-bound", construct, Violated, "slice bounds can be out of range: with "+clip(res.Witness, 200)+" the bounds are not inside 0 <= low <= high <= len on the path ["+chain+"]", pos, false)
				return
			}
			if !res.Truncated {
				an.ob("E2.slice-bound", construct, Discharged, "bounds hold for every candidate value of the integers they are computed from", pos, false)
				return
			}
		}
		// bounds computed from other values (indexes returned by strings.Index…): out of the interval fragment
		an.ob("E2.slice-bound", construct, Note, "bounds are not constants or len-relative; not decided", pos, false)
		return
	}
	if need <= 0 {
		an.ob("E2.slice-bound", construct, Discharged, "bounds hold for every length", pos, false)
		return
	}
	bad := ""
	an.assignments(pc, subjectsOf(base), func(fs *factSet) bool {
		if l := an.lenLower(base, fs); l < need {
			bad = fmt.Sprintf("needs len >= %d, the path only guarantees len >= %d (%s)", need, l, an.witness(base, fs))
			return false
		}
		return true
	})
	if bad != "" {
		an.ob("E2.slice-bound", construct, Violated, "slice bounds can be out of range: "+bad+" ["+chain+"]", pos, false)
	} else {
		an.ob("E2.slice-bound", construct, Discharged, fmt.Sprintf("len >= %d on every path reaching the slice expression", need), pos, true)
	}
}

// instantiations: if t or pc mention element variables that range over a literal array of constants, return the
// substitutions (one per element); otherwise a single empty substitution.
func constArrayInstances(terms ...*Sym) []map[string]*Sym {
	binders := map[string]*Sym{}
	for _, t := range terms {
		if t == nil {
			continue
		}
		t.walk(func(x *Sym) {
			if x.Op == "elem" {
				if coll := binderColls[x.Name]; coll != nil && coll.Op == "array" && len(coll.Kids) > 0 && len(coll.Kids) <= 16 {
					allConst := true
					for _, k := range coll.Kids {
						if k.Op != "const" {
							allConst = false
						}
					}
					if allConst {
						binders[x.Name] = coll
					}
				}
			}
		})
	}
	out := []map[string]*Sym{{}}
	for name, coll := range binders {
		var next []map[string]*Sym
		for _, m := range out {
			for _, k := range coll.Kids {
				m2 := map[string]*Sym{}
				for a, b := range m {
					m2[a] = b
				}
				m2[name] = k
				next = append(next, m2)
			}
		}
		out = next
		if len(out) > 64 {
			break
		}
	}
	return out
}

// foldLen: len("const") → constant, after substitution.
func foldLen(t *Sym) *Sym {
	if t == nil {
		return nil
	}
	if t.Op == "len" && len(t.Kids) == 1 {
		k := foldLen(t.Kids[0])
		if s, ok := symStr(k); ok {
			return sInt(int64(len(s)))
		}
	}
	if len(t.Kids) == 0 {
		return t
	}
	n := *t
	n.str = ""
	n.Kids = make([]*Sym, len(t.Kids))
	for i, k := range t.Kids {
		n.Kids[i] = foldLen(k)
	}
	if n.Op == "bin" && (n.Name == "+" || n.Name == "-") {
		a, ok1 := symIntC(n.Kids[0])
		b, ok2 := symIntC(n.Kids[1])
		if ok1 && ok2 {
			if n.Name == "+" {
				return sInt(a + b)
			}
			return sInt(a - b)
		}
	}
	return &n
}

func (an *shapeAn) checkIndex(sf *symFn, xv, iv ssa.Value, at ssa.Instruction, pc *Sym, chain string) {
	// arrays behind pointers (composite literals / varargs) are exact
	if pt, ok := xv.Type().Underlying().(*types.Pointer); ok {
		if _, isArr := pt.Elem().Underlying().(*types.Array); isArr {
			return
		}
	}
	if _, isMap := xv.Type().Underlying().(*types.Map); isMap {
		return
	}
	base := sf.val(xv)
	idx := sf.val(iv)
	// range loops index within bounds by construction
	if idx.Op == "call" && strings.HasPrefix(idx.Name, "rangeindex:") {
		return
	}
	if idx.Op == "bin" && idx.Kids[0].Op == "call" && strings.HasPrefix(idx.Kids[0].Name, "rangeindex:") {
		return
	}
	if sf.elemFor(xv, iv) != nil {
		return
	}
	an.nOps++
	construct := "index:" + an.p.FuncKey(sf.fn) + " " + clip(base.String(), 140) + "[" + clip(idx.String(), 60) + "]"
	pos := an.p.InstrPos(at)
	// a list made right here with a length: make([]T, 2+len(keys)) holds at least two elements
	if ms, ok := xv.(*ssa.MakeSlice); ok {
		var lower func(t *Sym) int64
		lower = func(t *Sym) int64 {
			if c, ok := symIntC(t); ok {
				return c
			}
			if t.Op == "bin" && t.Name == "+" && len(t.Kids) == 2 {
				return lower(t.Kids[0]) + lower(t.Kids[1])
			}
			return 0 // a length, or anything else that is not negative in a make that succeeded
		}
		if c, ok := symIntC(idx); ok {
			if c+1 <= lower(sf.val(ms.Len)) {
				an.ob("E2.index-bound", construct, Discharged, "the list is made with a length that covers the index", pos, false)
			} else {
				an.ob("E2.index-bound", construct, Note, "the list is made with a computed length; not decided", pos, false)
			}
			return
		}
	}
	bad := ""
	decidedAll := true
	for _, inst := range constArrayInstances(idx, base, pc) {
		base1, idx1, pc1 := base, idx, pc
		if len(inst) > 0 {
			base1, idx1, pc1 = foldLen(base.subst(inst)), foldLen(idx.subst(inst)), foldLen(pc.subst(inst))
		}
		need := int64(-1)
		if c, ok := symIntC(idx1); ok {
			need = c + 1
		} else if k, ok := lenMinus(idx1, base1.String()); ok && k >= 1 {
			need = k
		}
		if need < 0 {
			decidedAll = false
			continue
		}
		an.assignments(pc1, subjectsOf(base1), func(fs *factSet) bool {
			if l := an.lenLower(base1, fs); l < need {
				bad = fmt.Sprintf("needs len >= %d, the path only guarantees len >= %d (%s)", need, l, an.witness(base1, fs))
				return false
			}
			return true
		})
		if bad != "" {
			break
		}
	}
	if bad == "" && !decidedAll {
		an.ob("E2.index-bound", construct, Note, "index is neither a constant nor len-relative; not decided", pos, false)
		return
	}
	need := int64(0)
	_ = need
	if bad != "" {
		an.ob("E2.index-bound", construct, Violated, "index can be out of range: "+bad+" ["+chain+"]", pos, false)
	} else {
		an.ob("E2.index-bound", construct, Discharged, "the length needed by the index is guaranteed on every path reaching it", pos, true)
	}
}

// checkFieldOfLookup: m[k].F where m maps to pointers: a missing key yields nil.
func (an *shapeAn) checkFieldOfLookup(sf *symFn, fa *ssa.FieldAddr, pc *Sym, chain string) {
	lk, ok := fa.X.(*ssa.Lookup)
	if !ok || lk.CommaOk {
		return
	}
	if _, isPtr := lk.Type().Underlying().(*types.Pointer); !isPtr {
		return
	}
	an.nOps++
	m, k := sf.val(lk.X), sf.val(lk.Index)
	construct := "mapderef:" + an.p.FuncKey(sf.fn) + " " + clip(m.String(), 80) + "[" + clip(k.String(), 80) + "]"
	// the key comes from ranging over this very map: present (and the maps of this code base hold no nil values)
	if k.Op == "elem" && strings.HasSuffix(k.Name, "_k") {
		if coll := binderColls[strings.TrimSuffix(k.Name, "_k")]; coll != nil && coll.String() == m.String() {
			an.ob("E2.nil-deref", construct, Discharged, "the key is produced by ranging over the same map", an.p.InstrPos(fa), true)
			return
		}
	}
	if an.presentOnEveryPath(sf, fa, m.String(), k.String()) {
		an.ob("E2.nil-deref", construct, Discharged, "on every path the key was either tested (m[k] != nil) or just assigned a fresh record", an.p.InstrPos(fa), true)
		return
	}
	bad := true
	an.assignments(pc, []string{m.String()}, func(fs *factSet) bool {
		if fs.has("present", m.String()+"|"+k.String()) || fs.has("nonnil", (&Sym{Op: "lookup", Kids: []*Sym{m, k}}).String()) {
			bad = false
			return true
		}
		bad = true
		return false
	})
	if bad {
		an.ob("E2.nil-deref", construct, Violated, "field of a map element of pointer type is accessed without checking that the key is present: a missing key yields a nil pointer ["+chain+"]", an.p.InstrPos(fa), false)
	} else {
		an.ob("E2.nil-deref", construct, Discharged, "key presence / non-nil checked on the path", an.p.InstrPos(fa), true)
	}
}

// presentOnEveryPath: forward must-analysis inside the function: on every path to `at`, m[k] was assigned the address of a fresh
// record, or the branch taken established m[k] != nil (the "create on first use" idiom: if m[k] == nil { m[k] = &T{} }; m[k].F).
func (an *shapeAn) presentOnEveryPath(sf *symFn, at ssa.Instruction, m, k string) bool {
	fn := sf.fn
	same := func(mv, kv ssa.Value) bool { return sf.val(mv).String() == m && sf.val(kv).String() == k }
	fresh := func(v ssa.Value) bool {
		switch x := v.(type) {
		case *ssa.Alloc:
			return true
		case *ssa.MakeInterface:
			_, ok := x.X.(*ssa.Alloc)
			return ok
		}
		return false
	}
	gen := func(b *ssa.BasicBlock, upto ssa.Instruction) bool {
		for _, in := range b.Instrs {
			if in == upto {
				return false
			}
			if mu, ok := in.(*ssa.MapUpdate); ok && same(mu.Map, mu.Key) && fresh(mu.Value) {
				return true
			}
		}
		return false
	}
	edge := func(p, b *ssa.BasicBlock) bool {
		if len(p.Instrs) == 0 {
			return false
		}
		iff, ok := p.Instrs[len(p.Instrs)-1].(*ssa.If)
		if !ok || len(p.Succs) != 2 || p.Succs[0] == p.Succs[1] {
			return false
		}
		bo, ok := iff.Cond.(*ssa.BinOp)
		if !ok || (bo.Op != token.EQL && bo.Op != token.NEQ) {
			return false
		}
		var lk *ssa.Lookup
		if l, ok := bo.X.(*ssa.Lookup); ok && isNilConst(bo.Y) {
			lk = l
		} else if l, ok := bo.Y.(*ssa.Lookup); ok && isNilConst(bo.X) {
			lk = l
		}
		if lk == nil || lk.CommaOk || !same(lk.X, lk.Index) {
			return false
		}
		if bo.Op == token.NEQ {
			return p.Succs[0] == b
		}
		return p.Succs[1] == b
	}
	in := map[*ssa.BasicBlock]bool{}
	for _, b := range fn.Blocks {
		in[b] = b.Index != 0 // optimistic start for a must-analysis, false at entry
	}
	for changed := true; changed; {
		changed = false
		for _, b := range fn.Blocks {
			if b.Index == 0 {
				continue
			}
			v := len(b.Preds) > 0
			for _, p := range b.Preds {
				if !(in[p] || gen(p, nil) || edge(p, b)) {
					v = false
				}
			}
			if v != in[b] {
				in[b] = v
				changed = true
			}
		}
	}
	return in[at.Block()] || gen(at.Block(), at)
}

func isNilConst(v ssa.Value) bool {
	c, ok := v.(*ssa.Const)
	return ok && c.Value == nil
}

var _ = token.NoPos

func searchIndexCall(name string) bool {
	switch name {
	case "strings.Index", "strings.LastIndex", "strings.IndexByte", "strings.LastIndexByte", "strings.IndexRune", "strings.IndexAny", "strings.LastIndexAny",
		"bytes.Index", "bytes.LastIndex", "bytes.IndexByte":
		return true
	}
	return false
}
