package main

// E5 — decision tables and provenance: code terms (symbuild.go) compared with the spec tables (spec/e5.json).

import (
	"fmt"
	"go/types"
	"sort"
	"strconv"
	"strings"

	"golang.org/x/tools/go/ssa"
)

func init() { register("E5-decide", runE5) }

type E5Row struct {
	Props    []string          `json:"props"`
	Func     string            `json:"func"`
	Params   []string          `json:"params"` // names used in the spec expressions, positional (receiver first)
	Kind     string            `json:"kind"`   // returns | emits | callarg | callguard | final
	What     string            `json:"what"`
	Expr     string            `json:"expr"`      // returns: the result; callguard: the condition; callarg: the argument
	Result   int               `json:"result"`    // returns: index of the result in a tuple
	Target   string            `json:"target"`    // emits: "param:N" | "global:rel/pkg.var" | "globalfield:rel/pkg.var.Field" | "mapstore:<term>"
	Tag      map[string]string `json:"tag"`       // emits: constant fields identifying the record
	When     string            `json:"when"`      // emits: condition
	Each     *E5Each           `json:"each"`      // emits inside a loop: binder
	Fields   map[string]string `json:"fields"`    // emits: field provenance
	Callee   string            `json:"callee"`    // callarg/callguard: function key of the callee
	Arg      int               `json:"arg"`       // callarg: argument index
	Field    string            `json:"field"`     // callarg: field path inside a struct argument; slicebound: field that is sliced
	NoInline []string          `json:"no_inline"` // callees kept opaque (compared by name)
	Global   string            `json:"global"`    // final: rel/pkg.var
	Value    string            `json:"value"`     // final: expected constant (Go literal) or list literal
	Total    int               `json:"total"`     // emits: total number of emissions to the target expected in the function (0 = not checked)
	Index    int               `json:"index"`     // emits: which of several matching emissions (in source order) this row describes
	AnySite  bool              `json:"any_site"`  // callguard: the condition under which at least one of the call sites is reached (robust to redundant sites)
	InLoop   bool              `json:"in_loop"`   // callguard: the condition is taken from the head of the innermost enclosing loop (per iteration), not from the function entry
	Merge    bool              `json:"merge"`     // emits: all matching emissions together are one conditional emission (if absent {m[k] = 1} else {m[k]++} and m[k]++ are the same row)
	Assume   string            `json:"assume"`    // a fact about the inputs guaranteed by the caller (e.g. by the lexer that produced the token): valuations violating it are not compared
}

type E5Each struct {
	Coll string `json:"coll"`
	As   string `json:"as"`
}

type emission struct {
	target string
	elem   *Sym
	cond   *Sym
	block  *ssa.BasicBlock
	pos    string
	sf     *symFn
}

// emissions of fn: stores of append(target, elem) back into target, and map stores.
func (s *symFn) emissions() []emission {
	var out []emission
	for _, b := range s.fn.Blocks {
		for _, in := range b.Instrs {
			switch x := in.(type) {
			case *ssa.Store:
				v := s.val(x.Val)
				if g, _ := globalOfAddr(x.Addr); g != nil && s.p.Own[g.Pkg.Pkg] && !(v.Op == "append" && len(v.Kids) >= 2) {
					// assignment of (a field of) a package variable
					name := "globalstore:" + s.p.GlobalKey(g)
					if fa, ok := x.Addr.(*ssa.FieldAddr); ok {
						n, _ := fieldOf(fa.X.Type(), fa.Field)
						name += "." + n
					}
					el := &Sym{Op: "struct", Name: "assign", Fields: []string{"value"}, Kids: []*Sym{v}}
					out = append(out, emission{target: name, elem: el, cond: s.pathCond(b), block: b, pos: s.p.InstrPos(in), sf: s})
					continue
				}
				if fa, ok := x.Addr.(*ssa.FieldAddr); ok && !(v.Op == "append" && len(v.Kids) >= 2) {
					// assignment of a field of the object a package-level pointer variable points to
					if g := loadedGlobal(fa.X); g != nil && s.p.Own[g.Pkg.Pkg] {
						n, _ := fieldOf(fa.X.Type(), fa.Field)
						el := &Sym{Op: "struct", Name: "assign", Fields: []string{"value"}, Kids: []*Sym{v}}
						out = append(out, emission{target: "globalstore:" + s.p.GlobalKey(g) + "." + n, elem: el, cond: s.pathCond(b), block: b, pos: s.p.InstrPos(in), sf: s})
						continue
					}
				}
				if name := freeStoreTarget(x.Addr); name != "" && !(v.Op == "append" && len(v.Kids) >= 2) {
					// assignment of (a field of) a variable of the enclosing function, from inside a function literal
					el := &Sym{Op: "struct", Name: "assign", Fields: []string{"value"}, Kids: []*Sym{v}}
					out = append(out, emission{target: name, elem: el, cond: s.pathCond(b), block: b, pos: s.p.InstrPos(in), sf: s})
					continue
				}
				if name := s.paramFieldTarget(x.Addr); name != "" && !(v.Op == "append" && len(v.Kids) >= 2) {
					el := &Sym{Op: "struct", Name: "assign", Fields: []string{"value"}, Kids: []*Sym{v}}
					out = append(out, emission{target: name, elem: el, cond: s.pathCond(b), block: b, pos: s.p.InstrPos(in), sf: s})
					continue
				}
				if v.Op != "append" || len(v.Kids) < 2 {
					continue
				}
				tgt := s.targetName(x.Addr)
				if tgt == "" {
					continue
				}
				for _, e := range v.Kids[1:] {
					out = append(out, emission{target: tgt, elem: e, cond: s.pathCond(b), block: b, pos: s.p.InstrPos(in), sf: s})
				}
			case *ssa.MapUpdate:
				tgt := "mapstore:" + s.val(x.Map).String()
				el := &Sym{Op: "struct", Name: "kv", Fields: []string{"key", "value"}, Kids: []*Sym{s.val(x.Key), s.val(x.Value)}}
				out = append(out, emission{target: tgt, elem: el, cond: s.pathCond(b), block: b, pos: s.p.InstrPos(in), sf: s})
			}
		}
	}
	return out
}

// emissionsInlined: the emissions of fn together with those of the own helpers it calls directly (one level), seen from fn:
// the helper's parameters are what fn passes, its targets are renamed to fn's, its conditions are conjoined with the condition
// of the call. A maintainer who moves the three lines that file a record into a helper has not changed what is filed.
func (s *symFn) emissionsInlined() []emission {
	out := s.emissions()
	for _, b := range s.fn.Blocks {
		for _, in := range b.Instrs {
			call, ok := in.(*ssa.Call)
			if !ok {
				continue
			}
			cc := call.Common()
			callee := cc.StaticCallee()
			if callee == nil || cc.IsInvoke() || callee == s.fn || !s.p.IsOwnFunc(callee) || len(callee.Blocks) == 0 {
				continue
			}
			if s.inlineOK != nil && !s.inlineOK(callee) {
				continue
			}
			sub := newSymFn(s.p, callee, s.depth+1)
			sub.inlineOK = s.inlineOK
			for i, prm := range callee.Params {
				if i < len(cc.Args) {
					sub.params[prm] = s.val(cc.Args[i])
				}
			}
			at := s.pathCond(b)
			for _, e := range sub.emissions() {
				// only what the helper does once per call: an emission inside a loop of the helper has no counterpart here
				if h, _ := sub.loopOf(e.block); h != nil {
					continue
				}
				tgt := e.target
				switch {
				case strings.HasPrefix(tgt, "param:"):
					k, err := strconv.Atoi(strings.TrimPrefix(tgt, "param:"))
					if err != nil || k >= len(cc.Args) {
						continue
					}
					tgt = s.targetName(cc.Args[k])
				case strings.HasPrefix(tgt, "paramfield:"):
					rest := strings.TrimPrefix(tgt, "paramfield:")
					dot := strings.Index(rest, ".")
					if dot < 0 {
						continue
					}
					k, err := strconv.Atoi(rest[:dot])
					if err != nil || k >= len(cc.Args) {
						continue
					}
					tgt = ""
					if prm, ok := cc.Args[k].(*ssa.Parameter); ok {
						for i, q := range s.fn.Params {
							if q == prm {
								tgt = fmt.Sprintf("paramfield:%d%s", i, rest[dot:])
							}
						}
					} else if g := loadedGlobal(cc.Args[k]); g != nil {
						tgt = "globalstore:" + s.p.GlobalKey(g) + rest[dot:]
					}
				case strings.HasPrefix(tgt, "freestore:"), strings.HasPrefix(tgt, "free:"), strings.HasPrefix(tgt, "local:"):
					continue
				}
				if tgt == "" {
					continue
				}
				out = append(out, emission{target: tgt, elem: e.elem, cond: sAnd(at, e.cond), block: b, pos: e.pos, sf: s})
			}
		}
	}
	return out
}

// e5Frame: one step of a chain that leads from the function a row names to a call site: the evaluator of the function the
// step stands in and the call instruction (the call of the next helper, or — in the last frame — the site itself).
type e5Frame struct {
	sf   *symFn
	site *ssa.Call
}

// e5Sites: the call sites of the named function as seen from sf.fn; with depth > 0 also those inside own helpers that sf.fn
// calls directly (and their helpers, depth levels down), each helper evaluated with its parameters bound to the arguments.
func e5Sites(p *Program, sf *symFn, name string, depth int) [][]e5Frame {
	var out [][]e5Frame
	for _, b := range sf.fn.Blocks {
		for _, in := range b.Instrs {
			call, ok := in.(*ssa.Call)
			if !ok {
				continue
			}
			cal := call.Call.StaticCallee()
			if cal == nil {
				continue
			}
			if p.FuncKey(cal) == name || fullFuncName(cal) == name {
				out = append(out, []e5Frame{{sf, call}})
				continue
			}
			if depth <= 0 || call.Call.IsInvoke() || cal == sf.fn || !p.IsOwnFunc(cal) || len(cal.Blocks) == 0 {
				continue
			}
			if sf.inlineOK != nil && !sf.inlineOK(cal) {
				continue
			}
			sub := newSymFn(p, cal, sf.depth+1)
			sub.inlineOK = sf.inlineOK
			for i, prm := range cal.Params {
				if i >= len(call.Call.Args) {
					break
				}
				a := call.Call.Args[i]
				if al, ok := a.(*ssa.Alloc); ok {
					if _, isStruct := al.Type().Underlying().(*types.Pointer).Elem().Underlying().(*types.Struct); isStruct {
						sub.params[prm] = sf.structCell(al, call)
						continue
					}
				}
				sub.params[prm] = sf.val(a)
			}
			for _, ch := range e5Sites(p, sub, name, depth-1) {
				out = append(out, append([]e5Frame{{sf, call}}, ch...))
			}
		}
	}
	return out
}

// freeStoreTarget: "freestore:<var>[.<F1>.<F2>]" for a store to (a field of) a captured variable.
func freeStoreTarget(addr ssa.Value) string {
	var path []string
	cur := addr
	for {
		fa, ok := cur.(*ssa.FieldAddr)
		if !ok {
			break
		}
		n, emb := fieldOf(fa.X.Type(), fa.Field)
		if !emb {
			path = append([]string{n}, path...)
		}
		cur = fa.X
	}
	fv, ok := cur.(*ssa.FreeVar)
	if !ok {
		return ""
	}
	return strings.Join(append([]string{"freestore:" + fv.Name()}, path...), ".")
}

// paramFieldTarget: "paramfield:<i>.<F1>.<F2>" for a store through a pointer parameter's (nested) field.
func (s *symFn) paramFieldTarget(addr ssa.Value) string {
	var path []string
	cur := addr
	for {
		fa, ok := cur.(*ssa.FieldAddr)
		if !ok {
			break
		}
		n, emb := fieldOf(fa.X.Type(), fa.Field)
		if !emb {
			path = append([]string{n}, path...)
		}
		cur = fa.X
	}
	prm, ok := cur.(*ssa.Parameter)
	if !ok || len(path) == 0 {
		return ""
	}
	for i, q := range s.fn.Params {
		if q == prm {
			return fmt.Sprintf("paramfield:%d.%s", i, strings.Join(path, "."))
		}
	}
	return ""
}

func (s *symFn) targetName(addr ssa.Value) string {
	switch a := addr.(type) {
	case *ssa.Parameter:
		for i, prm := range s.fn.Params {
			if prm == a {
				return fmt.Sprintf("param:%d", i)
			}
		}
	case *ssa.Global:
		return "global:" + s.p.GlobalKey(a)
	case *ssa.FreeVar:
		return "free:" + a.Name()
	case *ssa.FieldAddr:
		n, _ := fieldOf(a.X.Type(), a.Field)
		if g := loadedGlobal(a.X); g != nil {
			return "globalfield:" + s.p.GlobalKey(g) + "." + n
		}
		if g, ok := a.X.(*ssa.Global); ok {
			return "globalfield:" + s.p.GlobalKey(g) + "." + n
		}
		return "field:" + s.val(a).String()
	case *ssa.Alloc:
		return "local:" + a.Name()
	}
	return ""
}

func e5Globals(p *Program) map[string]*Sym { return map[string]*Sym{} }

func runE5(p *Program, sp *Spec, c *Collector) {
	rows := sp.Tables.E5
	bound := 0
	for i := range rows {
		r := &rows[i]
		if runE5Row(p, sp, c, r) {
			bound++
		}
	}
	c.Count("E5.rows", len(rows))
	c.Count("E5.rows_bound", bound)
	if bound < len(rows) {
		// every row of the spec must bind to a site (otherwise the table passes vacuously)
		// (the unbound rows already produced a violated/undecided obligation)
	}
}

func e5Key(r *E5Row, extra string) string {
	k := r.Kind + ":" + r.Func
	if extra != "" {
		k += " " + extra
	}
	return k
}

func (r *E5Row) noInline(p *Program) func(*ssa.Function) bool {
	if len(r.NoInline) == 0 {
		return nil
	}
	set := map[string]bool{}
	for _, n := range r.NoInline {
		set[n] = true
	}
	return func(f *ssa.Function) bool { return !set[p.FuncKey(f)] }
}

func runE5Row(p *Program, sp *Spec, c *Collector, r *E5Row) bool {
	if r.Kind == "final" {
		return runE5Final(p, c, r)
	}
	fn := p.Func(r.Func)
	if fn == nil {
		c.Anchor(r.Props, "E5: %s does not resolve", r.Func)
		return false
	}
	sf := newSymFn(p, fn, 0)
	sf.inlineOK = r.noInline(p)
	// a callback that only hands its node on to a helper (two grammar rules sharing one handler): the row is decided in the
	// helper, with the helper's parameters replaced by what the callback passes
	var wrapSubst map[string]*Sym
	if r.Kind == "callarg" || r.Kind == "callguard" {
		if h, args := thinWrapperTarget(p, fn); h != nil {
			wrapSubst = map[string]*Sym{}
			for i, a := range args {
				wrapSubst[fmt.Sprintf("p%d", i)] = sf.val(a)
			}
			fn = h
			sf = newSymFn(p, fn, 0)
			sf.inlineOK = r.noInline(p)
		}
	}
	pos := p.FuncPos(fn)
	parse := func(src string, extra ...string) (*Sym, error) {
		return parseSpecExpr(src, append(append([]string{}, r.Params...), extra...), nil)
	}
	switch r.Kind {
	case "returns":
		key := e5Key(r, "")
		if r.Result > 0 {
			key = e5Key(r, fmt.Sprintf("result%d", r.Result))
		}
		want, err := parse(r.Expr)
		if err != nil {
			c.Anchor(r.Props, "E5: %v", err)
			return false
		}
		got := sf.returnSym()
		if len(resultVars(fn)) > 1 || fn.Signature.Results().Len() > 1 {
			got = project(got, r.Result)
		}
		if r.Field != "" {
			key = e5Key(r, fmt.Sprintf("result%d.%s", r.Result, r.Field))
			got = symFieldOf(got, r.Field)
		}
		return e5Compare(c, r, key, pos, got, want, "", r.What)
	case "depends":
		// a key function: its result must change whenever one of the identifying fields of its argument changes
		got := sf.returnSym()
		if has, w := got.hasUnknown(); has {
			c.Ob(r.Props, "E5.key-identity", e5Key(r, ""), Undecided, r.What+": the key leaves the supported fragment ("+w+")", pos, false)
			return true
		}
		got = canonBinders(typeSwitchNorm(stripAsserts(got)))
		for _, fld := range sortedKeys(r.Fields) {
			key := e5Key(r, "depends on "+fld)
			term := "p0." + fld
			ev := &evaluator{e: env{}, missing: map[string]string{}, kinds: map[string]string{}}
			ev.eval(got, "string")
			if _, ok := ev.missing[term]; !ok {
				// not a base term of the evaluation: does the key mention the field at all (inside a formatting call the evaluator
				// does not interpret)?
				mentioned := false
				got.walk(func(x *Sym) {
					if x.String() == term {
						mentioned = true
					}
				})
				if mentioned {
					c.Ob(r.Props, "E5.key-identity", key, Discharged, r.What+": the key is computed from "+fld+" (through a function the evaluator does not interpret)", pos, true)
				} else {
					c.Ob(r.Props, "E5.key-identity", key, Violated, fmt.Sprintf("%s: the key does not depend on %s at all, so two records that differ only there share one entry; key term: %s", r.What, fld, clip(got.String(), 200)), pos, false)
				}
				continue
			}
			changed := false
			for _, pair := range [][2]val{{{k: 'i', i: 1}, {k: 'i', i: 2}}, {{k: 's', s: "a"}, {k: 's', s: "b"}}} {
				if (ev.missing[term] == "string") != (pair[0].k == 's') {
					continue
				}
				e1, e2 := env{term: pair[0]}, env{term: pair[1]}
				v1 := (&evaluator{e: e1, missing: map[string]string{}, kinds: map[string]string{}}).eval(got, "string")
				v2 := (&evaluator{e: e2, missing: map[string]string{}, kinds: map[string]string{}}).eval(got, "string")
				if v1.String() != v2.String() {
					changed = true
				}
			}
			if changed {
				c.Ob(r.Props, "E5.key-identity", key, Discharged, r.What+": the key changes with "+fld, pos, true)
			} else {
				c.Ob(r.Props, "E5.key-identity", key, Violated, fmt.Sprintf("%s: changing %s does not change the key; key term: %s", r.What, fld, clip(got.String(), 200)), pos, false)
			}
		}
		// joint injectivity: two different records must not collide because adjacent variable parts are concatenated without a
		// separator (line 4, column 19 and line 41, column 9 both read "419")
		flds := sortedKeys(r.Fields)
		probe := &evaluator{e: env{}, missing: map[string]string{}, kinds: map[string]string{}}
		probe.eval(got, "string")
		for i := 0; i < len(flds); i++ {
			for j := i + 1; j < len(flds); j++ {
				t1, t2 := "p0."+flds[i], "p0."+flds[j]
				k1, ok1 := probe.missing[t1]
				k2, ok2 := probe.missing[t2]
				if !ok1 || !ok2 {
					continue
				}
				var a, b [2]val
				switch {
				case k1 == "string" && k2 == "string":
					a, b = [2]val{{k: 's', s: "a"}, {k: 's', s: "bc"}}, [2]val{{k: 's', s: "ab"}, {k: 's', s: "c"}}
				case k1 == "string":
					a, b = [2]val{{k: 's', s: "a1"}, {k: 'i', i: 2}}, [2]val{{k: 's', s: "a"}, {k: 'i', i: 12}}
				case k2 == "string":
					a, b = [2]val{{k: 'i', i: 2}, {k: 's', s: "1a"}}, [2]val{{k: 'i', i: 21}, {k: 's', s: "a"}}
				default:
					a, b = [2]val{{k: 'i', i: 1}, {k: 'i', i: 23}}, [2]val{{k: 'i', i: 12}, {k: 'i', i: 3}}
				}
				key := e5Key(r, "separates "+flds[i]+" / "+flds[j])
				collide := ""
				// the key may mention the two parts in either order
				probes := [][2][2]val{{a, b}}
				if k1 == k2 {
					probes = append(probes, [2][2]val{{a[1], a[0]}, {b[1], b[0]}})
				}
				for _, pr := range probes {
					v1 := (&evaluator{e: env{t1: pr[0][0], t2: pr[0][1]}, missing: map[string]string{}, kinds: map[string]string{}}).eval(got, "string")
					v2 := (&evaluator{e: env{t1: pr[1][0], t2: pr[1][1]}, missing: map[string]string{}, kinds: map[string]string{}}).eval(got, "string")
					if v1.String() == v2.String() && collide == "" {
						collide = fmt.Sprintf("(%s=%s, %s=%s) and (%s=%s, %s=%s) give the same key %s", flds[i], pr[0][0], flds[j], pr[0][1], flds[i], pr[1][0], flds[j], pr[1][1], v1)
					}
				}
				if collide != "" {
					c.Ob(r.Props, "E5.key-identity", key, Violated, r.What+": "+collide+": the two parts are joined without a separator, so two different records share one entry", pos, false)
				} else {
					c.Ob(r.Props, "E5.key-identity", key, Discharged, r.What+": "+flds[i]+" and "+flds[j]+" are kept apart in the key", pos, true)
				}
			}
		}
		return true
	case "emits":
		var spec2code map[string]*Sym
		tagDesc := tagString(r.Tag)
		key := e5Key(r, "tag["+tagDesc+"] -> "+r.Target)
		ems := sf.emissions()
		var matches []emission
		total := 0
		collect := func() {
			matches, total = nil, 0
			for _, e := range ems {
				if !targetMatches(e.target, r.Target) {
					continue
				}
				total++
				if tagMatches(e.elem, r.Tag) {
					matches = append(matches, e)
				}
			}
		}
		collect()
		if len(matches) == 0 || (r.Total > 0 && total < r.Total) {
			// fewer emissions than the row describes: the filing may have been moved into a helper
			ems = sf.emissionsInlined()
			collect()
		}
		if r.Merge && len(matches) > 0 {
			// an emission that sits in deeper loops than the row names, and whose record does not depend on their elements, is
			// the same as one emission at the row's depth under "some element satisfies the condition"
			depth := 0
			if r.Each != nil {
				depth = len(strings.Split(r.Each.As, ","))
			}
			for i := range matches {
				e := &matches[i]
				var hs []*ssa.BasicBlock
				for h, l := range sf.headers {
					if l[e.block] {
						hs = append(hs, h)
					}
				}
				sort.Slice(hs, func(a, b int) bool { return len(sf.headers[hs[a]]) > len(sf.headers[hs[b]]) })
				for len(hs) > depth {
					h := hs[len(hs)-1]
					name := sf.binderName(h)
					if e.elem.mentions(name) {
						break
					}
					e.cond = &Sym{Op: "exists", Name: name, Kids: []*Sym{sf.loopCollection(h), e.cond}, Kind: "bool"}
					for _, pred := range h.Preds {
						if !sf.headers[h][pred] {
							e.block = pred
						}
					}
					hs = hs[:len(hs)-1]
				}
			}
		}
		if len(matches) > 1 {
			// several candidates: keep those at the loop depth the row describes
			depth := 0
			if r.Each != nil {
				depth = len(strings.Split(r.Each.As, ","))
			}
			var atDepth []emission
			for _, e := range matches {
				d := 0
				for _, l := range sf.headers {
					if l[e.block] {
						d++
					}
				}
				if d == depth {
					atDepth = append(atDepth, e)
				}
			}
			if len(atDepth) == 1 {
				matches = atDepth
			}
		}
		if r.Merge && len(matches) > 1 {
			ok := true
			for _, e := range matches[1:] {
				if e.elem.Op != "struct" || matches[0].elem.Op != "struct" || len(e.elem.Kids) != len(matches[0].elem.Kids) || e.target != matches[0].target {
					ok = false
				}
				h0, _ := sf.loopOf(matches[0].block)
				h1, _ := sf.loopOf(e.block)
				if h0 != h1 {
					ok = false
				}
			}
			if ok {
				last := matches[len(matches)-1]
				m := emission{target: last.target, block: last.block, pos: matches[0].pos, sf: last.sf, cond: sBool(false)}
				el := &Sym{Op: "struct", Name: last.elem.Name, Fields: last.elem.Fields}
				for i := range last.elem.Kids {
					v := last.elem.Kids[i]
					for j := len(matches) - 2; j >= 0; j-- {
						v = sIte(matches[j].cond, matches[j].elem.Kids[i], v)
					}
					el.Kids = append(el.Kids, v)
				}
				for _, e := range matches {
					m.cond = sOr(m.cond, e.cond)
				}
				m.elem = el
				matches = []emission{m}
			}
		}
		if r.Index < len(matches) && (r.Index > 0 || r.Total == len(matches)) && len(matches) > 1 {
			matches = []emission{matches[r.Index]}
		}
		if len(matches) != 1 {
			var seen []string
			for _, e := range ems {
				seen = append(seen, e.target)
			}
			c.Ob(r.Props, "E5.decision", key, Violated, fmt.Sprintf("%s: expected exactly one emission of a record with %s into %s in %s, found %d (emissions seen: %v)", r.What, tagDesc, r.Target, shortFn(r.Func), len(matches), dedupStrings(seen)), pos, false)
			return false
		}
		if r.Total > 0 && total != r.Total {
			c.Ob(r.Props, "E5.decision", key+" total", Violated, fmt.Sprintf("%s: %d emissions into %s, the table has %d", r.What, total, r.Target, r.Total), pos, false)
		}
		e := matches[0]
		extra := []string{}
		cond := e.cond
		elem := e.elem
		if r.Each != nil {
			// enclosing loops, outermost first, bind the names listed in each.as
			names := strings.Split(r.Each.As, ",")
			var hs []*ssa.BasicBlock
			for h, l := range sf.headers {
				if l[e.block] {
					hs = append(hs, h)
				}
			}
			sort.Slice(hs, func(i, j int) bool { return len(sf.headers[hs[i]]) > len(sf.headers[hs[j]]) })
			if len(hs) != len(names) {
				c.Ob(r.Props, "E5.decision", key, Violated, fmt.Sprintf("%s: the table describes %d enclosing loop(s) (%s), the emission sits in %d", r.What, len(names), r.Each.As, len(hs)), e.pos, false)
				return true
			}
			spec2code = map[string]*Sym{}
			for i, h := range hs {
				extra = append(extra, strings.TrimSpace(names[i]))
				spec2code[sf.binderName(h)] = &Sym{Op: "param", Name: fmt.Sprintf("p%d", len(r.Params)+i)}
			}
			// the key variable of a map range is written <name>_k in the table
			nk := len(extra)
			for i, h := range hs {
				spec2code[sf.binderName(h)+"_k"] = &Sym{Op: "param", Name: fmt.Sprintf("p%d", len(r.Params)+nk+i)}
			}
			cond = cond.subst(spec2code)
			elem = elem.subst(spec2code)
			if r.Each.Coll != "" {
				wantColl, err := parse(r.Each.Coll, extra[:len(extra)-1]...)
				if err != nil {
					c.Anchor(r.Props, "E5: %v", err)
					return false
				}
				gotColl := sf.loopCollection(hs[len(hs)-1]).subst(spec2code)
				if gotColl.String() != wantColl.String() {
					c.Ob(r.Props, "E5.decision", key+" each", Violated, fmt.Sprintf("%s: the loop ranges over %s, the table says %s", r.What, gotColl, wantColl), e.pos, false)
				} else {
					c.Ob(r.Props, "E5.decision", key+" each", Discharged, "emission loop ranges over "+wantColl.String(), e.pos, false)
				}
			}
			for _, nm := range names {
				extra = append(extra, strings.TrimSpace(nm)+"_k")
			}
		} else if h, _ := sf.loopOf(e.block); h != nil {
			c.Ob(r.Props, "E5.decision", key, Violated, r.What+": the emission sits inside a loop the table does not describe", e.pos, false)
			return true
		}
		var want *Sym
		ok := true
		if r.When == "*" {
			// the table describes the record only, not when it is emitted
			want = cond
			if len(r.Fields) == 0 {
				c.Ob(r.Props, "E5.decision", key+" count", Discharged, fmt.Sprintf("%s: exactly one emission into %s in %s", r.What, r.Target, shortFn(r.Func)), e.pos, true)
			}
		} else {
			var err error
			want, err = parse(r.When, extra...)
			if err != nil {
				c.Anchor(r.Props, "E5: %v", err)
				return false
			}
			ok = e5Compare(c, r, key+" when", e.pos, cond, want, "bool", r.What)
		}
		for _, f := range sortedKeys(r.Fields) {
			wantF, err := parse(r.Fields[f], extra...)
			if err != nil {
				c.Anchor(r.Props, "E5: %v", err)
				return false
			}
			var gotF *Sym
			if f == "<elem>" {
				gotF = elem
			} else {
				gotF = elem
				for _, part := range strings.Split(f, ".") {
					if gotF.Op == "struct" {
						var nxt *Sym
						for i, fnm := range gotF.Fields {
							if fnm == part {
								nxt = gotF.Kids[i]
							}
						}
						if nxt == nil {
							for i, fnm := range gotF.Fields {
								if fnm == "<base>" {
									nxt = &Sym{Op: "field", Name: part, Kids: []*Sym{gotF.Kids[i]}}
								}
							}
						}
						if nxt == nil {
							nxt = zeroSymLike(wantF)
						}
						gotF = nxt
					} else {
						gotF = &Sym{Op: "field", Name: part, Kids: []*Sym{gotF}}
					}
				}
			}
			// a field is only observable when the record is emitted
			e5Compare(c, r, key+" field:"+f, e.pos, sIte(cond, gotF, zeroSymLike(wantF)), sIte(want, wantF, zeroSymLike(wantF)), "", r.What+" ("+f+")")
		}
		return ok
	case "callguard", "callarg":
		// find the call site(s) of callee in fn. The callee may list alternatives "f:1|g:0" (function key : argument index): the
		// first alternative that is called at all is the one the record passes through (robust to helper extraction / inlining).
		// A site is a chain of frames: the call itself when it stands in fn; when fn has fewer sites than the row describes, the
		// sites in the own helpers fn calls (two levels), each seen through the call that leads to it — the helper's parameters
		// are what fn passes, the loops around the site are fn's loops around the call followed by the helper's, the condition
		// is the conjunction along the chain.
		var chains [][]e5Frame
		firstAlt := r.Callee
		expect := 1
		if r.Total > 0 {
			expect = r.Total
		}
		for ai, alt := range strings.Split(r.Callee, "|") {
			name, argIdx := alt, r.Arg
			if i := strings.LastIndex(alt, ":"); i > 0 {
				if n, err := strconv.Atoi(alt[i+1:]); err == nil {
					name, argIdx = alt[:i], n
				}
			}
			if ai == 0 {
				firstAlt = name
			}
			chains = e5Sites(p, sf, name, 0)
			if len(chains) < expect {
				if deep := e5Sites(p, sf, name, 2); len(deep) > len(chains) {
					chains = deep
				}
			}
			if len(chains) > 0 {
				r.Arg = argIdx
				break
			}
		}
		key := e5Key(r, "-> "+shortFn(firstAlt))
		if r.Kind == "callarg" {
			key += fmt.Sprintf(" arg%d", r.Arg)
			if r.Field != "" {
				key += "." + r.Field
			}
		}
		chainCond := func(ch []e5Frame) *Sym {
			got := sBool(true)
			for _, f := range ch {
				got = sAnd(got, f.sf.pathCond(f.site.Block()))
			}
			return got
		}
		last := func(ch []e5Frame) e5Frame { return ch[len(ch)-1] }
		if r.Kind == "callguard" && r.AnySite && len(chains) > 0 {
			want, err := parse(r.Expr)
			if err != nil {
				c.Anchor(r.Props, "E5: %v", err)
				return false
			}
			got := sBool(false)
			for _, ch := range chains {
				got = sOr(got, chainCond(ch))
			}
			return e5Compare(c, r, key+" any-site", p.InstrPos(last(chains[0]).site), got, want, "bool", r.What)
		}
		if r.Total > 0 {
			// several call sites (in source order); the row describes site number Index
			key += fmt.Sprintf(" site%d", r.Index)
			if len(chains) != r.Total {
				c.Ob(r.Props, "E5.decision", key, Violated, fmt.Sprintf("%s: expected %d calls of %s in %s, found %d", r.What, r.Total, shortFn(r.Callee), shortFn(r.Func), len(chains)), pos, false)
				return false
			}
			sort.SliceStable(chains, func(i, j int) bool { return last(chains[i]).site.Pos() < last(chains[j]).site.Pos() })
			chains = [][]e5Frame{chains[r.Index]}
		}
		if len(chains) != 1 {
			c.Ob(r.Props, "E5.decision", key, Violated, fmt.Sprintf("%s: expected exactly one call of %s in %s, found %d", r.What, shortFn(r.Callee), shortFn(r.Func), len(chains)), pos, false)
			return false
		}
		chain := chains[0]
		site := last(chain).site
		lsf := last(chain).sf
		extra := []string{}
		subst := map[string]*Sym{}
		// enclosing loops, outermost first along the chain
		type loopAt struct {
			frame int
			h     *ssa.BasicBlock
		}
		var loops []loopAt
		for fi, f := range chain {
			var hs []*ssa.BasicBlock
			for h, l := range f.sf.headers {
				if l[f.site.Block()] {
					hs = append(hs, h)
				}
			}
			fsf := f.sf
			sort.Slice(hs, func(i, j int) bool { return len(fsf.headers[hs[i]]) > len(fsf.headers[hs[j]]) })
			for _, h := range hs {
				loops = append(loops, loopAt{fi, h})
			}
		}
		// bind the names listed in each.as (comma separated)
		if r.Each != nil {
			names := strings.Split(r.Each.As, ",")
			for i, l := range loops {
				if i < len(names) {
					nm := strings.TrimSpace(names[i])
					extra = append(extra, nm)
					subst[chain[l.frame].sf.binderName(l.h)] = &Sym{Op: "param", Name: fmt.Sprintf("p%d", len(r.Params)+i)}
				}
			}
			nk := len(extra)
			for i, l := range loops {
				if i < len(names) {
					extra = append(extra, strings.TrimSpace(names[i])+"_k")
					subst[chain[l.frame].sf.binderName(l.h)+"_k"] = &Sym{Op: "param", Name: fmt.Sprintf("p%d", len(r.Params)+nk+i)}
				}
			}
		}
		want, err := parse(r.Expr, extra...)
		if err != nil {
			c.Anchor(r.Props, "E5: %v", err)
			return false
		}
		var got *Sym
		hint := ""
		if r.Kind == "callguard" {
			got = chainCond(chain)
			if r.InLoop {
				if len(loops) == 0 {
					c.Ob(r.Props, "E5.decision", key, Violated, fmt.Sprintf("%s: the call of %s is not inside a loop", r.What, shortFn(r.Callee)), p.InstrPos(site), false)
					return false
				}
				// from the body of the innermost loop along the chain; the frames below it contribute their whole condition
				in := loops[len(loops)-1]
				f := chain[in.frame]
				got = f.sf.pathCondFrom(in.h, f.site.Block(), f.sf.headers[in.h])
				for _, g := range chain[in.frame+1:] {
					got = sAnd(got, g.sf.pathCond(g.site.Block()))
				}
			}
			hint = "bool"
		} else {
			if r.Arg >= len(site.Call.Args) {
				c.Anchor(r.Props, "E5: %s: call of %s has no argument %d", r.Func, r.Callee, r.Arg)
				return false
			}
			arg := site.Call.Args[r.Arg]
			if al, ok := arg.(*ssa.Alloc); ok {
				if _, isStruct := al.Type().Underlying().(*types.Pointer).Elem().Underlying().(*types.Struct); isStruct {
					got = lsf.structCell(al, site)
				}
			}
			if got == nil {
				got = lsf.val(arg)
			}
			if at := elementsAssignedInPlace(arg); at != nil {
				// the term describes the slice as it was produced; its elements are overwritten before the call
				got = sUnknown("elements of the argument are assigned in place (" + p.InstrPos(at) + ") before it is passed on")
			}
			if r.Field != "" {
				for _, part := range strings.Split(r.Field, ".") {
					got = sField(got, part, false, nil)
				}
			}
		}
		if wrapSubst != nil {
			// binders first (they are named after the helper's loops), then the helper's parameters
			got = got.subst(wrapSubstOnlyParams(wrapSubst, subst))
		}
		got = got.subst(subst)
		return e5Compare(c, r, key, p.InstrPos(site), got, want, hint, r.What)
	}
	if r.Kind == "slicebound" {
		// the upper bound of the slice expression x.<Field>[:hi]; when fn has none, the one in a helper fn calls directly
		type sbSite struct {
			chain []e5Frame // frames leading to the function that holds the slice expression (empty: fn itself)
			sf    *symFn
			sl    *ssa.Slice
		}
		var found []sbSite
		scan := func(f *symFn, chain []e5Frame) {
			for _, b := range f.fn.Blocks {
				for _, in := range b.Instrs {
					if sl, ok := in.(*ssa.Slice); ok && sl.High != nil {
						base := f.val(sl.X)
						if base.Op == "field" && base.Name == r.Field {
							found = append(found, sbSite{chain, f, sl})
						}
					}
				}
			}
		}
		scan(sf, nil)
		if len(found) == 0 {
			for _, b := range fn.Blocks {
				for _, in := range b.Instrs {
					call, ok := in.(*ssa.Call)
					if !ok || call.Call.IsInvoke() || call.Call.StaticCallee() == nil {
						continue
					}
					cal := call.Call.StaticCallee()
					if cal == fn || !p.IsOwnFunc(cal) || len(cal.Blocks) == 0 {
						continue
					}
					sub := newSymFn(p, cal, 1)
					for i, prm := range cal.Params {
						if i < len(call.Call.Args) {
							sub.params[prm] = sf.val(call.Call.Args[i])
						}
					}
					scan(sub, []e5Frame{{sf, call}})
				}
			}
		}
		key := e5Key(r, "slice of "+r.Field)
		if len(found) != 1 {
			c.Ob(r.Props, "E5.decision", key, Violated, fmt.Sprintf("%s: expected exactly one slice expression over .%s in %s, found %d", r.What, r.Field, shortFn(r.Func), len(found)), pos, false)
			return false
		}
		st := found[0]
		extra := []string{}
		subst := map[string]*Sym{}
		if r.Each != nil {
			names := strings.Split(r.Each.As, ",")
			type loopAt struct {
				f *symFn
				h *ssa.BasicBlock
			}
			var loops []loopAt
			add := func(f *symFn, at *ssa.BasicBlock) {
				var hs []*ssa.BasicBlock
				for h, l := range f.headers {
					if l[at] {
						hs = append(hs, h)
					}
				}
				sort.Slice(hs, func(i, j int) bool { return len(f.headers[hs[i]]) > len(f.headers[hs[j]]) })
				for _, h := range hs {
					loops = append(loops, loopAt{f, h})
				}
			}
			for _, fr := range st.chain {
				add(fr.sf, fr.site.Block())
			}
			add(st.sf, st.sl.Block())
			for i, l := range loops {
				if i < len(names) {
					extra = append(extra, strings.TrimSpace(names[i]))
					subst[l.f.binderName(l.h)] = &Sym{Op: "param", Name: fmt.Sprintf("p%d", len(r.Params)+i)}
				}
			}
		}
		want, err := parse(r.Expr, extra...)
		if err != nil {
			c.Fatal("E5: %v", err)
			return false
		}
		return e5Compare(c, r, key, p.InstrPos(st.sl), st.sf.val(st.sl.High).subst(subst), want, "int", r.What)
	}
	c.Fatal("E5: unknown row kind %q", r.Kind)
	return false
}

func zeroSymLike(x *Sym) *Sym {
	switch x.Kind {
	case "string":
		return sStr("")
	case "bool":
		return sBool(false)
	case "int":
		return sInt(0)
	}
	if x.Op == "const" {
		return zeroSymLike(&Sym{Kind: x.Kind})
	}
	if x.Op == "pred" && x.Kind == "string" {
		return sStr("")
	}
	return &Sym{Op: "nil"}
}

func targetMatches(got, want string) bool {
	if got == want {
		return true
	}
	if strings.HasPrefix(want, "mapstore:") && strings.HasPrefix(got, "mapstore:") {
		w, g := strings.TrimPrefix(want, "mapstore:"), strings.TrimPrefix(got, "mapstore:")
		// a map made in the function (makemapN), a parameter (pN), or the field <Name> of some object
		if w == "inner" {
			return strings.HasPrefix(g, "lookup(") // a map kept inside another map
		}
		return g == w || g == "call:"+w+"()" || strings.HasSuffix(g, "."+w) || strings.HasSuffix(g, "."+w+")")
	}
	return false
}

func tagString(tag map[string]string) string {
	var parts []string
	for _, k := range sortedKeys(tag) {
		parts = append(parts, k+"="+tag[k])
	}
	return strings.Join(parts, ",")
}

func tagMatches(elem *Sym, tag map[string]string) bool {
	if len(tag) == 0 {
		return true
	}
	if elem.Op != "struct" {
		return false
	}
	for k, v := range tag {
		ok := false
		for i, f := range elem.Fields {
			if f == k {
				if s, isS := symStr(elem.Kids[i]); isS && s == v {
					ok = true
				}
			}
		}
		if !ok {
			return false
		}
	}
	return true
}

func symStr(x *Sym) (string, bool) {
	if x.Op == "const" && x.C != nil && x.Kind == "string" {
		s := x.C.ExactString()
		if len(s) >= 2 && s[0] == '"' {
			var out string
			fmt.Sscanf(s, "%q", &out)
			return out, true
		}
		return s, true
	}
	return "", false
}

// e5Compare: decide got ≡ want; emits the obligation. Returns true when the row bound to a site.
func e5Compare(c *Collector, r *E5Row, key, pos string, got, want *Sym, hint, what string) bool {
	if got.Op == "const" && got.C == nil {
		got = &Sym{Op: "nil"}
	}
	if want.Op == "const" && want.C == nil {
		want = &Sym{Op: "nil"}
	}
	if has, w := got.hasUnknown(); has {
		c.Ob(r.Props, "E5.decision", key, Undecided, fmt.Sprintf("%s: the code leaves the supported fragment (%s); code term: %s", what, w, clip(got.String(), 300)), pos, false)
		return true
	}
	got, want = typeSwitchNorm(stripAsserts(got)), typeSwitchNorm(stripAsserts(want))
	got, want = canonBinders(got), canonBinders(want) // binders named by nesting depth, so that a call term taken from the code fits the table's binders
	if w2, err := resolveAnyCalls(want, got); err != nil {
		c.Ob(r.Props, "E5.decision", key, Violated, fmt.Sprintf("%s: %v; code term: %s", what, err, clip(got.String(), 300)), pos, false)
		return true
	} else {
		want = w2
	}
	if strings.TrimSpace(r.Assume) != "" {
		a, err := parseSpecExpr(r.Assume, r.Params, map[string]*Sym{})
		if err != nil {
			c.Ob(r.Props, "E5.decision", key, Undecided, fmt.Sprintf("%s: the row's assumption does not parse: %v", what, err), pos, false)
			return true
		}
		got = sIte(canonBinders(typeSwitchNorm(stripAsserts(a))), got, want)
	}
	res := compareSyms(got, want, hint)
	if res.Equal {
		c.Ob(r.Props, "E5.decision", key, Discharged, fmt.Sprintf("%s: code ≡ table on %d valuations of %d terms%s [%s]; code term: %s", what, res.Evaluations, len(res.Terms), map[bool]string{true: " (product too large: every pair of terms enumerated completely)", false: ""}[res.Truncated], clip(strings.Join(res.Terms, "; "), 300), clip(got.String(), 200)), pos, true)
		return true
	}
	c.Ob(r.Props, "E5.decision", key, Violated, fmt.Sprintf("%s: code and table differ at [%s]: code gives %s, table gives %s; code term: %s; table term: %s",
		what, clip(res.Witness, 1500), res.Left, res.Right, clip(got.String(), 300), clip(want.String(), 300)), pos, false)
	return true
}

func clip(s string, n int) string {
	if len(s) > n {
		return s[:n] + "…"
	}
	return s
}

// runE5Final: a package variable the tables rely on is effectively final and holds the stated value.
func runE5Final(p *Program, c *Collector, r *E5Row) bool {
	g := p.Global(r.Global)
	key := "final:" + r.Global
	if g == nil {
		c.Anchor(r.Props, "E5: global %s does not resolve", r.Global)
		return false
	}
	a := getStateAn(p)
	if a.mutable[g] {
		c.Ob(r.Props, "E5.effectively-final", key, Violated, r.What+": the variable is assigned at run time ("+a.writerNames(g)+"), so the threshold is not a constant of the program", p.Pos(g.Pos()), false)
		return true
	}
	sf := newSymFn(p, g.Pkg.Func("init"), 0)
	got := sf.load(g, nil)
	if strings.TrimSpace(r.Value) == "" {
		c.Ob(r.Props, "E5.effectively-final", key, Discharged, r.What+": no writer besides the initialiser", p.Pos(g.Pos()), true)
		return true
	}
	want, err := parseSpecExpr(r.Value, nil, nil)
	if err != nil {
		// list literal: "a","b"
		var kids []*Sym
		for _, part := range strings.Split(r.Value, ",") {
			part = strings.TrimSpace(part)
			s, err2 := parseSpecExpr(part, nil, nil)
			if err2 != nil {
				c.Anchor(r.Props, "E5: final %s: %v", r.Global, err)
				return false
			}
			kids = append(kids, s)
		}
		want = &Sym{Op: "array", Kids: kids, Kind: "list"}
	}
	if strings.Contains(r.Value, ",") && want.Op != "array" {
		var kids []*Sym
		for _, part := range strings.Split(r.Value, ",") {
			s, _ := parseSpecExpr(strings.TrimSpace(part), nil, nil)
			kids = append(kids, s)
		}
		want = &Sym{Op: "array", Kids: kids, Kind: "list"}
	}
	gs, ws := got.String(), want.String()
	if got.Op == "array" && want.Op == "array" {
		// order-insensitive for membership tables
		var a1, a2 []string
		for _, k := range got.Kids {
			a1 = append(a1, k.String())
		}
		for _, k := range want.Kids {
			a2 = append(a2, k.String())
		}
		sort.Strings(a1)
		sort.Strings(a2)
		gs, ws = strings.Join(a1, ","), strings.Join(a2, ",")
	}
	if gs == ws {
		c.Ob(r.Props, "E5.effectively-final", key, Discharged, r.What+": no writer besides the initialiser; value "+clip(gs, 120), p.Pos(g.Pos()), true)
	} else {
		c.Ob(r.Props, "E5.effectively-final", key, Violated, r.What+": value is "+clip(gs, 200)+", the property states "+clip(ws, 200), p.Pos(g.Pos()), false)
	}
	return true
}

// debugSym prints the symbolic summary of a function (used with -sym).
func debugSym(p *Program, key string) {
	fn := p.Func(key)
	if fn == nil {
		fmt.Println("no such function", key)
		return
	}
	sf := newSymFn(p, fn, 0)
	fmt.Println("return:", sf.returnSym())
	for _, e := range sf.emissions() {
		fmt.Printf("emit -> %s  when %s\n      elem %s   (%s)\n", e.target, e.cond, e.elem, e.pos)
	}
	for _, b := range fn.Blocks {
		for _, in := range b.Instrs {
			if call, ok := in.(*ssa.Call); ok {
				if cal := call.Call.StaticCallee(); cal != nil && p.IsOwnFunc(cal) {
					var args []string
					for _, a := range call.Call.Args {
						args = append(args, sf.val(a).String())
					}
					fmt.Printf("call %s(%s)\n      when %s\n", shortFn(p.FuncKey(cal)), strings.Join(args, "; "), sf.pathCond(b))
				}
			}
		}
	}
}

func resultVars(fn *ssa.Function) []int {
	out := make([]int, fn.Signature.Results().Len())
	return out
}

// elementsAssignedInPlace: v is a slice value (not a local array being filled for a variadic call) and some instruction
// stores into one of its elements.
func elementsAssignedInPlace(v ssa.Value) ssa.Instruction {
	if _, isSlice := v.Type().Underlying().(*types.Slice); !isSlice {
		return nil
	}
	if sl, ok := v.(*ssa.Slice); ok {
		if _, isAlloc := sl.X.(*ssa.Alloc); isAlloc {
			return nil // []T{…} literal / variadic argument array
		}
	}
	refs := v.Referrers()
	if refs == nil {
		return nil
	}
	for _, r := range *refs {
		ia, ok := r.(*ssa.IndexAddr)
		if !ok || ia.X != v {
			continue
		}
		if rr := ia.Referrers(); rr != nil {
			for _, u := range *rr {
				if st, ok := u.(*ssa.Store); ok && st.Addr == ssa.Value(ia) {
					return st
				}
			}
		}
	}
	return nil
}

// thinWrapperTarget: fn does nothing but call one own, non-callback helper (its other instructions only compute the
// arguments from fn's own parameters through tree accessors) — returns the helper and the argument values.
func thinWrapperTarget(p *Program, fn *ssa.Function) (*ssa.Function, []ssa.Value) {
	if len(fn.Blocks) != 1 {
		return nil, nil
	}
	var target *ssa.Call
	for _, in := range fn.Blocks[0].Instrs {
		switch x := in.(type) {
		case *ssa.Call:
			callee := x.Call.StaticCallee()
			if callee != nil && p.IsOwnFunc(callee) {
				if _, _, isCb := callbackRule(callee.Name()); isCb && callee.Signature.Recv() != nil {
					return nil, nil
				}
				if target != nil {
					return nil, nil
				}
				target = x
				continue
			}
			// accessor calls on the node (invoke or generated methods) are argument computations
			if !x.Call.IsInvoke() && (callee == nil || !isTreePkg2(callee)) {
				return nil, nil
			}
		case *ssa.Return, *ssa.DebugRef, *ssa.MakeInterface, *ssa.ChangeInterface, *ssa.ChangeType, *ssa.FieldAddr, *ssa.UnOp:
		default:
			return nil, nil
		}
	}
	if target == nil {
		return nil, nil
	}
	return target.Call.StaticCallee(), target.Call.Args
}

func isTreePkg2(f *ssa.Function) bool {
	if f.Signature.Recv() == nil {
		return false
	}
	return isTreePkg(f)
}

// wrapSubstOnlyParams: the wrapper substitution, except for names the row's own substitution binds (loop binders).
func wrapSubstOnlyParams(wrap, own map[string]*Sym) map[string]*Sym {
	out := map[string]*Sym{}
	for k, v := range wrap {
		if _, bound := own[k]; !bound {
			out[k] = v
		}
	}
	return out
}
