package main

// E3 — process-global state discipline.

import (
	"fmt"
	"go/constant"
	"go/token"
	"go/types"
	"sort"
	"strings"

	"golang.org/x/tools/go/ssa"
)

type gset map[*ssa.Global]bool

func (s gset) clone() gset {
	o := gset{}
	for k := range s {
		o[k] = true
	}
	return o
}

type fsum struct {
	R    map[*ssa.Global]token.Pos // observing reads that can happen before the activation has killed the global
	K    gset                      // globals must-killed (state-independent value) when the function returns
	AllR map[*ssa.Global]token.Pos // every observing read in the closure, no kill credit
	W    gset                      // may-write in the closure
}

type stateAn struct {
	p        *Program
	mutable  gset
	stores   map[*ssa.Global][]*ssa.Store // stores outside package init (whole or partial)
	escapes  map[*ssa.Global][]ssa.Instruction
	summ     map[*ssa.Function]*fsum
	inputs   gset // function passes: package variables no function of the unit writes (configuration injected before the unit)
	progress map[*ssa.Function]bool
	obsMemo  map[*ssa.UnOp]int // 1 observing, 2 self-only
	allRMemo map[*ssa.Function]map[*ssa.Global]token.Pos
	localR   map[*ssa.Function]map[*ssa.Global]token.Pos
	localW   map[*ssa.Function]gset
}

var theState *stateAn

func getStateAn(p *Program) *stateAn {
	if theState != nil && theState.p == p {
		return theState
	}
	a := &stateAn{p: p, mutable: gset{}, stores: map[*ssa.Global][]*ssa.Store{}, escapes: map[*ssa.Global][]ssa.Instruction{},
		summ: map[*ssa.Function]*fsum{}, progress: map[*ssa.Function]bool{}, obsMemo: map[*ssa.UnOp]int{},
		allRMemo: map[*ssa.Function]map[*ssa.Global]token.Pos{}, localR: map[*ssa.Function]map[*ssa.Global]token.Pos{}, localW: map[*ssa.Function]gset{}}
	for _, fn := range p.OwnFuncs {
		for _, b := range fn.Blocks {
			for _, in := range b.Instrs {
				switch x := in.(type) {
				case *ssa.Store:
					if g, _ := globalOfAddr(x.Addr); g != nil && p.Own[g.Pkg.Pkg] {
						a.mutable[g] = true
						a.stores[g] = append(a.stores[g], x)
					}
				default:
					// address of a global escaping as a plain operand (call argument, stored pointer, ...)
					var ops []*ssa.Value
					ops = in.Operands(ops)
					for _, o := range ops {
						g, ok := (*o).(*ssa.Global)
						if !ok || !p.Own[g.Pkg.Pkg] {
							continue
						}
						switch y := in.(type) {
						case *ssa.UnOp:
							continue // load
						case *ssa.FieldAddr, *ssa.IndexAddr:
							continue
						case *ssa.DebugRef:
							continue
						default:
							_ = y
							a.mutable[g] = true
							a.escapes[g] = append(a.escapes[g], in)
						}
					}
				}
			}
		}
	}
	// partial stores through FieldAddr/IndexAddr chains are found by globalOfAddr above; MapUpdate on a loaded map and
	// stores through a loaded pointer mutate the referent, which matters only if the global itself is mutable or read.
	for _, fn := range p.OwnFuncs {
		for _, b := range fn.Blocks {
			for _, in := range b.Instrs {
				if mu, ok := in.(*ssa.MapUpdate); ok {
					if ld, ok := mu.Map.(*ssa.UnOp); ok {
						if g, _ := globalOfAddr(ld.X); g != nil && p.Own[g.Pkg.Pkg] {
							a.mutable[g] = true
						}
					}
				}
			}
		}
	}
	theState = a
	return a
}

// EffectivelyFinal: the variable has no writer besides its initialiser and its address never escapes.
func (a *stateAn) EffectivelyFinal(g *ssa.Global) bool { return !a.mutable[g] }

// initialValue returns the constant the package initialiser leaves in g (zero value if never assigned);
// ok=false when the initial value is not a constant.
func (a *stateAn) initialValue(g *ssa.Global) (constant.Value, bool) {
	initFn := g.Pkg.Func("init")
	var found *ssa.Store
	n := 0
	if initFn != nil {
		for _, b := range initFn.Blocks {
			for _, in := range b.Instrs {
				if st, ok := in.(*ssa.Store); ok {
					if gg, whole := globalOfAddr(st.Addr); gg == g {
						if !whole {
							return nil, false
						}
						found = st
						n++
					}
				}
			}
		}
	}
	elem := g.Type().(*types.Pointer).Elem()
	if n == 0 {
		switch t := elem.Underlying().(type) {
		case *types.Basic:
			switch {
			case t.Info()&types.IsBoolean != 0:
				return constant.MakeBool(false), true
			case t.Info()&types.IsString != 0:
				return constant.MakeString(""), true
			case t.Info()&types.IsInteger != 0:
				return constant.MakeInt64(0), true
			}
		}
		return nil, false
	}
	if n > 1 {
		return nil, false
	}
	if c, ok := found.Val.(*ssa.Const); ok && c.Value != nil {
		return c.Value, true
	}
	return nil, false
}

// loadedGlobal: if v is a load of (part of) a global, return it.
func loadedGlobal(v ssa.Value) *ssa.Global {
	if u, ok := v.(*ssa.UnOp); ok && u.Op == token.MUL {
		g, _ := globalOfAddr(u.X)
		return g
	}
	return nil
}

// observing reports whether the value read by load L of global g can influence anything but g itself.
func (a *stateAn) observing(L *ssa.UnOp, g *ssa.Global) bool {
	if m, ok := a.obsMemo[L]; ok {
		return m == 1
	}
	visited := map[ssa.Value]bool{}
	var track func(v ssa.Value) bool
	track = func(v ssa.Value) bool {
		if visited[v] {
			return false
		}
		visited[v] = true
		refs := v.Referrers()
		if refs == nil {
			return true
		}
		for _, ref := range *refs {
			switch r := ref.(type) {
			case *ssa.DebugRef:
			case *ssa.MapUpdate:
				if r.Map == v && r.Key != v && r.Value != v {
					continue // in-place insertion: the map is mutated, not observed
				}
				return true
			case *ssa.Store:
				if r.Val == v {
					if gg, _ := globalOfAddr(r.Addr); gg == g {
						continue
					}
				}
				return true
			case *ssa.Call:
				if b, ok := r.Call.Value.(*ssa.Builtin); ok && b.Name() == "append" && len(r.Call.Args) > 0 && r.Call.Args[0] == v {
					same := false
					for _, x := range r.Call.Args[1:] {
						if x == v {
							same = true
						}
					}
					if !same {
						if track(r) {
							return true
						}
						continue
					}
				}
				return true
			case *ssa.BinOp:
				if track(r) {
					return true
				}
			case *ssa.Phi:
				if track(r) {
					return true
				}
			case *ssa.Slice:
				if r.X == v {
					if track(r) {
						return true
					}
					continue
				}
				return true
			case *ssa.Convert:
				if track(r) {
					return true
				}
			case *ssa.ChangeType:
				if track(r) {
					return true
				}
			default:
				return true
			}
		}
		return false
	}
	obs := track(L)
	if obs {
		a.obsMemo[L] = 1
	} else {
		a.obsMemo[L] = 2
	}
	return obs
}

// local observing reads / writes of one function body
func (a *stateAn) locals(fn *ssa.Function) (map[*ssa.Global]token.Pos, gset) {
	if r, ok := a.localR[fn]; ok {
		return r, a.localW[fn]
	}
	R := map[*ssa.Global]token.Pos{}
	W := gset{}
	for _, b := range fn.Blocks {
		for _, in := range b.Instrs {
			switch x := in.(type) {
			case *ssa.UnOp:
				if x.Op != token.MUL {
					continue
				}
				if g, _ := globalOfAddr(x.X); g != nil && a.mutable[g] && a.observing(x, g) {
					if _, ok := R[g]; !ok {
						R[g] = x.Pos()
					}
				}
			case *ssa.Store:
				if g, _ := globalOfAddr(x.Addr); g != nil {
					W[g] = true
				}
			case *ssa.MapUpdate:
				if g := loadedGlobal(x.Map); g != nil {
					W[g] = true
				}
			default:
				var ops []*ssa.Value
				ops = in.Operands(ops)
				for _, o := range ops {
					if g, ok := (*o).(*ssa.Global); ok && a.mutable[g] {
						switch in.(type) {
						case *ssa.FieldAddr, *ssa.IndexAddr, *ssa.DebugRef:
						default:
							if _, ok := R[g]; !ok {
								R[g] = in.Pos()
							}
							W[g] = true
						}
					}
				}
			}
		}
	}
	a.localR[fn] = R
	a.localW[fn] = W
	return R, W
}

// allReads: observing reads in the closure of fn.
func (a *stateAn) allReads(fn *ssa.Function) map[*ssa.Global]token.Pos {
	if r, ok := a.allRMemo[fn]; ok {
		return r
	}
	out := map[*ssa.Global]token.Pos{}
	for f := range a.p.reach([]*ssa.Function{fn}) {
		r, _ := a.locals(f)
		for g, pos := range r {
			if _, ok := out[g]; !ok {
				out[g] = pos
			}
		}
	}
	a.allRMemo[fn] = out
	return out
}

func (a *stateAn) allWrites(fn *ssa.Function) gset {
	out := gset{}
	for f := range a.p.reach([]*ssa.Function{fn}) {
		_, w := a.locals(f)
		for g := range w {
			out[g] = true
		}
	}
	return out
}

// fresh: does value v not depend on the pre-existing value of any mutable global outside state?
func (a *stateAn) fresh(v ssa.Value, state gset, seen map[ssa.Value]bool) bool {
	if v == nil || seen[v] {
		return true
	}
	seen[v] = true
	switch x := v.(type) {
	case *ssa.Const, *ssa.Parameter, *ssa.MakeMap, *ssa.MakeChan, *ssa.Function, *ssa.FreeVar, *ssa.Builtin, *ssa.Alloc:
		return true
	case *ssa.Global:
		return true // the address itself
	case *ssa.UnOp:
		if x.Op == token.MUL {
			if g, _ := globalOfAddr(x.X); g != nil {
				return !a.mutable[g] || state[g] || a.inputs[g]
			}
		}
		return a.fresh(x.X, state, seen)
	case *ssa.Call:
		for _, c := range a.p.ownCallees(x) {
			for g := range a.allReads(c) {
				if a.mutable[g] && !state[g] && !a.inputs[g] {
					return false
				}
			}
		}
		for _, arg := range x.Call.Args {
			if !a.fresh(arg, state, seen) {
				return false
			}
		}
		if x.Call.IsInvoke() {
			return a.fresh(x.Call.Value, state, seen)
		}
		return true
	default:
		var ops []*ssa.Value
		if in, ok := v.(ssa.Instruction); ok {
			ops = in.Operands(ops)
		}
		for _, o := range ops {
			if !a.fresh(*o, state, seen) {
				return false
			}
		}
		return true
	}
}

// summary computes (R, K) of fn by a forward must-kill dataflow.
func (a *stateAn) summary(fn *ssa.Function) *fsum {
	if s, ok := a.summ[fn]; ok {
		return s
	}
	if a.progress[fn] || len(fn.Blocks) == 0 {
		// recursion (or no body): no kill credit
		return &fsum{R: a.allReads(fn), K: gset{}, AllR: a.allReads(fn), W: a.allWrites(fn)}
	}
	a.progress[fn] = true
	defer delete(a.progress, fn)

	R := map[*ssa.Global]token.Pos{}
	nb := len(fn.Blocks)
	in := make([]gset, nb) // nil = TOP (unvisited)
	out := make([]gset, nb)
	transfer := func(b *ssa.BasicBlock, st gset, record bool) gset {
		st = st.clone()
		note := func(g *ssa.Global, pos token.Pos) {
			if record && a.mutable[g] && !st[g] {
				if _, ok := R[g]; !ok {
					R[g] = pos
				}
			}
		}
		for _, ins := range b.Instrs {
			switch x := ins.(type) {
			case *ssa.UnOp:
				if x.Op == token.MUL {
					if g, _ := globalOfAddr(x.X); g != nil && a.mutable[g] && a.observing(x, g) {
						note(g, x.Pos())
					}
				}
			case *ssa.Store:
				if g, whole := globalOfAddr(x.Addr); g != nil && whole {
					if a.fresh(x.Val, st, map[ssa.Value]bool{}) {
						st[g] = true
					}
				}
			case ssa.CallInstruction:
				cs := a.p.ownCallees(x)
				var kAll gset
				for i, c := range cs {
					s := a.summary(c)
					for g, pos := range s.R {
						_ = pos
						note(g, x.Pos())
					}
					if _, isCall := x.(*ssa.Call); isCall {
						if i == 0 {
							kAll = s.K.clone()
						} else {
							for g := range kAll {
								if !s.K[g] {
									delete(kAll, g)
								}
							}
						}
					}
				}
				// the address of a global passed as an argument: read + unknown write
				for _, arg := range x.Common().Args {
					if g, ok := arg.(*ssa.Global); ok {
						note(g, x.Pos())
					}
				}
				if x.Common().StaticCallee() != nil || len(cs) > 0 {
					// only credit kills when every resolved callee is an own function we analysed
					all := a.p.Callees(x)
					if len(all) == len(cs) {
						for g := range kAll {
							st[g] = true
						}
					}
				}
			case *ssa.MakeClosure:
				if f, ok := x.Fn.(*ssa.Function); ok && a.p.IsOwnFunc(f) {
					for g := range a.allReads(f) {
						note(g, x.Pos())
					}
				}
			}
		}
		return st
	}
	// iterate to fixpoint
	in[0] = gset{}
	changed := true
	for iter := 0; changed && iter < 50; iter++ {
		changed = false
		for _, b := range fn.Blocks {
			if b.Index != 0 {
				var acc gset
				for _, pr := range b.Preds {
					if out[pr.Index] == nil {
						continue
					}
					if acc == nil {
						acc = out[pr.Index].clone()
					} else {
						for g := range acc {
							if !out[pr.Index][g] {
								delete(acc, g)
							}
						}
					}
				}
				if acc == nil {
					continue
				}
				in[b.Index] = acc
			}
			no := transfer(b, in[b.Index], false)
			if out[b.Index] == nil || len(no) != len(out[b.Index]) {
				changed = true
			} else {
				for g := range no {
					if !out[b.Index][g] {
						changed = true
					}
				}
			}
			out[b.Index] = no
		}
	}
	var K gset
	for _, b := range fn.Blocks {
		if in[b.Index] == nil {
			continue
		}
		st := transfer(b, in[b.Index], true)
		if len(b.Instrs) > 0 {
			if _, ok := b.Instrs[len(b.Instrs)-1].(*ssa.Return); ok {
				if K == nil {
					K = st.clone()
				} else {
					for g := range K {
						if !st[g] {
							delete(K, g)
						}
					}
				}
			}
		}
	}
	if K == nil {
		K = gset{}
	}
	s := &fsum{R: R, K: K, AllR: a.allReads(fn), W: a.allWrites(fn)}
	a.summ[fn] = s
	return s
}

// ---------------------------------------------------------------------------------------------
// exit-state analysis for constant-valued globals (flags, consume-and-reset registers)

const (
	exU = 1 << iota // untouched
	exI             // holds its initial constant
	exN             // holds something else
)

type exitAn struct {
	a    *stateAn
	g    *ssa.Global
	init constant.Value
	memo map[*ssa.Function]int
	prog map[*ssa.Function]bool
}

// apply: given the set of possible states before, and a function's effect (set of exit states when entered untouched),
// return the states after.
func applyEffect(before, effect int) int {
	after := 0
	if effect&exU != 0 {
		after |= before
	}
	after |= effect &^ exU
	return after
}

func (e *exitAn) effect(fn *ssa.Function) int {
	if v, ok := e.memo[fn]; ok {
		return v
	}
	if e.prog[fn] || len(fn.Blocks) == 0 {
		if e.a.allWrites(fn)[e.g] {
			return exU | exI | exN
		}
		return exU
	}
	if !e.a.allWrites(fn)[e.g] {
		e.memo[fn] = exU
		return exU
	}
	e.prog[fn] = true
	defer delete(e.prog, fn)
	nb := len(fn.Blocks)
	in := make([]int, nb)
	out := make([]int, nb)
	in[0] = exU
	transfer := func(b *ssa.BasicBlock, st int) int {
		for _, ins := range b.Instrs {
			switch x := ins.(type) {
			case *ssa.Store:
				if g, whole := globalOfAddr(x.Addr); g == e.g {
					if c, ok := x.Val.(*ssa.Const); ok && whole && c.Value != nil && constant.Compare(c.Value, token.EQL, e.init) {
						st = exI
					} else {
						st = exN
					}
				}
			case ssa.CallInstruction:
				cs := e.a.p.ownCallees(x)
				if len(cs) == 0 {
					for _, arg := range x.Common().Args {
						if arg == ssa.Value(e.g) {
							st = exU | exI | exN
						}
					}
					continue
				}
				if _, isCall := x.(*ssa.Call); !isCall {
					// go / defer: effect at an unknown later point
					for _, c := range cs {
						if e.a.allWrites(c)[e.g] {
							st |= exI | exN
						}
					}
					continue
				}
				acc := 0
				for _, c := range cs {
					acc |= applyEffect(st, e.effect(c))
				}
				st = acc
			}
		}
		return st
	}
	changed := true
	for iter := 0; changed && iter < 50; iter++ {
		changed = false
		for _, b := range fn.Blocks {
			if b.Index != 0 {
				acc := 0
				for _, pr := range b.Preds {
					acc |= out[pr.Index]
				}
				in[b.Index] = acc
			}
			if in[b.Index] == 0 {
				continue
			}
			no := transfer(b, in[b.Index])
			if no != out[b.Index] {
				out[b.Index] = no
				changed = true
			}
		}
	}
	res := 0
	for _, b := range fn.Blocks {
		if in[b.Index] == 0 || len(b.Instrs) == 0 {
			continue
		}
		if _, ok := b.Instrs[len(b.Instrs)-1].(*ssa.Return); ok {
			res |= out[b.Index]
		}
	}
	if res == 0 {
		res = exU
	}
	e.memo[fn] = res
	return res
}

// callbackRule: "EnterClassDeclaration" -> ("Enter", "classDeclaration")
func callbackRule(name string) (kind, rule string, ok bool) {
	for _, k := range []string{"Enter", "Exit"} {
		if strings.HasPrefix(name, k) && len(name) > len(k) {
			r := name[len(k):]
			if r == "EveryRule" {
				return "", "", false
			}
			return k, strings.ToLower(r[:1]) + r[1:], true
		}
	}
	return "", "", false
}

// mandatoryDescendants: rules that occur at least once below rule on every derivation (through min>=1 children).
func mandatoryDescendants(g *Grammar, rule string) map[string]bool {
	out := map[string]bool{}
	var dfs func(r string)
	dfs = func(r string) {
		for c := range g.Refs(r) {
			if out[c] {
				continue
			}
			if lo, _ := g.MinMax(r, c); lo >= 1 {
				out[c] = true
				dfs(c)
			}
		}
	}
	dfs(rule)
	return out
}

// bracketed decides rule 5 for global g in a listener pass: between units the variable always holds its initial
// constant. Returns (ok, reason).
func (a *stateAn) bracketed(g *ssa.Global, roots []*ssa.Function, gr *Grammar, start string) (bool, string) {
	init, ok := a.initialValue(g)
	if !ok {
		return false, "initial value is not a constant"
	}
	for _, st := range a.stores[g] {
		if _, whole := globalOfAddr(st.Addr); !whole {
			return false, "partially assigned"
		}
	}
	if len(a.escapes[g]) > 0 {
		return false, "address escapes"
	}
	if ok, why := a.balancedCounter(g); ok {
		return true, why
	}
	ea := &exitAn{a: a, g: g, init: init, memo: map[*ssa.Function]int{}, prog: map[*ssa.Function]bool{}}
	type cb struct{ kind, rule, name string }
	var W, Z []cb
	for _, r := range roots {
		eff := ea.effect(r)
		kind, rule, isCb := callbackRule(r.Name())
		if eff&exN != 0 {
			if !isCb {
				return false, fmt.Sprintf("%s (not a grammar callback) can leave a non-initial value", r.Name())
			}
			W = append(W, cb{kind, rule, r.Name()})
		} else if eff == exI && isCb && kind == "Exit" {
			Z = append(Z, cb{kind, rule, r.Name()})
		}
	}
	if len(W) == 0 {
		return true, fmt.Sprintf("every callback returns with the variable untouched or restored to its initial constant %s", init.ExactString())
	}
	if gr == nil {
		return false, "no grammar for the bracket argument"
	}
	var why []string
	for _, w := range W {
		if _, ok := gr.Rules[w.rule]; !ok {
			return false, fmt.Sprintf("callback %s does not name a grammar rule", w.name)
		}
		found := ""
		for _, z := range Z {
			switch {
			case w.kind == "Enter" && z.rule == w.rule:
				found = z.name + " (same rule)"
			case w.kind == "Enter" && mandatoryDescendants(gr, w.rule)[z.rule]:
				found = z.name + " (mandatory descendant of " + w.rule + ")"
			case z.rule != w.rule && !gr.ReachableWithout(start, map[string]bool{z.rule: true}, nil)[w.rule]:
				found = z.name + " (every " + w.rule + " lies inside a " + z.rule + ")"
			}
			if found != "" {
				break
			}
		}
		if found == "" {
			return false, fmt.Sprintf("%s can leave a non-initial value and no resetting Exit callback is guaranteed to fire after it", w.name)
		}
		why = append(why, w.name+" → "+found)
	}
	sort.Strings(why)
	return true, "bracketed: " + strings.Join(why, "; ")
}

// balancedCounter: an integer that is only ever moved by Enter<R> (+k, unconditionally) and Exit<R> (-k, unconditionally) of
// the same rules is a nesting depth: every Enter is matched by its Exit, so between units it holds its initial value.
func (a *stateAn) balancedCounter(g *ssa.Global) (bool, string) {
	bt, isBasic := g.Type().Underlying().(*types.Pointer).Elem().Underlying().(*types.Basic)
	if !isBasic || bt.Info()&types.IsInteger == 0 || len(a.stores[g]) == 0 {
		return false, ""
	}
	delta := map[string]int64{}
	for _, st := range a.stores[g] {
		fn := st.Parent()
		kind, rule, isCb := callbackRule(fn.Name())
		if !isCb || fn.Signature.Recv() == nil {
			return false, ""
		}
		bo, ok := st.Val.(*ssa.BinOp)
		if !ok || (bo.Op != token.ADD && bo.Op != token.SUB) || loadedGlobal(bo.X) != g {
			return false, ""
		}
		k, ok := constInt(bo.Y)
		if !ok {
			return false, ""
		}
		if bo.Op == token.SUB {
			k = -k
		}
		// unconditional: the store's block dominates every returning block
		for _, b := range fn.Blocks {
			if len(b.Instrs) == 0 {
				continue
			}
			if _, isRet := b.Instrs[len(b.Instrs)-1].(*ssa.Return); isRet && !st.Block().Dominates(b) {
				return false, ""
			}
		}
		if kind == "Enter" {
			delta[rule] += k
		} else {
			delta[rule] += k
		}
	}
	for _, d := range delta {
		if d != 0 {
			return false, ""
		}
	}
	return true, "balanced counter: moved only by matching Enter/Exit callbacks, by opposite amounts, unconditionally"
}

// ---------------------------------------------------------------------------------------------

func init() { register("E3-state", runE3) }

type passInfo struct {
	spec    *PassSpec
	entries []*ssa.Function
	roots   []*ssa.Function // body roots (listener methods)
	killed  gset
}

func (a *stateAn) writerNames(g *ssa.Global) string {
	seen := map[string]bool{}
	var out []string
	for _, st := range a.stores[g] {
		k := a.p.FuncKey(st.Parent())
		if !seen[k] {
			seen[k] = true
			out = append(out, shortFn(k))
		}
	}
	sort.Strings(out)
	if len(out) > 6 {
		out = append(out[:6], "…")
	}
	return strings.Join(out, ", ")
}

func shortFn(key string) string {
	if i := strings.LastIndex(key, "/"); i >= 0 {
		return key[i+1:]
	}
	return key
}

func runE3(p *Program, sp *Spec, c *Collector) {
	a := getStateAn(p)
	c.Count("E3.mutable_globals", len(a.mutable))
	nGlobals := 0
	for _, pk := range p.Pkgs {
		if isGeneratedPkg(pk.PkgPath) {
			continue
		}
		for _, m := range p.SSAPkgs[pk.PkgPath].Members {
			if _, ok := m.(*ssa.Global); ok {
				nGlobals++
			}
		}
	}
	c.Count("E3.package_globals", nGlobals)

	for i := range sp.Passes {
		ps := &sp.Passes[i]
		pi := &passInfo{spec: ps, killed: gset{}}
		okAnchors := true
		for _, e := range ps.Entry {
			fn := p.Func(e)
			if fn == nil {
				c.Anchor(ps.Props, "E3: pass %s: entry %s does not resolve", ps.Name, e)
				okAnchors = false
				continue
			}
			pi.entries = append(pi.entries, fn)
		}
		if ps.Kind == "listener" {
			pr, tn := splitTypeKey(ps.Listener)
			pi.roots = p.methodsDeclaredOn(pr, tn)
			if len(pi.roots) == 0 {
				c.Anchor(ps.Props, "E3: pass %s: listener %s has no methods", ps.Name, ps.Listener)
				okAnchors = false
			}
		}
		if !okAnchors {
			continue
		}
		// a function pass: what no function of the unit ever writes is input (configuration a constructor injected), not state
		// left behind by the previous unit
		if len(a.inputs) > 0 {
			a.inputs = nil
			a.summ = map[*ssa.Function]*fsum{}
		}
		if ps.Kind == "function" {
			written := gset{}
			for f := range p.reach(pi.entries) {
				_, w := a.locals(f)
				for g := range w {
					written[g] = true
				}
			}
			in := gset{}
			for g := range a.mutable {
				if !written[g] {
					in[g] = true
				}
			}
			a.inputs = in
			a.summ = map[*ssa.Function]*fsum{}
		}
		// entry sequence
		Rentry := map[*ssa.Global]token.Pos{}
		killedBy := map[*ssa.Global]string{}
		for _, e := range pi.entries {
			s := a.summary(e)
			for g, pos := range s.R {
				if !pi.killed[g] {
					if _, ok := Rentry[g]; !ok {
						Rentry[g] = pos
					}
				}
			}
			for g := range s.K {
				if !pi.killed[g] {
					pi.killed[g] = true
					killedBy[g] = e.Name()
				}
			}
		}
		// body needs
		need := map[*ssa.Global]token.Pos{}
		needIn := map[*ssa.Global]string{}
		entrySet := map[*ssa.Function]bool{}
		for _, e := range pi.entries {
			entrySet[e] = true
		}
		for _, r := range pi.roots {
			if entrySet[r] {
				continue
			}
			for g, pos := range a.summary(r).R {
				if _, ok := need[g]; !ok || posLess(p.Fset, pos, need[g]) {
					need[g] = pos
					needIn[g] = r.Name()
				}
			}
		}
		// every mutable global touched by the pass gets an obligation
		touched := map[*ssa.Global]bool{}
		for g := range need {
			touched[g] = true
		}
		for g := range Rentry {
			touched[g] = true
		}
		var all []*ssa.Function
		all = append(all, pi.entries...)
		all = append(all, pi.roots...)
		for f := range p.reach(all) {
			_, w := a.locals(f)
			for g := range w {
				if a.mutable[g] {
					touched[g] = true
				}
			}
		}
		readSomewhere := gset{}
		for f := range p.reach(all) {
			r, _ := a.locals(f)
			for g := range r {
				readSomewhere[g] = true
			}
		}
		var gs []*ssa.Global
		for g := range touched {
			gs = append(gs, g)
		}
		sort.Slice(gs, func(i, j int) bool { return p.GlobalKey(gs[i]) < p.GlobalKey(gs[j]) })
		var gr *Grammar
		if ps.Grammar != "" {
			gr = sp.G[ps.Grammar]
		}
		for _, g := range gs {
			key := "pass:" + ps.Name + " global:" + p.GlobalKey(g)
			pos := ""
			if st := a.stores[g]; len(st) > 0 {
				pos = p.Pos(g.Pos())
			}
			_, needed := need[g]
			_, earlyRead := Rentry[g]
			acc := acceptedFor(ps, p.GlobalKey(g))
			switch {
			case earlyRead && a.inputs[g] && ps.Pure:
				c.Ob(ps.Props, "E3.unit-state", key, Violated,
					fmt.Sprintf("the result must be a function of the arguments, but %s is read (%s): it holds whatever %s left there", g.Name(), p.Pos(Rentry[g]), a.writerNames(g)),
					p.Pos(Rentry[g]), false)
			case earlyRead && a.inputs[g]:
				c.Ob(ps.Props, "E3.unit-state", key, Discharged, "input of the unit: read, but written by no function the unit reaches (writers: "+a.writerNames(g)+")", pos, true)
			case earlyRead:
				c.Ob(ps.Props, "E3.unit-state", key, Violated,
					fmt.Sprintf("read at unit entry (%s) before any state-independent assignment: the value left by the previous unit is used; writers: %s", p.Pos(Rentry[g]), a.writerNames(g)),
					p.Pos(Rentry[g]), false)
			case !needed && readSomewhere[g]:
				c.Ob(ps.Props, "E3.unit-state", key, Discharged, "assigned a state-independent value before every read in the same activation", pos, true)
			case !needed:
				c.Ob(ps.Props, "E3.unit-state", key, Discharged, "never read by the pass except to update itself (self-only / write-only)", pos, true)
			case pi.killed[g]:
				c.Ob(ps.Props, "E3.unit-state", key, Discharged, "killed at unit entry by "+killedBy[g]+" with a value independent of previous state", pos, true)
			default:
				if ps.Kind == "listener" {
					if ok, why := a.bracketed(g, pi.roots, gr, ps.Start); ok {
						c.Ob(ps.Props, "E3.unit-state", key, Discharged, why, pos, true)
						continue
					} else if acc != nil {
						okAcc, whyAcc := a.checkAccepted(p, acc, pi, g)
						if okAcc {
							c.Ob(ps.Props, "E3.unit-state", key, Discharged, "accepted_state: "+acc.Reason+" ["+whyAcc+"]", pos, true)
						} else {
							c.Ob(ps.Props, "E3.unit-state", key, Violated, "accepted_state premise no longer holds: "+whyAcc, pos, false)
						}
						continue
					} else {
						c.Ob(ps.Props, "E3.unit-state", key, Violated,
							fmt.Sprintf("leaky: read in %s (%s) but not assigned a state-independent value at unit entry (%s); %s; writers: %s",
								needIn[g], p.Pos(need[g]), entryNames(pi.entries), why, a.writerNames(g)),
							p.Pos(need[g]), false)
						continue
					}
				}
				c.Ob(ps.Props, "E3.unit-state", key, Violated,
					fmt.Sprintf("leaky: read in %s (%s) before being assigned in this activation; writers: %s", needIn[g], p.Pos(need[g]), a.writerNames(g)),
					p.Pos(need[g]), false)
			}
		}
		c.Count("E3.pass."+ps.Name+".globals", len(gs))
		if len(gs) == 0 {
			// nothing mutable is touched: the pass is a function of its arguments (and of what it reads from the file system)
			c.Ob(ps.Props, "E3.stateless", "pass:"+ps.Name, Discharged,
				fmt.Sprintf("no mutable package-level variable is read or written by the %d functions reachable from %s", len(p.reach(all)), entryNames(pi.entries)), p.Pos(pi.entries[0].Pos()), true)
		}
		if ps.Kind == "listener" {
			runE3Drivers(p, sp, c, a, pi)
		}
	}
	if len(a.inputs) > 0 {
		a.inputs = nil
		a.summ = map[*ssa.Function]*fsum{}
	}
	for _, rs := range sp.ReceiverState {
		runReceiverState(p, c, rs)
	}
}

func entryNames(fs []*ssa.Function) string {
	var s []string
	for _, f := range fs {
		s = append(s, f.Name())
	}
	return strings.Join(s, "+")
}

func acceptedFor(ps *PassSpec, g string) *AcceptedState {
	for i := range ps.Accepted {
		if ps.Accepted[i].Global == g {
			return &ps.Accepted[i]
		}
	}
	return nil
}

func (a *stateAn) checkAccepted(p *Program, acc *AcceptedState, pi *passInfo, g *ssa.Global) (bool, string) {
	init, ok := a.initialValue(g)
	if !ok {
		return false, "initial value not constant"
	}
	ea := &exitAn{a: a, g: g, init: init, memo: map[*ssa.Function]int{}, prog: map[*ssa.Function]bool{}}
	for _, name := range acc.MustReset {
		var fn *ssa.Function
		for _, r := range pi.roots {
			if r.Name() == name {
				fn = r
			}
		}
		if fn == nil {
			return false, "callback " + name + " not declared"
		}
		if ea.effect(fn) != exI {
			return false, name + " does not restore the initial value on every path"
		}
	}
	return true, "must-reset callbacks verified: " + strings.Join(acc.MustReset, ",")
}

// runE3Drivers checks, for a listener pass, every function that calls the constructor:
//
//	(a) injected setters follow the constructor before the walk in the same iteration (rule 4);
//	(b) stale-epoch rule: globals that are per-unit state are not read by code outside the per-unit region.
func runE3Drivers(p *Program, sp *Spec, c *Collector, a *stateAn, pi *passInfo) {
	ps := pi.spec
	ctor := pi.entries[0]
	node := p.CG.Nodes[ctor]
	if node == nil {
		return
	}
	drivers := map[*ssa.Function][]ssa.CallInstruction{}
	for _, e := range node.In {
		if p.IsOwnFunc(e.Caller) && e.Site != nil {
			drivers[e.Caller] = append(drivers[e.Caller], e.Site)
		}
	}
	var ds []*ssa.Function
	for d := range drivers {
		if len(ps.Drivers) > 0 {
			keep := false
			for _, k := range ps.Drivers {
				if p.Func(k) == d {
					keep = true
				}
			}
			if !keep {
				continue
			}
		}
		ds = append(ds, d)
	}
	if len(ds) == 0 {
		c.Anchor(ps.Props, "E3: pass %s: no driver calls %s", ps.Name, ctor.Name())
	}
	sort.Slice(ds, func(i, j int) bool { return p.FuncKey(ds[i]) < p.FuncKey(ds[j]) })
	// unit state = killed at entry ∪ written by the body
	unitState := pi.killed.clone()
	var all []*ssa.Function
	all = append(all, pi.roots...)
	bodyFuncs := p.reach(append(all, pi.entries...))
	for f := range bodyFuncs {
		_, w := a.locals(f)
		for g := range w {
			unitState[g] = true
		}
	}
	for _, d := range ds {
		dom := d.DomPreorder()
		_ = dom
		for _, site := range drivers[d] {
			key := "pass:" + ps.Name + " driver:" + p.FuncKey(d)
			// (a) setters
			for _, setter := range pi.entries[1:] {
				ok := false
				for _, b := range d.Blocks {
					for _, in := range b.Instrs {
						ci, isCall := in.(ssa.CallInstruction)
						if !isCall {
							continue
						}
						for _, cal := range p.Callees(ci) {
							if cal == setter && instrDominates(site, ci) {
								// and it precedes the walk
								if w := findWalk(p, d, ps.Walk); w == nil || instrDominates(ci, w) {
									ok = true
								}
							}
						}
					}
				}
				if ok {
					c.Ob(ps.Props, "E3.injected-setter", key+" setter:"+setter.Name(), Discharged, "setter call is dominated by the constructor call and dominates the walk", p.InstrPos(site), true)
				} else {
					c.Ob(ps.Props, "E3.injected-setter", key+" setter:"+setter.Name(), Violated, "driver builds the listener without calling "+setter.Name()+" before the walk on every path: the value injected for the previous unit is used", p.InstrPos(site), false)
				}
			}
			// (a') the unit entry must run once per unit: if the walk sits in a loop, the constructor call must sit in
			// the same loop (a listener or model built once before the loop is shared by all units)
			if w := findWalk(p, d, ps.Walk); w != nil {
				wr := loopRegion(d, w.Block())
				if wr != nil && !wr[site.Block()] {
					c.Ob(ps.Props, "E3.entry-per-unit", key+" entry:"+ctor.Name(), Violated,
						ctor.Name()+" is called outside the loop that walks the units: the per-unit state is initialised once and then shared by all files", p.InstrPos(site), false)
				} else {
					c.Ob(ps.Props, "E3.entry-per-unit", key+" entry:"+ctor.Name(), Discharged, "the unit entry is called in the same iteration as the walk (or the driver handles a single unit)", p.InstrPos(site), true)
				}
			}
			// per-unit region of the driver: blocks of the innermost loop containing the constructor call,
			// or (no loop) blocks dominated by the constructor call.
			region := loopRegion(d, site.Block())
			inLoop := region != nil
			// globals written by the driver itself inside the region also belong to the unit
			us := unitState.clone()
			if inLoop {
				for _, b := range d.Blocks {
					if !region[b] {
						continue
					}
					for _, in := range b.Instrs {
						if st, ok := in.(*ssa.Store); ok {
							// a store of a state-independent value inside the loop makes the variable per-unit state;
							// an accumulation (g = append(g, …)) does not
							if g, whole := globalOfAddr(st.Addr); g != nil && whole && p.Own[g.Pkg.Pkg] {
								others := a.mutable.clone()
								delete(others, g)
								if a.fresh(st.Val, others, map[ssa.Value]bool{}) {
									us[g] = true
								}
							}
						}
					}
				}
			}
			if !inLoop {
				continue
			}
			runEpochRule(p, c, a, pi, d, region, us, bodyFuncs)
		}
	}
}

func findWalk(p *Program, d *ssa.Function, walk string) ssa.CallInstruction {
	if walk == "" {
		walk = "Walk"
	}
	for _, b := range d.Blocks {
		for _, in := range b.Instrs {
			if ci, ok := in.(ssa.CallInstruction); ok {
				if f := ci.Common().StaticCallee(); f != nil && f.Name() == walk {
					return ci
				}
				if ci.Common().IsInvoke() && ci.Common().Method.Name() == walk {
					return ci
				}
			}
		}
	}
	return nil
}

// instrDominates: a executes before b on every path to b (same function).
func instrDominates(a, b ssa.Instruction) bool {
	if a.Block() == b.Block() {
		for _, in := range a.Block().Instrs {
			if in == a {
				return true
			}
			if in == b {
				return false
			}
		}
		return false
	}
	return a.Block().Dominates(b.Block())
}

// loopRegion returns the blocks of the innermost natural loop containing blk (nil if blk is in no loop).
func loopRegion(fn *ssa.Function, blk *ssa.BasicBlock) map[*ssa.BasicBlock]bool {
	var best map[*ssa.BasicBlock]bool
	for _, b := range fn.Blocks {
		for _, s := range b.Succs {
			if s.Dominates(b) { // back edge b -> s
				loop := map[*ssa.BasicBlock]bool{s: true}
				stack := []*ssa.BasicBlock{b}
				for len(stack) > 0 {
					x := stack[len(stack)-1]
					stack = stack[:len(stack)-1]
					if loop[x] {
						continue
					}
					loop[x] = true
					stack = append(stack, x.Preds...)
				}
				if loop[blk] && (best == nil || len(loop) < len(best)) {
					best = loop
				}
			}
		}
	}
	return best
}

// runEpochRule: a per-unit global must not be read by code that runs outside the per-unit region of the driver
// (after the loop, or from another entry point): it would see only the last unit's value.
// OUT = own functions reachable from the program's roots (functions without own callers, listener methods excluded)
// when the call sites inside the driver's loop region are removed from the call graph.
func runEpochRule(p *Program, c *Collector, a *stateAn, pi *passInfo, d *ssa.Function, region map[*ssa.BasicBlock]bool, unit gset, bodyFuncs map[*ssa.Function]bool) {
	ps := pi.spec
	isListenerMethod := map[*ssa.Function]bool{}
	for _, r := range pi.roots {
		isListenerMethod[r] = true
	}
	parent := map[*ssa.Function]*ssa.Function{}
	out := map[*ssa.Function]bool{}
	var work []*ssa.Function
	push := func(f, from *ssa.Function) {
		if f != nil && !out[f] && p.IsOwnFunc(f) {
			out[f] = true
			parent[f] = from
			work = append(work, f)
		}
	}
	var epochRoots map[*ssa.Function]bool
	if len(ps.EpochRoots) > 0 {
		epochRoots = map[*ssa.Function]bool{}
		for _, k := range ps.EpochRoots {
			f := p.Func(k)
			if f == nil {
				c.Anchor(ps.Props, "E3: pass %s: epoch root %s does not resolve", ps.Name, k)
				continue
			}
			epochRoots[f] = true
		}
	}
	for _, fn := range p.OwnFuncs {
		if isListenerMethod[fn] {
			continue
		}
		if epochRoots != nil {
			if epochRoots[fn] {
				push(fn, nil)
			}
			continue
		}
		n := p.CG.Nodes[fn]
		own := 0
		if n != nil {
			for _, e := range n.In {
				if p.IsOwnFunc(e.Caller) && e.Caller != fn {
					own++
				}
			}
		}
		if own == 0 {
			push(fn, nil)
		}
	}
	for len(work) > 0 {
		f := work[len(work)-1]
		work = work[:len(work)-1]
		for _, b := range f.Blocks {
			if f == d && region[b] {
				continue
			}
			for _, in := range b.Instrs {
				if ci, ok := in.(ssa.CallInstruction); ok {
					for _, cal := range p.ownCallees(ci) {
						push(cal, f)
					}
				}
				if mc, ok := in.(*ssa.MakeClosure); ok {
					if cf, ok := mc.Fn.(*ssa.Function); ok {
						push(cf, f)
					}
				}
			}
		}
	}
	chainOf := func(f *ssa.Function) string {
		var parts []string
		for x := f; x != nil && len(parts) < 6; x = parent[x] {
			parts = append(parts, shortFn(p.FuncKey(x)))
		}
		return strings.Join(parts, " ← ")
	}
	type rd struct {
		fn  *ssa.Function
		g   *ssa.Global
		pos token.Pos
	}
	var reads []rd
	for _, fn := range p.OwnFuncs {
		r, _ := a.locals(fn)
		for g, pos := range r {
			if unit[g] {
				reads = append(reads, rd{fn, g, pos})
			}
		}
	}
	sort.Slice(reads, func(i, j int) bool {
		if reads[i].fn != reads[j].fn {
			return p.FuncKey(reads[i].fn) < p.FuncKey(reads[j].fn)
		}
		return p.GlobalKey(reads[i].g) < p.GlobalKey(reads[j].g)
	})
	n := 0
	for _, r := range reads {
		key := fmt.Sprintf("pass:%s driver:%s global:%s reader:%s", ps.Name, shortFn(p.FuncKey(d)), p.GlobalKey(r.g), p.FuncKey(r.fn))
		if r.fn == d {
			bad := token.NoPos
			for _, b := range d.Blocks {
				if region[b] {
					continue
				}
				for _, in := range b.Instrs {
					if u, ok := in.(*ssa.UnOp); ok && u.Op == token.MUL {
						if g, _ := globalOfAddr(u.X); g == r.g && a.observing(u, g) {
							bad = u.Pos()
						}
					}
				}
			}
			if bad != token.NoPos {
				c.Ob(ps.Props, "E3.stale-epoch", key, Violated, "per-unit variable read in the driver outside the per-unit loop", p.Pos(bad), false)
			} else {
				c.Ob(ps.Props, "E3.stale-epoch", key, Discharged, "read only inside the per-unit loop of the driver", p.Pos(r.pos), true)
			}
			n++
			continue
		}
		if out[r.fn] {
			c.Ob(ps.Props, "E3.stale-epoch", key, Violated,
				fmt.Sprintf("per-unit variable (re-initialised for every unit in %s) is read on a path that does not go through the per-unit loop (%s): only the last unit's value is seen",
					shortFn(p.FuncKey(d)), chainOf(r.fn)), p.Pos(r.pos), false)
		} else {
			c.Ob(ps.Props, "E3.stale-epoch", key, Discharged, "reachable only through the per-unit loop of "+shortFn(p.FuncKey(d)), p.Pos(r.pos), true)
		}
		n++
	}
	c.Count("E3.pass."+ps.Name+".epoch_reads", n)
}

var _ = types.Typ

// ---------------------------------------------------------------------------------------------
// receiver state: a method that renders / computes from an object must re-initialise every field of its receiver that
// it (or the methods it calls on the same receiver) mutates, before anything reads it — otherwise a second call on the
// same object starts from what the first call left (the struct-field analogue of the unit-state rule).

type ReceiverStateSpec struct {
	Props []string `json:"props"`
	Entry string   `json:"entry"`
	What  string   `json:"what"`
}

func receiverFieldOf(addr ssa.Value, fn *ssa.Function) (string, bool) {
	if len(fn.Params) == 0 || fn.Signature.Recv() == nil {
		return "", false
	}
	recv := fn.Params[0]
	switch a := addr.(type) {
	case *ssa.FieldAddr:
		if a.X == ssa.Value(recv) {
			n, _ := fieldOf(a.X.Type(), a.Field)
			return n, true
		}
	}
	return "", false
}

func runReceiverState(p *Program, c *Collector, rs ReceiverStateSpec) {
	entry := p.Func(rs.Entry)
	if entry == nil || entry.Signature.Recv() == nil {
		c.Anchor(rs.Props, "E3: receiver state: %s does not resolve to a method", rs.Entry)
		return
	}
	recvT := entry.Signature.Recv().Type()
	a := getStateAn(p)
	// fields mutated through the receiver in the closure (methods on the same receiver type)
	mutated := map[string]string{}
	for fn := range p.reach([]*ssa.Function{entry}) {
		if fn.Signature.Recv() == nil || !types.Identical(fn.Signature.Recv().Type(), recvT) {
			continue
		}
		for _, b := range fn.Blocks {
			for _, in := range b.Instrs {
				switch x := in.(type) {
				case *ssa.Store:
					if f, ok := receiverFieldOf(x.Addr, fn); ok {
						if fn == entry && a.fresh(x.Val, gset{}, map[ssa.Value]bool{}) && dominatesAllOwnCalls(p, x, entry) {
							continue // this is the reset itself
						}
						mutated[f] = p.InstrPos(in)
					}
				case *ssa.MapUpdate:
					if ld, ok := x.Map.(*ssa.UnOp); ok {
						if f, ok := receiverFieldOf(ld.X, fn); ok {
							mutated[f] = p.InstrPos(in)
						}
					}
				}
			}
		}
	}
	// fields reset at the start of entry
	reset := map[string]bool{}
	for _, b := range entry.Blocks {
		for _, in := range b.Instrs {
			if st, ok := in.(*ssa.Store); ok {
				if f, ok := receiverFieldOf(st.Addr, entry); ok && a.fresh(st.Val, gset{}, map[ssa.Value]bool{}) && dominatesAllOwnCalls(p, st, entry) {
					reset[f] = true
				}
			}
		}
	}
	n := 0
	for _, f := range sortedKeys(mutated) {
		n++
		key := "recvstate:" + rs.Entry + " field:" + f
		if reset[f] {
			c.Ob(rs.Props, "E3.receiver-state", key, Discharged, rs.What+": the field is re-initialised with a state-independent value before any callee runs", mutated[f], true)
		} else {
			c.Ob(rs.Props, "E3.receiver-state", key, Violated, rs.What+": field "+f+" of the receiver is modified during the call (at "+mutated[f]+") but is not re-initialised at its start: a second call on the same object continues from what the first one left", mutated[f], false)
		}
	}
	if n == 0 {
		c.Ob(rs.Props, "E3.receiver-state", "recvstate:"+rs.Entry, Discharged, rs.What+": no field of the receiver is modified", p.FuncPos(entry), true)
	}
}

// dominatesAllOwnCalls: the instruction is executed before every call of an own function in fn and before every loop.
func dominatesAllOwnCalls(p *Program, at ssa.Instruction, fn *ssa.Function) bool {
	for _, b := range fn.Blocks {
		for _, in := range b.Instrs {
			if ci, ok := in.(ssa.CallInstruction); ok && len(p.ownCallees(ci)) > 0 {
				if !instrDominates(at, in) {
					return false
				}
			}
		}
	}
	return true
}
