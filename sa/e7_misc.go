package main

// E7 — small agreement rules: units (rune column vs byte offset), stale coordinates, read-edit-write frame, classifier
// anchoring, table agreement with generated constants, constant argument lists, pointer aliasing, DOT quoting,
// de-duplication keys, deletion while iterating, JSON-serialisable result types.

import (
	"fmt"
	"go/ast"
	"go/constant"
	"go/token"
	"go/types"
	"golang.org/x/tools/go/packages"
	"regexp"
	"regexp/syntax"
	"sort"
	"strings"
	"unicode"

	"golang.org/x/tools/go/ssa"
)

func init() { register("E7-misc", runE7) }

type E7Spec struct {
	Units         []UnitSpec         `json:"units"`
	Stale         []StaleSpec        `json:"stale_coordinates"`
	Frames        []FrameSpec        `json:"frames"`
	Anchoring     []AnchorSpec       `json:"anchoring"`
	TokenTable    []TokenTblSpec     `json:"token_tables"`
	ConstArgs     []ConstArgSpec     `json:"const_args"`
	Aliasing      []FuncRuleSpec     `json:"aliasing"`
	DotQuoting    []FuncRuleSpec     `json:"dot_quoting"`
	Dedupe        []FuncRuleSpec     `json:"dedupe_keys"`
	DeleteIter    []FuncRuleSpec     `json:"delete_while_iterating"`
	LoopCarried   []FuncRuleSpec     `json:"loop_carried_record"`
	RegexpSamples []RegexpSampleSpec `json:"regexp_samples"`
	Immutable     []ImmutableSpec    `json:"input_immutability"`
	JSON          []JSONSpec         `json:"json_closure"`
	NoExit        []NoExitSpec       `json:"no_exit"`
	MethodKeyed   []FuncRuleSpec     `json:"method_keyed_maps"`
	DottedSuffix  []FuncRuleSpec     `json:"dotted_suffix"`
	EdgeClosure   []EdgeClosureSpec  `json:"edge_closure"`
	NilableGlobal []FuncRuleSpec     `json:"nilable_globals"`
	TrimCutset    []FuncRuleSpec     `json:"trim_cutset"`
	DecodeGlobal  []FuncRuleSpec     `json:"decode_into_global"`
	ReturnGlobal  []FuncRuleSpec     `json:"return_global_address"`
	EveryElement  []FuncRuleSpec     `json:"every_element"`
	BulkOverwrite []FuncRuleSpec     `json:"bulk_overwrite"`
	SharedBacking []FuncRuleSpec     `json:"shared_backing"`
	LossyIdent    []LossyIdentSpec   `json:"lossy_identifier"`
	ListFields    []ListFieldSpec    `json:"list_fields"`
	LostUpdate    []FuncRuleSpec     `json:"lost_update"`
	ScannerLimit  []FuncRuleSpec     `json:"scanner_limit"`
	InPlaceFilter []FuncRuleSpec     `json:"inplace_filter"`
	WriteBack     []FuncRuleSpec     `json:"write_back"`
	Shadow        []FuncRuleSpec     `json:"shadowed_result"`
	Forbidden     []ForbiddenSpec    `json:"forbidden_calls"`
	CrossAppend   []FuncRuleSpec     `json:"cross_append"`
	NestedModel   []NestedModelSpec  `json:"nested_model"`
	DirectOnly    []FuncRuleSpec     `json:"direct_children_only"`
	StaleElement  []FuncRuleSpec     `json:"stale_element"`
	DroppedError  []DroppedErrorSpec `json:"dropped_error"`
	SaveRestore   []FuncRuleSpec     `json:"save_restore"`
	SizeGate      []FuncRuleSpec     `json:"size_gate"`
	StaleCopy     []FuncRuleSpec     `json:"stale_copy"`
	FieldStores   []FieldStoreSpec   `json:"forbidden_field_stores"`
	RenderOnce    []RenderOnceSpec   `json:"render_once"`
	CrossProduct  []FuncRuleSpec     `json:"cross_product"`
	TextIdentity  []TextIdentitySpec `json:"text_identity"`
	GrownRanged   []FuncRuleSpec     `json:"grown_while_ranged"`
	AppendOnly    []AppendOnlySpec   `json:"append_only"`
	PairedUndo    []FuncRuleSpec     `json:"paired_undo"`
	Handled       []HandledSpec      `json:"handled_means_filed"`
	LastOneWins   []FuncRuleSpec     `json:"last_one_wins"`
	ReadOnly      []ReadOnlySpec     `json:"read_only_tables"`
	PathPattern   []FuncRuleSpec     `json:"path_as_pattern"`
	FreshRecord   []FreshRecordSpec  `json:"fresh_record"`
	CopiedRecord  []CopiedRecordSpec `json:"copied_record"`
	TrimmedLength []FuncRuleSpec     `json:"trimmed_length"`
}

type FuncRuleSpec struct {
	Props  []string `json:"props"`
	Funcs  []string `json:"funcs"` // function keys; "pkg:<rel>" = every function of the package
	What   string   `json:"what"`
	Escape []string `json:"escape"` // dot_quoting: accepted escaping helpers (function keys)
}

func expandFuncs(p *Program, c *Collector, list []string, props ...string) []*ssa.Function {
	var out []*ssa.Function
	for _, k := range list {
		if strings.HasPrefix(k, "pkg:") {
			rel := strings.TrimPrefix(k, "pkg:")
			n := 0
			for _, fn := range p.OwnFuncs {
				q := fn
				for q.Parent() != nil {
					q = q.Parent()
				}
				if q.Pkg != nil && relPkg(q.Pkg.Pkg.Path()) == rel {
					out = append(out, fn)
					n++
				}
			}
			if n == 0 {
				c.Anchor(props, "E7: package %s has no functions", rel)
			}
			continue
		}
		fn := p.Func(k)
		if fn == nil {
			c.Anchor(props, "E7: %s does not resolve", k)
			continue
		}
		out = append(out, fn)
		out = append(out, allAnon(fn)...)
	}
	return out
}

func allAnon(fn *ssa.Function) []*ssa.Function {
	var out []*ssa.Function
	for _, a := range fn.AnonFuncs {
		out = append(out, a)
		out = append(out, allAnon(a)...)
	}
	return out
}

func relPkg(path string) string { return rel(path) }

func runE7(p *Program, sp *Spec, c *Collector) {
	t := &sp.Tables.E7
	for _, u := range t.Units {
		runUnits(p, c, u)
	}
	for _, s := range t.Stale {
		runStale(p, c, s)
	}
	for _, f := range t.Frames {
		runFrame(p, c, f)
	}
	for _, a := range t.Anchoring {
		runAnchoring(p, c, a)
	}
	for _, tt := range t.TokenTable {
		runTokenTable(p, c, tt)
	}
	for _, ca := range t.ConstArgs {
		runConstArgs(p, c, ca)
	}
	for _, a := range t.Aliasing {
		runAliasing(p, c, a)
	}
	for _, d := range t.DotQuoting {
		runDotQuoting(p, c, d)
	}
	for _, d := range t.Dedupe {
		runDedupe(p, c, d)
	}
	for _, d := range t.LoopCarried {
		runLoopCarried(p, c, d)
	}
	for _, r := range t.RegexpSamples {
		runRegexpSamples(p, c, r)
	}
	for _, im := range t.Immutable {
		runImmutable(p, c, im)
	}
	for _, d := range t.DeleteIter {
		runDeleteIter(p, c, d)
	}
	for _, j := range t.JSON {
		runJSONClosure(p, c, j)
	}
	for _, mk := range t.MethodKeyed {
		runMethodKeyed(p, c, mk)
	}
	for _, ds := range t.DottedSuffix {
		runDottedSuffix(p, c, ds)
	}
	for _, ec := range t.EdgeClosure {
		runEdgeClosure(p, c, ec)
	}
	for _, ng := range t.NilableGlobal {
		runNilableGlobals(p, c, ng)
	}
	for _, tc := range t.TrimCutset {
		runTrimCutset(p, c, tc)
	}
	for _, dg := range t.DecodeGlobal {
		runDecodeGlobal(p, c, dg)
	}
	for _, rg := range t.ReturnGlobal {
		runReturnGlobal(p, c, rg)
	}
	for _, ee := range t.EveryElement {
		runEveryElement(p, c, ee)
	}
	for _, bo := range t.BulkOverwrite {
		runBulkOverwrite(p, c, bo)
	}
	for _, sb := range t.SharedBacking {
		runSharedBacking(p, c, sb)
	}
	for _, li := range t.LossyIdent {
		runLossyIdent(p, c, li)
	}
	for _, lf := range t.ListFields {
		runListFields(p, c, lf)
	}
	for _, lu := range t.LostUpdate {
		runLostUpdate(p, c, lu)
	}
	for _, sl := range t.ScannerLimit {
		runScannerLimit(p, c, sl)
	}
	for _, ipf := range t.InPlaceFilter {
		runInPlaceFilter(p, c, ipf)
	}
	for _, wb := range t.WriteBack {
		runWriteBack(p, c, wb)
	}
	for _, sh := range t.Shadow {
		runShadow(p, c, sh)
	}
	for _, fb := range t.Forbidden {
		runForbidden(p, c, fb)
	}
	for _, ca := range t.CrossAppend {
		runCrossAppend(p, c, ca)
	}
	for _, nm := range t.NestedModel {
		runNestedModel(p, c, nm)
	}
	for _, do := range t.DirectOnly {
		runDirectOnly(p, c, do)
	}
	for _, se := range t.StaleElement {
		runStaleElement(p, c, se)
	}
	for _, de := range t.DroppedError {
		runDroppedError(p, c, de)
	}
	for _, sr := range t.SaveRestore {
		runSaveRestore(p, c, sr)
	}
	for _, sg := range t.SizeGate {
		runSizeGate(p, c, sg)
	}
	for _, sc := range t.StaleCopy {
		runStaleCopy(p, c, sc)
	}
	for _, fs := range t.FieldStores {
		runForbiddenFieldStore(p, c, fs)
	}
	for _, ro := range t.RenderOnce {
		runRenderOnce(p, c, ro)
	}
	for _, cp := range t.CrossProduct {
		runCrossProduct(p, c, cp)
	}
	for _, ti := range t.TextIdentity {
		runTextIdentity(p, c, ti)
	}
	for _, gr := range t.GrownRanged {
		runGrownWhileRanged(p, c, gr)
	}
	for _, ao := range t.AppendOnly {
		runAppendOnly(p, c, ao)
	}
	for _, pu := range t.PairedUndo {
		runPairedUndo(p, c, pu)
	}
	for _, h := range t.Handled {
		runHandledMeansFiled(p, c, h)
	}
	for _, lw := range t.LastOneWins {
		runLastOneWins(p, c, lw)
	}
	for _, ro := range t.ReadOnly {
		runReadOnlyGlobal(p, c, ro)
	}
	for _, pp := range t.PathPattern {
		runPathAsPattern(p, c, pp)
	}
	for _, fr := range t.FreshRecord {
		runFreshRecord(p, c, fr)
	}
	for _, cr := range t.CopiedRecord {
		runCopiedRecord(p, c, cr)
	}
	for _, tl := range t.TrimmedLength {
		runTrimmedLength(p, c, tl)
	}
	for _, n := range t.NoExit {
		runNoExit(p, sp, c, n)
	}
}

// ---------------------------------------------------------------------------------------------
// units: a rune column (Token.GetColumn) must not be used as a byte offset into a string

type UnitSpec struct {
	Props  []string `json:"props"`
	Fields []string `json:"fields"` // "pkgpath.Type.Field" that carry a column
	Sinks  []string `json:"sinks"`  // functions in which the fields are used as offsets
	What   string   `json:"what"`
}

// derivesFrom: does v (transitively, inside its function) depend on a call of the named method?
func derivesFromMethod(v ssa.Value, method string, seen map[ssa.Value]bool) bool {
	if v == nil || seen[v] {
		return false
	}
	seen[v] = true
	if c, ok := v.(*ssa.Call); ok {
		if c.Call.IsInvoke() && c.Call.Method.Name() == method {
			return true
		}
		if cal := c.Call.StaticCallee(); cal != nil && cal.Name() == method {
			return true
		}
	}
	if in, ok := v.(ssa.Instruction); ok {
		var ops []*ssa.Value
		ops = in.Operands(ops)
		for _, o := range ops {
			if derivesFromMethod(*o, method, seen) {
				return true
			}
		}
	}
	return false
}

func fieldFullName(t types.Type, idx int) string {
	if pt, ok := t.Underlying().(*types.Pointer); ok {
		t = pt.Elem()
	}
	pk, n := namedTypeName(t)
	st, ok := t.Underlying().(*types.Struct)
	if !ok || idx >= st.NumFields() {
		return ""
	}
	return rel(pk) + "." + n + "." + st.Field(idx).Name()
}

func runUnits(p *Program, c *Collector, u UnitSpec) {
	want := map[string]bool{}
	for _, f := range u.Fields {
		want[f] = true
	}
	// 1. which of the fields are written with a value derived from GetColumn (rune column)?
	runeCols := map[string]string{}
	for _, fn := range p.OwnFuncs {
		for _, b := range fn.Blocks {
			for _, in := range b.Instrs {
				st, ok := in.(*ssa.Store)
				if !ok {
					continue
				}
				fa, ok := st.Addr.(*ssa.FieldAddr)
				if !ok {
					continue
				}
				name := fieldFullName(fa.X.Type(), fa.Field)
				if !want[name] {
					continue
				}
				if derivesFromMethod(st.Val, "GetColumn", map[ssa.Value]bool{}) {
					if _, ok := runeCols[name]; !ok {
						runeCols[name] = p.InstrPos(in)
					}
				}
			}
		}
	}
	if len(runeCols) == 0 {
		c.Ob(u.Props, "E7.units", "units:"+strings.Join(u.Fields, ","), Undecided, u.What+": no store of a token column into the position fields was found (anchor lost)", "", false)
		return
	}
	// 2. sinks: string slicing whose bounds load one of those fields
	for _, sk := range u.Sinks {
		fn := p.Func(sk)
		if fn == nil {
			c.Anchor(u.Props, "E7: units sink %s does not resolve", sk)
			continue
		}
		n := 0
		for _, b := range fn.Blocks {
			for _, in := range b.Instrs {
				sl, ok := in.(*ssa.Slice)
				if !ok {
					continue
				}
				bt, isStr := sl.X.Type().Underlying().(*types.Basic)
				if !isStr || bt.Info()&types.IsString == 0 {
					continue
				}
				for _, bound := range []ssa.Value{sl.Low, sl.High} {
					if bound == nil {
						continue
					}
					fld := loadedField(bound)
					if fld == "" || !want[fld] {
						continue
					}
					n++
					key := fmt.Sprintf("units:%s slice bound %s", sk, fld)
					if src, isRune := runeCols[fld]; isRune {
						c.Ob(u.Props, "E7.units", key, Violated, u.What+": "+fld+" holds a rune column (Token.GetColumn, stored at "+src+") and is used as a byte offset into a string: any multi-byte character earlier on the line shifts the splice", p.InstrPos(in), false)
					} else {
						c.Ob(u.Props, "E7.units", key, Discharged, fld+" is not a rune column", p.InstrPos(in), true)
					}
				}
			}
		}
		if n == 0 {
			c.Ob(u.Props, "E7.units", "units:"+sk, Discharged, "the position fields are not used as string offsets in "+shortFn(sk), p.FuncPos(fn), true)
		}
	}
}

// loadedField: if v is (a conversion of) a load of struct field, its full name.
func loadedField(v ssa.Value) string {
	switch x := v.(type) {
	case *ssa.UnOp:
		if fa, ok := x.X.(*ssa.FieldAddr); ok {
			return fieldFullName(fa.X.Type(), fa.Field)
		}
	case *ssa.Field:
		return fieldFullName(x.X.Type(), x.Field)
	case *ssa.Convert:
		return loadedField(x.X)
	}
	return ""
}

// ---------------------------------------------------------------------------------------------
// stale coordinates: a function that edits a file in place is called repeatedly (from a loop) with coordinates that
// were all computed before the first edit; it must carry a delta or the callers must order the edits.

type StaleSpec struct {
	Props  []string `json:"props"`
	Editor string   `json:"editor"` // function that rewrites the file at a coordinate
	Driver string   `json:"driver"` // function that calls it in a loop
	Mode   string   `json:"mode"`   // "line" (whole lines removed → later line numbers shift) | "column" (in-line splice → later columns on the same line shift)
	What   string   `json:"what"`
}

func runStale(p *Program, c *Collector, s StaleSpec) {
	ed, dr := p.Func(s.Editor), p.Func(s.Driver)
	if ed == nil || dr == nil {
		c.Anchor(s.Props, "E7: stale coordinates: %s / %s does not resolve", s.Editor, s.Driver)
		return
	}
	key := "stale:" + s.Driver + " -> " + shortFn(s.Editor)
	// call sites of the editor inside loops of the driver
	found := false
	for _, b := range dr.Blocks {
		for _, in := range b.Instrs {
			call, ok := in.(*ssa.Call)
			if !ok || call.Call.StaticCallee() != ed {
				continue
			}
			region := loopRegion(dr, b)
			if region == nil {
				continue
			}
			found = true
			// a loop-carried correction: some argument depends on a header phi of the loop that is updated in the loop
			// by a non-index step (removedErrorCount++), i.e. a phi other than the range index
			carried := false
			for _, a := range call.Call.Args {
				if dependsOnCarriedPhi(a, region, map[ssa.Value]bool{}) {
					carried = true
				}
			}
			if carried {
				c.Ob(s.Props, "E7.stale-coordinates", key, Discharged, s.What+": the coordinate passed to the editor is corrected by a loop-carried delta", p.InstrPos(in), true)
			} else {
				c.Ob(s.Props, "E7.stale-coordinates", key, Violated, s.What+": every iteration re-reads the file that the previous iteration rewrote but uses coordinates computed before the first edit, without a delta and without ordering the edits ("+s.Mode+" coordinates of later sites are stale)", p.InstrPos(in), false)
			}
		}
	}
	if !found {
		c.Ob(s.Props, "E7.stale-coordinates", key, Undecided, s.What+": no call of the editor inside a loop of the driver (anchor lost)", p.FuncPos(dr), false)
	}
}

func dependsOnCarriedPhi(v ssa.Value, region map[*ssa.BasicBlock]bool, seen map[ssa.Value]bool) bool {
	if v == nil || seen[v] {
		return false
	}
	seen[v] = true
	if phi, ok := v.(*ssa.Phi); ok && region[phi.Block()] {
		// any header phi reached through arithmetic counts — also the index of a range loop, `line-(i+1)`; a phi that only
		// selects the element (xs[i]) is never reached: the index operand of an element access is not followed below
		return true
	}
	if in, ok := v.(ssa.Instruction); ok {
		if _, isPhi := v.(*ssa.Phi); isPhi {
			return false
		}
		switch x := in.(type) {
		case *ssa.IndexAddr:
			return dependsOnCarriedPhi(x.X, region, seen)
		case *ssa.Index:
			return dependsOnCarriedPhi(x.X, region, seen)
		case *ssa.Lookup:
			return dependsOnCarriedPhi(x.X, region, seen)
		}
		var ops []*ssa.Value
		ops = in.Operands(ops)
		for _, o := range ops {
			if dependsOnCarriedPhi(*o, region, seen) {
				return true
			}
		}
	}
	return false
}

// ---------------------------------------------------------------------------------------------
// frame: read - split - edit - join - write of one file

type FrameSpec struct {
	Props   []string `json:"props"`
	Func    string   `json:"func"`
	What    string   `json:"what"`
	LineSep string   `json:"line_sep"` // the line index used for the edit counts this separator (the lexer's line numbers count "\n")
}

func runFrame(p *Program, c *Collector, f FrameSpec) {
	fn := p.Func(f.Func)
	if fn == nil {
		c.Anchor(f.Props, "E7: frame: %s does not resolve", f.Func)
		return
	}
	sf := newSymFn(p, fn, 0)
	var readPath, writePath, splitSep, joinSep *Sym
	var writeMode *Sym
	var pos string
	nRead, nWrite, nSplit, nJoin := 0, 0, 0, 0
	for _, b := range fn.Blocks {
		for _, in := range b.Instrs {
			call, ok := in.(*ssa.Call)
			if !ok || call.Call.StaticCallee() == nil {
				continue
			}
			switch fullFuncName(call.Call.StaticCallee()) {
			case "io/ioutil.ReadFile", "os.ReadFile":
				readPath = sf.val(call.Call.Args[0])
				nRead++
			case "io/ioutil.WriteFile", "os.WriteFile":
				writePath = sf.val(call.Call.Args[0])
				writeMode = sf.val(call.Call.Args[2])
				pos = p.InstrPos(in)
				nWrite++
			case "strings.Split":
				splitSep = sf.val(call.Call.Args[1])
				nSplit++
			case "strings.Join":
				joinSep = sf.val(call.Call.Args[1])
				nJoin++
			}
		}
	}
	key := "frame:" + f.Func
	if nRead != 1 || nWrite != 1 || nSplit != 1 || nJoin != 1 {
		c.Ob(f.Props, "E7.frame", key, Undecided, fmt.Sprintf("%s: the rewrite is not in the recognised read–split–edit–join–write form (ReadFile×%d Split×%d Join×%d WriteFile×%d); bytes outside the edited lines cannot be shown to be preserved", f.What, nRead, nSplit, nJoin, nWrite), p.FuncPos(fn), false)
		return
	}
	if readPath.String() != writePath.String() {
		c.Ob(f.Props, "E7.frame", key+" path", Violated, f.What+": the file written ("+writePath.String()+") is not the file read ("+readPath.String()+")", pos, false)
	} else {
		c.Ob(f.Props, "E7.frame", key+" path", Discharged, "the file written is the file read", pos, true)
	}
	if splitSep.String() != joinSep.String() {
		c.Ob(f.Props, "E7.frame", key+" separator", Violated, f.What+": lines are split on "+splitSep.String()+" and joined with "+joinSep.String()+": every line end of the file changes", pos, false)
	} else {
		c.Ob(f.Props, "E7.frame", key+" separator", Discharged, "split and join use the same separator "+splitSep.String(), pos, true)
	}
	if f.LineSep != "" {
		if splitSep.Op == "const" && splitSep.C != nil && splitSep.C.Kind() == constant.String && constant.StringVal(splitSep.C) == f.LineSep {
			c.Ob(f.Props, "E7.frame", key+" line unit", Discharged, fmt.Sprintf("lines are cut at %q, the unit the line numbers of the model count", f.LineSep), pos, true)
		} else {
			c.Ob(f.Props, "E7.frame", key+" line unit", Violated, fmt.Sprintf("%s: the file is cut at %s, but the line numbers it is edited by come from the lexer, which counts a line at every %q: in a file with mixed line ends another line is edited", f.What, clip(splitSep.String(), 80), f.LineSep), pos, false)
		}
	}
	_ = writeMode
}

// ---------------------------------------------------------------------------------------------
// classifier anchoring

type AnchorSpec struct {
	Props   []string `json:"props"`
	Func    string   `json:"func"`    // the line classifier
	Regexps []string `json:"regexps"` // rel/pkg.var used to decide the class of a whole line
	What    string   `json:"what"`
}

func runAnchoring(p *Program, c *Collector, a AnchorSpec) {
	fn := p.Func(a.Func)
	if fn == nil {
		c.Anchor(a.Props, "E7: anchoring: %s does not resolve", a.Func)
		return
	}
	an := &shapeAn{p: p}
	used := map[string]bool{}
	for _, b := range fn.Blocks {
		for _, in := range b.Instrs {
			if call, ok := in.(*ssa.Call); ok && call.Call.StaticCallee() != nil {
				n := fullFuncName(call.Call.StaticCallee())
				if n == "regexp.(Regexp).MatchString" || n == "regexp.(Regexp).FindAllString" || n == "regexp.(Regexp).FindStringSubmatch" || n == "regexp.(Regexp).FindString" {
					if g := loadedGlobal(call.Call.Args[0]); g != nil {
						used[p.GlobalKey(g)] = true
					}
				}
			}
		}
	}
	for _, rk := range a.Regexps {
		key := "anchor:" + rk
		g := p.Global(rk)
		if g == nil {
			c.Anchor(a.Props, "E7: anchoring: %s does not resolve", rk)
			continue
		}
		if !used[rk] {
			c.Ob(a.Props, "E7.classifier-anchoring", key, Undecided, a.What+": "+rk+" is no longer used to classify lines in "+shortFn(a.Func)+" (anchor lost)", p.Pos(g.Pos()), false)
			continue
		}
		pat, ok := an.regexpPattern(&Sym{Op: "global", Name: rk})
		if !ok {
			c.Ob(a.Props, "E7.classifier-anchoring", key, Undecided, a.What+": pattern of "+rk+" is not a constant", p.Pos(g.Pos()), false)
			continue
		}
		rx, err := syntax.Parse(pat, syntax.Perl)
		if err != nil {
			c.Ob(a.Props, "E7.classifier-anchoring", key, Violated, "pattern does not parse: "+err.Error(), p.Pos(g.Pos()), false)
			continue
		}
		rx = rx.Simplify()
		anchored := false
		first := rx
		for first.Op == syntax.OpConcat && len(first.Sub) > 0 {
			first = first.Sub[0]
		}
		if first.Op == syntax.OpBeginText || first.Op == syntax.OpBeginLine {
			anchored = true
		}
		if anchored {
			c.Ob(a.Props, "E7.classifier-anchoring", key, Discharged, "pattern is anchored at the start of the line", p.Pos(g.Pos()), true)
		} else {
			c.Ob(a.Props, "E7.classifier-anchoring", key, Violated, a.What+": `"+pat+"` is not anchored at the start of the line, so free text in another kind of line (subject, author, path) that embeds a match is misclassified", p.Pos(g.Pos()), false)
		}
	}
}

// ---------------------------------------------------------------------------------------------
// token tables: integer literals compared with GetTokenType() must equal the generated lexer constants

type TokenTblSpec struct {
	Props  []string `json:"props"`
	Func   string   `json:"func"`
	Callee string   `json:"callee"` // call that is guarded by the token-type test
	Consts []string `json:"consts"` // "rel/pkg.ConstName"
	What   string   `json:"what"`
}

func runTokenTable(p *Program, c *Collector, t TokenTblSpec) {
	fn := p.Func(t.Func)
	if fn == nil {
		c.Anchor(t.Props, "E7: token table: %s does not resolve", t.Func)
		return
	}
	var wantVals []int64
	for _, ck := range t.Consts {
		i := strings.LastIndex(ck, ".")
		pk := p.ByPath[joinMod(ck[:i])]
		if pk == nil {
			c.Anchor(t.Props, "E7: token table: package of %s does not resolve", ck)
			return
		}
		obj, _ := pk.Types.Scope().Lookup(ck[i+1:]).(*types.Const)
		if obj == nil {
			c.Anchor(t.Props, "E7: token table: constant %s does not resolve", ck)
			return
		}
		v, _ := constant.Int64Val(obj.Val())
		wantVals = append(wantVals, v)
	}
	sf := newSymFn(p, fn, 0)
	key := "tokentable:" + t.Func
	for _, b := range fn.Blocks {
		for _, in := range b.Instrs {
			call, ok := in.(*ssa.Call)
			if !ok || call.Call.StaticCallee() == nil || p.FuncKey(call.Call.StaticCallee()) != t.Callee {
				continue
			}
			got := sf.pathCond(b)
			// the token whose type is tested: find the invoke:GetTokenType term
			var tt *Sym
			got.walk(func(x *Sym) {
				if n, ok := invokeName(x); ok && n == "GetTokenType" && tt == nil {
					tt = x
				}
			})
			if tt == nil {
				c.Ob(t.Props, "E7.token-table", key, Undecided, t.What+": the call is not guarded by a GetTokenType() test", p.InstrPos(in), false)
				return
			}
			want := sBool(false)
			for _, v := range wantVals {
				want = sOr(want, sBin("==", tt, sInt(v)))
			}
			// the question is asked per token: what held when the innermost loop around the call was entered (the file could
			// be opened, …) is context on both sides
			var inner map[*ssa.BasicBlock]bool
			for _, loop := range naturalLoops(fn) {
				if loop[b] && (inner == nil || len(loop) < len(inner)) {
					inner = loop
				}
			}
			if inner != nil {
				ctx := sf.pathCond(loopHeader(inner))
				// the only thing that may keep a file's tokens from being looked at is that the file cannot be read: a condition
				// on anything else (its content, its name) skips files
				var other *Sym
				var atoms func(x *Sym)
				atoms = func(x *Sym) {
					if x == nil || other != nil {
						return
					}
					if x.Op == "not" || (x.Op == "bin" && (x.Name == "&&" || x.Name == "||")) {
						for _, k := range x.Kids {
							atoms(k)
						}
						return
					}
					if x.Op == "const" {
						return
					}
					if x.Op == "call" && x.Name == "isnil" && len(x.Kids) == 1 && strings.Contains(x.Kids[0].String(), "extract1(") {
						return
					}
					if x.Op == "bin" && (x.Name == "!=" || x.Name == "==") && len(x.Kids) == 2 {
						a, b := x.Kids[0].String(), x.Kids[1].String()
						if (strings.HasPrefix(a, "call:extract1(") && b == "nil") || (strings.HasPrefix(b, "call:extract1(") && a == "nil") {
							return
						}
					}
					other = x
				}
				atoms(ctx)
				if other != nil {
					c.Ob(t.Props, "E7.token-table", key, Violated, fmt.Sprintf("%s: the tokens of a file are looked at only under %s: files are skipped for a reason other than that they cannot be read", t.What, clip(other.String(), 160)), p.InstrPos(in), false)
					return
				}
				want = sAnd(ctx, want)
			}
			res := compareSyms(got, want, "bool")
			if res.Equal {
				c.Ob(t.Props, "E7.token-table", key, Discharged, fmt.Sprintf("%s: the guard accepts exactly the generated constants %v", t.What, wantVals), p.InstrPos(in), true)
			} else {
				c.Ob(t.Props, "E7.token-table", key, Violated, fmt.Sprintf("%s: guard and generated constants %v differ at [%s]: code %s, table %s", t.What, wantVals, res.Witness, res.Left, res.Right), p.InstrPos(in), false)
			}
			return
		}
	}
	c.Ob(t.Props, "E7.token-table", key, Undecided, t.What+": no call of "+shortFn(t.Callee)+" found", p.FuncPos(fn), false)
}

// ---------------------------------------------------------------------------------------------
// constant argument lists (the git invocation)

type ConstArgSpec struct {
	Props  []string `json:"props"`
	Func   string   `json:"func"`
	Callee string   `json:"callee"` // full name, e.g. os/exec.Command
	Want   []string `json:"want"`   // all string arguments, in order (fixed + variadic)
	What   string   `json:"what"`
}

func runConstArgs(p *Program, c *Collector, ca ConstArgSpec) {
	fn := p.Func(ca.Func)
	if fn == nil {
		c.Anchor(ca.Props, "E7: const args: %s does not resolve", ca.Func)
		return
	}
	sf := newSymFn(p, fn, 0)
	key := "constargs:" + ca.Func + " " + ca.Callee
	for _, b := range fn.Blocks {
		for _, in := range b.Instrs {
			call, ok := in.(*ssa.Call)
			if !ok || call.Call.StaticCallee() == nil || fullFuncName(call.Call.StaticCallee()) != ca.Callee {
				continue
			}
			var got []string
			okAll := true
			for _, a := range call.Call.Args {
				s := sf.val(a)
				if s.Op == "array" {
					for _, k := range s.Kids {
						if str, ok := symStr(k); ok {
							got = append(got, str)
						} else {
							okAll = false
						}
					}
					continue
				}
				if str, ok := symStr(s); ok {
					got = append(got, str)
				} else {
					okAll = false
				}
			}
			if !okAll {
				c.Ob(ca.Props, "E7.const-args", key, Undecided, ca.What+": an argument is not a constant", p.InstrPos(in), false)
				return
			}
			if strings.Join(got, "\x00") == strings.Join(ca.Want, "\x00") {
				c.Ob(ca.Props, "E7.const-args", key, Discharged, fmt.Sprintf("%s: arguments are %q", ca.What, got), p.InstrPos(in), true)
			} else {
				c.Ob(ca.Props, "E7.const-args", key, Violated, fmt.Sprintf("%s: arguments are %q, the parser expects the output of %q", ca.What, got, ca.Want), p.InstrPos(in), false)
			}
			return
		}
	}
	c.Ob(ca.Props, "E7.const-args", key, Undecided, ca.What+": no call of "+ca.Callee, p.FuncPos(fn), false)
}

// ---------------------------------------------------------------------------------------------
// pointer aliasing: the address of a variable that is overwritten on a later activation is stored in a container

func runAliasing(p *Program, c *Collector, a FuncRuleSpec) {
	n := 0
	for _, fn := range expandFuncs(p, c, a.Funcs, a.Props...) {
		for _, b := range fn.Blocks {
			for _, in := range b.Instrs {
				var stored ssa.Value
				what := ""
				switch x := in.(type) {
				case *ssa.MapUpdate:
					stored, what = x.Value, "map"
				case *ssa.Store:
					// element of a slice / field of a heap object
					if _, isIdx := x.Addr.(*ssa.IndexAddr); isIdx {
						stored, what = x.Val, "slice element"
					}
				case *ssa.Call:
					if b, ok := x.Call.Value.(*ssa.Builtin); ok && b.Name() == "append" && len(x.Call.Args) == 2 {
						// appended values live in the varargs array: stores into it are caught by the Store case
					}
				}
				if stored == nil {
					continue
				}
				cell := addressedCell(stored)
				if cell == nil {
					continue
				}
				if _, isFree := cell.(*ssa.FreeVar); !isFree {
					reg := loopRegion(fn, b)
					al, isAl := cell.(*ssa.Alloc)
					if reg == nil || (isAl && reg[al.Block()]) {
						continue // stored once per allocation
					}
				}
				// is the cell assigned as a whole somewhere that can run again after this store?
				n++
				key := fmt.Sprintf("alias:%s &%s stored in %s", p.FuncKey(fn), cellName(cell), what)
				if w := rewrittenLater(cell, fn); w != nil {
					c.Ob(a.Props, "E7.pointer-aliasing", key, Violated, a.What+": the address of "+cellName(cell)+" is stored in a "+what+", and the variable is overwritten on a later activation ("+p.InstrPos(w)+"): every stored pointer then shows the last value", p.InstrPos(in), false)
				} else {
					c.Ob(a.Props, "E7.pointer-aliasing", key, Discharged, "the variable is not reassigned after its address is stored", p.InstrPos(in), true)
				}
			}
		}
	}
	n += runSharedMaps(p, c, a)
	runPresizedHoles(p, c, a)
	runDoubleRegistration(p, c, a)
	if n == 0 {
		c.Ob(a.Props, "E7.pointer-aliasing", "alias:"+strings.Join(a.Funcs, ","), Discharged, a.What+": no address of a variable is stored in a container", "", true)
	}
}

// runSharedMaps: a map made outside a loop and put into a record that is registered in a container inside the loop is shared
// by all records of that loop; if the code base ever updates a map reached through that field, the records' histories merge.
func runSharedMaps(p *Program, c *Collector, a FuncRuleSpec) int {
	n := 0
	for _, fn := range expandFuncs(p, c, a.Funcs, a.Props...) {
		for _, b := range fn.Blocks {
			for _, in := range b.Instrs {
				mm, ok := in.(*ssa.MakeMap)
				if !ok {
					continue
				}
				refs := mm.Referrers()
				if refs == nil {
					continue
				}
				// where does the map go? direct container stores, or a field of a local record that is then stored by value
				type sink struct {
					at    ssa.Instruction
					field string
				}
				var sinks []sink
				for _, r := range *refs {
					switch u := r.(type) {
					case *ssa.MapUpdate:
						if u.Value == ssa.Value(mm) {
							sinks = append(sinks, sink{u, ""})
						}
					case *ssa.Store:
						if u.Val != ssa.Value(mm) {
							continue
						}
						if _, isIdx := u.Addr.(*ssa.IndexAddr); isIdx {
							sinks = append(sinks, sink{u, ""})
							continue
						}
						fa, ok := u.Addr.(*ssa.FieldAddr)
						if !ok {
							continue
						}
						al, ok := fa.X.(*ssa.Alloc)
						if !ok {
							continue
						}
						fname, _ := fieldOf(fa.X.Type(), fa.Field)
						st := al.Type().Underlying().(*types.Pointer).Elem()
						_, tn := namedTypeName(st)
						// the record is stored by value: loads of the alloc flowing into a container
						for _, r2 := range *al.Referrers() {
							ld, ok := r2.(*ssa.UnOp)
							if !ok || ld.Op != token.MUL {
								continue
							}
							for _, r3 := range *ld.Referrers() {
								switch u3 := r3.(type) {
								case *ssa.MapUpdate:
									if u3.Value == ssa.Value(ld) {
										sinks = append(sinks, sink{u3, tn + "." + fname})
									}
								case *ssa.Store:
									if _, isIdx := u3.Addr.(*ssa.IndexAddr); isIdx && u3.Val == ssa.Value(ld) {
										sinks = append(sinks, sink{u3, tn + "." + fname})
									}
								}
							}
						}
					}
				}
				for _, sk := range sinks {
					reg := loopRegion(fn, sk.at.Block())
					if reg == nil || reg[mm.Block()] {
						continue // one map per stored record
					}
					n++
					key := fmt.Sprintf("sharedmap:%s map made at loop depth above its record %s", p.FuncKey(fn), sk.field)
					if w := mapFieldUpdated(p, sk.field); w != "" || sk.field == "" {
						c.Ob(a.Props, "E7.pointer-aliasing", key, Violated, a.What+": one map ("+p.InstrPos(mm)+") is put into every record stored by the loop at "+p.InstrPos(sk.at)+"; "+
							map[bool]string{true: "the map is updated through that field at " + w, false: "records share it"}[w != ""]+", so an update meant for one record shows in all of them", p.InstrPos(sk.at), false)
					} else {
						c.Ob(a.Props, "E7.pointer-aliasing", key, Discharged, "the shared map is never updated through "+sk.field, p.InstrPos(sk.at), true)
					}
				}
			}
		}
	}
	return n
}

// mapFieldUpdated: some own function updates a map obtained from field T.F (x.F[k] = v).
func mapFieldUpdated(p *Program, field string) string {
	if field == "" {
		return ""
	}
	for _, fn := range p.OwnFuncs {
		for _, b := range fn.Blocks {
			for _, in := range b.Instrs {
				mu, ok := in.(*ssa.MapUpdate)
				if !ok {
					continue
				}
				var base ssa.Value
				var idx int
				switch m := mu.Map.(type) {
				case *ssa.Field:
					base, idx = m.X, m.Field
				case *ssa.UnOp:
					if fa, ok := m.X.(*ssa.FieldAddr); ok && m.Op == token.MUL {
						base, idx = fa.X, fa.Field
					}
				}
				if base == nil {
					continue
				}
				fname, _ := fieldOf(base.Type(), idx)
				t := base.Type()
				if pt, ok := t.Underlying().(*types.Pointer); ok {
					t = pt.Elem()
				}
				_, tn := namedTypeName(t)
				if tn+"."+fname == field {
					return p.InstrPos(mu)
				}
			}
		}
	}
	return ""
}

func addressedCell(v ssa.Value) ssa.Value {
	switch x := v.(type) {
	case *ssa.Alloc:
		if _, isStruct := x.Type().Underlying().(*types.Pointer).Elem().Underlying().(*types.Struct); isStruct {
			return x
		}
	case *ssa.FreeVar:
		if pt, ok := x.Type().Underlying().(*types.Pointer); ok {
			if _, isStruct := pt.Elem().Underlying().(*types.Struct); isStruct {
				return x
			}
		}
	}
	return nil
}

func cellName(v ssa.Value) string {
	switch x := v.(type) {
	case *ssa.Alloc:
		if x.Comment != "" {
			return x.Comment
		}
	case *ssa.FreeVar:
		return x.Name()
	}
	return v.Name()
}

// rewrittenLater: a whole-variable store to the cell in fn (closure body runs once per node) or, for an Alloc made
// before a loop, a (whole or field) store inside the loop.
func rewrittenLater(cell ssa.Value, fn *ssa.Function) ssa.Instruction {
	refs := cell.Referrers()
	if refs == nil {
		return nil
	}
	if al, ok := cell.(*ssa.Alloc); ok {
		for _, r := range *refs {
			if fa, ok := r.(*ssa.FieldAddr); ok {
				for _, r2 := range *fa.Referrers() {
					if st, ok := r2.(*ssa.Store); ok && st.Addr == ssa.Value(fa) {
						// a store inside a loop that does not contain the allocation
						if reg := loopRegion(fn, st.Block()); reg != nil && !reg[al.Block()] {
							return st
						}
					}
				}
			}
		}
	}
	for _, r := range *refs {
		st, ok := r.(*ssa.Store)
		if !ok || st.Addr != cell {
			continue
		}
		if _, isFree := cell.(*ssa.FreeVar); isFree {
			return st // the closure is invoked repeatedly by its caller (ast.Inspect, Walk …)
		}
		if reg := loopRegion(fn, st.Block()); reg != nil {
			if al, ok := cell.(*ssa.Alloc); ok && !reg[al.Block()] {
				return st
			}
		}
	}
	return nil
}

// ---------------------------------------------------------------------------------------------
// DOT quoting

func runDotQuoting(p *Program, c *Collector, d FuncRuleSpec) {
	listed := expandFuncs(p, c, d.Funcs, d.Props...)
	isListed := map[*ssa.Function]bool{}
	for _, fn := range listed {
		isListed[fn] = true
	}
	var scan func(fn *ssa.Function, follow bool) int
	scan = func(fn *ssa.Function, follow bool) int {
		sf := newSymFn(p, fn, 0)
		seen := map[string]bool{}
		n := 0
		for _, b := range fn.Blocks {
			for _, in := range b.Instrs {
				bo, ok := in.(*ssa.BinOp)
				if !ok || bo.Op != token.ADD {
					continue
				}
				if bt, ok := bo.Type().Underlying().(*types.Basic); !ok || bt.Info()&types.IsString == 0 {
					continue
				}
				// only maximal concatenations
				isOperand := false
				if refs := bo.Referrers(); refs != nil {
					for _, r := range *refs {
						if b2, ok := r.(*ssa.BinOp); ok && b2.Op == token.ADD {
							isOperand = true
						}
					}
				}
				if isOperand {
					continue
				}
				t := sf.val(bo)
				var parts []*Sym
				flattenSymConcat(t, &parts)
				quoted := false
				for _, pt := range parts {
					if s, ok := symStr(pt); ok && strings.Contains(s, "\"") {
						quoted = true
					}
				}
				if !quoted {
					continue
				}
				// between an opening and a closing quote every non-constant operand must be escaped
				inQuote := false
				for _, pt := range parts {
					if s, ok := symStr(pt); ok {
						for _, ch := range s {
							if ch == '"' {
								inQuote = !inQuote
							}
						}
						continue
					}
					if !inQuote {
						continue
					}
					name := clip(pt.String(), 120)
					key := "dotquote:" + p.FuncKey(fn) + " " + name
					if seen[key] {
						continue
					}
					seen[key] = true
					n++
					if okE, wit, decided := escapeSafe(pt); decided && okE {
						c.Ob(d.Props, "E7.dot-quoting", key, Discharged, "operand passes through an escaping that keeps every sample (quotes, backslashes, both) inside the quoted string", p.InstrPos(in), true)
					} else if decided {
						c.Ob(d.Props, "E7.dot-quoting", key, Violated, d.What+": "+name+" is spliced between double quotes, and its escaping turns "+wit+": the quoted string ends early or never ends (malformed DOT)", p.InstrPos(in), false)
					} else if isEscaped(pt) {
						c.Ob(d.Props, "E7.dot-quoting", key, Discharged, "operand passes through quote escaping before it is spliced between quotes", p.InstrPos(in), true)
					} else {
						c.Ob(d.Props, "E7.dot-quoting", key, Violated, d.What+": "+name+" is spliced between double quotes without escaping: a name containing a quote yields malformed DOT", p.InstrPos(in), false)
					}
				}
			}
		}
		if n == 0 && follow {
			// the line may be put together in a helper of the same package (dotEdge): look one call down
			done := map[*ssa.Function]bool{}
			for _, b := range fn.Blocks {
				for _, in := range b.Instrs {
					if call, ok := in.(ssa.CallInstruction); ok {
						for _, callee := range p.ownCallees(call) {
							if !done[callee] && !isListed[callee] && callee.Pkg == fn.Pkg && callee != fn {
								done[callee] = true
								n += scan(callee, false)
							}
						}
					}
				}
			}
		}
		return n
	}
	for _, fn := range listed {
		if scan(fn, true) == 0 {
			c.Ob(d.Props, "E7.dot-quoting", "dotquote:"+p.FuncKey(fn), Undecided, d.What+": no quoted splice found in "+shortFn(p.FuncKey(fn))+" (anchor lost)", p.FuncPos(fn), false)
		}
	}
}

func flattenSymConcat(t *Sym, out *[]*Sym) {
	if t.Op == "bin" && t.Name == "+" {
		flattenSymConcat(t.Kids[0], out)
		flattenSymConcat(t.Kids[1], out)
		return
	}
	*out = append(*out, t)
}

// isEscaped: strings.ReplaceAll(x, "\"", "\\\"") (possibly through an inlined helper)
// dotSafe: spliced between two double quotes, does the text stay one DOT string? (a backslash escapes the next character)
func dotSafe(out string) bool {
	for i := 0; i < len(out); i++ {
		switch out[i] {
		case '\\':
			if i+1 >= len(out) {
				return false // would escape the closing quote
			}
			i++
		case '"':
			return false
		}
	}
	return true
}

// escapeSafe evaluates the operand as a function of its single string-valued base term on samples containing quotes and
// backslashes. decided=false when the operand is not such a function.
func escapeSafe(t *Sym) (ok bool, witness string, decided bool) {
	ev := &evaluator{e: env{}, missing: map[string]string{}, kinds: map[string]string{}}
	ev.eval(t, "string")
	if len(ev.missing) != 1 {
		return false, "", false
	}
	var key string
	for k, h := range ev.missing {
		if h != "string" && h != "" {
			return false, "", false
		}
		key = k
	}
	// the operand must transform its input at all (a bare name is "not escaped", reported by the caller)
	if t.String() == key {
		return false, "", false
	}
	for _, sample := range []string{"ab", "a\"b", "\\", "a\\", "\\\"", "\"\\\"\"", "say \"hi\\\""} {
		e := env{key: val{k: 's', s: sample}}
		ev2 := &evaluator{e: e, missing: map[string]string{}, kinds: map[string]string{key: "string"}}
		out := ev2.eval(t, "string")
		if out.k != 's' || len(ev2.missing) > 0 {
			return false, "", false
		}
		if !dotSafe(out.s) {
			return false, fmt.Sprintf("%q into %q", sample, out.s), true
		}
	}
	return true, "", true
}

func isEscaped(t *Sym) bool {
	if t.Op == "pred" && t.Name == "replaceAll" && len(t.Kids) == 3 {
		from, ok1 := symStr(t.Kids[1])
		to, ok2 := symStr(t.Kids[2])
		if ok1 && ok2 && from == "\"" && !strings.Contains(strings.ReplaceAll(to, "\\\"", ""), "\"") {
			return true
		}
	}
	return false
}

// ---------------------------------------------------------------------------------------------
// de-duplication keys: `if seen[K] { continue }; seen[K] = true; use(V)` — K must determine V

func runDedupe(p *Program, c *Collector, d FuncRuleSpec) {
	for _, fn := range expandFuncs(p, c, d.Funcs, d.Props...) {
		sf := newSymFn(p, fn, 0)
		for _, b := range fn.Blocks {
			for _, in := range b.Instrs {
				mu, ok := in.(*ssa.MapUpdate)
				if !ok {
					continue
				}
				// a set insertion: constant value, map made in this function, in a loop, and the same map is looked up with
				// the same key to skip the iteration
				// (the value of the entry is a constant, or a position that says where the first record with the key was put)
				if _, isC := mu.Value.(*ssa.Const); !isC {
					if b, ok := mu.Value.Type().Underlying().(*types.Basic); !ok || b.Info()&types.IsInteger == 0 {
						continue
					}
				}
				if _, isLocal := mu.Map.(*ssa.MakeMap); !isLocal {
					continue
				}
				region := loopRegion(fn, b)
				if region == nil {
					continue
				}
				guarded := false
				for rb := range region {
					for _, i2 := range rb.Instrs {
						if lk, ok := i2.(*ssa.Lookup); ok && lk.X == mu.Map {
							if sf.val(lk.Index).String() == sf.val(mu.Key).String() {
								guarded = true
							}
						}
					}
				}
				if !guarded {
					continue
				}
				key := sf.val(mu.Key)
				// values emitted in the same iteration (appends / map stores of non-constants) after the insertion
				keyAtoms := symAtoms(key)
				type kept struct {
					elem  *Sym
					block *ssa.BasicBlock
				}
				var keeps []kept
				for _, e := range sf.emissions() {
					if e.target == "mapstore:"+sf.val(mu.Map).String() {
						continue
					}
					keeps = append(keeps, kept{e.elem, e.block})
				}
				// appends to local slices are SSA values, not stores
				for rb := range region {
					for _, i2 := range rb.Instrs {
						if ap, ok := isBuiltinCall(i2, "append"); ok {
							v := sf.val(ap)
							if v.Op == "append" {
								for _, k := range v.Kids[1:] {
									keeps = append(keeps, kept{k, rb})
								}
							}
						}
					}
				}
				for _, e := range keeps {
					if !region[e.block] || e.block == nil {
						continue
					}
					valAtoms := symAtoms(e.elem)
					missing := ""
					for a := range valAtoms {
						if !keyAtoms[a] {
							missing = a
						}
					}
					ck := "dedupe:" + p.FuncKey(fn) + " key " + clip(key.String(), 100)
					if missing != "" {
						c.Ob(d.Props, "E7.dedupe-key", ck, Violated, d.What+": elements are skipped when "+clip(key.String(), 120)+" was seen before, but the value kept ("+clip(e.elem.String(), 120)+") also depends on "+missing+": two different values with the same key are merged and one is lost", p.InstrPos(in), false)
					} else {
						c.Ob(d.Props, "E7.dedupe-key", ck, Discharged, "the de-duplication key determines the kept value", p.InstrPos(in), true)
					}
				}
			}
		}
	}
}

// symAtoms: field paths rooted at element variables / parameters that a term reads.
func symAtoms(t *Sym) map[string]bool {
	out := map[string]bool{}
	var walk func(x *Sym)
	walk = func(x *Sym) {
		switch x.Op {
		case "field":
			root := x
			for root.Op == "field" {
				root = root.Kids[0]
			}
			if root.Op == "elem" || root.Op == "param" {
				out[x.String()] = true
				return
			}
		case "elem", "param":
			out[x.String()] = true
			return
		}
		for _, k := range x.Kids {
			walk(k)
		}
	}
	walk(t)
	return out
}

// ---------------------------------------------------------------------------------------------
// deletion while iterating by index: x = append(x[:i], x[i+1:]...) inside `for i := 0; i < len(x); i++` must step i back

func runDeleteIter(p *Program, c *Collector, d FuncRuleSpec) {
	for _, fn := range expandFuncs(p, c, d.Funcs, d.Props...) {
		for _, b := range fn.Blocks {
			for _, in := range b.Instrs {
				call, ok := isBuiltinCall(in, "append")
				if !ok || len(call.Call.Args) != 2 {
					continue
				}
				s1, ok1 := call.Call.Args[0].(*ssa.Slice)
				s2, ok2 := call.Call.Args[1].(*ssa.Slice)
				if !ok1 || !ok2 || s1.High == nil || s2.Low == nil {
					continue
				}
				// x[:i] and x[i+1:]
				bo, ok := s2.Low.(*ssa.BinOp)
				if !ok || bo.Op != token.ADD || bo.X != s1.High {
					continue
				}
				if k, ok := constInt(bo.Y); !ok || k != 1 {
					continue
				}
				region := loopRegion(fn, b)
				if region == nil {
					continue
				}
				idx := s1.High
				phi, isPhi := idx.(*ssa.Phi)
				key := "deleteiter:" + p.FuncKey(fn)
				if !isPhi || !region[phi.Block()] {
					continue
				}
				// after the deletion the index must not advance: look for phi edge = idx (unchanged) or idx-1+1 on the path
				// from this block; simplest sound test: the block of the deletion must not reach the increment idx+1
				// without passing a decrement.
				adv := false
				for i, e := range phi.Edges {
					pred := phi.Block().Preds[i]
					if !region[pred] {
						continue
					}
					if inc, ok := e.(*ssa.BinOp); ok && inc.Op == token.ADD && inc.X == ssa.Value(phi) {
						if reaches(b, pred) {
							adv = true
						}
					}
				}
				// loops that break/return right after the deletion are fine
				leaves := true
				for _, s := range b.Succs {
					if region[s] {
						leaves = false
					}
				}
				if adv && !leaves {
					c.Ob(d.Props, "E7.delete-while-iterating", key, Violated, d.What+": an element is removed at index i and the loop then advances to i+1, so the element that moved into position i is never examined (every second of adjacent matches survives)", p.InstrPos(in), false)
				} else {
					c.Ob(d.Props, "E7.delete-while-iterating", key, Discharged, "the index is not advanced past the element that moved into the freed position", p.InstrPos(in), true)
				}
			}
		}
	}
}

// ---------------------------------------------------------------------------------------------
// JSON-serialisable closure of the result types

type JSONSpec struct {
	Props []string `json:"props"`
	Types []string `json:"types"` // rel/pkg.Type
	What  string   `json:"what"`
}

func runJSONClosure(p *Program, c *Collector, j JSONSpec) {
	for _, tk := range j.Types {
		pr, tn := splitTypeKey(tk)
		pk := p.ByPath[joinMod(pr)]
		if pk == nil || pk.Types.Scope().Lookup(tn) == nil {
			c.Anchor(j.Props, "E7: json closure: %s does not resolve", tk)
			continue
		}
		t := pk.Types.Scope().Lookup(tn).Type()
		seen := map[types.Type]bool{}
		var bad []string
		var ifaceFields []string
		var walk func(t types.Type, path string)
		walk = func(t types.Type, path string) {
			if seen[t] {
				return
			}
			seen[t] = true
			switch u := t.Underlying().(type) {
			case *types.Chan:
				bad = append(bad, path+" is a channel")
			case *types.Signature:
				bad = append(bad, path+" is a function")
			case *types.Basic:
				if u.Info()&types.IsComplex != 0 {
					bad = append(bad, path+" is complex")
				}
				if u.Kind() == types.UnsafePointer {
					bad = append(bad, path+" is an unsafe pointer")
				}
			case *types.Pointer:
				walk(u.Elem(), path)
			case *types.Slice:
				walk(u.Elem(), path+"[]")
			case *types.Array:
				walk(u.Elem(), path+"[]")
			case *types.Map:
				if kb, ok := u.Key().Underlying().(*types.Basic); !ok || kb.Info()&(types.IsString|types.IsInteger) == 0 {
					bad = append(bad, path+" is a map whose key is neither string nor integer")
				}
				walk(u.Elem(), path+"[k]")
			case *types.Struct:
				for i := 0; i < u.NumFields(); i++ {
					f := u.Field(i)
					if !f.Exported() {
						continue
					}
					walk(f.Type(), path+"."+f.Name())
				}
			case *types.Interface:
				ifaceFields = append(ifaceFields, path)
			}
		}
		walk(t, tn)
		key := "json:" + tk
		if len(bad) > 0 {
			sort.Strings(bad)
			c.Ob(j.Props, "E7.json-closure", key, Violated, j.What+": "+strings.Join(bad, "; ")+" — json.Marshal fails on the result", p.Pos(pk.Types.Scope().Lookup(tn).Pos()), false)
			continue
		}
		// interface-typed fields: every store into them must store a serialisable dynamic type
		okIface := true
		why := ""
		for _, fn := range p.OwnFuncs {
			for _, b := range fn.Blocks {
				for _, in := range b.Instrs {
					st, ok := in.(*ssa.Store)
					if !ok {
						continue
					}
					fa, ok := st.Addr.(*ssa.FieldAddr)
					if !ok {
						continue
					}
					if _, isI := fa.Type().Underlying().(*types.Pointer).Elem().Underlying().(*types.Interface); !isI {
						continue
					}
					ownerPk, ownerN := namedTypeName(fa.X.Type())
					if !seenNamed(seen, ownerPk, ownerN) {
						continue
					}
					if mi, ok := st.Val.(*ssa.MakeInterface); ok {
						switch mi.X.Type().Underlying().(type) {
						case *types.Chan, *types.Signature:
							okIface = false
							why = "a " + mi.X.Type().String() + " is stored in " + ownerN + " at " + p.InstrPos(in)
						}
					}
				}
			}
		}
		if !okIface {
			c.Ob(j.Props, "E7.json-closure", key, Violated, j.What+": "+why, "", false)
		} else {
			c.Ob(j.Props, "E7.json-closure", key, Discharged, fmt.Sprintf("%s: %d types reachable, no channel/function/complex value, map keys are strings or integers, %d interface-typed field(s) only hold serialisable values", j.What, len(seen), len(ifaceFields)), p.Pos(pk.Types.Scope().Lookup(tn).Pos()), true)
		}
	}
}

func seenNamed(seen map[types.Type]bool, pk, n string) bool {
	for t := range seen {
		if p2, n2 := namedTypeName(t); p2 == pk && n2 == n && n != "" {
			return true
		}
	}
	return false
}

// ---------------------------------------------------------------------------------------------
// no recover / log.Fatal / os.Exit inside a pass: one panic aborts the project, so panic-freedom is the right clause,
// and a pass must not terminate the process on a file it cannot handle.

type NoExitSpec struct {
	Props []string `json:"props"`
	Scope string   `json:"scope"` // E2 scope name whose roots are used
	What  string   `json:"what"`
}

func runNoExit(p *Program, sp *Spec, c *Collector, n NoExitSpec) {
	var roots []*ssa.Function
	for _, sc := range sp.Tables.E2 {
		if sc.Name != n.Scope {
			continue
		}
		if sc.Listener != "" {
			pr, tn := splitTypeKey(sc.Listener)
			roots = append(roots, p.methodsDeclaredOn(pr, tn)...)
		}
		for _, f := range sc.Funcs {
			if fn := p.Func(f); fn != nil {
				roots = append(roots, fn)
			}
		}
	}
	key := "noexit:" + n.Scope
	if len(roots) == 0 {
		c.Anchor(n.Props, "E7: no-exit: scope %s has no roots", n.Scope)
		return
	}
	var bad []string
	for fn := range p.reach(roots) {
		for _, b := range fn.Blocks {
			for _, in := range b.Instrs {
				call, ok := in.(ssa.CallInstruction)
				if !ok {
					continue
				}
				if bi, ok := call.Common().Value.(*ssa.Builtin); ok && bi.Name() == "recover" {
					bad = append(bad, "recover in "+shortFn(p.FuncKey(fn)))
				}
				if cal := call.Common().StaticCallee(); cal != nil {
					switch fullFuncName(cal) {
					case "os.Exit", "log.Fatal", "log.Fatalf", "log.Fatalln":
						bad = append(bad, fullFuncName(cal)+" in "+shortFn(p.FuncKey(fn)))
					}
				}
			}
		}
	}
	if len(bad) > 0 {
		sort.Strings(bad)
		c.Ob(n.Props, "E7.no-exit", key, Violated, n.What+": "+strings.Join(dedupStrings(bad), "; "), "", false)
	} else {
		c.Ob(n.Props, "E7.no-exit", key, Discharged, fmt.Sprintf("%s: no recover / os.Exit / log.Fatal among the functions reachable from %d roots", n.What, len(roots)), "", true)
	}
}

// ---------------------------------------------------------------------------------------------
// loop-carried record: an object allocated before a loop, whose fields are assigned only on some paths of an iteration
// and whose value is emitted (copied) in every iteration, carries the fields of the previous element.

func runLoopCarried(p *Program, c *Collector, d FuncRuleSpec) {
	for _, fn := range expandFuncs(p, c, d.Funcs, d.Props...) {
		for _, b := range fn.Blocks {
			for _, in := range b.Instrs {
				al, ok := in.(*ssa.Alloc)
				if !ok {
					continue
				}
				st, isStruct := al.Type().Underlying().(*types.Pointer).Elem().Underlying().(*types.Struct)
				if !isStruct {
					// pointer returned by a constructor call stored in a local: handled through the value below
					continue
				}
				checkCarried(p, c, d, fn, al, st, cellName(al))
			}
			// p := NewX() before the loop (pointer from a call)
			for _, in := range b.Instrs {
				call, ok := in.(*ssa.Call)
				if !ok {
					continue
				}
				pt, ok := call.Type().Underlying().(*types.Pointer)
				if !ok {
					continue
				}
				st, ok := pt.Elem().Underlying().(*types.Struct)
				if !ok {
					continue
				}
				checkCarried(p, c, d, fn, call, st, call.Name())
			}
		}
	}
}

func checkCarried(p *Program, c *Collector, d FuncRuleSpec, fn *ssa.Function, obj ssa.Value, st *types.Struct, name string) {
	refs := obj.Referrers()
	if refs == nil {
		return
	}
	// loops in which the object is read as a whole (*obj) — its value is emitted per iteration
	for _, r := range *refs {
		ld, ok := r.(*ssa.UnOp)
		if !ok || ld.Op != token.MUL || ld.X != obj {
			continue
		}
		region := loopRegion(fn, ld.Block())
		if region == nil {
			continue
		}
		if oi, ok := obj.(ssa.Instruction); ok && region[oi.Block()] {
			continue // created inside the same loop: fresh per iteration
		}
		// a whole-record assignment inside the loop before the read (the range statement stores the element into its loop
		// variable on every iteration) starts the record afresh: nothing is carried over
		fresh := false
		for _, r2 := range *refs {
			if s0, ok := r2.(*ssa.Store); ok && s0.Addr == obj && region[s0.Block()] && s0.Block().Dominates(ld.Block()) {
				fresh = true
			}
		}
		if fresh {
			continue
		}
		// fields stored inside that loop
		var partial []string
		for _, r2 := range *refs {
			fa, ok := r2.(*ssa.FieldAddr)
			if !ok {
				continue
			}
			for _, r3 := range *fa.Referrers() {
				s2, ok := r3.(*ssa.Store)
				if !ok || s2.Addr != ssa.Value(fa) || !region[s2.Block()] {
					continue
				}
				// assigned on every iteration before the read?
				if !s2.Block().Dominates(ld.Block()) {
					partial = append(partial, st.Field(fa.Field).Name())
				}
			}
		}
		if len(partial) == 0 {
			continue
		}
		key := "carried:" + p.FuncKey(fn) + " " + name
		c.Ob(d.Props, "E7.loop-carried-record", key, Violated, d.What+": the record is created once before the loop, its field(s) "+strings.Join(dedupStrings(partial), ", ")+" are assigned only on some paths of an iteration, and its value is emitted in every iteration: an element that does not set them inherits the previous element's value", p.InstrPos(ld), false)
		return
	}
}

// ---------------------------------------------------------------------------------------------
// regexp samples: a constant pattern must accept the documented line forms (with the documented groups) and reject the
// forms of other line classes. The pattern is read from the source; nothing of coca is executed.

type RegexpSampleSpec struct {
	Props  []string `json:"props"`
	Regexp string   `json:"regexp"` // rel/pkg.var
	What   string   `json:"what"`
	Match  []struct {
		In     string   `json:"in"`
		Groups []string `json:"groups"` // expected submatches 1..n ("" entries are compared too); nil = only match
	} `json:"match"`
	NoMatch []string `json:"nomatch"`
}

func runRegexpSamples(p *Program, c *Collector, rs RegexpSampleSpec) {
	g := p.Global(rs.Regexp)
	if g == nil {
		c.Anchor(rs.Props, "E7: regexp samples: %s does not resolve", rs.Regexp)
		return
	}
	an := &shapeAn{p: p}
	pat, ok := an.regexpPattern(&Sym{Op: "global", Name: rs.Regexp})
	key := "regexp:" + rs.Regexp
	if !ok {
		c.Ob(rs.Props, "E7.regexp-samples", key, Undecided, rs.What+": the pattern is not an effectively final constant", p.Pos(g.Pos()), false)
		return
	}
	re, err := regexpCompile(pat)
	if err != nil {
		c.Ob(rs.Props, "E7.regexp-samples", key, Violated, rs.What+": pattern does not compile: "+err.Error(), p.Pos(g.Pos()), false)
		return
	}
	for _, m := range rs.Match {
		sub := re.FindStringSubmatch(m.In)
		if sub == nil {
			c.Ob(rs.Props, "E7.regexp-samples", key, Violated, fmt.Sprintf("%s: pattern `%s` does not accept the documented form %q", rs.What, pat, m.In), p.Pos(g.Pos()), false)
			return
		}
		if m.Groups != nil {
			got := sub[1:]
			if len(got) < len(m.Groups) {
				c.Ob(rs.Props, "E7.regexp-samples", key, Violated, fmt.Sprintf("%s: pattern `%s` has %d groups, the extraction needs %d", rs.What, pat, len(got), len(m.Groups)), p.Pos(g.Pos()), false)
				return
			}
			for i, w := range m.Groups {
				if got[i] != w {
					c.Ob(rs.Props, "E7.regexp-samples", key, Violated, fmt.Sprintf("%s: on %q group %d is %q, expected %q (pattern `%s`)", rs.What, m.In, i+1, got[i], w, pat), p.Pos(g.Pos()), false)
					return
				}
			}
		}
	}
	for _, s := range rs.NoMatch {
		if re.MatchString(s) {
			c.Ob(rs.Props, "E7.regexp-samples", key, Violated, fmt.Sprintf("%s: pattern `%s` accepts %q, which belongs to another class of lines", rs.What, pat, s), p.Pos(g.Pos()), false)
			return
		}
	}
	c.Ob(rs.Props, "E7.regexp-samples", key, Discharged, fmt.Sprintf("%s: pattern `%s` accepts the %d documented forms with the expected groups and rejects %d foreign forms", rs.What, pat, len(rs.Match), len(rs.NoMatch)), p.Pos(g.Pos()), true)
}

// ---------------------------------------------------------------------------------------------
// input immutability: a summary function must not write through the slice it is given

type ImmutableSpec struct {
	Props []string `json:"props"`
	Func  string   `json:"func"`
	Param int      `json:"param"`
	What  string   `json:"what"`
}

// valueFromParam: does value v (a slice, pointer, map or a struct containing them) originate from prm, possibly through
// copies into local variables?
func valueFromParam(v ssa.Value, prm *ssa.Parameter, seen map[ssa.Value]bool) bool {
	if v == nil || seen[v] {
		return false
	}
	seen[v] = true
	switch x := v.(type) {
	case *ssa.Parameter:
		return x == prm
	case *ssa.UnOp:
		if x.Op == token.MUL {
			return locationFromParam(x.X, prm, seen)
		}
	case *ssa.Slice:
		return valueFromParam(x.X, prm, seen)
	case *ssa.Phi:
		for _, e := range x.Edges {
			if valueFromParam(e, prm, seen) {
				return true
			}
		}
	case *ssa.Field:
		return valueFromParam(x.X, prm, seen)
	case *ssa.Index:
		return valueFromParam(x.X, prm, seen)
	case *ssa.Lookup:
		return valueFromParam(x.X, prm, seen)
	case *ssa.Extract:
		return valueFromParam(x.Tuple, prm, seen)
	case *ssa.Next:
		if r, ok := x.Iter.(*ssa.Range); ok {
			return valueFromParam(r.X, prm, seen)
		}
	case *ssa.FieldAddr, *ssa.IndexAddr:
		return locationFromParam(x, prm, seen)
	case *ssa.Call:
		// a list of the same records handed back by a function that was given the input (flattened, filtered, re-ordered): the
		// records are copies, but the lists inside them are the input's
		if x.Call.IsInvoke() || x.Call.StaticCallee() == nil || x.Call.StaticCallee().Pkg == nil {
			return false
		}
		if _, isSlice := x.Type().Underlying().(*types.Slice); !isSlice {
			return false
		}
		for _, a := range x.Call.Args {
			if types.Identical(a.Type(), x.Type()) && valueFromParam(a, prm, seen) {
				return true
			}
		}
	}
	return false
}

// locationFromParam: does the memory location addr hold data of prm (element / field of it, or a local copy of such)?
func locationFromParam(addr ssa.Value, prm *ssa.Parameter, seen map[ssa.Value]bool) bool {
	switch a := addr.(type) {
	case *ssa.IndexAddr:
		return valueFromParam(a.X, prm, seen) || locationFromParam(a.X, prm, seen)
	case *ssa.FieldAddr:
		return valueFromParam(a.X, prm, seen) || locationFromParam(a.X, prm, seen)
	case *ssa.Alloc:
		if refs := a.Referrers(); refs != nil {
			for _, r := range *refs {
				if st, ok := r.(*ssa.Store); ok && st.Addr == ssa.Value(a) && valueFromParam(st.Val, prm, seen) {
					return true
				}
			}
		}
	case *ssa.Parameter:
		return a == prm
	}
	return false
}

// sharedLocation: is addr inside memory shared with the caller's data (reached through a slice, pointer or map that
// comes from prm), as opposed to a local copy of a struct?
func sharedLocation(addr ssa.Value, prm *ssa.Parameter) bool {
	switch a := addr.(type) {
	case *ssa.IndexAddr:
		if _, isSlice := a.X.Type().Underlying().(*types.Slice); isSlice {
			return valueFromParam(a.X, prm, map[ssa.Value]bool{})
		}
		return sharedLocation(a.X, prm)
	case *ssa.FieldAddr:
		if _, isAlloc := a.X.(*ssa.Alloc); isAlloc {
			return false // field of a local variable
		}
		if _, isAddr := a.X.(*ssa.IndexAddr); isAddr {
			return sharedLocation(a.X, prm)
		}
		if _, isAddr := a.X.(*ssa.FieldAddr); isAddr {
			return sharedLocation(a.X, prm)
		}
		return valueFromParam(a.X, prm, map[ssa.Value]bool{})
	}
	return false
}

func runImmutable(p *Program, c *Collector, im ImmutableSpec) {
	fn := p.Func(im.Func)
	if fn == nil || im.Param >= len(fn.Params) {
		c.Anchor(im.Props, "E7: input immutability: %s / parameter %d does not resolve", im.Func, im.Param)
		return
	}
	key := fmt.Sprintf("immutable:%s param%d", im.Func, im.Param)
	for f := range p.reach([]*ssa.Function{fn}) {
		if f != fn {
			continue // only the function itself: callees receive copies or are checked on their own rows
		}
		for _, b := range f.Blocks {
			for _, in := range b.Instrs {
				if mu, ok := in.(*ssa.MapUpdate); ok && valueFromParam(mu.Map, fn.Params[im.Param], map[ssa.Value]bool{}) {
					c.Ob(im.Props, "E7.input-immutability", key, Violated, im.What+": the function adds to or replaces entries of its input map ("+fn.Params[im.Param].Name()+"), so whoever reads the same map afterwards sees modified data", p.InstrPos(in), false)
					return
				}
				if call, ok := in.(*ssa.Call); ok && call.Call.StaticCallee() != nil {
					// a library routine that re-orders or fills its argument in place
					switch fullFuncName(call.Call.StaticCallee()) {
					case "sort.Slice", "sort.SliceStable", "sort.Strings", "sort.Ints", "sort.Float64s", "sort.Sort", "sort.Stable":
						arg := call.Call.Args[0]
						if mi, ok := arg.(*ssa.MakeInterface); ok {
							arg = mi.X
						}
						if valueFromParam(arg, fn.Params[im.Param], map[ssa.Value]bool{}) {
							c.Ob(im.Props, "E7.input-immutability", key, Violated, im.What+": the function sorts its input ("+fn.Params[im.Param].Name()+") in place, so whoever reads the same list afterwards sees another order", p.InstrPos(in), false)
							return
						}
					}
				}
				st, ok := in.(*ssa.Store)
				if !ok {
					continue
				}
				if sharedLocation(st.Addr, fn.Params[im.Param]) {
					c.Ob(im.Props, "E7.input-immutability", key, Violated, im.What+": the function writes into the elements of its input ("+fn.Params[im.Param].Name()+"), so a second computation from the same input sees modified data", p.InstrPos(in), false)
					return
				}
			}
		}
	}
	c.Ob(im.Props, "E7.input-immutability", key, Discharged, im.What+": no store reaches the backing array of the input", p.FuncPos(fn), true)
}

func regexpCompile(pat string) (*regexp.Regexp, error) { return regexp.Compile(pat) }

// ---------------------------------------------------------------------------------------------
// pre-sized result with conditional fill: make([]T, n) followed by out[i] = v on only some iterations leaves zero-valued
// phantom entries in the result (append-based collection does not).

func runPresizedHoles(p *Program, c *Collector, a FuncRuleSpec) {
	for _, fn := range expandFuncs(p, c, a.Funcs, a.Props...) {
		for _, b := range fn.Blocks {
			for _, in := range b.Instrs {
				ms, ok := in.(*ssa.MakeSlice)
				if !ok {
					continue
				}
				if n, isC := constInt(ms.Len); isC && n == 0 {
					continue
				}
				if _, isStruct := ms.Type().Underlying().(*types.Slice).Elem().Underlying().(*types.Struct); !isStruct {
					continue // records only: a zero record is a phantom entry
				}
				// element stores through the slice
				var stores []*ssa.Store
				var walk func(v ssa.Value, seen map[ssa.Value]bool)
				walk = func(v ssa.Value, seen map[ssa.Value]bool) {
					if seen[v] || v.Referrers() == nil {
						return
					}
					seen[v] = true
					for _, r := range *v.Referrers() {
						switch u := r.(type) {
						case *ssa.IndexAddr:
							if u.X == v {
								for _, r2 := range *u.Referrers() {
									if st, ok := r2.(*ssa.Store); ok && st.Addr == ssa.Value(u) {
										stores = append(stores, st)
									}
								}
							}
						case *ssa.Slice:
							walk(u, seen)
						case *ssa.Phi:
							walk(u, seen)
						}
					}
				}
				walk(ms, map[ssa.Value]bool{})
				if len(stores) == 0 {
					continue
				}
				key := fmt.Sprintf("presized:%s %s", p.FuncKey(fn), ms.Name())
				bad := ""
				for _, st := range stores {
					reg := loopRegion(fn, st.Block())
					if reg == nil || reg[ms.Block()] {
						continue
					}
					h := loopHeader(reg)
					// the store must happen on every iteration: its block dominates every back edge source
					for _, pred := range h.Preds {
						if reg[pred] && !st.Block().Dominates(pred) {
							bad = "the element store at " + p.InstrPos(st) + " is skipped on some iterations of the loop, so the slice made with a length at " + p.InstrPos(ms) + " keeps zero-valued entries"
						}
					}
				}
				if bad != "" {
					c.Ob(a.Props, "E7.presized-holes", key, Violated, a.What+": "+bad, p.InstrPos(ms), false)
				} else {
					c.Ob(a.Props, "E7.presized-holes", key, Discharged, "every iteration stores its element", p.InstrPos(ms), true)
				}
			}
		}
	}
}

// ---------------------------------------------------------------------------------------------
// double registration: a helper appends a record to a container of the object it is given AND returns that record; a caller
// that appends the returned record to the same container of the same object lists it twice.

type recRet struct {
	param  int
	field  int
	result int
	at     ssa.Instruction
}

// appendedValues: for a store  obj.F = append(obj.F, v…)  return obj, F and the appended values.
func appendedValues(st *ssa.Store) (obj ssa.Value, field int, vals []ssa.Value, ok bool) {
	fa, isFA := st.Addr.(*ssa.FieldAddr)
	if !isFA {
		return nil, 0, nil, false
	}
	call, isCall := st.Val.(*ssa.Call)
	if !isCall {
		return nil, 0, nil, false
	}
	if b, isB := call.Call.Value.(*ssa.Builtin); !isB || b.Name() != "append" || len(call.Call.Args) != 2 {
		return nil, 0, nil, false
	}
	sl, isSl := call.Call.Args[1].(*ssa.Slice)
	if !isSl {
		return nil, 0, nil, false
	}
	arr, isAl := sl.X.(*ssa.Alloc)
	if !isAl || arr.Referrers() == nil {
		return nil, 0, nil, false
	}
	for _, r := range *arr.Referrers() {
		if ia, isIA := r.(*ssa.IndexAddr); isIA && ia.Referrers() != nil {
			for _, r2 := range *ia.Referrers() {
				if s2, isSt := r2.(*ssa.Store); isSt && s2.Addr == ssa.Value(ia) {
					vals = append(vals, s2.Val)
				}
			}
		}
	}
	return fa.X, fa.Field, vals, len(vals) > 0
}

// phiOrigins: the values v can stand for: phi operands; a load of a local cell stands for the cell (two loads of one cell
// denote the same record provided the cell is not written in between, which the callers check).
func phiOrigins(v ssa.Value, seen map[ssa.Value]bool, out *[]ssa.Value) {
	if v == nil || seen[v] {
		return
	}
	seen[v] = true
	if ph, ok := v.(*ssa.Phi); ok {
		for _, e := range ph.Edges {
			phiOrigins(e, seen, out)
		}
		return
	}
	if ld, ok := v.(*ssa.UnOp); ok && ld.Op == token.MUL {
		if al, ok := ld.X.(*ssa.Alloc); ok {
			*out = append(*out, al)
			return
		}
	}
	*out = append(*out, v)
}

// cellWrittenAfter: some store to the local cell (whole or one field) can execute after instruction `from`.
func cellWrittenAfter(al *ssa.Alloc, from ssa.Instruction) bool {
	check := func(st *ssa.Store) bool {
		if st.Block() == from.Block() {
			after := false
			for _, in := range from.Block().Instrs {
				if in == from {
					after = true
				} else if after && in == ssa.Instruction(st) {
					return true
				}
			}
			return reaches(from.Block(), from.Block()) && false
		}
		return reaches(from.Block(), st.Block())
	}
	if al.Referrers() == nil {
		return false
	}
	for _, r := range *al.Referrers() {
		switch u := r.(type) {
		case *ssa.Store:
			if u.Addr == ssa.Value(al) && check(u) {
				return true
			}
		case *ssa.FieldAddr:
			if u.Referrers() != nil {
				for _, r2 := range *u.Referrers() {
					if st, ok := r2.(*ssa.Store); ok && st.Addr == ssa.Value(u) && check(st) {
						return true
					}
				}
			}
		}
	}
	return false
}

var recRetMemo = map[*ssa.Function][]recRet{}

func recordsAndReturns(fn *ssa.Function) []recRet {
	if r, ok := recRetMemo[fn]; ok {
		return r
	}
	var out []recRet
	appended := map[ssa.Value][]recRet{} // value -> (param, field)
	for _, b := range fn.Blocks {
		for _, in := range b.Instrs {
			st, ok := in.(*ssa.Store)
			if !ok {
				continue
			}
			obj, field, vals, ok := appendedValues(st)
			if !ok {
				continue
			}
			for i, prm := range fn.Params {
				if ssa.Value(prm) == obj {
					for _, v := range vals {
						var os []ssa.Value
						phiOrigins(v, map[ssa.Value]bool{}, &os)
						for _, o := range os {
							if al, isCell := o.(*ssa.Alloc); isCell && cellWrittenAfter(al, st) {
								continue
							}
							appended[o] = append(appended[o], recRet{param: i, field: field, at: st})
						}
					}
				}
			}
		}
	}
	// transitively: the result of a callee that records-and-returns into the object this function passes on
	recRetMemo[fn] = nil // recursion guard
	for _, b := range fn.Blocks {
		for _, in := range b.Instrs {
			call, ok := in.(*ssa.Call)
			if !ok {
				continue
			}
			f2 := call.Call.StaticCallee()
			if f2 == nil || f2 == fn || len(f2.Blocks) == 0 {
				continue
			}
			for _, rr := range recordsAndReturns(f2) {
				if rr.param >= len(call.Call.Args) {
					continue
				}
				for i, prm := range fn.Params {
					if ssa.Value(prm) != call.Call.Args[rr.param] {
						continue
					}
					var res ssa.Value = call
					if f2.Signature.Results().Len() > 1 {
						res = nil
						if call.Referrers() != nil {
							for _, r := range *call.Referrers() {
								if ex, ok := r.(*ssa.Extract); ok && ex.Index == rr.result {
									res = ex
								}
							}
						}
					}
					if res == nil {
						continue
					}
					appended[res] = append(appended[res], recRet{param: i, field: rr.field, at: call})
					// kept in a local cell
					if res.Referrers() != nil {
						for _, r := range *res.Referrers() {
							if st, ok := r.(*ssa.Store); ok && st.Val == res {
								if al, ok := st.Addr.(*ssa.Alloc); ok && !cellWrittenAfter(al, st) {
									appended[al] = append(appended[al], recRet{param: i, field: rr.field, at: call})
								}
							}
						}
					}
				}
			}
		}
	}
	if len(appended) > 0 {
		for _, b := range fn.Blocks {
			for _, in := range b.Instrs {
				ret, ok := in.(*ssa.Return)
				if !ok {
					continue
				}
				for ri, res := range ret.Results {
					var origins []ssa.Value
					phiOrigins(res, map[ssa.Value]bool{}, &origins)
					for _, o := range origins {
						for _, rr := range appended[o] {
							rr.result = ri
							out = append(out, rr)
						}
					}
				}
			}
		}
	}
	recRetMemo[fn] = out
	return out
}

func runDoubleRegistration(p *Program, c *Collector, a FuncRuleSpec) {
	for _, g := range expandFuncs(p, c, a.Funcs, a.Props...) {
		for _, b := range g.Blocks {
			for _, in := range b.Instrs {
				call, ok := in.(*ssa.Call)
				if !ok {
					continue
				}
				f := call.Call.StaticCallee()
				if f == nil || f.Pkg == nil || !p.Own[f.Pkg.Pkg] || len(f.Blocks) == 0 {
					continue
				}
				for _, rr := range recordsAndReturns(f) {
					if rr.param >= len(call.Call.Args) {
						continue
					}
					obj := call.Call.Args[rr.param]
					// the value the caller receives
					var got []ssa.Value
					if f.Signature.Results().Len() == 1 {
						got = append(got, call)
					} else if call.Referrers() != nil {
						for _, r := range *call.Referrers() {
							if ex, ok := r.(*ssa.Extract); ok && ex.Index == rr.result {
								got = append(got, ex)
							}
						}
					}
					// …possibly kept in a local variable
					for _, gv := range append([]ssa.Value{}, got...) {
						if gv.Referrers() == nil {
							continue
						}
						for _, r := range *gv.Referrers() {
							if st, ok := r.(*ssa.Store); ok && st.Val == gv {
								if al, ok := st.Addr.(*ssa.Alloc); ok {
									got = append(got, al)
								}
							}
						}
					}
					key := fmt.Sprintf("doublereg:%s result of %s", p.FuncKey(g), shortFn(p.FuncKey(f)))
					bad := ""
					for _, b2 := range g.Blocks {
						for _, in2 := range b2.Instrs {
							st, ok := in2.(*ssa.Store)
							if !ok {
								continue
							}
							obj2, field2, vals, ok := appendedValues(st)
							if !ok || obj2 != obj || field2 != rr.field {
								continue
							}
							for _, v := range vals {
								var origins []ssa.Value
								phiOrigins(v, map[ssa.Value]bool{}, &origins)
								for _, o := range origins {
									for _, gv := range got {
										if o == gv {
											bad = fmt.Sprintf("%s appends a record to the container of the object it is given (%s) and also returns it; %s appends the returned record to the same container again (%s)",
												shortFn(p.FuncKey(f)), p.InstrPos(rr.at), shortFn(p.FuncKey(g)), p.InstrPos(st))
										}
									}
								}
							}
						}
					}
					if bad != "" {
						c.Ob(a.Props, "E7.double-registration", key, Violated, a.What+": "+bad+": the record is listed twice", p.InstrPos(call), false)
					} else {
						c.Ob(a.Props, "E7.double-registration", key, Discharged, "the returned record is not appended again by the caller", p.InstrPos(call), true)
					}
				}
			}
		}
	}
}

// ---------------------------------------------------------------------------------------------
// maps keyed by a method's name: methods are identified by (type, name) only, so overloads share a key. A store inside the
// loop over a type's Functions must therefore accumulate (m[k] = append(m[k], …), m[k]++) or be idempotent (the value is
// the key or a constant); a plain m[k] = v keeps the last overload and silently drops the others.

func runMethodKeyed(p *Program, c *Collector, a FuncRuleSpec) {
	n := 0
	for _, fn := range expandFuncs(p, c, a.Funcs, a.Props...) {
		sf := newSymFn(p, fn, 0)
		for _, b := range fn.Blocks {
			for _, in := range b.Instrs {
				mu, ok := in.(*ssa.MapUpdate)
				if !ok {
					continue
				}
				// innermost enclosing loop must range over a Functions field
				h, _ := sf.loopOf(b)
				if h == nil {
					continue
				}
				coll := sf.loopCollection(h)
				if coll == nil || coll.Op != "field" || coll.Name != "Functions" {
					continue
				}
				n++
				m, k, v := sf.val(mu.Map), sf.val(mu.Key), sf.val(mu.Value)
				key := fmt.Sprintf("methodkeyed:%s %s[%s]", p.FuncKey(fn), clip(m.String(), 60), clip(k.String(), 100))
				accum := false
				v.walk(func(x *Sym) {
					if (x.Op == "lookup" || x.Op == "has") && len(x.Kids) == 2 && x.Kids[0].String() == m.String() && x.Kids[1].String() == k.String() {
						accum = true
					}
				})
				if !accum {
					// the stored record is a local variable one of whose fields was built from the existing entry
					// (merged.FunctionCalls = append(known.FunctionCalls, …) under `if known, ok := m[k]; ok`)
					if ld, ok := mu.Value.(*ssa.UnOp); ok && ld.Op == token.MUL {
						if al, ok := ld.X.(*ssa.Alloc); ok && al.Referrers() != nil {
							for _, r := range *al.Referrers() {
								fa, ok := r.(*ssa.FieldAddr)
								if !ok || fa.Referrers() == nil {
									continue
								}
								for _, r2 := range *fa.Referrers() {
									if st, ok := r2.(*ssa.Store); ok && st.Addr == ssa.Value(fa) {
										sf.val(st.Val).walk(func(x *Sym) {
											if (x.Op == "lookup" || x.Op == "has") && len(x.Kids) == 2 && x.Kids[0].String() == m.String() && x.Kids[1].String() == k.String() {
												accum = true
											}
										})
									}
								}
							}
						}
					}
				}
				_, isConst := symStr(v)
				switch {
				case accum:
					c.Ob(a.Props, "E7.method-keyed-map", key, Discharged, "the store accumulates into the entry of the key (overloads add up)", p.InstrPos(mu), true)
				case v.String() == k.String() || isConst || v.Op == "const":
					c.Ob(a.Props, "E7.method-keyed-map", key, Discharged, "idempotent store (value is the key or a constant)", p.InstrPos(mu), true)
				default:
					c.Ob(a.Props, "E7.method-keyed-map", key, Violated, a.What+": inside the loop over a type's Functions the entry is overwritten, not accumulated: methods are keyed by name, so of two overloads only the last one's value survives", p.InstrPos(mu), false)
				}
			}
		}
	}
	if n == 0 {
		c.Ob(a.Props, "E7.method-keyed-map", "methodkeyed:"+strings.Join(a.Funcs, ","), Undecided, a.What+": no map store inside a loop over Functions found (anchor lost)", "", false)
	}
}

// ---------------------------------------------------------------------------------------------
// dotted names: a simple name is looked up among full names (the imports of a file, the classes of the project) by suffix.
// The suffix must start at a segment boundary — strings.HasSuffix(full, "."+name) — otherwise `Helper` also matches
// `p.r.SuperHelper`, and an empty name matches everything.

func runDottedSuffix(p *Program, c *Collector, a FuncRuleSpec) {
	n := 0
	for _, fn := range expandFuncs(p, c, a.Funcs, a.Props...) {
		sf := newSymFn(p, fn, 0)
		k := 0
		for _, b := range fn.Blocks {
			for _, in := range b.Instrs {
				call, ok := in.(*ssa.Call)
				if !ok {
					continue
				}
				callee := call.Call.StaticCallee()
				if callee == nil || fullFuncName(callee) != "strings.HasSuffix" {
					continue
				}
				full := sf.val(call.Call.Args[0])
				if full.Op != "elem" {
					continue
				}
				coll := binderColls[full.Name]
				if coll == nil || coll.Op != "global" {
					continue // only lists of full names held by the listener (imports, project classes)
				}
				suffix := sf.val(call.Call.Args[1])
				k++
				n++
				key := fmt.Sprintf("dottedsuffix:%s #%d over %s", p.FuncKey(fn), k, shortFn(coll.Name))
				lead := suffix
				for lead.Op == "bin" && lead.Name == "+" {
					lead = lead.Kids[0]
				}
				if str, isC := symStr(lead); isC && strings.HasPrefix(str, ".") {
					c.Ob(a.Props, "E7.dotted-suffix", key, Discharged, "the suffix starts at a segment boundary", p.InstrPos(call), true)
				} else {
					c.Ob(a.Props, "E7.dotted-suffix", key, Violated, a.What+": a full name is matched against the bare suffix "+clip(suffix.String(), 80)+": a longer simple name with the same ending (SuperHelper for Helper) matches too, and an empty suffix matches every entry", p.InstrPos(call), false)
				}
			}
		}
	}
	if n == 0 {
		c.Ob(a.Props, "E7.dotted-suffix", "dottedsuffix:"+strings.Join(a.Funcs, ","), Undecided, a.What+": no suffix lookup found (anchor lost)", "", false)
	}
	// exact before fuzzy: within one function, a first-match search "some project class whose name ends in .X" must not come
	// before the exact lookup "<current package>.X" for the same X: the class of the own package would lose to a same-named class
	// of any other package that happens to stand earlier in the list.
	for _, fn := range expandFuncs(p, c, a.Funcs, a.Props...) {
		if fn.Parent() != nil {
			continue
		}
		sf := newSymFn(p, fn, 0)
		type site struct {
			in   ssa.Instruction
			name string
		}
		var fuzzy, exact, imported []site
		for _, b := range fn.Blocks {
			for _, in := range b.Instrs {
				switch x := in.(type) {
				case *ssa.Call:
					callee := x.Call.StaticCallee()
					if callee == nil || fullFuncName(callee) != "strings.HasSuffix" {
						continue
					}
					full := sf.val(x.Call.Args[0])
					if full.Op != "elem" || binderColls[full.Name] == nil || binderColls[full.Name].Op != "global" {
						continue
					}
					exempt := false
					for _, ex := range a.Escape {
						// lists whose entries rightly win over the own package (the file's explicit imports)
						if binderColls[full.Name].Name == ex {
							exempt = true
						}
					}
					if exempt {
						suf := sf.val(x.Call.Args[1])
						if suf.Op == "bin" && suf.Name == "+" && len(suf.Kids) == 2 {
							if str, isC := symStr(suf.Kids[0]); isC && str == "." {
								imported = append(imported, site{in, suf.Kids[1].String()})
							}
						}
						continue
					}
					suf := sf.val(x.Call.Args[1])
					if suf.Op == "bin" && suf.Name == "+" && len(suf.Kids) == 2 {
						if str, isC := symStr(suf.Kids[0]); isC && str == "." {
							fuzzy = append(fuzzy, site{in, suf.Kids[1].String()})
						}
					}
				case *ssa.Lookup:
					if loadedGlobal(x.X) == nil {
						continue
					}
					k := sf.val(x.Index)
					// <package variable> + "." + X
					if k.Op == "bin" && k.Name == "+" && len(k.Kids) == 2 && k.Kids[0].Op == "bin" && k.Kids[0].Name == "+" {
						if str, isC := symStr(k.Kids[0].Kids[1]); isC && str == "." && strings.HasPrefix(k.Kids[0].Kids[0].String(), "global(") {
							exact = append(exact, site{in, k.Kids[1].String()})
						}
					}
				}
			}
		}
		// the file's explicit imports come before the own package: `import a.b.Entity` shadows an Entity declared next door
		// (JLS 6.4.1), so the lookup <current package>.X may not be the first to answer for a name the imports also answer for
		for _, e := range exact {
			for _, m := range imported {
				if !strings.Contains(m.name, e.name) && !strings.Contains(e.name, m.name) {
					continue
				}
				if m.in.Block() != e.in.Block() && reaches(e.in.Block(), m.in.Block()) && !reaches(m.in.Block(), e.in.Block()) {
					c.Ob(a.Props, "E7.exact-before-fuzzy", "importfirst:"+p.FuncKey(fn), Violated, a.What+": "+shortFn(p.FuncKey(fn))+" looks the name up in the current package ("+p.InstrPos(e.in)+") before it looks at the file's imports ("+p.InstrPos(m.in)+"): a single-type import shadows a class of the own package with the same name, not the other way round", p.InstrPos(e.in), false)
					goto next
				}
			}
		}
		for _, e := range exact {
			for _, f := range fuzzy {
				// the fuzzy search is about (a cleaned form of) the same name and executes before the exact lookup
				if !strings.Contains(f.name, e.name) && !strings.Contains(e.name, f.name) {
					continue
				}
				if f.in.Block() == e.in.Block() || !f.in.Block().Dominates(e.in.Block()) && !reaches(f.in.Block(), e.in.Block()) {
					continue
				}
				if reaches(e.in.Block(), f.in.Block()) {
					continue // the exact lookup can come first
				}
				// another exact lookup of the same name already stands in front of the search
				covered := false
				for _, e2 := range exact {
					if e2.in != e.in && (strings.Contains(f.name, e2.name) || strings.Contains(e2.name, f.name)) && e2.in.Block() != f.in.Block() && reaches(e2.in.Block(), f.in.Block()) {
						covered = true
					}
				}
				if covered {
					continue
				}
				key := "exactfirst:" + p.FuncKey(fn)
				c.Ob(a.Props, "E7.exact-before-fuzzy", key, Violated, a.What+": "+shortFn(p.FuncKey(fn))+" first takes any project class whose name ends in ."+clip(f.name, 40)+" ("+p.InstrPos(f.in)+") and only afterwards looks up the class of the current package under its exact name ("+p.InstrPos(e.in)+"): a same-named class of another package that stands earlier in the list wins over the own package's class", p.InstrPos(f.in), false)
				goto next
			}
		}
		if len(exact) > 0 && len(fuzzy) > 0 {
			c.Ob(a.Props, "E7.exact-before-fuzzy", "exactfirst:"+p.FuncKey(fn), Discharged, "the exact same-package lookup precedes the search by suffix", p.FuncPos(fn), true)
		}
	next:
	}
}

// ---------------------------------------------------------------------------------------------
// edge closure: a graph builder that collects relations whose targets come from the input (implemented interfaces, superclass,
// field and call types) must, before it returns, drop every relation whose target is not one of the graph's nodes — otherwise
// the graph has edges to things that are not nodes (types outside the project, the excluded entry class).

type EdgeClosureSpec struct {
	Props     []string `json:"props"`
	Func      string   `json:"func"`
	Relations string   `json:"relations"` // field holding the relation map
	Nodes     string   `json:"nodes"`     // field holding the node map
	Target    string   `json:"target"`    // field of a relation naming its target
	What      string   `json:"what"`
}

func runEdgeClosure(p *Program, c *Collector, ec EdgeClosureSpec) {
	fn := p.Func(ec.Func)
	if fn == nil {
		c.Anchor(ec.Props, "E7: edge closure: %s does not resolve", ec.Func)
		return
	}
	key := "edgeclosure:" + ec.Func
	fieldName := func(v ssa.Value) string {
		// value loaded from x.F
		if u, ok := v.(*ssa.UnOp); ok && u.Op == token.MUL {
			if fa, ok := u.X.(*ssa.FieldAddr); ok {
				n, _ := fieldOf(fa.X.Type(), fa.Field)
				return n
			}
		}
		if f, ok := v.(*ssa.Field); ok {
			n, _ := fieldOf(f.X.Type(), f.Field)
			return n
		}
		return ""
	}
	var filter *ssa.BasicBlock // header of the filtering loop
	for _, loop := range naturalLoops(fn) {
		h := loopHeader(loop)
		rangesRel, deletes, testsNode := false, false, false
		for b := range loop {
			for _, in := range b.Instrs {
				switch x := in.(type) {
				case *ssa.Next:
					if r, ok := x.Iter.(*ssa.Range); ok && fieldName(r.X) == ec.Relations {
						rangesRel = true
					}
				case *ssa.Call:
					if bi, ok := x.Call.Value.(*ssa.Builtin); ok && bi.Name() == "delete" && len(x.Call.Args) == 2 && fieldName(x.Call.Args[0]) == ec.Relations {
						deletes = true
					}
				case *ssa.Lookup:
					if fieldName(x.X) == ec.Nodes {
						// the key is the target field of the ranged relation
						k := x.Index
						if u, ok := k.(*ssa.UnOp); ok && u.Op == token.MUL {
							if fa, ok := u.X.(*ssa.FieldAddr); ok {
								if n, _ := fieldOf(fa.X.Type(), fa.Field); n == ec.Target {
									testsNode = true
								}
							}
						}
						if f, ok := k.(*ssa.Field); ok {
							if n, _ := fieldOf(f.X.Type(), f.Field); n == ec.Target {
								testsNode = true
							}
						}
					}
				}
			}
		}
		// the Range instruction sits just before the header
		if !rangesRel {
			for _, pred := range h.Preds {
				for _, in := range pred.Instrs {
					if r, ok := in.(*ssa.Range); ok && fieldName(r.X) == ec.Relations {
						rangesRel = true
					}
				}
			}
		}
		// the other spelling: copy the relations whose target is a node into a new map, which then replaces the field
		rebuilds := false
		if rangesRel && testsNode && !deletes {
			for b := range loop {
				for _, in := range b.Instrs {
					mu, ok := in.(*ssa.MapUpdate)
					if !ok {
						continue
					}
					mm, isMake := mu.Map.(*ssa.MakeMap)
					if !isMake || mm.Referrers() == nil {
						continue
					}
					for _, r := range *mm.Referrers() {
						if st, ok := r.(*ssa.Store); ok && st.Val == ssa.Value(mm) {
							if fa, ok := st.Addr.(*ssa.FieldAddr); ok {
								if n, _ := fieldOf(fa.X.Type(), fa.Field); n == ec.Relations && h.Dominates(st.Block()) && !loop[st.Block()] {
									rebuilds = true
								}
							}
						}
					}
				}
			}
		}
		if rangesRel && (deletes || rebuilds) && testsNode {
			filter = h
		}
	}
	if filter == nil {
		c.Ob(ec.Props, "E7.edge-closure", key, Violated, ec.What+": "+shortFn(ec.Func)+" returns the relations it collected without dropping those whose "+ec.Target+" is not a key of "+ec.Nodes+": the graph can contain edges to things that are not its nodes (types outside the project, the excluded entry class)", p.FuncPos(fn), false)
		return
	}
	// every return is reached through the filter, and nothing is added to the relations afterwards
	for _, b := range fn.Blocks {
		if len(b.Instrs) == 0 {
			continue
		}
		if _, isRet := b.Instrs[len(b.Instrs)-1].(*ssa.Return); isRet && !filter.Dominates(b) {
			c.Ob(ec.Props, "E7.edge-closure", key, Violated, ec.What+": a return is reached without passing the loop that drops dangling relations", p.InstrPos(b.Instrs[len(b.Instrs)-1]), false)
			return
		}
		if filter.Dominates(b) && b != filter && !naturalLoopOf(fn, filter)[b] {
			for _, in := range b.Instrs {
				if mu, ok := in.(*ssa.MapUpdate); ok && fieldName(mu.Map) == ec.Relations {
					c.Ob(ec.Props, "E7.edge-closure", key, Violated, ec.What+": a relation is added after the dangling ones were dropped", p.InstrPos(mu), false)
					return
				}
				if call, ok := in.(*ssa.Call); ok {
					if cal := call.Call.StaticCallee(); cal != nil && cal.Pkg != nil && p.Own[cal.Pkg.Pkg] {
						c.Ob(ec.Props, "E7.edge-closure", key, Violated, ec.What+": "+shortFn(p.FuncKey(cal))+" runs after the dangling relations were dropped and may add new ones", p.InstrPos(call), false)
						return
					}
				}
			}
		}
	}
	c.Ob(ec.Props, "E7.edge-closure", key, Discharged, "before every return, relations whose "+ec.Target+" is not a node are deleted, and nothing is added afterwards", p.Pos(filter.Instrs[0].Pos()), true)
}

func naturalLoopOf(fn *ssa.Function, h *ssa.BasicBlock) map[*ssa.BasicBlock]bool {
	for _, l := range naturalLoops(fn) {
		if loopHeader(l) == h {
			return l
		}
	}
	return map[*ssa.BasicBlock]bool{}
}

// ---------------------------------------------------------------------------------------------
// nil-able package-level pointers: a pointer variable that some function of the group sets to nil ("no current class") may be
// nil whenever another callback runs — callbacks nest (a class inside a class: the inner Exit clears the pointer the outer
// Exit still needs). Every dereference must be guarded by a nil test on the path or by an assignment of a fresh object
// earlier in the same function.

func runNilableGlobals(p *Program, c *Collector, a FuncRuleSpec) {
	fns := expandFuncs(p, c, a.Funcs, a.Props...)
	nilable := map[*ssa.Global]ssa.Instruction{}
	for _, fn := range fns {
		for _, b := range fn.Blocks {
			for _, in := range b.Instrs {
				if st, ok := in.(*ssa.Store); ok {
					if g, whole := globalOfAddr(st.Addr); g != nil && whole && isNilConst(st.Val) {
						if _, isPtr := g.Type().Underlying().(*types.Pointer).Elem().Underlying().(*types.Pointer); isPtr {
							nilable[g] = st
						}
					}
				}
			}
		}
	}
	n := 0
	for _, fn := range fns {
		sf := newSymFn(p, fn, 0)
		for _, b := range fn.Blocks {
			for _, in := range b.Instrs {
				// dereference: field address or load through the pointer loaded from g
				var ptr ssa.Value
				switch x := in.(type) {
				case *ssa.FieldAddr:
					ptr = x.X
				case *ssa.UnOp:
					if x.Op == token.MUL {
						if _, isG := x.X.(*ssa.Global); !isG {
							ptr = x.X
						}
					}
				}
				if ptr == nil {
					continue
				}
				g := loadedGlobal(ptr)
				if g == nil || nilable[g] == nil {
					continue
				}
				n++
				key := fmt.Sprintf("nilable:%s *%s#%d", p.FuncKey(fn), g.Name(), n)
				guarded := false
				var cs []*Sym
				conjuncts(sf.pathCond(b), &cs)
				want := "(global(" + p.GlobalKey(g) + ") != nil)"
				wantNeg := "!((global(" + p.GlobalKey(g) + ") == nil))"
				for _, cj := range cs {
					if str := cj.String(); str == want || str == wantNeg {
						guarded = true
					}
				}
				if !guarded {
					// a fresh object assigned earlier in this function, on every path
					for _, b2 := range fn.Blocks {
						for _, in2 := range b2.Instrs {
							if st, ok := in2.(*ssa.Store); ok {
								if g2, whole := globalOfAddr(st.Addr); g2 == g && whole && !isNilConst(st.Val) && instrDominates(st, in) {
									if _, fresh := st.Val.(*ssa.Alloc); fresh {
										guarded = true
									}
								}
							}
						}
					}
				}
				if guarded {
					c.Ob(a.Props, "E7.nilable-global", key, Discharged, "dereference guarded by a nil test or preceded by the assignment of a fresh object", p.InstrPos(in), true)
				} else {
					c.Ob(a.Props, "E7.nilable-global", key, Violated, a.What+": "+g.Name()+" is set to nil at "+p.InstrPos(nilable[g])+" and dereferenced here without a nil test: when the constructs nest (the inner one's exit clears the pointer) this crashes", p.InstrPos(in), false)
				}
			}
		}
	}
	if n == 0 {
		c.Ob(a.Props, "E7.nilable-global", "nilable:"+strings.Join(a.Funcs, ","), Discharged, a.What+": no package-level pointer that is ever set to nil is dereferenced", "", true)
	}
}

// ---------------------------------------------------------------------------------------------
// cutset or prefix: strings.TrimLeft / TrimRight / Trim remove every leading (trailing) character that occurs in their
// second argument. With a constant set of punctuation that is what is meant; with a variable (a directory, a name) the
// author meant TrimPrefix / TrimSuffix, and the call eats as many characters of the text as happen to occur in the variable.

func runTrimCutset(p *Program, c *Collector, a FuncRuleSpec) {
	n := 0
	for _, fn := range expandFuncs(p, c, a.Funcs, a.Props...) {
		k := 0
		for _, b := range fn.Blocks {
			for _, in := range b.Instrs {
				call, ok := in.(*ssa.Call)
				if !ok || call.Call.StaticCallee() == nil {
					continue
				}
				name := fullFuncName(call.Call.StaticCallee())
				if name != "strings.TrimLeft" && name != "strings.TrimRight" && name != "strings.Trim" {
					continue
				}
				k++
				n++
				key := fmt.Sprintf("trimcutset:%s %s#%d", p.FuncKey(fn), name, k)
				if cs, isC := constString(call.Call.Args[1]); isC {
					// a constant that reads as a word ("this.", "src/") is a prefix spelled as a character set all the same:
					// character sets are blanks, quotes and punctuation
					letters := 0
					for _, r := range cs {
						if unicode.IsLetter(r) {
							letters++
						}
					}
					if letters >= 2 {
						c.Ob(a.Props, "E7.trim-cutset", key, Violated, fmt.Sprintf("%s: %s is given the word %q as its character set: every leading/trailing character that occurs in it is removed, not the prefix/suffix (this.store with the set \"this.\" becomes ore)", a.What, name, cs), p.InstrPos(call), false)
					} else {
						c.Ob(a.Props, "E7.trim-cutset", key, Discharged, fmt.Sprintf("constant character set %q", cs), p.InstrPos(call), true)
					}
				} else {
					c.Ob(a.Props, "E7.trim-cutset", key, Violated, a.What+": "+name+" is given a variable as its character set: every leading/trailing character of the text that occurs anywhere in it is removed, not the prefix/suffix (tree/ee/Tree.java with the set \"tree/\" becomes Tree.java)", p.InstrPos(call), false)
				}
			}
		}
	}
	if n == 0 {
		c.Ob(a.Props, "E7.trim-cutset", "trimcutset:"+strings.Join(a.Funcs, ","), Discharged, a.What+": no cutset trimming in these functions", "", true)
	}
}

// ---------------------------------------------------------------------------------------------
// decoding into a package-level variable: encoding/json fills existing slice elements and map entries in place, so
// json.Unmarshal(data, &G) on a variable that still holds the previous model merges the two (a field the new file omits
// keeps its old value). The variable must be cleared on every path before the call.

func runDecodeGlobal(p *Program, c *Collector, a FuncRuleSpec) {
	n := 0
	for _, fn := range expandFuncs(p, c, a.Funcs, a.Props...) {
		for _, b := range fn.Blocks {
			for _, in := range b.Instrs {
				call, ok := in.(*ssa.Call)
				if !ok || call.Call.StaticCallee() == nil || fullFuncName(call.Call.StaticCallee()) != "encoding/json.Unmarshal" || len(call.Call.Args) != 2 {
					continue
				}
				target := call.Call.Args[1]
				if mi, ok := target.(*ssa.MakeInterface); ok {
					target = mi.X
				}
				g, isG := target.(*ssa.Global)
				if !isG || g.Pkg == nil || !p.Own[g.Pkg.Pkg] {
					continue
				}
				n++
				key := fmt.Sprintf("decodeglobal:%s into %s", p.FuncKey(fn), p.GlobalKey(g))
				cleared := false
				for _, b2 := range fn.Blocks {
					for _, in2 := range b2.Instrs {
						if st, ok := in2.(*ssa.Store); ok && st.Addr == ssa.Value(g) && isNilConst(st.Val) && instrDominates(st, call) {
							cleared = true
						}
					}
				}
				if cleared {
					c.Ob(a.Props, "E7.decode-into-global", key, Discharged, "the variable is set to nil before the decoder fills it", p.InstrPos(call), true)
				} else {
					c.Ob(a.Props, "E7.decode-into-global", key, Violated, a.What+": json.Unmarshal decodes into "+g.Name()+" without clearing it first: what a previous command of the same process left there is merged into the new model (omitted fields keep their old values)", p.InstrPos(call), false)
				}
			}
		}
	}
	if n == 0 {
		c.Ob(a.Props, "E7.decode-into-global", "decodeglobal:"+strings.Join(a.Funcs, ","), Discharged, a.What+": nothing is decoded into a package-level variable", "", true)
	}
}

// returning the address of a package-level variable: the caller's result is overwritten by the next activation.
func runReturnGlobal(p *Program, c *Collector, a FuncRuleSpec) {
	n := 0
	for _, fn := range expandFuncs(p, c, a.Funcs, a.Props...) {
		for _, b := range fn.Blocks {
			for _, in := range b.Instrs {
				ret, ok := in.(*ssa.Return)
				if !ok {
					continue
				}
				for _, r := range ret.Results {
					g, isG := r.(*ssa.Global)
					if !isG || g.Pkg == nil || !p.Own[g.Pkg.Pkg] || !getStateAn(p).mutable[g] {
						continue
					}
					n++
					c.Ob(a.Props, "E7.return-global-address", fmt.Sprintf("returnglobal:%s &%s", p.FuncKey(fn), g.Name()), Violated,
						a.What+": the result is the address of the package-level variable "+g.Name()+", which the next call of "+shortFn(p.FuncKey(fn))+" reassigns: the first caller's result changes under its feet", p.InstrPos(ret), false)
				}
			}
		}
	}
	if n == 0 {
		c.Ob(a.Props, "E7.return-global-address", "returnglobal:"+strings.Join(a.Funcs, ","), Discharged, a.What+": no result is the address of a package-level variable", "", true)
	}
}

// ---------------------------------------------------------------------------------------------
// every element counts: a function that turns a list (the arguments of a statement) into records must not keep "the value of
// the last iteration" of a loop — a variable overwritten on each iteration and used after the loop. In the symbolic
// form of the function such a variable is a `last` accumulator; none may occur in what the function returns or emits.

func runEveryElement(p *Program, c *Collector, a FuncRuleSpec) {
	for _, fn := range expandFuncs(p, c, a.Funcs, a.Props...) {
		sf := newSymFn(p, fn, 0)
		sf.inlineOK = func(*ssa.Function) bool { return false }
		key := "everyelement:" + p.FuncKey(fn)
		var found *Sym
		look := func(t *Sym) {
			if t == nil {
				return
			}
			t.walk(func(x *Sym) {
				if x.Op == "last" && found == nil {
					found = x
				}
			})
		}
		look(sf.returnSym())
		for _, e := range sf.emissions() {
			look(e.elem)
			look(e.cond)
		}
		if found != nil {
			c.Ob(a.Props, "E7.every-element", key, Violated, a.What+": a value assigned inside a loop over "+clip(found.Kids[0].String(), 120)+" is overwritten on every iteration and only its last value is used afterwards: of several elements all but the last are lost", p.FuncPos(fn), false)
		} else {
			c.Ob(a.Props, "E7.every-element", key, Discharged, "no result depends on the last iteration of a loop only", p.FuncPos(fn), true)
		}
	}
}

// ---------------------------------------------------------------------------------------------
// bulk overwrite: records are accumulated one per declaration in a package-level list; a loop over that list that assigns
// the same, loop-invariant, non-constant value (the state as it is *now*) to a field of every accumulated record replaces
// what was true when each record was made by what is true at the end.
func runBulkOverwrite(p *Program, c *Collector, a FuncRuleSpec) {
	for _, fn := range expandFuncs(p, c, a.Funcs, a.Props...) {
		if fn.Blocks == nil {
			continue
		}
		key := "bulkoverwrite:" + p.FuncKey(fn)
		var bad ssa.Instruction
		var what string
		for _, h := range loopHeaders(fn) {
			region := naturalLoopOf(fn, h)
			for b := range region {
				for _, in := range b.Instrs {
					st, ok := in.(*ssa.Store)
					if !ok || bad != nil {
						continue
					}
					fa, ok := st.Addr.(*ssa.FieldAddr)
					if !ok {
						continue
					}
					ia, ok := fa.X.(*ssa.IndexAddr)
					if !ok {
						continue
					}
					g := loadedGlobal(ia.X)
					if g == nil || !p.Own[g.Pkg.Pkg] {
						continue
					}
					if _, isConst := ia.Index.(*ssa.Const); isConst {
						continue
					}
					// the index varies with the loop, the value does not
					if !definedIn(ia.Index, region) || definedInDeep(st.Val, region, map[ssa.Value]bool{}) {
						continue
					}
					if _, isConst := st.Val.(*ssa.Const); isConst {
						continue
					}
					n, _ := fieldOf(fa.X.Type(), fa.Field)
					bad, what = in, n+" of every element of "+g.Name()
				}
			}
		}
		if bad != nil {
			c.Ob(a.Props, "E7.bulk-overwrite", key, Violated, a.What+": "+what+" is overwritten, after the fact, with one value that does not depend on the element: each record loses what was recorded when it was made (two classes of one file end up with the same attribution)", p.InstrPos(bad), false)
		} else {
			c.Ob(a.Props, "E7.bulk-overwrite", key, Discharged, "no loop re-attributes the accumulated records with a single value", p.FuncPos(fn), true)
		}
	}
}

func loopHeaders(fn *ssa.Function) []*ssa.BasicBlock {
	var out []*ssa.BasicBlock
	for _, b := range fn.Blocks {
		for _, pr := range b.Preds {
			if b.Dominates(pr) {
				out = append(out, b)
				break
			}
		}
	}
	return out
}

func definedIn(v ssa.Value, region map[*ssa.BasicBlock]bool) bool {
	in, ok := v.(ssa.Instruction)
	return ok && in.Block() != nil && region[in.Block()]
}

// definedInDeep: does v depend on something that varies inside the region (a phi or a range/next of the region, or a load of
// something indexed by such)? Loads of package variables are invariant unless the variable is stored to inside the region.
func definedInDeep(v ssa.Value, region map[*ssa.BasicBlock]bool, seen map[ssa.Value]bool) bool {
	if v == nil || seen[v] {
		return false
	}
	seen[v] = true
	in, ok := v.(ssa.Instruction)
	if !ok || in.Block() == nil || !region[in.Block()] {
		return false
	}
	switch x := v.(type) {
	case *ssa.Phi, *ssa.Next, *ssa.Range:
		return true
	case *ssa.UnOp:
		if x.Op == token.MUL {
			if g, ok := x.X.(*ssa.Global); ok {
				for b := range region {
					for _, i2 := range b.Instrs {
						if st, ok := i2.(*ssa.Store); ok && st.Addr == ssa.Value(g) {
							return true
						}
					}
				}
				return false
			}
		}
	case *ssa.Call:
		return true // a call inside the loop may return something different each time
	}
	var ops []*ssa.Value
	for _, o := range in.Operands(ops) {
		if o != nil && definedInDeep(*o, region, seen) {
			return true
		}
	}
	return false
}

// ---------------------------------------------------------------------------------------------
// shared backing array: a package-level slice made with spare capacity (make(T, l, c), c > l) and handed out as the initial
// value of a record field that is later grown with append: the first append through any record writes into the spare
// capacity shared by all of them, so records overwrite each other's elements.
func runSharedBacking(p *Program, c *Collector, a FuncRuleSpec) {
	pkgs := map[*ssa.Package]bool{}
	// emptied in place: `state.L = state.L[:0]` on package-level state keeps the backing array, and with it the elements of
	// every list handed out from that state before (a result returned by value still points there): the next unit's appends
	// overwrite them. `= nil` starts a new array.
	for _, fn := range expandFuncs(p, c, a.Funcs, a.Props...) {
		k := 0
		for _, b := range fn.Blocks {
			for _, in := range b.Instrs {
				st, ok := in.(*ssa.Store)
				if !ok {
					continue
				}
				sl, ok := st.Val.(*ssa.Slice)
				if !ok || sl.Max != nil {
					continue
				}
				if hi, isC := constInt(sl.High); !isC || hi != 0 {
					continue
				}
				ld, ok := sl.X.(*ssa.UnOp)
				if !ok || ld.Op != token.MUL {
					continue
				}
				// the same location is read and written, and it is package-level state
				root := st.Addr
				for {
					if fa, ok := root.(*ssa.FieldAddr); ok {
						root = fa.X
						continue
					}
					break
				}
				g, _ := globalOfAddr(root)
				if g == nil {
					g = loadedGlobal(root)
				}
				if g == nil {
					continue
				}
				same := ld.X == st.Addr
				if !same {
					fa1, ok1 := ld.X.(*ssa.FieldAddr)
					fa2, ok2 := st.Addr.(*ssa.FieldAddr)
					if ok1 && ok2 && fa1.Field == fa2.Field && loadedGlobal(fa1.X) != nil && loadedGlobal(fa1.X) == loadedGlobal(fa2.X) {
						same = true
					}
				}
				if !same {
					continue
				}
				k++
				c.Ob(a.Props, "E7.shared-backing", fmt.Sprintf("emptied-in-place:%s #%d of %s", p.FuncKey(fn), k, g.Name()), Violated, a.What+": "+shortFn(p.FuncKey(fn))+" empties a list of the package-level state "+g.Name()+" with [:0]: the list keeps its backing array, so the elements of every result handed out before are overwritten by what the next unit appends (assign nil to start afresh)", p.InstrPos(in), false)
			}
		}
	}
	for _, fn := range expandFuncs(p, c, a.Funcs, a.Props...) {
		q := fn
		for q.Parent() != nil {
			q = q.Parent()
		}
		if q.Pkg != nil {
			pkgs[q.Pkg] = true
		}
	}
	// fields grown by append anywhere in the module
	grown := map[string]bool{}
	for _, fn := range p.OwnFuncs {
		for _, b := range fn.Blocks {
			for _, in := range b.Instrs {
				call, ok := in.(*ssa.Call)
				if !ok {
					continue
				}
				if bi, ok := call.Call.Value.(*ssa.Builtin); !ok || bi.Name() != "append" || len(call.Call.Args) == 0 {
					continue
				}
				if f := loadedField(call.Call.Args[0]); f != "" {
					grown[f] = true
				}
			}
		}
	}
	var pl []*ssa.Package
	for pk := range pkgs {
		pl = append(pl, pk)
	}
	sort.Slice(pl, func(i, j int) bool { return pl[i].Pkg.Path() < pl[j].Pkg.Path() })
	for _, pk := range pl {
		initFn := pk.Func("init")
		n := 0
		if initFn != nil {
			for _, b := range initFn.Blocks {
				for _, in := range b.Instrs {
					st, ok := in.(*ssa.Store)
					if !ok {
						continue
					}
					g, ok := st.Addr.(*ssa.Global)
					if !ok {
						continue
					}
					switch ms := st.Val.(type) {
					case *ssa.MakeSlice:
						l, lok := constInt(ms.Len)
						cp, cok := constInt(ms.Cap)
						if lok && cok && cp <= l {
							continue
						}
					case *ssa.Slice:
						// make with constant sizes is compiled to new([cap]T)[:len]
						al, isAlloc := ms.X.(*ssa.Alloc)
						if !isAlloc || ms.Max != nil {
							continue
						}
						arr, isArr := al.Type().Underlying().(*types.Pointer).Elem().Underlying().(*types.Array)
						if !isArr {
							continue
						}
						if ms.High == nil {
							continue
						}
						if l, lok := constInt(ms.High); lok && l >= arr.Len() {
							continue
						}
					default:
						continue
					}
					n++
					key := "sharedbacking:" + p.GlobalKey(g)
					var hit ssa.Instruction
					var field string
					for _, fn := range p.OwnFuncs {
						for _, b2 := range fn.Blocks {
							for _, i2 := range b2.Instrs {
								s2, ok := i2.(*ssa.Store)
								if !ok || hit != nil {
									continue
								}
								if loadedGlobal(s2.Val) != g {
									continue
								}
								if fa, ok := s2.Addr.(*ssa.FieldAddr); ok {
									f := fieldFullName(fa.X.Type(), fa.Field)
									if grown[f] {
										hit, field = i2, f
									}
								}
							}
						}
					}
					if hit != nil {
						c.Ob(a.Props, "E7.shared-backing", key, Violated, a.What+": the package-level slice "+g.Name()+" has spare capacity and becomes the initial value of "+field+", which is grown with append: every record appends into the same backing array, so the elements of one record are overwritten by the next", p.InstrPos(hit), false)
					} else {
						c.Ob(a.Props, "E7.shared-backing", key, Discharged, "the package-level slice "+g.Name()+" is not handed out as the start of an appended-to field", p.InstrPos(in), true)
					}
				}
			}
		}
		if n == 0 {
			c.Ob(a.Props, "E7.shared-backing", "sharedbacking:pkg "+rel(pk.Pkg.Path()), Discharged, "no package-level slice with spare capacity", "", true)
		}
	}
}

// ---------------------------------------------------------------------------------------------
// lossy identifier: the name under which a thing is registered in a name-keyed container (a DOT subgraph or node of gographviz:
// a second registration under the same name replaces or merges with the first) must be an injective function of the thing.
// A running counter is; a name computed through a string transformation that maps different inputs to one output
// (ReplaceAll, ToLower, Trim…, Title, Fields) is not.
type LossyIdentSpec struct {
	Props   []string       `json:"props"`
	Funcs   []string       `json:"funcs"`
	Callees map[string]int `json:"callees"` // registering function -> index of the name argument (receiver not counted)
	Min     int            `json:"min"`     // sites confirmed by hand
	What    string         `json:"what"`
}

func runLossyIdent(p *Program, c *Collector, li LossyIdentSpec) {
	lossy := []string{"Replace", "replace", "ToLower", "ToUpper", "lower", "upper", "Trim", "trim", "Title", "Fields", "strings.Map"}
	sites := 0
	for _, fn := range expandFuncs(p, c, li.Funcs, li.Props...) {
		var sf *symFn
		n := 0
		for _, b := range fn.Blocks {
			for _, in := range b.Instrs {
				call, ok := in.(ssa.CallInstruction)
				if !ok {
					continue
				}
				callee := call.Common().StaticCallee()
				if callee == nil {
					continue
				}
				idx, ok := li.Callees[fullFuncName(callee)]
				if !ok {
					continue
				}
				if callee.Signature.Recv() != nil {
					idx++
				}
				if idx >= len(call.Common().Args) {
					continue
				}
				if sf == nil {
					sf = newSymFn(p, fn, 0)
				}
				n++
				sites++
				key := fmt.Sprintf("lossyident:%s %s#%d", p.FuncKey(fn), callee.Name(), n)
				term := sf.val(call.Common().Args[idx])
				bad := ""
				term.walk(func(x *Sym) {
					if bad != "" || (x.Op != "call" && x.Op != "pred") {
						return
					}
					for _, l := range lossy {
						if strings.Contains(x.Name, l) {
							bad = x.Name
						}
					}
				})
				if bad != "" {
					c.Ob(li.Props, "E7.lossy-identifier", key, Violated, li.What+": the name "+clip(term.String(), 160)+" is computed through "+bad+", which maps different inputs to the same name: two different things registered under one name are merged", p.InstrPos(in), false)
				} else {
					c.Ob(li.Props, "E7.lossy-identifier", key, Discharged, "the registered name "+clip(term.String(), 100)+" involves no many-to-one string transformation", p.InstrPos(in), true)
				}
			}
		}
	}
	if sites < li.Min {
		c.Anchor(li.Props, "E7: lossy identifier: %d registration sites found, %d confirmed by hand", sites, li.Min)
	}
}

// ---------------------------------------------------------------------------------------------
// list-valued tree fields: some fields of a syntax tree hold a list of *equals* (go/ast: the names of `X, Y int` are one
// Field with two Names). A function that reads such a field at a constant position and never walks it records the first of
// several only. Which fields are lists of equals comes from the library's documentation (the table), not from the code.
type ListFieldSpec struct {
	Props []string `json:"props"`
	Funcs []string `json:"funcs"`
	Type  string   `json:"type"`  // "<import path>.<struct>"
	Field string   `json:"field"` // list-valued field
	Min   int      `json:"min"`   // readers confirmed by hand
	What  string   `json:"what"`
}

func runListFields(p *Program, c *Collector, lf ListFieldSpec) {
	readers := 0
	for _, fn := range expandFuncs(p, c, lf.Funcs, lf.Props...) {
		var constAt, walked ssa.Instruction
		reads := false
		isList := func(v ssa.Value) bool {
			// a load of <Type>.<Field>, possibly re-sliced
			for {
				if sl, ok := v.(*ssa.Slice); ok {
					v = sl.X
					continue
				}
				break
			}
			u, ok := v.(*ssa.UnOp)
			if !ok || u.Op != token.MUL {
				return false
			}
			fa, ok := u.X.(*ssa.FieldAddr)
			if !ok {
				return false
			}
			return fieldFullName(fa.X.Type(), fa.Field) == lf.Type+"."+lf.Field
		}
		for _, b := range fn.Blocks {
			for _, in := range b.Instrs {
				var x, idx ssa.Value
				switch e := in.(type) {
				case *ssa.IndexAddr:
					x, idx = e.X, e.Index
				case *ssa.Index:
					x, idx = e.X, e.Index
				default:
					continue
				}
				if !isList(x) {
					continue
				}
				reads = true
				if _, isConst := idx.(*ssa.Const); isConst {
					if constAt == nil {
						constAt = in
					}
				} else {
					walked = in
				}
			}
		}
		if !reads {
			continue
		}
		readers++
		key := "listfield:" + p.FuncKey(fn) + " " + lf.Field
		if constAt != nil && walked == nil {
			c.Ob(lf.Props, "E7.list-field", key, Violated, lf.What+": "+shortFn(p.FuncKey(fn))+" reads "+lf.Type+"."+lf.Field+" at a fixed position and never walks it: of several entries only one is recorded", p.InstrPos(constAt), false)
		} else {
			c.Ob(lf.Props, "E7.list-field", key, Discharged, shortFn(p.FuncKey(fn))+" walks every entry of "+lf.Field, p.FuncPos(fn), true)
		}
	}
	if readers < lf.Min {
		c.Anchor(lf.Props, "E7: list field %s.%s: %d reading functions found, %d confirmed by hand", lf.Type, lf.Field, readers, lf.Min)
	}
}

// ---------------------------------------------------------------------------------------------
// lost update: a function calls an own function that fills a package-level variable and then, on a path with no read of that
// variable in between, re-assigns the variable as a whole (nil, a fresh value): what the callee produced is thrown away.
func runLostUpdate(p *Program, c *Collector, a FuncRuleSpec) {
	st := getStateAn(p)
	for _, fn := range expandFuncs(p, c, a.Funcs, a.Props...) {
		if len(fn.Blocks) == 0 {
			continue
		}
		// whole-variable kills in fn
		type kill struct {
			g  *ssa.Global
			in *ssa.Store
		}
		var kills []kill
		for _, b := range fn.Blocks {
			for _, in := range b.Instrs {
				if s, ok := in.(*ssa.Store); ok {
					if g, ok := s.Addr.(*ssa.Global); ok && p.Own[g.Pkg.Pkg] {
						// value independent of the variable itself
						dep := false
						var walk func(v ssa.Value, d int)
						walk = func(v ssa.Value, d int) {
							if d > 6 || v == nil || dep {
								return
							}
							if loadedGlobal(v) == g {
								dep = true
								return
							}
							if i2, ok := v.(ssa.Instruction); ok {
								var ops []*ssa.Value
								for _, o := range i2.Operands(ops) {
									if o != nil && *o != nil {
										walk(*o, d+1)
									}
								}
							}
						}
						walk(s.Val, 0)
						if !dep {
							kills = append(kills, kill{g, s})
						}
					}
				}
			}
		}
		if len(kills) == 0 {
			continue
		}
		var bad ssa.Instruction
		var what string
		for _, k := range kills {
			// calls in fn whose callee (transitively) writes k.g
			for _, b := range fn.Blocks {
				for i, in := range b.Instrs {
					call, ok := in.(*ssa.Call)
					if !ok || bad != nil {
						continue
					}
					callee := call.Call.StaticCallee()
					if callee == nil || callee.Pkg == nil || !p.Own[callee.Pkg.Pkg] || !st.allWrites(callee)[k.g] {
						continue
					}
					// forward search from the call to the kill, stopping at reads of k.g (and at other calls that may read it)
					type pt struct {
						b *ssa.BasicBlock
						i int
					}
					seen := map[*ssa.BasicBlock]bool{}
					stack := []pt{{b, i + 1}}
					for len(stack) > 0 && bad == nil {
						cur := stack[len(stack)-1]
						stack = stack[:len(stack)-1]
						stopped := false
						for j := cur.i; j < len(cur.b.Instrs); j++ {
							x := cur.b.Instrs[j]
							if x == ssa.Instruction(k.in) {
								bad = k.in
								what = k.g.Name() + " is filled by " + shortFn(p.FuncKey(callee)) + " (" + p.InstrPos(call) + ") and re-assigned here before anything reads it"
								stopped = true
								break
							}
							if u, ok := x.(*ssa.UnOp); ok && loadedGlobal(u) == k.g {
								stopped = true
								break
							}
							if c2, ok := x.(*ssa.Call); ok {
								if f2 := c2.Call.StaticCallee(); f2 == nil || f2.Pkg == nil || (p.Own[f2.Pkg.Pkg] && (len(st.allReads(f2)) > 0 && func() bool { _, r := st.allReads(f2)[k.g]; return r }())) {
									stopped = true
									break
								}
							}
						}
						if stopped {
							continue
						}
						for _, sx := range cur.b.Succs {
							if !seen[sx] {
								seen[sx] = true
								stack = append(stack, pt{sx, 0})
							}
						}
					}
				}
			}
		}
		key := "lostupdate:" + p.FuncKey(fn)
		if bad != nil {
			c.Ob(a.Props, "E7.lost-update", key, Violated, a.What+": "+what+": the result of the call is thrown away", p.InstrPos(bad), false)
		} else {
			c.Ob(a.Props, "E7.lost-update", key, Discharged, "no package-level result is re-assigned between the call that produces it and its first use", p.FuncPos(fn), true)
		}
	}
}

// ---------------------------------------------------------------------------------------------
// scanner limit: bufio.Scanner gives up on a token longer than 64 KiB (Scan returns false, Err is ErrTooLong). A parser that
// reads its input through a Scanner without enlarging the buffer and without looking at Err silently drops that line and
// everything after it.
func runScannerLimit(p *Program, c *Collector, a FuncRuleSpec) {
	for _, fn := range expandFuncs(p, c, a.Funcs, a.Props...) {
		n := 0
		for _, b := range fn.Blocks {
			for _, in := range b.Instrs {
				call, ok := in.(*ssa.Call)
				if !ok || call.Call.StaticCallee() == nil || fullFuncName(call.Call.StaticCallee()) != "bufio.NewScanner" {
					continue
				}
				n++
				key := fmt.Sprintf("scanner:%s#%d", p.FuncKey(fn), n)
				handled := false
				if refs := call.Referrers(); refs != nil {
					for _, r := range *refs {
						if c2, ok := r.(*ssa.Call); ok && c2.Call.StaticCallee() != nil {
							switch fullFuncName(c2.Call.StaticCallee()) {
							case "bufio.(Scanner).Buffer", "bufio.(Scanner).Err":
								handled = true
							}
						}
					}
				}
				if handled {
					c.Ob(a.Props, "E7.scanner-limit", key, Discharged, "the scanner's buffer is enlarged or its error is looked at", p.InstrPos(in), true)
				} else {
					c.Ob(a.Props, "E7.scanner-limit", key, Violated, a.What+": the input is read through a bufio.Scanner with the default 64 KiB token limit and Err() is never consulted: a longer line ends the scan silently, that line and everything after it are lost", p.InstrPos(in), false)
				}
			}
		}
		if n == 0 && !strings.Contains(fn.Name(), "$") {
			c.Ob(a.Props, "E7.scanner-limit", "scanner:"+p.FuncKey(fn), Discharged, "no line scanner with a token limit", p.FuncPos(fn), true)
		}
	}
}

// ---------------------------------------------------------------------------------------------
// in-place filter: `out := xs[:0]; for … { out = append(out, x) }` re-uses the backing array of xs. When xs is not the function's
// own (it is a parameter, a field of the receiver, a package variable), the kept elements overwrite the head of the caller's
// list: whoever still holds xs sees some elements twice and others not at all.
// returnsStoredList: every return of fn hands out a field of one of its parameters (a getter), not a list made by fn.
func returnsStoredList(fn *ssa.Function) bool {
	if len(fn.Blocks) == 0 {
		return false
	}
	n := 0
	for _, b := range fn.Blocks {
		for _, in := range b.Instrs {
			ret, ok := in.(*ssa.Return)
			if !ok || len(ret.Results) != 1 {
				continue
			}
			n++
			v := ret.Results[0]
			stored := false
			switch x := v.(type) {
			case *ssa.UnOp:
				if fa, ok := x.X.(*ssa.FieldAddr); ok {
					if _, isPrm := fa.X.(*ssa.Parameter); isPrm {
						stored = true
					}
				}
			case *ssa.Field:
				if _, isPrm := x.X.(*ssa.Parameter); isPrm {
					stored = true
				}
			}
			if !stored {
				return false
			}
		}
	}
	return n > 0
}

func runInPlaceFilter(p *Program, c *Collector, a FuncRuleSpec) {
	for _, fn := range expandFuncs(p, c, a.Funcs, a.Props...) {
		var bad ssa.Instruction
		for _, b := range fn.Blocks {
			for _, in := range b.Instrs {
				sl, ok := in.(*ssa.Slice)
				if !ok || bad != nil {
					continue
				}
				if _, isSlice := sl.X.Type().Underlying().(*types.Slice); !isSlice {
					continue
				}
				// a prefix of the list (xs[:0], xs[:i], xs[:i+1]) keeps the backing array: growing it overwrites what stood behind
				if sl.High == nil || sl.Max != nil {
					continue
				}
				// the source is not allocated by this function
				own := false
				var origin func(v ssa.Value, d int)
				origin = func(v ssa.Value, d int) {
					if d > 6 {
						return
					}
					switch x := v.(type) {
					case *ssa.MakeSlice:
						own = true
					case *ssa.Slice:
						if _, isAlloc := x.X.(*ssa.Alloc); isAlloc {
							own = true
						} else {
							origin(x.X, d+1)
						}
					case *ssa.Call:
						if bi, ok := x.Call.Value.(*ssa.Builtin); ok && bi.Name() == "append" {
							origin(x.Call.Args[0], d+1)
						} else if callee := x.Call.StaticCallee(); callee != nil && returnsStoredList(callee) {
							// a getter: the list it hands out is the one its receiver keeps
						} else {
							own = true // a fresh result of some call
						}
					case *ssa.Phi:
						for _, e := range x.Edges {
							origin(e, d+1)
						}
					}
				}
				origin(sl.X, 0)
				if own {
					continue
				}
				// is the empty re-slice grown with append?
				grown := false
				seen := map[ssa.Value]bool{}
				var follow func(v ssa.Value)
				follow = func(v ssa.Value) {
					if seen[v] || v.Referrers() == nil {
						return
					}
					seen[v] = true
					for _, r := range *v.Referrers() {
						switch u := r.(type) {
						case *ssa.Phi:
							follow(u)
						case *ssa.Call:
							if bi, ok := u.Call.Value.(*ssa.Builtin); ok && bi.Name() == "append" && len(u.Call.Args) > 0 && u.Call.Args[0] == v {
								grown = true
							}
						case *ssa.Store:
							if al, ok := u.Addr.(*ssa.Alloc); ok && u.Val == v {
								for _, r2 := range *al.Referrers() {
									if ld, ok := r2.(*ssa.UnOp); ok {
										follow(ld)
									}
								}
							}
						}
					}
				}
				follow(sl)
				if grown {
					bad = in
				}
			}
		}
		key := "inplacefilter:" + p.FuncKey(fn)
		if bad != nil {
			c.Ob(a.Props, "E7.inplace-filter", key, Violated, a.What+": the result is built by appending to an empty re-slice ([:0]) of a list the function does not own: the kept elements overwrite the head of the caller's list", p.InstrPos(bad), false)
		} else if !strings.Contains(fn.Name(), "$") {
			c.Ob(a.Props, "E7.inplace-filter", key, Discharged, "no list is filtered into its own backing array", p.FuncPos(fn), true)
		}
	}
}

// ---------------------------------------------------------------------------------------------
// write-back: `e := m[k]; e.F = …; m[k] = e` works on a copy of the element. After a field of the copy is assigned, every path
// to the end of the enclosing loop iteration (or of the function) must hand the copy on — store it back, append it, pass it,
// return it; otherwise the update is lost (a store-back that sits inside an inner loop is skipped when that loop runs zero times).
func runWriteBack(p *Program, c *Collector, a FuncRuleSpec) {
	for _, fn := range expandFuncs(p, c, a.Funcs, a.Props...) {
		if len(fn.Blocks) == 0 {
			continue
		}
		loops := naturalLoops(fn)
		innermost := func(b *ssa.BasicBlock) map[*ssa.BasicBlock]bool {
			var best map[*ssa.BasicBlock]bool
			for _, l := range loops {
				if l[b] && (best == nil || len(l) < len(best)) {
					best = l
				}
			}
			return best
		}
		n := 0
		var bad ssa.Instruction
		var badName string
		for _, b := range fn.Blocks {
			for _, in := range b.Instrs {
				al, ok := in.(*ssa.Alloc)
				if !ok || al.Heap {
					// (escaping locals are handed on by address)
				}
				if !ok {
					continue
				}
				if _, isStruct := al.Type().Underlying().(*types.Pointer).Elem().Underlying().(*types.Struct); !isStruct {
					continue
				}
				// initialised from a container element?
				fromElem := false
				var initBlock *ssa.BasicBlock
				var fieldStores []*ssa.Store
				exports := map[ssa.Instruction]bool{}
				escapes := false
				if al.Referrers() == nil {
					continue
				}
				for _, r := range *al.Referrers() {
					switch u := r.(type) {
					case *ssa.Store:
						if u.Addr == ssa.Value(al) {
							initBlock = u.Block()
							switch v := u.Val.(type) {
							case *ssa.Lookup:
								fromElem = true
							case *ssa.Extract:
								if _, ok := v.Tuple.(*ssa.Lookup); ok {
									fromElem = true
								}
							case *ssa.UnOp:
								if _, ok := v.X.(*ssa.IndexAddr); ok {
									fromElem = true
								}
							}
						} else {
							escapes = true // the address itself is stored somewhere
						}
					case *ssa.FieldAddr:
						if u.Referrers() != nil {
							for _, r2 := range *u.Referrers() {
								switch x := r2.(type) {
								case *ssa.Store:
									if x.Addr == ssa.Value(u) && !sameFieldValue(x.Val, al, u.Field, 0) {
										fieldStores = append(fieldStores, x)
									}
								case *ssa.UnOp:
									// the field is read again: the copy serves as a scratch value, the update is used
									exports[x] = true
								default:
									_ = x
									escapes = true // address of a field handed on
								}
							}
						}
					case *ssa.UnOp:
						// a load of the whole record: every use of it hands the record on
						if u.Referrers() != nil {
							for _, r2 := range *u.Referrers() {
								if _, isDbg := r2.(*ssa.DebugRef); !isDbg {
									exports[r2] = true
								}
							}
						}
					case *ssa.DebugRef:
					default:
						escapes = true
					}
				}
				if !fromElem || escapes || len(fieldStores) == 0 {
					continue
				}
				n++
				for _, st := range fieldStores {
					if bad != nil {
						break
					}
					// the iteration that matters is that of the loop in which the copy is taken
					region := innermost(initBlock)
					// forward search from the store
					type pt struct {
						b *ssa.BasicBlock
						i int
					}
					idx := 0
					for i, x := range st.Block().Instrs {
						if x == ssa.Instruction(st) {
							idx = i + 1
						}
					}
					seen := map[*ssa.BasicBlock]bool{}
					stack := []pt{{st.Block(), idx}}
					lost := false
					for len(stack) > 0 && !lost {
						cur := stack[len(stack)-1]
						stack = stack[:len(stack)-1]
						exported := false
						for j := cur.i; j < len(cur.b.Instrs); j++ {
							x := cur.b.Instrs[j]
							if exports[x] {
								exported = true
								break
							}
							if _, isRet := x.(*ssa.Return); isRet {
								lost = true
							}
						}
						if exported || lost {
							continue
						}
						for _, sx := range cur.b.Succs {
							if region != nil && (!region[sx] || sx == loopHeader(region)) {
								lost = true // the iteration ends (or the loop is left) without handing the copy on
								break
							}
							if !seen[sx] {
								seen[sx] = true
								stack = append(stack, pt{sx, 0})
							}
						}
					}
					if lost {
						bad = st
						badName = al.Comment
					}
				}
			}
		}
		key := "writeback:" + p.FuncKey(fn)
		if bad != nil {
			c.Ob(a.Props, "E7.write-back", key, Violated, a.What+": a field of "+badName+", a copy of a container element, is assigned and on some path the iteration ends without the copy being stored back or handed on: the update is lost (a store-back inside an inner loop is skipped when that loop runs zero times)", p.InstrPos(bad), false)
		} else if n > 0 {
			c.Ob(a.Props, "E7.write-back", key, Discharged, fmt.Sprintf("%d element copies are updated; each is handed on before the iteration ends", n), p.FuncPos(fn), true)
		}
	}
}

// sameFieldValue: v is what field f of the record at al already holds (loaded from it, possibly through a single-store local):
// storing it back changes nothing.
func sameFieldValue(v ssa.Value, al *ssa.Alloc, f int, depth int) bool {
	if depth > 4 {
		return false
	}
	u, ok := v.(*ssa.UnOp)
	if !ok || u.Op != token.MUL {
		return false
	}
	switch x := u.X.(type) {
	case *ssa.FieldAddr:
		return x.X == ssa.Value(al) && x.Field == f
	case *ssa.Alloc:
		var st *ssa.Store
		n := 0
		if x.Referrers() != nil {
			for _, r := range *x.Referrers() {
				if s, ok := r.(*ssa.Store); ok && s.Addr == ssa.Value(x) {
					st = s
					n++
				}
			}
		}
		if n == 1 {
			return sameFieldValue(st.Val, al, f, depth+1)
		}
	}
	return false
}

// ---------------------------------------------------------------------------------------------
// shadowed result: `x := f()` inside an inner block declares a new x when the function already has an x of the same type that is
// read after that block: the value computed inside never reaches the later use (which sees the outer variable's old or zero
// value). Decided on the type-checked syntax: both objects, their scopes and the later use are resolved by go/types.
func runShadow(p *Program, c *Collector, a FuncRuleSpec) {
	want := map[string]bool{}
	for _, f := range a.Funcs {
		if strings.HasPrefix(f, "pkg:") {
			want[strings.TrimPrefix(f, "pkg:")] = true
		}
	}
	for _, pk := range p.Pkgs {
		if !want[rel(pk.PkgPath)] {
			continue
		}
		n := 0
		for _, file := range pk.Syntax {
			ast.Inspect(file, func(nd ast.Node) bool {
				as, ok := nd.(*ast.AssignStmt)
				if !ok || as.Tok != token.DEFINE {
					return true
				}
				for _, lhs := range as.Lhs {
					id, ok := lhs.(*ast.Ident)
					if !ok || id.Name == "_" || id.Name == "err" || id.Name == "ok" {
						continue
					}
					inner, _ := pk.TypesInfo.Defs[id].(*types.Var)
					if inner == nil || inner.Parent() == nil {
						continue
					}
					// an outer variable of the same name and type in an enclosing scope of the same function
					var outer *types.Var
					for sc := inner.Parent().Parent(); sc != nil && sc != pk.Types.Scope(); sc = sc.Parent() {
						if o, ok := sc.Lookup(id.Name).(*types.Var); ok && o.Pos() < inner.Pos() && types.Identical(o.Type(), inner.Type()) && !o.IsField() {
							outer = o
							break
						}
					}
					if outer == nil || outer.Parent() == pk.Types.Scope() || outer.Parent() == types.Universe {
						continue
					}
					n++
					// is the outer variable read after the inner scope ends?
					end := inner.Parent().End()
					// the statement of the outer variable's own block that contains the inner declaration: a use in a sibling branch
					// of that statement (the else of the if) is not reached from the inner block
					for node, sc := range pk.TypesInfo.Scopes {
						if sc != outer.Parent() {
							continue
						}
						var stmts []ast.Stmt
						switch b := node.(type) {
						case *ast.BlockStmt:
							stmts = b.List
						case *ast.FuncType:
							ast.Inspect(file, func(x ast.Node) bool {
								switch fd := x.(type) {
								case *ast.FuncDecl:
									if fd.Type == b && fd.Body != nil {
										stmts = fd.Body.List
									}
								case *ast.FuncLit:
									if fd.Type == b {
										stmts = fd.Body.List
									}
								}
								return true
							})
						case *ast.CaseClause:
							stmts = b.Body
						}
						for _, st := range stmts {
							if st.Pos() <= id.Pos() && id.Pos() <= st.End() && st.End() > end {
								end = st.End()
							}
						}
					}
					var later token.Pos
					for use, obj := range pk.TypesInfo.Uses {
						if obj == types.Object(outer) && use.Pos() > end && (later == token.NoPos || use.Pos() < later) && !passedToUnusedParam(p, pk, file, use) {
							later = use.Pos()
						}
					}
					key := fmt.Sprintf("shadow:%s %s", rel(pk.PkgPath), id.Name) + "@" + enclosingFuncName(file, id.Pos())
					if later != token.NoPos {
						c.Ob(a.Props, "E7.shadowed-result", key, Violated, a.What+": `"+id.Name+" := …` declares a new variable inside an inner block; the "+id.Name+" declared at "+p.Pos(outer.Pos())+" is what "+p.Pos(later)+" reads, and it never receives the value computed here", p.Pos(id.Pos()), false)
					} else {
						c.Ob(a.Props, "E7.shadowed-result", key, Discharged, "the outer "+id.Name+" is not used after the inner block", p.Pos(id.Pos()), true)
					}
				}
				return true
			})
		}
		if n == 0 {
			c.Ob(a.Props, "E7.shadowed-result", "shadow:pkg "+rel(pk.PkgPath), Discharged, "no := re-declares a variable of an enclosing block", "", true)
		}
	}
}

func enclosingFuncName(file *ast.File, pos token.Pos) string {
	name := "<file>"
	for _, d := range file.Decls {
		if fd, ok := d.(*ast.FuncDecl); ok && fd.Pos() <= pos && pos <= fd.End() {
			name = fd.Name.Name
		}
	}
	return name
}

// passedToUnusedParam: the identifier is a direct argument of a call of an own function whose corresponding parameter is never
// used (a stub): that read has no effect.
func passedToUnusedParam(p *Program, pk *packages.Package, file *ast.File, id *ast.Ident) bool {
	res := false
	ast.Inspect(file, func(n ast.Node) bool {
		call, ok := n.(*ast.CallExpr)
		if !ok || res {
			return !res
		}
		for i, a := range call.Args {
			if a != ast.Expr(id) {
				continue
			}
			var fobj types.Object
			switch f := call.Fun.(type) {
			case *ast.Ident:
				fobj = pk.TypesInfo.Uses[f]
			case *ast.SelectorExpr:
				fobj = pk.TypesInfo.Uses[f.Sel]
			}
			tf, ok := fobj.(*types.Func)
			if !ok {
				continue
			}
			sf := p.SSA.FuncValue(tf)
			if sf == nil || len(sf.Blocks) == 0 {
				continue
			}
			k := i
			if sf.Signature.Recv() != nil {
				k++
			}
			if k < len(sf.Params) && (sf.Params[k].Referrers() == nil || len(*sf.Params[k].Referrers()) == 0) {
				res = true
			}
		}
		return true
	})
	return res
}

// ---------------------------------------------------------------------------------------------
// forbidden calls: a function must obtain something one way and not another (the git log is what git writes to stdout;
// CombinedOutput mixes git's warnings on stderr into the text the parser reads).
type ForbiddenSpec struct {
	Props   []string `json:"props"`
	Func    string   `json:"func"`
	Callees []string `json:"callees"` // must not be called
	Instead []string `json:"instead"` // one of these must be called
	What    string   `json:"what"`
}

func runForbidden(p *Program, c *Collector, fb ForbiddenSpec) {
	fn := p.Func(fb.Func)
	if fn == nil {
		c.Anchor(fb.Props, "E7: forbidden calls: %s does not resolve", fb.Func)
		return
	}
	key := "forbidden:" + fb.Func
	var bad ssa.Instruction
	badName := ""
	good := false
	for _, f := range append([]*ssa.Function{fn}, allAnon(fn)...) {
		for _, b := range f.Blocks {
			for _, in := range b.Instrs {
				ci, ok := in.(ssa.CallInstruction)
				if !ok || ci.Common().StaticCallee() == nil {
					continue
				}
				n := fullFuncName(ci.Common().StaticCallee())
				for _, x := range fb.Callees {
					if n == x && bad == nil {
						bad, badName = in, n
					}
				}
				for _, x := range fb.Instead {
					if n == x {
						good = true
					}
				}
			}
		}
	}
	switch {
	case bad != nil:
		c.Ob(fb.Props, "E7.forbidden-call", key, Violated, fb.What+": "+shortFn(fb.Func)+" calls "+badName, p.InstrPos(bad), false)
	case len(fb.Instead) > 0 && !good:
		c.Ob(fb.Props, "E7.forbidden-call", key, Undecided, fb.What+": none of "+strings.Join(fb.Instead, ", ")+" is called any more", p.FuncPos(fn), false)
	default:
		c.Ob(fb.Props, "E7.forbidden-call", key, Discharged, fb.What, p.FuncPos(fn), true)
	}
}

// ---------------------------------------------------------------------------------------------
// cross append: `a.List = append(b.List, x)` with a ≠ b grows b's list and files the result under a: a's own entries are
// replaced by b's (plus x) — the member classes of a type were stored as "the member's own members plus the member", so every
// further member nested all earlier ones again and the model doubled with each of them.
func runCrossAppend(p *Program, c *Collector, a FuncRuleSpec) {
	for _, fn := range expandFuncs(p, c, a.Funcs, a.Props...) {
		var bad ssa.Instruction
		what := ""
		for _, b := range fn.Blocks {
			for _, in := range b.Instrs {
				st, ok := in.(*ssa.Store)
				if !ok || bad != nil {
					continue
				}
				call, ok := st.Val.(*ssa.Call)
				if !ok {
					continue
				}
				if bi, ok := call.Call.Value.(*ssa.Builtin); !ok || bi.Name() != "append" || len(call.Call.Args) == 0 {
					continue
				}
				dst, ok1 := st.Addr.(*ssa.FieldAddr)
				ld, ok2 := call.Call.Args[0].(*ssa.UnOp)
				if !ok1 || !ok2 {
					continue
				}
				src, ok := ld.X.(*ssa.FieldAddr)
				if !ok || src.Field != dst.Field || fieldFullName(src.X.Type(), src.Field) != fieldFullName(dst.X.Type(), dst.Field) {
					continue
				}
				// the same field of two different records?
				sf := newSymFn(p, fn, 0)
				sf.inlineOK = func(*ssa.Function) bool { return false }
				if d, s2 := sf.val(dst.X).String(), sf.val(src.X).String(); d != s2 {
					bad = in
					what = fieldFullName(dst.X.Type(), dst.Field) + ": " + clip(d, 60) + " receives append(" + clip(s2, 60) + ", …)"
				}
			}
		}
		key := "crossappend:" + p.FuncKey(fn)
		if bad != nil {
			c.Ob(a.Props, "E7.cross-append", key, Violated, a.What+": "+what+": the list of one record is grown and filed under another, whose own entries are replaced", p.InstrPos(bad), false)
		} else if !strings.Contains(fn.Name(), "$") {
			c.Ob(a.Props, "E7.cross-append", key, Discharged, "every append is stored back into the list it extends", p.FuncPos(fn), true)
		}
	}
}

// ---------------------------------------------------------------------------------------------
// nested model: the code model files a member type under its enclosing type (CodeDataStruct.InnerStructures) and nowhere
// else. A report builder that walks a list of types and reads their methods, calls or fields, but never looks at
// InnerStructures (neither itself nor in a helper it calls), leaves out everything declared in member types.
type NestedModelSpec struct {
	Props   []string `json:"props"`
	Funcs   []string `json:"funcs"`
	Type    string   `json:"type"`    // "<rel pkg>.<struct>"
	Reads   []string `json:"reads"`   // fields whose reading makes a function a consumer of the model
	Partner string   `json:"partner"` // the field that holds the nested records
	What    string   `json:"what"`
}

func runNestedModel(p *Program, c *Collector, nm NestedModelSpec) {
	isField := func(in ssa.Instruction, names map[string]bool) bool {
		var t types.Type
		var idx int
		switch x := in.(type) {
		case *ssa.FieldAddr:
			t, idx = x.X.Type(), x.Field
		case *ssa.Field:
			t, idx = x.X.Type(), x.Field
		default:
			return false
		}
		full := fieldFullName(t, idx)
		for n := range names {
			if full == nm.Type+"."+n {
				return true
			}
		}
		return false
	}
	reads := map[string]bool{}
	for _, r := range nm.Reads {
		reads[r] = true
	}
	partner := map[string]bool{nm.Partner: true}
	var touches func(fn *ssa.Function, names map[string]bool, depth int, seen map[*ssa.Function]bool) bool
	touches = func(fn *ssa.Function, names map[string]bool, depth int, seen map[*ssa.Function]bool) bool {
		if fn == nil || seen[fn] || depth > 2 {
			return false
		}
		seen[fn] = true
		for _, f := range append([]*ssa.Function{fn}, allAnon(fn)...) {
			for _, b := range f.Blocks {
				for _, in := range b.Instrs {
					if isField(in, names) {
						return true
					}
					if call, ok := in.(ssa.CallInstruction); ok {
						for _, callee := range p.ownCallees(call) {
							if touches(callee, names, depth+1, seen) {
								return true
							}
						}
					}
				}
			}
		}
		return false
	}
	for _, fn := range expandFuncs(p, c, nm.Funcs, nm.Props...) {
		if fn.Parent() != nil || len(fn.Blocks) == 0 {
			continue
		}
		// a consumer: takes (or ranges over) a list of the model type and reads one of the fields itself
		takesList := false
		for _, prm := range fn.Params {
			if sl, ok := prm.Type().Underlying().(*types.Slice); ok {
				if pk, n := namedTypeName(sl.Elem()); rel(pk)+"."+n == nm.Type {
					takesList = true
				}
			}
		}
		if !takesList {
			continue
		}
		if twice := flattenedTwice(p, fn, partner, touches); twice != nil {
			c.Ob(nm.Props, "E7.nested-model", "nestedmodel:"+p.FuncKey(fn), Violated, nm.What+": "+shortFn(p.FuncKey(fn))+" lists the member types ("+nm.Partner+") and hands the list to "+shortFn(p.FuncKey(twice.Call.StaticCallee()))+", which lists them again: every member type is walked twice", p.InstrPos(twice), false)
			continue
		}
		direct := false
		for _, f := range append([]*ssa.Function{fn}, allAnon(fn)...) {
			for _, b := range f.Blocks {
				for _, in := range b.Instrs {
					if isField(in, reads) {
						direct = true
					}
				}
			}
		}
		if !direct {
			continue
		}
		key := "nestedmodel:" + p.FuncKey(fn)
		// the function flattens its list (hands it to a helper that visits the nested records and gives a list of the same
		// type back) but one of its loops still walks the list it was given: that loop leaves the member types out
		if twice := flattenedTwice(p, fn, partner, touches); twice != nil {
			c.Ob(nm.Props, "E7.nested-model", key, Violated, nm.What+": "+shortFn(p.FuncKey(fn))+" lists the member types ("+nm.Partner+") and hands the list to "+shortFn(p.FuncKey(twice.Call.StaticCallee()))+", which lists them again: every member type is walked twice", p.InstrPos(twice), false)
			continue
		}
		if raw := rawWalkBesideFlattened(p, fn, nm, isField, reads, partner, touches); raw != nil {
			c.Ob(nm.Props, "E7.nested-model", key, Violated, nm.What+": "+shortFn(p.FuncKey(fn))+" builds the list with the member types ("+nm.Partner+") but the loop at "+p.InstrPos(raw)+" still walks the list it was given: what member types declare is left out there, and the two walks disagree", p.InstrPos(raw), false)
			continue
		}
		if touches(fn, partner, 0, map[*ssa.Function]bool{}) {
			c.Ob(nm.Props, "E7.nested-model", key, Discharged, shortFn(p.FuncKey(fn))+" also visits "+nm.Partner, p.FuncPos(fn), true)
		} else {
			c.Ob(nm.Props, "E7.nested-model", key, Violated, nm.What+": "+shortFn(p.FuncKey(fn))+" walks a list of types and reads their "+strings.Join(nm.Reads, "/")+", but neither it nor a helper it calls ever looks at "+nm.Partner+": what member types declare and call is left out", p.FuncPos(fn), false)
		}
	}
}

// flattenedTwice: the result of a flattener (an own function that visits the nested records of its list argument and returns a
// list of the same type) is passed on to an own function that applies a flattener to that parameter again.
func flattenedTwice(p *Program, fn *ssa.Function, partner map[string]bool, touches func(*ssa.Function, map[string]bool, int, map[*ssa.Function]bool) bool) *ssa.Call {
	isFlattenerCall := func(call *ssa.Call) bool {
		callee := call.Call.StaticCallee()
		if callee == nil || !p.IsOwnFunc(callee) || len(call.Call.Args) == 0 {
			return false
		}
		if _, isSlice := call.Type().Underlying().(*types.Slice); !isSlice || !types.Identical(call.Type(), call.Call.Args[0].Type()) {
			return false
		}
		return touches(callee, partner, 0, map[*ssa.Function]bool{})
	}
	for _, b := range fn.Blocks {
		for _, in := range b.Instrs {
			flat, ok := in.(*ssa.Call)
			if !ok || !isFlattenerCall(flat) || flat.Referrers() == nil {
				continue
			}
			for _, r := range *flat.Referrers() {
				use, ok := r.(*ssa.Call)
				if !ok || use.Call.StaticCallee() == nil || !p.IsOwnFunc(use.Call.StaticCallee()) || isFlattenerCall(use) {
					continue
				}
				callee := use.Call.StaticCallee()
				for i, a := range use.Call.Args {
					if a != ssa.Value(flat) || i >= len(callee.Params) {
						continue
					}
					// does the callee flatten that parameter?
					prm := callee.Params[i]
					if prm.Referrers() == nil {
						continue
					}
					for _, pr := range *prm.Referrers() {
						if inner, ok := pr.(*ssa.Call); ok && isFlattenerCall(inner) {
							return use
						}
					}
				}
			}
		}
	}
	return nil
}

func rawWalkBesideFlattened(p *Program, fn *ssa.Function, nm NestedModelSpec, isField func(ssa.Instruction, map[string]bool) bool, reads, partner map[string]bool,
	touches func(*ssa.Function, map[string]bool, int, map[*ssa.Function]bool) bool) ssa.Instruction {
	for _, prm := range fn.Params {
		sl, ok := prm.Type().Underlying().(*types.Slice)
		if !ok {
			continue
		}
		if pk, n := namedTypeName(sl.Elem()); rel(pk)+"."+n != nm.Type {
			continue
		}
		flattened := false
		for _, b := range fn.Blocks {
			for _, in := range b.Instrs {
				call, ok := in.(*ssa.Call)
				if !ok || call.Call.StaticCallee() == nil || !p.IsOwnFunc(call.Call.StaticCallee()) || !types.Identical(call.Type(), prm.Type()) {
					continue
				}
				for _, a := range call.Call.Args {
					if a == ssa.Value(prm) && touches(call.Call.StaticCallee(), partner, 0, map[*ssa.Function]bool{}) {
						flattened = true
					}
				}
			}
		}
		if !flattened || prm.Referrers() == nil {
			continue
		}
		// the list as it was given is handed to a helper that reads the model fields (and does not visit the nested records
		// itself), next to the flattened one
		for _, r := range *prm.Referrers() {
			call, ok := r.(*ssa.Call)
			if !ok || call.Call.StaticCallee() == nil || !p.IsOwnFunc(call.Call.StaticCallee()) {
				continue
			}
			callee := call.Call.StaticCallee()
			if touches(callee, partner, 0, map[*ssa.Function]bool{}) {
				continue // the flattener itself, or a helper that walks the nested records on its own
			}
			if touches(callee, reads, 0, map[*ssa.Function]bool{}) {
				return call
			}
		}
		// element accesses on the raw parameter whose element is read for the model fields (directly or in a callee)
		for _, r := range *prm.Referrers() {
			ia, ok := r.(*ssa.IndexAddr)
			if !ok || loopRegion(fn, ia.Block()) == nil || ia.Referrers() == nil {
				continue
			}
			var uses []ssa.Instruction
			var follow func(v ssa.Value, depth int)
			follow = func(v ssa.Value, depth int) {
				if depth > 3 || v.Referrers() == nil {
					return
				}
				for _, u := range *v.Referrers() {
					uses = append(uses, u)
					if uv, ok := u.(ssa.Value); ok {
						switch u.(type) {
						case *ssa.UnOp, *ssa.FieldAddr, *ssa.Field:
							follow(uv, depth+1)
						}
					}
					// a copy into a local (range value variable): follow the local
					if st, ok := u.(*ssa.Store); ok {
						if al, ok := st.Addr.(*ssa.Alloc); ok && st.Val == v {
							follow(al, depth+1)
						}
					}
				}
			}
			follow(ia, 0)
			for _, u := range uses {
				if isField(u, reads) {
					return ia
				}
				if call, ok := u.(ssa.CallInstruction); ok {
					for _, callee := range p.ownCallees(call) {
						if touches(callee, reads, 1, map[*ssa.Function]bool{}) {
							return ia
						}
					}
				}
			}
		}
	}
	return nil
}

// ---------------------------------------------------------------------------------------------
// direct children only: a record built from an element of a tree takes its attributes from that element's own children. A
// builder that (transitively) calls a self-recursive search looks at all descendants: the <groupId> of an <exclusion> below a
// <dependency> is found where the dependency's own <groupId> was meant.
func runDirectOnly(p *Program, c *Collector, a FuncRuleSpec) {
	for _, fn := range expandFuncs(p, c, a.Funcs, a.Props...) {
		if fn.Parent() != nil {
			continue
		}
		key := "directonly:" + p.FuncKey(fn)
		var bad *ssa.Function
		for f := range p.reach([]*ssa.Function{fn}) {
			if f == fn {
				continue
			}
			for _, b := range f.Blocks {
				for _, in := range b.Instrs {
					if ci, ok := in.(ssa.CallInstruction); ok {
						for _, callee := range p.ownCallees(ci) {
							if callee == f {
								bad = f
							}
						}
					}
				}
			}
		}
		if bad != nil {
			c.Ob(a.Props, "E7.direct-children", key, Violated, a.What+": "+shortFn(p.FuncKey(fn))+" reaches "+shortFn(p.FuncKey(bad))+", which calls itself: the attribute is searched among all descendants of the element, not among its own children", p.FuncPos(bad), false)
		} else {
			c.Ob(a.Props, "E7.direct-children", key, Discharged, "the record's attributes are read from the element's own children (no recursive search is reached)", p.FuncPos(fn), true)
		}
	}
}
