package main

// E1 — reader for ANTLR4 parser grammars (.g4) and the facts derived from them.
// Only the EBNF structure is used; actions, predicates, rule arguments and options are skipped.

import (
	"fmt"
	"os"
	"sort"
	"strings"
	"unicode"
)

type gKind int

const (
	gRule gKind = iota // reference to a parser rule
	gTok               // reference to a token (by name or literal)
	gSeq
	gAlt
	gEps
)

type gNode struct {
	Kind  gKind
	Name  string   // rule name / canonical token name
	Kids  []*gNode // for seq / alt
	Rep   byte     // 0, '?', '*', '+'
	Label string   // '#label' of an alternative (only on the top-level alts of a rule)
}

type Rule struct {
	Name        string
	Body        *gNode // gAlt over top-level alternatives
	BaseContext string // options { baseContext = X; }
	Labels      []string
}

type Grammar struct {
	Name     string
	Rules    map[string]*Rule
	Order    []string
	TokLit   map[string]string // token name -> literal text ('class')
	LitTok   map[string]string // literal -> token name
	tokIndex map[string]int
}

// ----- tokenizer ---------------------------------------------------------------------------

type gTokK int

const (
	tkIdent gTokK = iota
	tkLit
	tkPunct
	tkAction // {...} possibly followed by ?
	tkArgs   // [...]
	tkEOF
)

type gToken struct {
	K gTokK
	S string
}

func lexG4(src string) ([]gToken, error) {
	var out []gToken
	i := 0
	n := len(src)
	for i < n {
		c := src[i]
		switch {
		case c == ' ' || c == '\t' || c == '\r' || c == '\n':
			i++
		case c == '/' && i+1 < n && src[i+1] == '/':
			for i < n && src[i] != '\n' {
				i++
			}
		case c == '/' && i+1 < n && src[i+1] == '*':
			j := strings.Index(src[i+2:], "*/")
			if j < 0 {
				return nil, fmt.Errorf("unterminated comment")
			}
			i += j + 4
		case c == '\'':
			j := i + 1
			for j < n && src[j] != '\'' {
				if src[j] == '\\' {
					j++
				}
				j++
			}
			out = append(out, gToken{tkLit, src[i : j+1]})
			i = j + 1
		case c == '{':
			depth := 0
			j := i
			for j < n {
				if src[j] == '\'' || src[j] == '"' {
					q := src[j]
					j++
					for j < n && src[j] != q {
						if src[j] == '\\' {
							j++
						}
						j++
					}
				} else if src[j] == '{' {
					depth++
				} else if src[j] == '}' {
					depth--
					if depth == 0 {
						break
					}
				}
				j++
			}
			j++
			if j < n && src[j] == '?' {
				j++
			}
			out = append(out, gToken{tkAction, src[i:j]})
			i = j
		case c == '[':
			depth := 0
			j := i
			for j < n {
				if src[j] == '[' {
					depth++
				} else if src[j] == ']' {
					depth--
					if depth == 0 {
						break
					}
				}
				j++
			}
			out = append(out, gToken{tkArgs, src[i : j+1]})
			i = j + 1
		case unicode.IsLetter(rune(c)) || c == '_':
			j := i
			for j < n && (unicode.IsLetter(rune(src[j])) || unicode.IsDigit(rune(src[j])) || src[j] == '_') {
				j++
			}
			out = append(out, gToken{tkIdent, src[i:j]})
			i = j
		case c == '+' && i+1 < n && src[i+1] == '=':
			out = append(out, gToken{tkPunct, "+="})
			i += 2
		case c == '-' && i+1 < n && src[i+1] == '>':
			out = append(out, gToken{tkPunct, "->"})
			i += 2
		case c == '<':
			// <assoc=right> and similar element options
			j := strings.IndexByte(src[i:], '>')
			if j < 0 {
				return nil, fmt.Errorf("unterminated <...>")
			}
			i += j + 1
		default:
			out = append(out, gToken{tkPunct, string(c)})
			i++
		}
	}
	out = append(out, gToken{tkEOF, ""})
	return out, nil
}

type g4Parser struct {
	toks []gToken
	p    int
	g    *Grammar
}

func (ps *g4Parser) peek() gToken { return ps.toks[ps.p] }
func (ps *g4Parser) next() gToken { t := ps.toks[ps.p]; ps.p++; return t }
func (ps *g4Parser) isP(s string) bool {
	t := ps.peek()
	return t.K == tkPunct && t.S == s
}

func isUpperName(s string) bool { return s != "" && unicode.IsUpper(rune(s[0])) }

// ParseGrammar reads a parser grammar; tokensFile (may be "") maps literals to token names.
func ParseGrammar(path, tokensFile string) (*Grammar, error) {
	b, err := os.ReadFile(path)
	if err != nil {
		return nil, err
	}
	g := &Grammar{Rules: map[string]*Rule{}, TokLit: map[string]string{}, LitTok: map[string]string{}, tokIndex: map[string]int{}}
	if tokensFile != "" {
		tb, err := os.ReadFile(tokensFile)
		if err != nil {
			return nil, err
		}
		byNum := map[string]string{}
		var lits [][2]string
		for _, ln := range strings.Split(string(tb), "\n") {
			ln = strings.TrimSpace(ln)
			k := strings.LastIndex(ln, "=")
			if k <= 0 {
				continue
			}
			name, num := ln[:k], ln[k+1:]
			if strings.HasPrefix(name, "'") {
				lits = append(lits, [2]string{name, num})
			} else {
				byNum[num] = name
				var x int
				fmt.Sscanf(num, "%d", &x)
				g.tokIndex[name] = x
			}
		}
		for _, l := range lits {
			if tn, ok := byNum[l[1]]; ok {
				g.LitTok[l[0]] = tn
				g.TokLit[tn] = strings.Trim(l[0], "'")
			}
		}
	}
	toks, err := lexG4(string(b))
	if err != nil {
		return nil, fmt.Errorf("%s: %v", path, err)
	}
	ps := &g4Parser{toks: toks, g: g}
	// header: [parser] grammar Name ;
	for ps.peek().K != tkEOF {
		t := ps.next()
		if t.K == tkIdent && t.S == "grammar" {
			g.Name = ps.next().S
			for !ps.isP(";") {
				ps.next()
			}
			ps.next()
			break
		}
	}
	for ps.peek().K != tkEOF {
		t := ps.peek()
		if t.K == tkIdent && (t.S == "options" || t.S == "tokens" || t.S == "channels") {
			ps.next()
			if ps.peek().K == tkAction {
				ps.next()
			}
			continue
		}
		if t.K == tkIdent && t.S == "import" {
			for !ps.isP(";") {
				ps.next()
			}
			ps.next()
			continue
		}
		if t.K == tkPunct && t.S == "@" {
			ps.next()
			for ps.peek().K != tkAction && ps.peek().K != tkEOF {
				ps.next()
			}
			ps.next()
			continue
		}
		if t.K == tkIdent && t.S == "fragment" {
			ps.next()
			continue
		}
		if t.K != tkIdent {
			return nil, fmt.Errorf("%s: unexpected token %q at top level", path, t.S)
		}
		r, err := ps.rule()
		if err != nil {
			return nil, fmt.Errorf("%s: %v", path, err)
		}
		if !isUpperName(r.Name) {
			g.Rules[r.Name] = r
			g.Order = append(g.Order, r.Name)
		}
	}
	return g, nil
}

func (ps *g4Parser) rule() (*Rule, error) {
	r := &Rule{Name: ps.next().S}
	// prequel: args, returns [..], locals [..], throws, options {..}, @init {..}
	for !ps.isP(":") {
		t := ps.next()
		switch {
		case t.K == tkEOF:
			return nil, fmt.Errorf("rule %s: unexpected EOF", r.Name)
		case t.K == tkIdent && t.S == "options":
			if ps.peek().K == tkAction {
				a := ps.next().S
				if k := strings.Index(a, "baseContext"); k >= 0 {
					rest := a[k+len("baseContext"):]
					rest = strings.TrimLeft(rest, " =\t")
					j := 0
					for j < len(rest) && (unicode.IsLetter(rune(rest[j])) || unicode.IsDigit(rune(rest[j])) || rest[j] == '_') {
						j++
					}
					r.BaseContext = rest[:j]
				}
			}
		}
	}
	ps.next() // ':'
	body, err := ps.altList(true, r)
	if err != nil {
		return nil, fmt.Errorf("rule %s: %v", r.Name, err)
	}
	if !ps.isP(";") {
		return nil, fmt.Errorf("rule %s: expected ';' got %q", r.Name, ps.peek().S)
	}
	ps.next()
	r.Body = body
	return r, nil
}

func (ps *g4Parser) altList(top bool, r *Rule) (*gNode, error) {
	alt := &gNode{Kind: gAlt}
	for {
		seq, err := ps.seq(top, r)
		if err != nil {
			return nil, err
		}
		alt.Kids = append(alt.Kids, seq)
		if ps.isP("|") {
			ps.next()
			continue
		}
		break
	}
	return alt, nil
}

func (ps *g4Parser) seq(top bool, r *Rule) (*gNode, error) {
	s := &gNode{Kind: gSeq}
	for {
		t := ps.peek()
		switch {
		case t.K == tkEOF:
			return nil, fmt.Errorf("unexpected EOF")
		case t.K == tkPunct && (t.S == "|" || t.S == ";" || t.S == ")"):
			return s, nil
		case t.K == tkPunct && t.S == "#":
			ps.next()
			lbl := ps.next().S
			if top {
				s.Label = lbl
				r.Labels = append(r.Labels, lbl)
			}
		case t.K == tkAction, t.K == tkArgs:
			ps.next()
		case t.K == tkPunct && t.S == "->":
			// lexer command (not expected in parser grammars): skip to end of alt
			for !(ps.isP("|") || ps.isP(";") || ps.isP(")")) {
				ps.next()
			}
		case t.K == tkPunct && t.S == "~":
			ps.next() // not-set: treat following element as an arbitrary token
			el, err := ps.element(r)
			if err != nil {
				return nil, err
			}
			el2 := &gNode{Kind: gTok, Name: "~" + el.Name, Rep: el.Rep}
			s.Kids = append(s.Kids, el2)
		case t.K == tkPunct && t.S == ".":
			ps.next()
			el := &gNode{Kind: gTok, Name: "<any>"}
			el.Rep = ps.suffix()
			s.Kids = append(s.Kids, el)
		default:
			el, err := ps.element(r)
			if err != nil {
				return nil, err
			}
			if el != nil {
				s.Kids = append(s.Kids, el)
			}
		}
	}
}

func (ps *g4Parser) suffix() byte {
	var rep byte
	for {
		t := ps.peek()
		if t.K == tkPunct && (t.S == "?" || t.S == "*" || t.S == "+") {
			ps.next()
			c := t.S[0]
			switch {
			case rep == 0:
				rep = c
			case c == '?' && (rep == '*' || rep == '+' || rep == '?'):
				// non-greedy marker (*?, +?, ??): same language
			default:
				rep = '*'
			}
			continue
		}
		return rep
	}
}

func (ps *g4Parser) element(r *Rule) (*gNode, error) {
	t := ps.next()
	switch {
	case t.K == tkIdent:
		// label?  x=elem  x+=elem
		if ps.isP("=") || ps.isP("+=") {
			ps.next()
			return ps.element(r)
		}
		var el *gNode
		if isUpperName(t.S) {
			el = &gNode{Kind: gTok, Name: t.S}
		} else {
			el = &gNode{Kind: gRule, Name: t.S}
		}
		if ps.peek().K == tkArgs {
			ps.next()
		}
		el.Rep = ps.suffix()
		return el, nil
	case t.K == tkLit:
		name := t.S
		if tn, ok := ps.g.LitTok[t.S]; ok {
			name = tn
		}
		el := &gNode{Kind: gTok, Name: name}
		el.Rep = ps.suffix()
		return el, nil
	case t.K == tkPunct && t.S == "(":
		inner, err := ps.altList(false, r)
		if err != nil {
			return nil, err
		}
		if !ps.isP(")") {
			return nil, fmt.Errorf("expected ')' got %q", ps.peek().S)
		}
		ps.next()
		inner.Rep = ps.suffix()
		return inner, nil
	}
	return nil, fmt.Errorf("unexpected token %q in element", t.S)
}

// ----- derived facts -----------------------------------------------------------------------

const many = 2 // "2" stands for "2 or more"

func capMany(x int) int {
	if x > many {
		return many
	}
	return x
}

// MinMax: how many direct children with symbol name sym a node of rule r can have.
func (g *Grammar) MinMax(rule, sym string) (int, int) {
	r := g.Rules[rule]
	if r == nil {
		return 0, many
	}
	return mm(r.Body, sym)
}

func mm(n *gNode, sym string) (lo, hi int) {
	switch n.Kind {
	case gRule, gTok:
		if n.Name == sym {
			lo, hi = 1, 1
		}
	case gSeq:
		for _, k := range n.Kids {
			a, b := mm(k, sym)
			lo += a
			hi += b
		}
		lo, hi = capMany(lo), capMany(hi)
	case gAlt:
		lo, hi = many, 0
		for _, k := range n.Kids {
			a, b := mm(k, sym)
			if a < lo {
				lo = a
			}
			if b > hi {
				hi = b
			}
		}
		if len(n.Kids) == 0 {
			lo = 0
		}
	}
	switch n.Rep {
	case '?':
		lo = 0
	case '*':
		lo = 0
		if hi > 0 {
			hi = many
		}
	case '+':
		if hi > 0 {
			hi = many
		}
	}
	return
}

// AltMinMax is MinMax restricted to one labelled alternative.
func (g *Grammar) AltMinMax(rule, label, sym string) (int, int) {
	r := g.Rules[rule]
	if r == nil {
		return 0, many
	}
	lo, hi := many, 0
	found := false
	for _, a := range r.Body.Kids {
		if a.Label == label {
			x, y := mm(a, sym)
			if x < lo {
				lo = x
			}
			if y > hi {
				hi = y
			}
			found = true
		}
	}
	if !found {
		return 0, many
	}
	return lo, hi
}

// prefixes of child sequences up to length k. Each prefix is a list of symbols; a sequence
// shorter than k that is complete is padded with NIL so childAt can report absence.
type pfx struct {
	syms []string
	open bool // true: sequence was cut at k (more may follow)
}

func pfxKey(p pfx) string {
	s := strings.Join(p.syms, " ")
	if p.open {
		s += " …"
	}
	return s
}

func dedup(ps []pfx) []pfx {
	seen := map[string]bool{}
	var out []pfx
	for _, p := range ps {
		k := pfxKey(p)
		if !seen[k] {
			seen[k] = true
			out = append(out, p)
		}
	}
	return out
}

func concatPfx(as, bs []pfx, k int) []pfx {
	var out []pfx
	for _, a := range as {
		if a.open || len(a.syms) >= k {
			out = append(out, pfx{a.syms[:min(len(a.syms), k)], true})
			continue
		}
		for _, b := range bs {
			s := append(append([]string{}, a.syms...), b.syms...)
			open := b.open
			if len(s) > k {
				s = s[:k]
				open = true
			} else if len(s) == k && !open {
				// exactly k symbols and complete: keep closed
			}
			out = append(out, pfx{s, open})
		}
	}
	return dedup(out)
}

func (g *Grammar) pfxNode(n *gNode, k int) []pfx {
	var base []pfx
	switch n.Kind {
	case gRule, gTok:
		base = []pfx{{[]string{n.Name}, false}}
	case gEps:
		base = []pfx{{nil, false}}
	case gSeq:
		base = []pfx{{nil, false}}
		for _, kid := range n.Kids {
			base = concatPfx(base, g.pfxNode(kid, k), k)
		}
	case gAlt:
		for _, kid := range n.Kids {
			base = append(base, g.pfxNode(kid, k)...)
		}
		base = dedup(base)
	}
	switch n.Rep {
	case '?':
		base = dedup(append([]pfx{{nil, false}}, base...))
	case '*', '+':
		acc := []pfx{{nil, false}}
		if n.Rep == '+' {
			acc = nil
		}
		cur := base
		all := append([]pfx{}, acc...)
		for i := 0; i <= k; i++ {
			all = append(all, cur...)
			cur = concatPfx(cur, base, k)
		}
		base = dedup(all)
	}
	return base
}

// ChildAt: the set of symbols that can stand at child index i of a node of rule (restricted to
// the labelled alternative when label != ""); "NIL" is included when some derivation has fewer
// than i+1 children.
func (g *Grammar) ChildAt(rule, label string, i int) map[string]bool {
	r := g.Rules[rule]
	out := map[string]bool{}
	if r == nil {
		out["?"] = true
		return out
	}
	k := i + 1
	for _, a := range r.Body.Kids {
		if label != "" && a.Label != label {
			continue
		}
		for _, p := range g.pfxNode(a, k) {
			if len(p.syms) > i {
				out[p.syms[i]] = true
			} else {
				out["NIL"] = true
			}
		}
	}
	return out
}

// ChildCount: [min, max] number of children; max = -1 for unbounded.
func (g *Grammar) ChildCount(rule, label string) (int, int) {
	r := g.Rules[rule]
	if r == nil {
		return 0, -1
	}
	lo, hi := 1<<30, 0
	for _, a := range r.Body.Kids {
		if label != "" && a.Label != label {
			continue
		}
		x, y := cnt(a)
		if x < lo {
			lo = x
		}
		if y < 0 || hi < 0 {
			hi = -1
		} else if y > hi {
			hi = y
		}
	}
	return lo, hi
}

func cnt(n *gNode) (lo, hi int) {
	switch n.Kind {
	case gRule, gTok:
		lo, hi = 1, 1
	case gSeq:
		for _, k := range n.Kids {
			a, b := cnt(k)
			lo += a
			if hi >= 0 {
				if b < 0 {
					hi = -1
				} else {
					hi += b
				}
			}
		}
	case gAlt:
		lo = 1 << 30
		for _, k := range n.Kids {
			a, b := cnt(k)
			if a < lo {
				lo = a
			}
			if hi >= 0 {
				if b < 0 {
					hi = -1
				} else if b > hi {
					hi = b
				}
			}
		}
	}
	switch n.Rep {
	case '?':
		lo = 0
	case '*':
		lo = 0
		if hi != 0 {
			hi = -1
		}
	case '+':
		if hi != 0 {
			hi = -1
		}
	}
	return
}

// Refs: rule symbols referenced anywhere in rule's body.
func (g *Grammar) Refs(rule string) map[string]bool {
	out := map[string]bool{}
	r := g.Rules[rule]
	if r == nil {
		return out
	}
	var walk func(n *gNode)
	walk = func(n *gNode) {
		if n.Kind == gRule {
			out[n.Name] = true
		}
		for _, k := range n.Kids {
			walk(k)
		}
	}
	walk(r.Body)
	return out
}

// Symbols: every symbol (rule or token) that can be a direct child of rule.
func (g *Grammar) Symbols(rule, label string) map[string]bool {
	out := map[string]bool{}
	r := g.Rules[rule]
	if r == nil {
		return out
	}
	var walk func(n *gNode)
	walk = func(n *gNode) {
		if n.Kind == gRule || n.Kind == gTok {
			out[n.Name] = true
		}
		for _, k := range n.Kids {
			walk(k)
		}
	}
	for _, a := range r.Body.Kids {
		if label != "" && a.Label != label {
			continue
		}
		walk(a)
	}
	return out
}

// Parents: rules that can be the direct parent of a node of rule.
func (g *Grammar) Parents(rule string) []string {
	var out []string
	for _, n := range g.Order {
		if g.Refs(n)[rule] {
			out = append(out, n)
		}
	}
	sort.Strings(out)
	return out
}

// ReachableWithout: rules reachable from start through rule references, never entering a rule in cut
// and never following an excluded edge "parent>child".
func (g *Grammar) ReachableWithout(start string, cut map[string]bool, cutEdges map[string]bool) map[string]bool {
	seen := map[string]bool{}
	var dfs func(r string)
	dfs = func(r string) {
		if seen[r] || cut[r] {
			return
		}
		seen[r] = true
		for c := range g.Refs(r) {
			if cutEdges[r+">"+c] {
				continue
			}
			dfs(c)
		}
	}
	dfs(start)
	return seen
}

// Nullable: can rule derive a node with no children.
func (g *Grammar) Nullable(rule string) bool {
	lo, _ := g.ChildCount(rule, "")
	return lo == 0
}

// FirstTokens: token names that can be the first token of text derived from rule (over-approximation
// through nullable prefixes); used for GetStart() provenance.
func (g *Grammar) FirstSymbols(rule string) map[string]bool {
	return g.ChildAt(rule, "", 0)
}

// LastSymbols: symbols that can be the last child of rule.
func (g *Grammar) LastSymbols(rule string) map[string]bool {
	out := map[string]bool{}
	r := g.Rules[rule]
	if r == nil {
		return out
	}
	var last func(n *gNode) (set map[string]bool, nullable bool)
	last = func(n *gNode) (map[string]bool, bool) {
		set := map[string]bool{}
		nullable := false
		switch n.Kind {
		case gRule, gTok:
			set[n.Name] = true
		case gSeq:
			nullable = true
			for i := len(n.Kids) - 1; i >= 0; i-- {
				s, nl := last(n.Kids[i])
				for k := range s {
					set[k] = true
				}
				if !nl {
					nullable = false
					break
				}
			}
		case gAlt:
			for _, k := range n.Kids {
				s, nl := last(k)
				for x := range s {
					set[x] = true
				}
				if nl {
					nullable = true
				}
			}
		}
		if n.Rep == '?' || n.Rep == '*' {
			nullable = true
		}
		return set, nullable
	}
	s, _ := last(r.Body)
	return s
}

// ContextName maps a rule (or label) to the generated Go context type name.
func ctxName(s string) string {
	if s == "" {
		return ""
	}
	return strings.ToUpper(s[:1]) + s[1:] + "Context"
}

// RuleOfContext inverts ctxName over rules and labels: returns (rule, label).
func (g *Grammar) RuleOfContext(typeName string) (string, string, bool) {
	base := strings.TrimSuffix(typeName, "Context")
	base = strings.TrimPrefix(base, "I")
	try := func(b string) (string, string, bool) {
		if b == "" {
			return "", "", false
		}
		lower := strings.ToLower(b[:1]) + b[1:]
		if _, ok := g.Rules[lower]; ok {
			return lower, "", true
		}
		if _, ok := g.Rules[b]; ok {
			return b, "", true
		}
		for _, rn := range g.Order {
			for _, l := range g.Rules[rn].Labels {
				if l == lower || l == b {
					return rn, l, true
				}
			}
		}
		return "", "", false
	}
	if r, l, ok := try(strings.TrimSuffix(typeName, "Context")); ok {
		return r, l, true
	}
	return try(base)
}

// ----- profiles: which symbols co-occur among the direct children of a rule ---------------------
// A profile maps each child symbol to its count (capped at 2) in one derivation of the rule body, plus the total
// number of children (capped at 6). The set of profiles is finite and small for the shipped grammars.

type profile struct {
	counts map[string]int
	total  int
}

func (p profile) key() string {
	ks := make([]string, 0, len(p.counts))
	for k, v := range p.counts {
		ks = append(ks, fmt.Sprintf("%s=%d", k, v))
	}
	sort.Strings(ks)
	return fmt.Sprintf("%d|%s", p.total, strings.Join(ks, ","))
}

const totalCap = 6

func addProfiles(a, b profile) profile {
	out := profile{counts: map[string]int{}, total: a.total + b.total}
	if out.total > totalCap {
		out.total = totalCap
	}
	for k, v := range a.counts {
		out.counts[k] = v
	}
	for k, v := range b.counts {
		n := out.counts[k] + v
		if n > many {
			n = many
		}
		out.counts[k] = n
	}
	return out
}

func dedupProfiles(ps []profile) []profile {
	seen := map[string]bool{}
	var out []profile
	for _, p := range ps {
		k := p.key()
		if !seen[k] {
			seen[k] = true
			out = append(out, p)
		}
	}
	return out
}

func (g *Grammar) profilesNode(n *gNode) []profile {
	var base []profile
	switch n.Kind {
	case gRule, gTok:
		base = []profile{{counts: map[string]int{n.Name: 1}, total: 1}}
	case gSeq:
		base = []profile{{counts: map[string]int{}}}
		for _, k := range n.Kids {
			kp := g.profilesNode(k)
			var next []profile
			for _, a := range base {
				for _, b := range kp {
					next = append(next, addProfiles(a, b))
				}
			}
			base = dedupProfiles(next)
			if len(base) > 4000 {
				base = base[:4000]
			}
		}
	case gAlt:
		for _, k := range n.Kids {
			base = append(base, g.profilesNode(k)...)
		}
		base = dedupProfiles(base)
	default:
		base = []profile{{counts: map[string]int{}}}
	}
	switch n.Rep {
	case '?':
		base = dedupProfiles(append([]profile{{counts: map[string]int{}}}, base...))
	case '*', '+':
		all := []profile{}
		if n.Rep == '*' {
			all = append(all, profile{counts: map[string]int{}})
		}
		cur := base
		for i := 0; i < 3; i++ {
			all = append(all, cur...)
			var next []profile
			for _, a := range cur {
				for _, b := range base {
					next = append(next, addProfiles(a, b))
				}
			}
			cur = dedupProfiles(next)
			if len(cur) > 2000 {
				cur = cur[:2000]
			}
		}
		base = dedupProfiles(all)
	}
	return base
}

var profileCache = map[string][]profile{}

// Profiles of a rule (restricted to a labelled alternative when label != "").
func (g *Grammar) Profiles(rule, label string) []profile {
	key := g.Name + "|" + rule + "|" + label
	if p, ok := profileCache[key]; ok {
		return p
	}
	r := g.Rules[rule]
	var out []profile
	if r != nil {
		for _, a := range r.Body.Kids {
			if label != "" && a.Label != label {
				continue
			}
			out = append(out, g.profilesNode(a)...)
		}
		out = dedupProfiles(out)
	}
	profileCache[key] = out
	return out
}

// Sequences: complete child sequences of length ≤ k (longer ones are cut and marked open).
func (g *Grammar) Sequences(rule, label string, k int) []pfx {
	r := g.Rules[rule]
	var out []pfx
	if r == nil {
		return out
	}
	for _, a := range r.Body.Kids {
		if label != "" && a.Label != label {
			continue
		}
		out = append(out, g.pfxNode(a, k)...)
	}
	return dedup(out)
}

// LiteralText: the source text of a token symbol if it is a fixed literal.
func (g *Grammar) LiteralText(sym string) (string, bool) {
	if strings.HasPrefix(sym, "'") {
		return strings.Trim(sym, "'"), true
	}
	t, ok := g.TokLit[sym]
	return t, ok
}
