package main

// SSA → Sym: canonical symbolic value of an SSA value inside one function, with gated phis (ite), loop accumulators
// (exists / forall / count / sum / collect / last) and bounded inlining of own callees.

import (
	"fmt"
	"go/constant"
	"go/token"
	"go/types"
	"strings"

	"golang.org/x/tools/go/ssa"
)

type symFn struct {
	p        *Program
	a        *stateAn
	fn       *ssa.Function
	params   map[ssa.Value]*Sym
	memo     map[ssa.Value]*Sym
	pcMemo   map[*ssa.BasicBlock]*Sym
	depth    int
	loops    []map[*ssa.BasicBlock]bool
	headers  map[*ssa.BasicBlock]map[*ssa.BasicBlock]bool // header -> loop
	inNext   map[*ssa.Phi]bool                            // accumulator phis currently being expanded (appear as "acc")
	busy     map[ssa.Value]bool
	prefix   string // binder prefix (unique per inlining)
	inlineOK func(callee *ssa.Function) bool
}

var symCounter int

func newSymFn(p *Program, fn *ssa.Function, depth int) *symFn {
	s := &symFn{p: p, a: getStateAn(p), fn: fn, params: map[ssa.Value]*Sym{}, memo: map[ssa.Value]*Sym{}, pcMemo: map[*ssa.BasicBlock]*Sym{},
		depth: depth, headers: map[*ssa.BasicBlock]map[*ssa.BasicBlock]bool{}, inNext: map[*ssa.Phi]bool{}, busy: map[ssa.Value]bool{}}
	// element variables are named after the function and the loop header block: stable across runs and unrelated edits
	nm := fn.Name()
	if fn.Parent() != nil {
		nm = fn.Parent().Name() + "_" + strings.TrimPrefix(fn.Name(), fn.Parent().Name()+"$")
	}
	var sb strings.Builder
	for _, r := range nm {
		if (r >= 'a' && r <= 'z') || (r >= 'A' && r <= 'Z') || (r >= '0' && r <= '9') {
			sb.WriteRune(r)
		}
	}
	s.prefix = "v" + sb.String()
	for i, prm := range fn.Params {
		s.params[prm] = &Sym{Op: "param", Name: fmt.Sprintf("p%d", i), Kind: kindOf(prm.Type())}
	}
	for _, fv := range fn.FreeVars {
		s.params[fv] = &Sym{Op: "param", Name: "free_" + fv.Name(), Kind: kindOf(fv.Type())}
	}
	s.loops = naturalLoops(fn)
	for _, l := range s.loops {
		if h := loopHeader(l); h != nil {
			s.headers[h] = l
		}
	}
	return s
}

func kindOf(t types.Type) string {
	if t == nil {
		return ""
	}
	if pt, ok := t.Underlying().(*types.Pointer); ok {
		t = pt.Elem()
	}
	switch u := t.Underlying().(type) {
	case *types.Basic:
		switch {
		case u.Info()&types.IsString != 0:
			return "string"
		case u.Info()&types.IsBoolean != 0:
			return "bool"
		case u.Info()&types.IsNumeric != 0:
			return "int"
		}
	case *types.Slice, *types.Array:
		return "list"
	case *types.Map:
		return "map"
	}
	return ""
}

// fieldName returns the field name selected by a FieldAddr/Field and whether it is an embedded field.
func fieldOf(t types.Type, idx int) (string, bool) {
	if pt, ok := t.Underlying().(*types.Pointer); ok {
		t = pt.Elem()
	}
	st, ok := t.Underlying().(*types.Struct)
	if !ok || idx >= st.NumFields() {
		return fmt.Sprintf("f%d", idx), false
	}
	f := st.Field(idx)
	return f.Name(), f.Embedded()
}

func sField(base *Sym, name string, embedded bool, t types.Type) *Sym {
	if embedded {
		return base // promoted fields: the path through an embedded struct is not part of the canonical name
	}
	if base.Op == "struct" {
		for i, f := range base.Fields {
			if f == name {
				return base.Kids[i]
			}
		}
		for i, f := range base.Fields {
			if f == "<base>" {
				return sField(base.Kids[i], name, false, t)
			}
		}
	}
	return &Sym{Op: "field", Name: name, Kids: []*Sym{base}, Kind: kindOf(t)}
}

func (s *symFn) loopOf(b *ssa.BasicBlock) (header *ssa.BasicBlock, loop map[*ssa.BasicBlock]bool) {
	var best map[*ssa.BasicBlock]bool
	var bh *ssa.BasicBlock
	for h, l := range s.headers {
		if l[b] && (best == nil || len(l) < len(best)) {
			best = l
			bh = h
		}
	}
	return bh, best
}

// rangeIndexPhi: is phi the hidden index of a `for range` over a slice / the counter of a counted loop?
func (s *symFn) isIndexPhi(phi *ssa.Phi) (coll ssa.Value, ok bool) {
	loop := s.headers[phi.Block()]
	if loop == nil {
		return nil, false
	}
	// t1 = phi [-1, t2]; t2 = t1 + 1   (range loop)   or   i = phi [0, i+1]   (counted loop from the first element)
	for i, e := range phi.Edges {
		if !loop[phi.Block().Preds[i]] {
			// entry edge: the iteration must start at the first element, otherwise the loop covers only a suffix of the collection
			if k, isC := constInt(e); !isC || (k != -1 && k != 0) {
				return nil, false
			}
			continue
		}
		bo, isBin := e.(*ssa.BinOp)
		if !isBin || bo.Op != token.ADD || bo.X != ssa.Value(phi) {
			return nil, false
		}
		if k, isC := constInt(bo.Y); !isC || k != 1 {
			return nil, false
		}
	}
	return nil, true
}

// elemOfIndex: xs[idx] where idx is a loop index → bound element of that loop.
func (s *symFn) elemFor(collection ssa.Value, idx ssa.Value) *Sym {
	var phi *ssa.Phi
	switch x := idx.(type) {
	case *ssa.Phi:
		phi = x
	case *ssa.BinOp:
		if p2, ok := x.X.(*ssa.Phi); ok && x.Op == token.ADD {
			phi = p2
		}
	}
	if phi == nil {
		return nil
	}
	if _, ok := s.isIndexPhi(phi); !ok {
		return nil
	}
	// the index expression and the start value must agree: phi+1 with start -1 (range), phi with start 0 (counted)
	start := int64(-2)
	for i, e := range phi.Edges {
		if !s.headers[phi.Block()][phi.Block().Preds[i]] {
			if k, isC := constInt(e); isC {
				start = k
			}
		}
	}
	if _, direct := idx.(*ssa.Phi); (direct && start != 0) || (!direct && start != -1) {
		return nil
	}
	name := s.binderName(phi.Block())
	if _, ok := binderColls[name]; !ok {
		binderColls[name] = sUnknown("pending")
		binderColls[name] = s.val(collection)
	}
	return &Sym{Op: "elem", Name: name, Kind: ""}
}

func (s *symFn) binderName(header *ssa.BasicBlock) string {
	return fmt.Sprintf("%s_%d", s.prefix, header.Index)
}

// loopCollection: the collection a loop ranges over (slice indexed by the range index, or the map of a Range).
func (s *symFn) loopCollection(header *ssa.BasicBlock) *Sym {
	loop := s.headers[header]
	for b := range loop {
		for _, in := range b.Instrs {
			switch x := in.(type) {
			case *ssa.IndexAddr:
				if s.elemFor(x.X, x.Index) != nil && s.elemHeader(x.Index) == header {
					return s.val(x.X)
				}
			case *ssa.Index:
				if s.elemFor(x.X, x.Index) != nil && s.elemHeader(x.Index) == header {
					return s.val(x.X)
				}
			case *ssa.Next:
				if x.Block() == header || loopHeaderOf(s, x.Block()) == header {
					if r, ok := x.Iter.(*ssa.Range); ok {
						return s.val(r.X)
					}
				}
			}
		}
	}
	// the bound of the loop test: len(xs)
	for _, in := range header.Instrs {
		if c, ok := isBuiltinCall(in, "len"); ok {
			return s.val(c.Call.Args[0])
		}
	}
	for _, in := range header.Instrs {
		_ = in
	}
	// look before the loop for len(xs) feeding the header test
	for _, in := range header.Instrs {
		if bo, ok := in.(*ssa.BinOp); ok {
			for _, side := range []ssa.Value{bo.X, bo.Y} {
				if c, ok := side.(*ssa.Call); ok {
					if b, ok := c.Call.Value.(*ssa.Builtin); ok && b.Name() == "len" {
						return s.val(c.Call.Args[0])
					}
				}
			}
		}
	}
	return sUnknown("collection of loop " + s.binderName(header))
}

func loopHeaderOf(s *symFn, b *ssa.BasicBlock) *ssa.BasicBlock {
	h, _ := s.loopOf(b)
	return h
}

func (s *symFn) elemHeader(idx ssa.Value) *ssa.BasicBlock {
	switch x := idx.(type) {
	case *ssa.Phi:
		return x.Block()
	case *ssa.BinOp:
		if p2, ok := x.X.(*ssa.Phi); ok {
			return p2.Block()
		}
	}
	return nil
}

func (s *symFn) val(v ssa.Value) *Sym {
	if r, ok := s.params[v]; ok {
		return r
	}
	if r, ok := s.memo[v]; ok {
		return r
	}
	if ph, ok := v.(*ssa.Phi); ok && s.inNext[ph] {
		return &Sym{Op: "acc", Name: "acc_" + ph.Name()}
	}
	if s.busy[v] {
		return sUnknown("cyclic value " + v.Name())
	}
	s.busy[v] = true
	r := s.val1(v)
	delete(s.busy, v)
	// accumulator placeholders must not be memoised across contexts
	if has, _ := r.hasAcc(); !has {
		s.memo[v] = r
	}
	return r
}

func (x *Sym) hasAcc() (bool, string) {
	found := ""
	x.walk(func(y *Sym) {
		if y.Op == "acc" && found == "" {
			found = y.Name
		}
	})
	return found != "", found
}

func (s *symFn) val1(v ssa.Value) *Sym {
	switch x := v.(type) {
	case *ssa.Const:
		if x.Value == nil {
			return &Sym{Op: "nil"}
		}
		return sConst(x.Value)
	case *ssa.Global:
		return &Sym{Op: "global", Name: s.p.GlobalKey(x), Kind: ""}
	case *ssa.Function:
		return &Sym{Op: "global", Name: "func:" + s.p.FuncKey(x)}
	case *ssa.UnOp:
		switch x.Op {
		case token.NOT:
			return sNot(s.val(x.X))
		case token.SUB:
			return sBin("-", sInt(0), s.val(x.X))
		case token.MUL:
			return s.loadAt(x.X, x.Type(), x)
		}
	case *ssa.BinOp:
		a, b := s.val(x.X), s.val(x.Y)
		if x.Op == token.EQL || x.Op == token.NEQ {
			if _, isIface := x.X.Type().Underlying().(*types.Interface); isIface {
				// an interface holding a (possibly nil) pointer is never the nil interface
				if (isNilSym(b) && a.Boxed) || (isNilSym(a) && b.Boxed) {
					return sBool(x.Op == token.NEQ)
				}
			}
		}
		return sBin(x.Op.String(), a, b)
	case *ssa.Field:
		n, emb := fieldOf(x.X.Type(), x.Field)
		return sField(s.val(x.X), n, emb, x.Type())
	case *ssa.FieldAddr:
		n, emb := fieldOf(x.X.Type(), x.Field)
		return sField(s.val(x.X), n, emb, x.Type().Underlying().(*types.Pointer).Elem())
	case *ssa.IndexAddr:
		if e := s.elemFor(x.X, x.Index); e != nil {
			return e
		}
		return &Sym{Op: "index", Kids: []*Sym{s.val(x.X), s.val(x.Index)}, Kind: kindOf(x.Type().Underlying().(*types.Pointer).Elem())}
	case *ssa.Index:
		if e := s.elemFor(x.X, x.Index); e != nil {
			return e
		}
		return &Sym{Op: "index", Kids: []*Sym{s.val(x.X), s.val(x.Index)}, Kind: kindOf(x.Type())}
	case *ssa.Lookup:
		if x.CommaOk {
			return &Sym{Op: "lookup2", Kids: []*Sym{s.val(x.X), s.val(x.Index)}}
		}
		if _, isStr := x.X.Type().Underlying().(*types.Basic); isStr {
			return &Sym{Op: "index", Kids: []*Sym{s.val(x.X), s.val(x.Index)}, Kind: "int"}
		}
		return &Sym{Op: "lookup", Kids: []*Sym{s.val(x.X), s.val(x.Index)}, Kind: kindOf(x.Type())}
	case *ssa.Extract:
		t := s.val(x.Tuple)
		switch t.Op {
		case "lookup2":
			if x.Index == 0 {
				return &Sym{Op: "lookup", Kids: t.Kids, Kind: kindOf(x.Type())}
			}
			return &Sym{Op: "has", Kids: t.Kids, Kind: "bool"}
		case "next":
			// range over a map: (ok, key, value)
			if x.Index == 1 {
				return &Sym{Op: "elem", Name: t.Name + "_k"}
			}
			if x.Index == 2 {
				return &Sym{Op: "elem", Name: t.Name}
			}
			return sUnknown("range ok")
		case "tuple":
			if x.Index < len(t.Kids) {
				return t.Kids[x.Index]
			}
		}
		return &Sym{Op: "call", Name: fmt.Sprintf("extract%d", x.Index), Kids: []*Sym{t}, Kind: kindOf(x.Type())}
	case *ssa.Next:
		h, _ := s.loopOf(x.Block())
		if h == nil {
			return sUnknown("next outside loop")
		}
		if r, ok := x.Iter.(*ssa.Range); ok {
			if _, done := binderColls[s.binderName(h)]; !done {
				binderColls[s.binderName(h)] = s.val(r.X)
			}
		}
		return &Sym{Op: "next", Name: s.binderName(h)}
	case *ssa.Call:
		return s.call(x)
	case *ssa.Phi:
		return s.phi(x)
	case *ssa.MakeInterface:
		in := s.val(x.X)
		if _, isPtr := x.X.Type().Underlying().(*types.Pointer); isPtr && in != nil && !in.Boxed {
			n := *in
			n.Boxed = true
			return &n
		}
		return in
	case *ssa.ChangeType:
		return s.val(x.X)
	case *ssa.ChangeInterface:
		return s.val(x.X)
	case *ssa.Convert:
		in := s.val(x.X)
		from, to := kindOf(x.X.Type()), kindOf(x.Type())
		// string <-> []rune counts in another unit (characters, not bytes): a test of len(s) says nothing about len([]rune(s))
		isRunes := func(t types.Type) bool {
			if sl, ok := t.Underlying().(*types.Slice); ok {
				if b, ok := sl.Elem().Underlying().(*types.Basic); ok && b.Kind() == types.Int32 {
					return true
				}
			}
			return false
		}
		if isRunes(x.Type()) && from == "string" {
			return &Sym{Op: "call", Name: "runes", Kids: []*Sym{in}, Kind: "list"}
		}
		if isRunes(x.X.Type()) && to == "string" {
			return &Sym{Op: "call", Name: "stringOfRunes", Kids: []*Sym{in}, Kind: "string"}
		}
		if from == to || (from == "list" && to == "string") || (from == "string" && to == "list") {
			return in
		}
		return &Sym{Op: "call", Name: "conv:" + to, Kids: []*Sym{in}, Kind: to}
	case *ssa.Slice:
		kids := []*Sym{s.val(x.X)}
		if x.Low != nil {
			kids = append(kids, s.val(x.Low))
		} else {
			kids = append(kids, sInt(0))
		}
		if x.High != nil {
			kids = append(kids, s.val(x.High))
		} else {
			kids = append(kids, &Sym{Op: "len", Kids: []*Sym{kids[0]}, Kind: "int"})
		}
		// slicing a whole freshly built array (varargs) is the array itself
		if al, ok := x.X.(*ssa.Alloc); ok && x.Low == nil && x.High == nil {
			return s.allocValue(al)
		}
		return &Sym{Op: "call", Name: "slice", Kids: kids, Kind: kids[0].Kind}
	case *ssa.TypeAssert:
		return &Sym{Op: "call", Name: "assert:" + types.TypeString(x.AssertedType, func(p *types.Package) string { return p.Name() }), Kids: []*Sym{s.val(x.X)}}
	case *ssa.Alloc:
		return s.allocValue(x)
	case *ssa.MakeMap:
		// maps made in the function are told apart by their order of creation
		n := 0
		for _, b := range s.fn.Blocks {
			for _, in := range b.Instrs {
				if mm, ok := in.(*ssa.MakeMap); ok {
					n++
					if mm == x {
						return &Sym{Op: "call", Name: fmt.Sprintf("makemap%d", n), Kind: "map"}
					}
				}
			}
		}
		return &Sym{Op: "call", Name: "makemap", Kind: "map"}
	case *ssa.MakeSlice:
		return &Sym{Op: "call", Name: "makeslice", Kind: "list"}
	case *ssa.MakeClosure:
		if f, ok := x.Fn.(*ssa.Function); ok {
			return &Sym{Op: "global", Name: "func:" + s.p.FuncKey(f)}
		}
	case *ssa.Range:
		return s.val(x.X)
	}
	return sUnknown(fmt.Sprintf("%T %s", v, v.Name()))
}

// allocValue: the value of a local struct/array cell built by stores (composite literal).
func (s *symFn) allocValue(al *ssa.Alloc) *Sym {
	elem := al.Type().Underlying().(*types.Pointer).Elem()
	switch u := elem.Underlying().(type) {
	case *types.Struct:
		out := &Sym{Op: "struct", Name: types.TypeString(elem, func(p *types.Package) string { return p.Name() })}
		set := map[int]*Sym{}
		whole := (*Sym)(nil)
		for _, ref := range *al.Referrers() {
			switch r := ref.(type) {
			case *ssa.FieldAddr:
				for _, r2 := range *r.Referrers() {
					if st, ok := r2.(*ssa.Store); ok && st.Addr == ssa.Value(r) {
						if _, dup := set[r.Field]; dup {
							set[r.Field] = sUnknown("field assigned more than once")
						} else {
							set[r.Field] = s.val(st.Val)
						}
					}
				}
			case *ssa.Store:
				if r.Addr == ssa.Value(al) {
					whole = s.val(r.Val)
				}
			}
		}
		if whole != nil && len(set) == 0 {
			return whole
		}
		for i := 0; i < u.NumFields(); i++ {
			f := u.Field(i)
			if v, ok := set[i]; ok {
				if f.Embedded() && v.Op == "struct" {
					out.Fields = append(out.Fields, v.Fields...)
					out.Kids = append(out.Kids, v.Kids...)
					continue
				}
				out.Fields = append(out.Fields, f.Name())
				out.Kids = append(out.Kids, v)
			}
		}
		return out
	case *types.Array:
		out := &Sym{Op: "array", Kind: "list"}
		vals := map[int64]*Sym{}
		for _, ref := range *al.Referrers() {
			if ia, ok := ref.(*ssa.IndexAddr); ok {
				for _, r2 := range *ia.Referrers() {
					if st, ok := r2.(*ssa.Store); ok && st.Addr == ssa.Value(ia) {
						if i, ok := constInt(ia.Index); ok {
							vals[i] = s.val(st.Val)
						}
					}
				}
			}
		}
		for i := int64(0); i < u.Len(); i++ {
			if v, ok := vals[i]; ok {
				out.Kids = append(out.Kids, v)
			} else {
				out.Kids = append(out.Kids, sUnknown("array element"))
			}
		}
		return out
	}
	// a plain local variable cell: single dominating store
	var stored *Sym
	n := 0
	for _, ref := range *al.Referrers() {
		if st, ok := ref.(*ssa.Store); ok && st.Addr == ssa.Value(al) {
			stored = s.val(st.Val)
			n++
		}
	}
	if n == 1 {
		return stored
	}
	if n == 0 {
		// never assigned directly, but its address is handed to exactly one library call that fills it (json.Unmarshal(data, &x) …):
		// the value is whatever that call produced — an opaque term named after the callee
		var filler *ssa.Call
		fillers := 0
		for _, ref := range *al.Referrers() {
			var user ssa.Instruction = ref
			if mi, ok := ref.(*ssa.MakeInterface); ok && mi.Referrers() != nil && len(*mi.Referrers()) == 1 {
				user = (*mi.Referrers())[0]
			}
			if c, ok := user.(*ssa.Call); ok {
				if callee := c.Call.StaticCallee(); callee != nil && !s.p.Own[calleePkg(callee)] {
					filler = c
					fillers++
				}
			}
		}
		if fillers == 1 {
			var kids []*Sym
			for _, a := range filler.Call.Args {
				if mi, ok := a.(*ssa.MakeInterface); ok && mi.X == ssa.Value(al) {
					continue
				}
				if a == ssa.Value(al) {
					continue
				}
				kids = append(kids, s.val(a))
			}
			return &Sym{Op: "call", Name: "outparam:" + fullFuncName(filler.Call.StaticCallee()), Kids: kids, Kind: kindOf(al.Type().Underlying().(*types.Pointer).Elem())}
		}
	}
	return sUnknown("local cell " + al.Name())
}

// dominatingStore: the unique store to addr that dominates `at` with no other store to addr in the function that could
// intervene (other stores must themselves be dominated by `at` or not reach it: we require them to be dominated by at or
// to dominate the chosen store).
func (s *symFn) dominatingStore(addr ssa.Value, at ssa.Instruction) (*ssa.Store, bool) {
	refs := addr.Referrers()
	if refs == nil {
		return nil, false
	}
	var stores []*ssa.Store
	for _, r := range *refs {
		if st, ok := r.(*ssa.Store); ok && st.Addr == addr {
			stores = append(stores, st)
		}
	}
	var best *ssa.Store
	for _, st := range stores {
		if instrDominates(st, at) {
			if best == nil || instrDominates(best, st) {
				best = st
			}
		}
	}
	if best == nil {
		return nil, len(stores) == 0
	}
	for _, st := range stores {
		if st == best || instrDominates(st, best) || instrDominates(at, st) {
			continue
		}
		// a store that may or may not have happened before `at`
		if st.Block() != at.Block() && !reaches(st.Block(), at.Block()) {
			continue
		}
		return nil, false
	}
	return best, true
}

// globalAt: value of package variable g just before instruction `at` of this function: the initial value (an opaque
// "global" term) overlaid with the whole-variable stores of this function on the paths reaching `at`.
func (s *symFn) globalAt(g *ssa.Global, t types.Type, at ssa.Instruction) *Sym {
	writes := false
	for _, b := range s.fn.Blocks {
		for _, in := range b.Instrs {
			if st, ok := in.(*ssa.Store); ok {
				if gg, _ := globalOfAddr(st.Addr); gg == g {
					writes = true
				}
			}
		}
	}
	initial := s.load(g, t)
	if !writes {
		// calls may still change it; that is the callee's business and reported by E3, here the term stays symbolic
		return initial
	}
	memo := map[*ssa.BasicBlock]*Sym{}
	var atEntry func(b *ssa.BasicBlock) *Sym
	// value after executing instructions [0,n) of block b, starting from v
	through := func(b *ssa.BasicBlock, n int, v *Sym) *Sym {
		for i := 0; i < n && i < len(b.Instrs); i++ {
			switch x := b.Instrs[i].(type) {
			case *ssa.Store:
				if gg, whole := globalOfAddr(x.Addr); gg == g {
					if whole {
						v = s.val(x.Val)
					} else {
						v = sUnknown("partial store to " + g.Name())
					}
				}
			case ssa.CallInstruction:
				for _, cal := range s.p.ownCallees(x) {
					if s.a.allWrites(cal)[g] {
						v = sUnknown(g.Name() + " modified by " + cal.Name())
					}
				}
			}
		}
		return v
	}
	atEntry = func(b *ssa.BasicBlock) *Sym {
		if r, ok := memo[b]; ok {
			if r == nil {
				return sUnknown("loop-carried global " + g.Name())
			}
			return r
		}
		memo[b] = nil
		var out *Sym
		if b.Index == 0 {
			out = initial
		} else {
			idom := b.Idom()
			for i := len(b.Preds) - 1; i >= 0; i-- {
				p := b.Preds[i]
				if b.Dominates(p) {
					// back edge: sound only if the loop body does not write g
					loop := s.headers[b]
					for lb := range loop {
						for _, in := range lb.Instrs {
							if st, ok := in.(*ssa.Store); ok {
								if gg, _ := globalOfAddr(st.Addr); gg == g {
									// the value at the head of an iteration of a loop that writes g: an opaque term (whatever the
									// previous iterations left), named after the loop's ordinal among the function's loops
									memo[b] = &Sym{Op: "global", Name: fmt.Sprintf("%s@loop%d", s.p.GlobalKey(g), s.loopOrdinal(b))}
									return memo[b]
								}
							}
						}
					}
					continue
				}
				v := through(p, len(p.Instrs), atEntry(p))
				if out == nil {
					out = v
				} else {
					c := sAnd(s.pathCondFrom(idom, p, nil), s.edgeCond(p, b))
					out = sIte(c, v, out)
				}
			}
			if out == nil {
				out = initial
			}
		}
		memo[b] = out
		return out
	}
	b := at.Block()
	n := 0
	for i, in := range b.Instrs {
		if in == at {
			n = i
		}
	}
	return through(b, n, atEntry(b))
}

// loadAt: value read by the load instruction `at` from addr (flow-sensitive for local cells and out-parameters).
func (s *symFn) loadAt(addr ssa.Value, t types.Type, at ssa.Instruction) *Sym {
	switch a := addr.(type) {
	case *ssa.Global:
		if s.a.mutable[a] {
			return s.globalAt(a, t, at)
		}
	case *ssa.Alloc:
		if _, isStruct := a.Type().Underlying().(*types.Pointer).Elem().Underlying().(*types.Struct); !isStruct {
			if st, ok := s.dominatingStore(a, at); ok && st != nil {
				return s.val(st.Val)
			}
		} else {
			return s.structCell(a, at)
		}
	case *ssa.FieldAddr:
		if al, ok := a.X.(*ssa.Alloc); ok {
			cell := s.structCell(al, at)
			n, emb := fieldOf(a.X.Type(), a.Field)
			return sField(cell, n, emb, t)
		}
		// a field reached through a pointer parameter that this function assigned earlier
		if tgt := s.paramFieldTarget(a); tgt != "" {
			var best *ssa.Store
			ambiguous := false
			for _, b := range s.fn.Blocks {
				for _, in := range b.Instrs {
					st, ok := in.(*ssa.Store)
					if !ok || s.paramFieldTarget(st.Addr) != tgt {
						continue
					}
					if instrDominates(st, at) {
						if best == nil || instrDominates(best, st) {
							best = st
						}
					} else if !instrDominates(at, st) {
						ambiguous = true
					}
				}
			}
			if best != nil && !ambiguous {
				return s.val(best.Val)
			}
		}
	case *ssa.Parameter, *ssa.FreeVar:
		if st, ok := s.dominatingStore(a, at); ok && st != nil {
			return s.val(st.Val)
		}
	}
	return s.load(addr, t)
}

// structCell: value of a local struct variable as seen at instruction `at`: the dominating whole-struct store (if any)
// overlaid with the field stores that dominate `at`.
func (s *symFn) structCell(al *ssa.Alloc, at ssa.Instruction) *Sym {
	elem := al.Type().Underlying().(*types.Pointer).Elem()
	u := elem.Underlying().(*types.Struct)
	out := &Sym{Op: "struct", Name: types.TypeString(elem, func(p *types.Package) string { return p.Name() })}
	var base *Sym
	var baseStore *ssa.Store
	if st, ok := s.dominatingStore(al, at); ok && st != nil {
		base = s.val(st.Val)
		baseStore = st
	} else if !ok {
		return sUnknown("local struct " + al.Name() + " assigned on some paths only")
	}
	set := map[int]*Sym{}
	// stores grouped by field (every `x.F` expression has its own FieldAddr value)
	byField := map[int][]*ssa.Store{}
	for _, ref := range *al.Referrers() {
		fa, ok := ref.(*ssa.FieldAddr)
		if !ok {
			continue
		}
		for _, r2 := range *fa.Referrers() {
			if st, ok := r2.(*ssa.Store); ok && st.Addr == ssa.Value(fa) {
				byField[fa.Field] = append(byField[fa.Field], st)
			}
		}
	}
	for field, stores := range byField {
		var best *ssa.Store
		for _, st := range stores {
			if instrDominates(st, at) && (baseStore == nil || instrDominates(baseStore, st)) {
				if best == nil || instrDominates(best, st) {
					best = st
				}
			}
		}
		unknown := false
		for _, st := range stores {
			if st == best || (best != nil && instrDominates(st, best)) {
				continue
			}
			if baseStore != nil && instrDominates(st, baseStore) {
				continue // overwritten by the later whole-struct assignment
			}
			if instrDominates(at, st) {
				// happens after `at`; it can only reach `at` again round a loop, where the variable must be
				// re-initialised first
				h1, _ := s.loopOf(st.Block())
				h2, _ := s.loopOf(at.Block())
				if h1 == nil || h1 != h2 || (baseStore != nil && func() bool { hb, _ := s.loopOf(baseStore.Block()); return hb == h2 }()) {
					continue
				}
			}
			if st.Block() != at.Block() && !reaches(st.Block(), at.Block()) {
				continue
			}
			unknown = true
		}
		switch {
		case unknown:
			set[field] = sUnknown("field assigned on some paths only")
		case best != nil:
			set[field] = s.val(best.Val)
		}
	}
	if base != nil && len(set) == 0 {
		return base
	}
	for i := 0; i < u.NumFields(); i++ {
		f := u.Field(i)
		if v, ok := set[i]; ok {
			if f.Embedded() && v.Op == "struct" {
				out.Fields = append(out.Fields, v.Fields...)
				out.Kids = append(out.Kids, v.Kids...)
				continue
			}
			out.Fields = append(out.Fields, f.Name())
			out.Kids = append(out.Kids, v)
		}
	}
	if base != nil {
		out.Fields = append(out.Fields, "<base>")
		out.Kids = append(out.Kids, base)
	}
	return out
}

// load: value stored at addr.
func (s *symFn) load(addr ssa.Value, t types.Type) *Sym {
	switch a := addr.(type) {
	case *ssa.Global:
		// effectively final with a constant initialiser → the constant
		if !s.a.mutable[a] {
			if c, ok := s.a.initialValue(a); ok {
				return sConst(c)
			}
			if lit := s.globalLiteral(a); lit != nil {
				return lit
			}
		}
		return &Sym{Op: "global", Name: s.p.GlobalKey(a), Kind: kindOf(t)}
	case *ssa.Alloc:
		return s.allocValue(a)
	case *ssa.FieldAddr, *ssa.IndexAddr:
		return s.val(a)
	case *ssa.Parameter, *ssa.FreeVar:
		// *p where p is a pointer parameter (out-parameter) or a captured variable
		return &Sym{Op: "call", Name: "deref", Kids: []*Sym{s.val(a)}, Kind: kindOf(t)}
	}
	return &Sym{Op: "call", Name: "deref", Kids: []*Sym{s.val(addr)}, Kind: kindOf(t)}
}

// globalLiteral: an effectively-final []string / []T literal initialised in the package init → array of constants.
func (s *symFn) globalLiteral(g *ssa.Global) *Sym {
	initFn := g.Pkg.Func("init")
	if initFn == nil {
		return nil
	}
	for _, b := range initFn.Blocks {
		for _, in := range b.Instrs {
			st, ok := in.(*ssa.Store)
			if !ok || st.Addr != ssa.Value(g) {
				continue
			}
			if sl, ok := st.Val.(*ssa.Slice); ok {
				if al, ok := sl.X.(*ssa.Alloc); ok {
					tmp := newSymFn(s.p, initFn, s.depth+1)
					v := tmp.allocValue(al)
					if v.Op == "array" {
						if has, _ := v.hasUnknown(); !has {
							return v
						}
					}
				}
			}
		}
	}
	return nil
}

var stringFuncs = map[string]string{
	"strings.HasPrefix": "hasPrefix", "strings.HasSuffix": "hasSuffix", "strings.Contains": "contains", "strings.EqualFold": "equalFold",
	"strings.ToLower": "lower", "strings.ToUpper": "upper", "strings.TrimSpace": "trimSpace", "strconv.Itoa": "itoa",
	"strings.ReplaceAll": "replaceAll", "path/filepath.ToSlash": "toSlash", "strings.TrimSuffix": "trimSuffix",
	"path/filepath.Base": "base", "path/filepath.Ext": "ext",
}

func (s *symFn) call(c *ssa.Call) *Sym {
	cc := c.Common()
	if b, ok := cc.Value.(*ssa.Builtin); ok {
		switch b.Name() {
		case "len":
			x := s.val(cc.Args[0])
			if x.Op == "array" {
				return sInt(int64(len(x.Kids)))
			}
			if str, ok := symStr(x); ok {
				return sInt(int64(len(str)))
			}
			return &Sym{Op: "len", Kids: []*Sym{x}, Kind: "int"}
		case "append":
			kids := []*Sym{s.val(cc.Args[0])}
			if len(cc.Args) > 1 {
				rest := s.val(cc.Args[1])
				if rest.Op == "array" {
					kids = append(kids, rest.Kids...)
				} else {
					kids = append(kids, &Sym{Op: "call", Name: "spread", Kids: []*Sym{rest}})
				}
			}
			return &Sym{Op: "append", Kids: kids, Kind: "list"}
		}
		var kids []*Sym
		for _, a := range cc.Args {
			kids = append(kids, s.val(a))
		}
		return &Sym{Op: "call", Name: "builtin:" + b.Name(), Kids: kids}
	}
	var args []*Sym
	if cc.IsInvoke() {
		args = append(args, s.val(cc.Value))
		for _, a := range cc.Args {
			args = append(args, s.val(a))
		}
		_, rk := namedTypeName(cc.Value.Type())
		return &Sym{Op: "call", Name: "invoke:" + cc.Method.Name(), Kids: args, Kind: kindOf(c.Type()), RK: rk}
	}
	for _, a := range cc.Args {
		// a pointer to a local struct: the callee sees the variable as it is at the call
		if al, ok := a.(*ssa.Alloc); ok {
			if _, isStruct := al.Type().Underlying().(*types.Pointer).Elem().Underlying().(*types.Struct); isStruct {
				args = append(args, s.structCell(al, c))
				continue
			}
		}
		args = append(args, s.val(a))
	}
	callee := cc.StaticCallee()
	if callee == nil {
		// call of a function value held by a package-level variable that is never reassigned: that function
		if g := loadedGlobal(cc.Value); g != nil && !cc.IsInvoke() && !s.a.mutable[g] {
			if lit := s.p.Func("var:" + s.p.GlobalKey(g)); lit != nil && s.depth < 3 && len(lit.Blocks) > 0 {
				sub := newSymFn(s.p, lit, s.depth+1)
				sub.inlineOK = s.inlineOK
				for i, prm := range lit.Params {
					if i < len(args) {
						sub.params[prm] = args[i]
					}
				}
				if r := sub.returnSym(); r != nil {
					if has, _ := r.hasUnknown(); !has {
						return r
					}
				}
			}
		}
		// call of a function value
		return &Sym{Op: "call", Name: "dyn", Kids: append([]*Sym{s.val(cc.Value)}, args...), Kind: kindOf(c.Type())}
	}
	full := fullFuncName(callee)
	if pn, ok := stringFuncs[full]; ok {
		k := "string"
		switch pn {
		case "hasPrefix", "hasSuffix", "contains", "equalFold":
			k = "bool"
		}
		return &Sym{Op: "pred", Name: pn, Kids: args, Kind: k}
	}
	if s.p.IsOwnFunc(callee) && s.depth < 3 && len(callee.Blocks) > 0 && (s.inlineOK == nil || s.inlineOK(callee)) {
		sub := newSymFn(s.p, callee, s.depth+1)
		sub.inlineOK = s.inlineOK
		for i, prm := range callee.Params {
			if i < len(args) {
				sub.params[prm] = args[i]
			}
		}
		// a local closure called where it is defined: its captured variables are the enclosing function's cells as they
		// are at the call (a record variable: the cell's fields; a plain variable: its one dominating store)
		if mc, ok := cc.Value.(*ssa.MakeClosure); ok {
			for i, fv := range callee.FreeVars {
				if i >= len(mc.Bindings) {
					break
				}
				al, ok := mc.Bindings[i].(*ssa.Alloc)
				if !ok {
					continue
				}
				// only cells nobody writes behind the enclosing function's back: no other closure shares the cell
				shared := false
				for _, ref := range *al.Referrers() {
					if other, ok := ref.(*ssa.MakeClosure); ok && other != mc {
						shared = true
					}
				}
				if shared {
					continue
				}
				if _, isStruct := al.Type().Underlying().(*types.Pointer).Elem().Underlying().(*types.Struct); isStruct {
					sub.params[fv] = s.structCell(al, c)
				} else if st, ok := s.dominatingStore(al, c); ok && st != nil {
					sub.params[fv] = s.val(st.Val)
				}
			}
		}
		r := sub.returnSym()
		if has, _ := r.hasUnknown(); !has {
			return r
		}
	}
	name := full
	rk := ""
	if s.p.IsOwnFunc(callee) {
		name = s.p.FuncKey(callee)
	} else if callee.Signature.Recv() != nil && isTreePkg(callee) {
		// parse-tree / token accessors: named by method only (promoted wrappers and interface calls look alike)
		name = "invoke:" + callee.Name()
		_, rk = namedTypeName(callee.Signature.Recv().Type())
		if len(cc.Args) > 0 {
			if _, n := namedTypeName(cc.Args[0].Type()); n != "" {
				rk = n
			}
		}
	}
	return &Sym{Op: "call", Name: name, Kids: args, Kind: kindOf(c.Type()), RK: rk}
}

// returnSym: the function's result as one term (ite over the return paths); tuples for multiple results.
func (s *symFn) returnSym() *Sym {
	var rets []*ssa.Return
	for _, b := range s.fn.Blocks {
		if len(b.Instrs) > 0 {
			if r, ok := b.Instrs[len(b.Instrs)-1].(*ssa.Return); ok {
				rets = append(rets, r)
			}
		}
	}
	if len(rets) == 0 {
		return sUnknown("no return")
	}
	one := func(r *ssa.Return) *Sym {
		if len(r.Results) == 1 {
			return s.val(r.Results[0])
		}
		t := &Sym{Op: "tuple"}
		for _, x := range r.Results {
			t.Kids = append(t.Kids, s.val(x))
		}
		return t
	}
	// the path conditions of the returns are mutually exclusive and exhaustive (early exits of loops are closed
	// existentially, code after a loop carries the negation), so the result is an ite chain in any order
	var out *Sym
	for i := len(rets) - 1; i >= 0; i-- {
		r := rets[i]
		v := one(r)
		cond := s.pathCond(r.Block())
		for h, loop := range s.headers {
			if !loop[r.Block()] && v.mentions(s.binderName(h)) {
				// returned from inside the loop: value for the first element that takes this exit
				inner := sBool(false)
				for u := range loop {
					if u == h {
						continue
					}
					for _, w := range u.Succs {
						if loop[w] || !(w == r.Block() || w.Dominates(r.Block())) {
							continue
						}
						inner = sOr(inner, sAnd(sAnd(s.pathCondFrom(h, u, loop), s.edgeCond(u, w)), s.pathCondFrom(w, r.Block(), nil)))
					}
				}
				v = &Sym{Op: "first", Name: s.binderName(h), Kids: []*Sym{s.loopCollection(h), inner, v}, Kind: v.Kind}
			}
		}
		if out == nil {
			out = v
		} else {
			out = sIte(cond, v, out)
		}
	}
	return out
}

// mentions: does the element variable `name` occur free in x?
func (x *Sym) mentions(name string) bool {
	if x == nil {
		return false
	}
	switch x.Op {
	case "elem", "acc":
		return x.Name == name || x.Name == name+"_k"
	case "exists", "forall", "count", "sum", "collect", "last", "first":
		if x.Name == name {
			// bound here: only the collection expression can mention an outer variable of the same name
			return x.Kids[0].mentions(name)
		}
	}
	for _, k := range x.Kids {
		if k.mentions(name) {
			return true
		}
	}
	return false
}

// edgeCond: condition under which control goes from p to b.
func (s *symFn) edgeCond(p, b *ssa.BasicBlock) *Sym {
	if len(p.Instrs) == 0 {
		return sBool(true)
	}
	iff, ok := p.Instrs[len(p.Instrs)-1].(*ssa.If)
	if !ok {
		return sBool(true)
	}
	if p.Succs[0] == b && p.Succs[1] == b {
		return sBool(true)
	}
	// the continuation test of a loop is not a guard of the iteration; leaving through it means no early exit happened
	if loop, isH := s.headers[p]; isH && isLoopTest(iff, loop) {
		if !loop[b] {
			return sNot(s.earlyExitCond(p))
		}
		return sBool(true)
	}
	if hh, loop := s.loopOf(p); hh != nil && isLoopTest(iff, loop) && s.isRangeTest(iff) {
		return sBool(true)
	}
	c := s.val(iff.Cond)
	if p.Succs[0] == b {
		return c
	}
	return sNot(c)
}

// earlyExitCond: ∃ element for which the loop headed by h is left from inside its body (break / return).
func (s *symFn) earlyExitCond(h *ssa.BasicBlock) *Sym {
	loop := s.headers[h]
	cond := sBool(false)
	for u := range loop {
		if u == h {
			continue
		}
		for _, w := range u.Succs {
			if loop[w] {
				continue
			}
			if len(w.Instrs) > 0 {
				if _, isPanic := w.Instrs[len(w.Instrs)-1].(*ssa.Panic); isPanic {
					continue
				}
			}
			cond = sOr(cond, sAnd(s.pathCondFrom(h, u, loop), s.edgeCond(u, w)))
		}
	}
	if isFalse(cond) {
		return cond
	}
	return &Sym{Op: "exists", Name: s.binderName(h), Kids: []*Sym{s.loopCollection(h), cond}, Kind: "bool"}
}

// closeBinders: a condition that holds outside loop L but mentions L's element (reached through an early exit) is
// existentially closed over the elements, disjunct by disjunct.
func (s *symFn) closeBinders(b *ssa.BasicBlock, c *Sym) *Sym {
	for h, loop := range s.headers {
		if loop[b] {
			continue
		}
		name := s.binderName(h)
		if !c.mentions(name) {
			continue
		}
		var ds []*Sym
		disjuncts(c, &ds)
		out := sBool(false)
		for _, d := range ds {
			if d.mentions(name) {
				d = &Sym{Op: "exists", Name: name, Kids: []*Sym{s.loopCollection(h), d}, Kind: "bool"}
			}
			out = sOr(out, d)
		}
		c = out
	}
	return c
}

func disjuncts(x *Sym, out *[]*Sym) {
	if x.Op == "bin" && x.Name == "||" {
		disjuncts(x.Kids[0], out)
		disjuncts(x.Kids[1], out)
		return
	}
	*out = append(*out, x)
}

func (s *symFn) isRangeTest(iff *ssa.If) bool {
	switch c := iff.Cond.(type) {
	case *ssa.BinOp:
		for _, side := range []ssa.Value{c.X, c.Y} {
			if bo, ok := side.(*ssa.BinOp); ok {
				if ph, ok := bo.X.(*ssa.Phi); ok {
					if _, ok := s.isIndexPhi(ph); ok {
						return true
					}
				}
			}
			if ph, ok := side.(*ssa.Phi); ok {
				if _, ok := s.isIndexPhi(ph); ok {
					return true
				}
			}
		}
	case *ssa.Extract:
		if _, ok := c.Tuple.(*ssa.Next); ok {
			return true
		}
	}
	return false
}

// pathCond: condition (over the function's inputs and the elements of enclosing loops) under which block b executes in
// an iteration; back edges are ignored.
func (s *symFn) pathCond(b *ssa.BasicBlock) *Sym {
	if r, ok := s.pcMemo[b]; ok {
		if r == nil {
			return sBool(false)
		}
		return r
	}
	s.pcMemo[b] = nil
	var out *Sym
	if b.Index == 0 {
		out = sBool(true)
	} else {
		out = sBool(false)
		for _, p := range b.Preds {
			if b.Dominates(p) {
				continue // back edge
			}
			out = sOr(out, sAnd(s.pathCond(p), s.edgeCond(p, b)))
		}
		out = s.closeBinders(b, out)
	}
	s.pcMemo[b] = out
	return out
}

// pathCondFrom: condition to reach `to` from `from` (a dominator of to) staying inside region (nil = anywhere).
func (s *symFn) pathCondFrom(from, to *ssa.BasicBlock, region map[*ssa.BasicBlock]bool) *Sym {
	memo := map[*ssa.BasicBlock]*Sym{}
	var rec func(b *ssa.BasicBlock) *Sym
	rec = func(b *ssa.BasicBlock) *Sym {
		if b == from {
			return sBool(true)
		}
		if r, ok := memo[b]; ok {
			if r == nil {
				return sBool(false)
			}
			return r
		}
		memo[b] = nil
		out := sBool(false)
		for _, p := range b.Preds {
			if b.Dominates(p) {
				continue
			}
			if region != nil && !region[p] {
				continue
			}
			if !from.Dominates(p) {
				continue
			}
			out = sOr(out, sAnd(rec(p), s.edgeCond(p, b)))
		}
		memo[b] = out
		return out
	}
	return rec(to)
}

// phi: gated value.
func (s *symFn) phi(phi *ssa.Phi) *Sym {
	b := phi.Block()
	if loop, isHeader := s.headers[b]; isHeader {
		if _, ok := s.isIndexPhi(phi); ok {
			return &Sym{Op: "call", Name: "rangeindex:" + s.binderName(b), Kind: "int"}
		}
		if s.inNext[phi] {
			return &Sym{Op: "acc", Name: "acc_" + phi.Name()}
		}
		return s.accumulator(phi, loop)
	}
	idom := b.Idom()
	if idom == nil {
		return sUnknown("phi without dominator")
	}
	var out *Sym
	for i := len(phi.Edges) - 1; i >= 0; i-- {
		p := b.Preds[i]
		v := s.val(phi.Edges[i])
		c := sAnd(s.pathCondFrom(idom, p, nil), s.edgeCond(p, b))
		if out == nil {
			out = v
		} else {
			out = sIte(c, v, out)
		}
	}
	return out
}

// accumulator: closed form of a loop-carried variable after the loop.
func (s *symFn) accumulator(phi *ssa.Phi, loop map[*ssa.BasicBlock]bool) *Sym {
	h := phi.Block()
	var init *Sym
	var next *Sym
	s.inNext[phi] = true
	for i, e := range phi.Edges {
		p := h.Preds[i]
		if loop[p] {
			// value carried round the back edge, as a function of acc and the element
			v := s.val(e)
			c := s.pathCondFrom(h, p, loop)
			if next == nil {
				next = v
			} else {
				next = sIte(c, v, next)
			}
		} else {
			v := s.val(e)
			if init == nil {
				init = v
			} else {
				init = sIte(sAnd(s.pathCond(p), s.edgeCond(p, h)), v, init)
			}
		}
	}
	delete(s.inNext, phi)
	if init == nil || next == nil {
		return sUnknown("loop variable " + phi.Name())
	}
	accName := "acc_" + phi.Name()
	binder := s.binderName(h)
	coll := s.loopCollection(h)
	isAcc := func(x *Sym) bool { return x.Op == "acc" && x.Name == accName }
	mentionsAcc := func(x *Sym) bool {
		f := false
		x.walk(func(y *Sym) {
			if isAcc(y) {
				f = true
			}
		})
		return f
	}
	// normalise next into a list of guarded updates: ite(c1, u1, ite(c2, u2, … acc))
	type upd struct {
		cond *Sym
		val  *Sym
	}
	var ups []upd
	cur := next
	pre := sBool(true)
	for {
		if isAcc(cur) {
			break
		}
		if cur.Op == "ite" {
			c, a, b := cur.Kids[0], cur.Kids[1], cur.Kids[2]
			if mentionsAcc(c) {
				return sUnknown("loop variable " + phi.Name() + " is tested inside the loop that updates it")
			}
			if isAcc(a) && !isAcc(b) {
				// swap so that the acc branch is the else
				c, a, b = sNot(c), b, a
			}
			ups = append(ups, upd{sAnd(pre, c), a})
			pre = sAnd(pre, sNot(c))
			cur = b
			continue
		}
		ups = append(ups, upd{pre, cur})
		cur = nil
		break
	}
	if len(ups) == 0 {
		return init
	}
	// single update kinds
	allBoolConst := true
	var bval bool
	for i, u := range ups {
		bv, ok := symBool(u.val)
		if !ok || (i > 0 && bv != bval) {
			allBoolConst = false
			break
		}
		bval = bv
	}
	if allBoolConst {
		cond := sBool(false)
		for _, u := range ups {
			cond = sOr(cond, u.cond)
		}
		if iv, ok := symBool(init); ok {
			switch {
			case !iv && bval:
				return &Sym{Op: "exists", Name: binder, Kids: []*Sym{coll, cond}, Kind: "bool"}
			case iv && !bval:
				return &Sym{Op: "forall", Name: binder, Kids: []*Sym{coll, sNot(cond)}, Kind: "bool"}
			default:
				return init
			}
		}
		// init is an expression: exists/forall combined with it
		if bval {
			return sOr(init, &Sym{Op: "exists", Name: binder, Kids: []*Sym{coll, cond}, Kind: "bool"})
		}
		return sAnd(init, &Sym{Op: "forall", Name: binder, Kids: []*Sym{coll, sNot(cond)}, Kind: "bool"})
	}
	if len(ups) == 1 {
		u := ups[0]
		v := u.val
		// count / sum: acc + k
		if v.Op == "bin" && v.Name == "+" && (isAcc(v.Kids[0]) || isAcc(v.Kids[1])) {
			other := v.Kids[1]
			if isAcc(v.Kids[1]) {
				other = v.Kids[0]
			}
			if !mentionsAcc(other) {
				if k, ok := symInt(other); ok && k == 1 {
					return sBin("+", init, &Sym{Op: "count", Name: binder, Kids: []*Sym{coll, u.cond}, Kind: "int"})
				}
				return sBin("+", init, &Sym{Op: "sum", Name: binder, Kids: []*Sym{coll, sIte(u.cond, other, sInt(0))}, Kind: "int"})
			}
		}
		// collect: append(acc, e…)
		if v.Op == "append" && isAcc(v.Kids[0]) && len(v.Kids) == 2 && !mentionsAcc(v.Kids[1]) {
			col := &Sym{Op: "collect", Name: binder, Kids: []*Sym{coll, u.cond, v.Kids[1]}, Kind: "list"}
			if init.Op == "nil" || (init.Op == "call" && init.Name == "makeslice") {
				return col
			}
			return &Sym{Op: "call", Name: "concat", Kids: []*Sym{init, col}, Kind: "list"}
		}
		// last writer: acc = f(elem) under cond
		if !mentionsAcc(v) {
			return &Sym{Op: "last", Name: binder, Kids: []*Sym{coll, u.cond, v, init}, Kind: v.Kind}
		}
	}
	return sUnknown("loop variable " + phi.Name() + " has an unrecognised update " + next.String())
}

func symBool(x *Sym) (bool, bool) {
	if x.Op == "const" && x.C.Kind() == constant.Bool {
		return constant.BoolVal(x.C), true
	}
	return false, false
}

func symInt(x *Sym) (int64, bool) {
	if x.Op == "const" && x.C.Kind() == constant.Int {
		i, ok := constant.Int64Val(x.C)
		return i, ok
	}
	return 0, false
}

var _ = strings.TrimSpace

func isTreePkg(f *ssa.Function) bool {
	pk, _ := namedTypeName(f.Signature.Recv().Type())
	return strings.HasPrefix(pk, modPath+"/languages/") || strings.Contains(pk, "antlr")
}

// loopOrdinal: 1-based position of the loop headed by h among the function's loops, in block order.
func (s *symFn) loopOrdinal(h *ssa.BasicBlock) int {
	n := 1
	for o := range s.headers {
		if o.Index < h.Index {
			n++
		}
	}
	return n
}

func isNilSym(x *Sym) bool {
	return x != nil && (x.Op == "nil" || (x.Op == "const" && x.C == nil))
}

func calleePkg(f *ssa.Function) *types.Package {
	if f.Pkg != nil {
		return f.Pkg.Pkg
	}
	if f.Object() != nil {
		return f.Object().Pkg()
	}
	return nil
}
