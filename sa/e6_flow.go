package main

// E6 — flow rules: override completeness, must-call, Enter/Exit pairing, emission loops, termination, must-precede.

import (
	"fmt"
	"go/constant"
	"go/token"
	"go/types"
	"regexp"
	"sort"
	"strings"

	"golang.org/x/tools/go/ssa"
)

func init() { register("E6-flow", runE6) }

type ListenerSpec struct {
	Props     []string            `json:"props"`
	Type      string              `json:"type"`      // rel/pkg.Type
	Interface string              `json:"interface"` // rel/pkg.Iface of the generated listener
	Required  map[string][]string `json:"required"`  // callback -> properties that depend on it
	Grammar   string              `json:"grammar"`
}

type MustCallSpec struct {
	Props   []string `json:"props"`
	Func    string   `json:"func"`
	Targets []string `json:"targets"` // function keys; every path from entry to a return passes a call reaching one of them
	What    string   `json:"what"`
	Mode    string   `json:"mode"` // "" = on every path; "reach" = sibling agreement: the target is reachable from the function at all; "each" = reached only through a loop
}

type PairSpec struct {
	Props  []string `json:"props"`
	Exit   string   `json:"exit"`   // function key of the Exit callback
	Global string   `json:"global"` // rel/pkg.var that it must assign a state-independent value on every path
	What   string   `json:"what"`
}

type LoopSpec struct {
	Props    []string `json:"props"`
	Func     string   `json:"func"`
	What     string   `json:"what"`
	NoLoopOK bool     `json:"no_loop_ok"` // the function may also handle its one item without any loop
}

type PrecedeSpec struct {
	Props  []string `json:"props"`
	Func   string   `json:"func"`   // function containing the calls
	Callee string   `json:"callee"` // function key (or full name) of the call that consumes the settings
	Stores []string `json:"stores"` // full names "pkgpath.Var" of variables that must be assigned before each call
	Fresh  []string `json:"fresh"`  // subset that must be assigned inside the same loop iteration as the call (no stale value)
	What   string   `json:"what"`
	// AutoReads: additionally require a fresh assignment, inside the same iteration, of every mutable package-level variable
	// that the callee can read before assigning it (computed from the callee's read-before-kill summary): the call is one unit
	// of work per iteration and must not see what the previous iteration left behind.
	AutoReads bool `json:"auto_reads"`
}

type TermSpec struct {
	Props        []string          `json:"props"`
	LoopsTrusted map[string]string `json:"loops_trusted"` // function key -> ranking argument for its non-range loop(s)
}

func runE6(p *Program, sp *Spec, c *Collector) {
	t := sp.Tables
	for _, ls := range t.Listeners {
		runOverride(p, sp, c, ls)
	}
	for _, mc := range t.MustCall {
		runMustCall(p, c, mc)
	}
	for _, ps := range t.Pairs {
		runPair(p, c, ps)
	}
	for _, ls := range t.EmissionLoops {
		runEmissionLoop(p, c, ls)
	}
	runTermination(p, sp, c)
	for _, pr := range t.Precede {
		runPrecede(p, c, pr)
	}
	for _, cs := range t.ConsumeReset {
		runConsumeReset(p, c, cs)
	}
	for _, ns := range t.Nesting {
		runNesting(p, sp, c, ns)
	}
	for _, ca := range t.CoAccess {
		runCoAccess(p, sp, c, ca)
	}
	for _, nk := range t.NestedKills {
		runNestedKills(p, sp, c, nk)
		runCrossBrackets(p, sp, c, nk)
		runResultOverwrite(p, sp, c, nk)
	}
	for _, rc := range t.RuleCoverage {
		runRuleCoverage(p, sp, c, rc)
	}
	for _, pa := range t.Positional {
		runPositional(p, sp, c, pa)
	}
}

// ---------------------------------------------------------------------------------------------
// (a) override completeness

func runOverride(p *Program, sp *Spec, c *Collector, ls ListenerSpec) {
	pr, tn := splitTypeKey(ls.Type)
	pk := p.ByPath[joinMod(pr)]
	ipr, in := splitTypeKey(ls.Interface)
	ipk := p.ByPath[joinMod(ipr)]
	if pk == nil || ipk == nil {
		c.Anchor(ls.Props, "E6: listener %s / interface %s: package does not resolve", ls.Type, ls.Interface)
		return
	}
	tobj := pk.Types.Scope().Lookup(tn)
	iobj := ipk.Types.Scope().Lookup(in)
	if tobj == nil || iobj == nil {
		c.Anchor(ls.Props, "E6: listener %s / interface %s does not resolve", ls.Type, ls.Interface)
		return
	}
	named, _ := tobj.Type().(*types.Named)
	iface, _ := iobj.Type().Underlying().(*types.Interface)
	if named == nil || iface == nil {
		c.Anchor(ls.Props, "E6: %s is not a named type or %s not an interface", ls.Type, ls.Interface)
		return
	}
	ifaceMethods := map[string]*types.Func{}
	for i := 0; i < iface.NumMethods(); i++ {
		m := iface.Method(i)
		ifaceMethods[m.Name()] = m
	}
	declared := map[string]*types.Func{}
	for i := 0; i < named.NumMethods(); i++ {
		m := named.Method(i)
		declared[m.Name()] = m
	}
	// the type must implement the interface at all
	if !types.Implements(types.NewPointer(named), iface) {
		c.Ob(ls.Props, "E6.override", "listener:"+ls.Type+" implements "+in, Violated, "*"+tn+" does not implement "+in, p.Pos(tobj.Pos()), false)
	}
	sameSig := func(a, b *types.Func) bool {
		sa := a.Type().(*types.Signature)
		sb := b.Type().(*types.Signature)
		return types.Identical(types.NewSignatureType(nil, nil, nil, sa.Params(), sa.Results(), sa.Variadic()),
			types.NewSignatureType(nil, nil, nil, sb.Params(), sb.Results(), sb.Variadic()))
	}
	for _, name := range sortedKeys(ls.Required) {
		props := ls.Required[name]
		key := "listener:" + ls.Type + " callback:" + name
		im := ifaceMethods[name]
		if im == nil {
			c.Anchor(ls.Props, "E6: required callback %s is not a method of %s", name, ls.Interface)
			continue
		}
		dm := declared[name]
		switch {
		case dm == nil:
			c.Ob(props, "E6.override", key, Violated, tn+" does not declare "+name+" itself: the empty method of the embedded base listener runs and every such node is silently dropped", p.Pos(tobj.Pos()), false)
		case !sameSig(dm, im):
			c.Ob(props, "E6.override", key, Violated, name+" is declared with a signature different from the listener interface: it does not override the callback", p.Pos(dm.Pos()), false)
		default:
			// pointer or value receiver both satisfy *T; make sure the walker will see it: method set of *T contains dm
			c.Ob(props, "E6.override", key, Discharged, "declared on "+tn+" with the interface signature", p.Pos(dm.Pos()), true)
		}
	}
	// orphans: Enter*/Exit* methods that are not interface methods (never called by the walker)
	var names []string
	for n := range declared {
		names = append(names, n)
	}
	sort.Strings(names)
	for _, n := range names {
		if !(strings.HasPrefix(n, "Enter") || strings.HasPrefix(n, "Exit")) {
			continue
		}
		key := "listener:" + ls.Type + " method:" + n
		im := ifaceMethods[n]
		if im == nil {
			c.Ob(ls.Props, "E6.orphan-callback", key, Violated, n+" looks like a callback but the generated listener interface has no such method: the walker never calls it", p.Pos(declared[n].Pos()), false)
		} else if !sameSig(declared[n], im) {
			c.Ob(ls.Props, "E6.orphan-callback", key, Violated, n+" has a signature different from the interface method: it shadows the callback and is never called", p.Pos(declared[n].Pos()), false)
		} else {
			c.Ob(ls.Props, "E6.orphan-callback", key, Discharged, "is a callback of "+in, p.Pos(declared[n].Pos()), false)
		}
	}
	// the listener must not override the catch-all hooks (they would run for every node and defeat the per-callback reasoning)
	for _, hook := range []string{"EnterEveryRule", "ExitEveryRule", "VisitTerminal", "VisitErrorNode"} {
		if m := declared[hook]; m != nil {
			c.Ob(ls.Props, "E6.override", "listener:"+ls.Type+" hook:"+hook, Note, "overrides "+hook+": runs for every node", p.Pos(m.Pos()), false)
		}
	}
	c.Count("E6.callbacks."+tn, len(names))
}

// ---------------------------------------------------------------------------------------------
// (b) must-call

// storeTargetName names the variable a store writes: "store:<global>" or "storefield:<global>.<Field>" (the field of
// the global struct, or of the object a pointer-typed global refers to).
func storeTargetName(p *Program, st *ssa.Store) string {
	switch a := st.Addr.(type) {
	case *ssa.Global:
		if p.Own[a.Pkg.Pkg] {
			return "store:" + p.GlobalKey(a)
		}
	case *ssa.FieldAddr:
		var g *ssa.Global
		if gg, ok := a.X.(*ssa.Global); ok {
			g = gg
		} else if gg := loadedGlobal(a.X); gg != nil {
			g = gg
		}
		if g != nil && p.Own[g.Pkg.Pkg] {
			if pt, ok := a.X.Type().Underlying().(*types.Pointer); ok {
				if stt, ok := pt.Elem().Underlying().(*types.Struct); ok {
					return "storefield:" + p.GlobalKey(g) + "." + stt.Field(a.Field).Name()
				}
			}
		}
	}
	return ""
}

type mustCallAn struct {
	p            *Program
	extTargets   map[string]bool // full names of library functions that count as the recording effect
	storeTargets map[string]bool
	targets      map[*ssa.Function]bool
	memo         map[*ssa.Function]int // 1 always, 2 not always
	prog         map[*ssa.Function]bool
}

// always: every path from fn's entry to a return passes a call that reaches a target.
func (m *mustCallAn) always(fn *ssa.Function) bool {
	if m.targets[fn] {
		return true
	}
	if v, ok := m.memo[fn]; ok {
		return v == 1
	}
	if m.prog[fn] || len(fn.Blocks) == 0 {
		return false
	}
	m.prog[fn] = true
	defer delete(m.prog, fn)
	ok, _ := m.check(fn)
	if ok {
		m.memo[fn] = 1
	} else {
		m.memo[fn] = 2
	}
	return ok
}

// retImplies: does callee return the boolean constant want only on paths where the target was called?
func (m *mustCallAn) retImplies(fn *ssa.Function, want bool) bool {
	if len(fn.Blocks) == 0 || m.prog[fn] {
		return false
	}
	m.prog[fn] = true
	defer delete(m.prog, fn)
	st := m.flow(fn)
	any := false
	for _, b := range fn.Blocks {
		if st.in[b.Index] == 0 || len(b.Instrs) == 0 {
			continue
		}
		r, ok := b.Instrs[len(b.Instrs)-1].(*ssa.Return)
		if !ok || len(r.Results) != 1 {
			continue
		}
		v, isConst := constBool(r.Results[0])
		if !isConst {
			// unknown value: could be want
			if st.exit[b.Index] != 2 {
				return false
			}
			continue
		}
		if v == want {
			any = true
			if st.exit[b.Index] != 2 {
				return false
			}
		}
	}
	return any
}

type mcFlow struct {
	in   []int
	exit []int // state at the end of the block (before edge refinement)
}

// flow: forward must-dataflow, called ∈ {1 false, 2 true}, join = min; edge-sensitive on `if call()` tests.
func (m *mustCallAn) flow(fn *ssa.Function) *mcFlow {
	nb := len(fn.Blocks)
	st := &mcFlow{in: make([]int, nb), exit: make([]int, nb)}
	outT := make([]int, nb)
	outF := make([]int, nb)
	st.in[0] = 1
	transfer := func(b *ssa.BasicBlock, s int) (int, int, int) {
		for _, ins := range b.Instrs {
			if sto, ok := ins.(*ssa.Store); ok && len(m.storeTargets) > 0 && m.storeTargets[storeTargetName(m.p, sto)] {
				s = 2
			}
			if ci, ok := ins.(*ssa.Call); ok {
				if cal := ci.Call.StaticCallee(); cal != nil && m.extTargets[fullFuncName(cal)] {
					s = 2
				}
				cs := m.p.Callees(ci)
				if len(cs) > 0 {
					all := true
					for _, cal := range cs {
						if !m.always(cal) {
							all = false
						}
					}
					if all {
						s = 2
					}
				}
			}
		}
		t, f := s, s
		if len(b.Instrs) > 0 {
			if iff, ok := b.Instrs[len(b.Instrs)-1].(*ssa.If); ok {
				cond := iff.Cond
				neg := false
				if u, ok := cond.(*ssa.UnOp); ok && u.Op == token.NOT {
					cond = u.X
					neg = true
				}
				if call, ok := cond.(*ssa.Call); ok {
					if cal := call.Call.StaticCallee(); cal != nil && m.p.IsOwnFunc(cal) {
						if m.retImplies(cal, true) {
							if neg {
								f = 2
							} else {
								t = 2
							}
						}
						if m.retImplies(cal, false) {
							if neg {
								t = 2
							} else {
								f = 2
							}
						}
					}
				}
			}
		}
		return s, t, f
	}
	changed := true
	for changed {
		changed = false
		for _, b := range fn.Blocks {
			if b.Index != 0 {
				acc := 0
				for _, pr := range b.Preds {
					o := outT[pr.Index]
					if len(pr.Succs) == 2 && pr.Succs[1] == b && pr.Succs[0] != b {
						o = outF[pr.Index]
					}
					if o == 0 {
						continue
					}
					if acc == 0 || o < acc {
						acc = o
					}
				}
				if acc == 0 {
					continue
				}
				st.in[b.Index] = acc
			}
			e, t, f := transfer(b, st.in[b.Index])
			if e != st.exit[b.Index] || t != outT[b.Index] || f != outF[b.Index] {
				st.exit[b.Index], outT[b.Index], outF[b.Index] = e, t, f
				changed = true
			}
		}
	}
	return st
}

// check returns (ok, offending return).
func (m *mustCallAn) check(fn *ssa.Function) (bool, ssa.Instruction) {
	st := m.flow(fn)
	for _, b := range fn.Blocks {
		if st.in[b.Index] == 0 || len(b.Instrs) == 0 {
			continue
		}
		if r, ok := b.Instrs[len(b.Instrs)-1].(*ssa.Return); ok && st.exit[b.Index] != 2 {
			return false, r
		}
	}
	return true, nil
}

func runMustCall(p *Program, c *Collector, mc MustCallSpec) {
	fn := p.Func(mc.Func)
	if fn == nil {
		c.Anchor(mc.Props, "E6: must-call: %s does not resolve", mc.Func)
		return
	}
	m := &mustCallAn{p: p, targets: map[*ssa.Function]bool{}, memo: map[*ssa.Function]int{}, prog: map[*ssa.Function]bool{}}
	var names []string
	for _, t := range mc.Targets {
		if strings.HasPrefix(t, "store:") || strings.HasPrefix(t, "storefield:") {
			if m.storeTargets == nil {
				m.storeTargets = map[string]bool{}
			}
			m.storeTargets[t] = true
			names = append(names, t)
			continue
		}
		if strings.HasPrefix(t, "ext:") {
			if m.extTargets == nil {
				m.extTargets = map[string]bool{}
			}
			m.extTargets[strings.TrimPrefix(t, "ext:")] = true
			names = append(names, strings.TrimPrefix(t, "ext:"))
			continue
		}
		tf := p.Func(t)
		if tf == nil {
			c.Anchor(mc.Props, "E6: must-call: target %s does not resolve", t)
			return
		}
		m.targets[tf] = true
		names = append(names, shortFn(t))
	}
	key := "mustcall:" + mc.Func + " -> " + strings.Join(names, "|")
	if mc.Mode == "each" {
		// every call path from the function to the target passes a call site that lies inside a loop: the target is applied
		// to each element of some collection (each modifier of a declaration), not to one picked element
		key = "each:" + mc.Func + " -> " + strings.Join(names, "|")
		var bad ssa.Instruction
		found := false
		var dfs func(f *ssa.Function, inLoop bool, depth int, seen map[*ssa.Function]bool)
		dfs = func(f *ssa.Function, inLoop bool, depth int, seen map[*ssa.Function]bool) {
			if depth > 4 || seen[f] {
				return
			}
			seen[f] = true
			defer delete(seen, f)
			loops := naturalLoops(f)
			for _, b := range f.Blocks {
				here := inLoop
				for _, l := range loops {
					if l[b] {
						here = true
					}
				}
				for _, in := range b.Instrs {
					call, ok := in.(ssa.CallInstruction)
					if !ok {
						continue
					}
					for _, callee := range p.ownCallees(call) {
						if m.targets[callee] {
							found = true
							if !here && bad == nil {
								bad = in
							}
							continue
						}
						dfs(callee, here, depth+1, seen)
					}
				}
			}
		}
		dfs(fn, false, 0, map[*ssa.Function]bool{})
		switch {
		case !found:
			c.Ob(mc.Props, "E6.applied-to-each", key, Violated, mc.What+": "+shortFn(mc.Func)+" never reaches "+strings.Join(names, "|"), p.FuncPos(fn), false)
		case bad != nil:
			c.Ob(mc.Props, "E6.applied-to-each", key, Violated, mc.What+": "+strings.Join(names, "|")+" is applied once, to a single picked element (call at "+p.InstrPos(bad)+" is in no loop), not to each of them", p.InstrPos(bad), false)
		default:
			c.Ob(mc.Props, "E6.applied-to-each", key, Discharged, mc.What+": every path to "+strings.Join(names, "|")+" goes through a loop", p.FuncPos(fn), true)
		}
		return
	}
	if mc.Mode == "reach" {
		reached := false
		for f := range p.reach([]*ssa.Function{fn}) {
			if m.targets[f] {
				reached = true
			}
			// a recording effect named as a store (store:<global>, storefield:<global>.<F>)
			if len(m.storeTargets) > 0 {
				for _, b := range f.Blocks {
					for _, in := range b.Instrs {
						if st, ok := in.(*ssa.Store); ok && m.storeTargets[storeTargetName(p, st)] {
							reached = true
						}
					}
				}
			}
		}
		key = "sibling:" + mc.Func + " -> " + strings.Join(names, "|")
		if reached {
			c.Ob(mc.Props, "E6.sibling-agreement", key, Discharged, mc.What+": the callback can reach "+strings.Join(names, "|")+" like its siblings", p.FuncPos(fn), true)
		} else {
			c.Ob(mc.Props, "E6.sibling-agreement", key, Violated, mc.What+": "+shortFn(mc.Func)+" never reaches "+strings.Join(names, "|")+", which its sibling callbacks use to record the same attribute", p.FuncPos(fn), false)
		}
		return
	}
	ok, off := m.check(fn)
	if ok {
		c.Ob(mc.Props, "E6.must-record", key, Discharged, mc.What+": every path from entry to a return passes a call that always reaches "+strings.Join(names, "|"), p.FuncPos(fn), true)
	} else {
		c.Ob(mc.Props, "E6.must-record", key, Violated, mc.What+": the return at "+p.InstrPos(off)+" can be reached without recording ("+strings.Join(names, "|")+" not called on that path)", p.InstrPos(off), false)
	}
}

// ---------------------------------------------------------------------------------------------
// (c) Enter/Exit pairing

func runPair(p *Program, c *Collector, ps PairSpec) {
	fn := p.Func(ps.Exit)
	g := p.Global(ps.Global)
	if fn == nil || g == nil {
		c.Anchor(ps.Props, "E6: pairing: %s / %s does not resolve", ps.Exit, ps.Global)
		return
	}
	a := getStateAn(p)
	key := "pair:" + ps.Exit + " closes " + ps.Global
	if a.summary(fn).K[g] {
		c.Ob(ps.Props, "E6.enter-exit-pairing", key, Discharged, ps.What+": the Exit callback assigns a state-independent value on every path", p.FuncPos(fn), true)
	} else {
		c.Ob(ps.Props, "E6.enter-exit-pairing", key, Violated, ps.What+": some path of "+shortFn(ps.Exit)+" leaves "+g.Name()+" as the member left it, so the next member's calls/annotations attach to the previous one", p.FuncPos(fn), false)
	}
}

// ---------------------------------------------------------------------------------------------
// (d) emission loops: a loop that emits one record per element must not be left early

func naturalLoops(fn *ssa.Function) []map[*ssa.BasicBlock]bool {
	var out []map[*ssa.BasicBlock]bool
	seenHeader := map[*ssa.BasicBlock]map[*ssa.BasicBlock]bool{}
	for _, b := range fn.Blocks {
		for _, s := range b.Succs {
			if s.Dominates(b) {
				loop := seenHeader[s]
				if loop == nil {
					loop = map[*ssa.BasicBlock]bool{s: true}
					seenHeader[s] = loop
					out = append(out, loop)
				}
				stack := []*ssa.BasicBlock{b}
				for len(stack) > 0 {
					x := stack[len(stack)-1]
					stack = stack[:len(stack)-1]
					if loop[x] {
						continue
					}
					loop[x] = true
					stack = append(stack, x.Preds...)
				}
			}
		}
	}
	return out
}

func loopHeader(loop map[*ssa.BasicBlock]bool) *ssa.BasicBlock {
	var h *ssa.BasicBlock
	for b := range loop {
		dom := true
		for x := range loop {
			if !b.Dominates(x) {
				dom = false
				break
			}
		}
		if dom && (h == nil || b.Index < h.Index) {
			h = b
		}
	}
	return h
}

func runEmissionLoop(p *Program, c *Collector, ls LoopSpec) {
	fn := p.Func(ls.Func)
	if fn == nil {
		c.Anchor(ls.Props, "E6: emission loop: %s does not resolve", ls.Func)
		return
	}
	loops := naturalLoops(fn)
	if len(loops) == 0 && ls.NoLoopOK {
		c.Ob(ls.Props, "E6.emission-loop", "loop:"+ls.Func, Discharged, ls.What+": nothing is iterated, the one item is handled straight", p.FuncPos(fn), true)
		return
	}
	if len(loops) == 0 {
		c.Ob(ls.Props, "E6.emission-loop", "loop:"+ls.Func, Undecided, ls.What+": no loop found in the function", p.FuncPos(fn), false)
		return
	}
	bad := ""
	badPos := ""
	cursor := ""
	for _, loop := range loops {
		h := loopHeader(loop)
		for b := range loop {
			for _, s := range b.Succs {
				if loop[s] {
					continue
				}
				if b == h {
					continue // normal exhaustion exit
				}
				// an exit from inside the body: allowed only if it leads to a panic
				if len(s.Instrs) > 0 {
					if _, isPanic := s.Instrs[len(s.Instrs)-1].(*ssa.Panic); isPanic {
						continue
					}
				}
				pos := ""
				if len(s.Instrs) > 0 {
					pos = p.InstrPos(s.Instrs[len(s.Instrs)-1])
				}
				bad = "the loop is left early (break/return at " + pos + "): the remaining elements, and any accumulated output not returned there, are dropped"
				badPos = pos
				// an exit that tests a package-level cursor is identified together with the conditions under which the
				// function moves that cursor: a change of those is a different violation than the one on record
				if len(b.Instrs) > 0 {
					if iff, ok := b.Instrs[len(b.Instrs)-1].(*ssa.If); ok {
						if cmp, ok := iff.Cond.(*ssa.BinOp); ok {
							g := loadedGlobal(cmp.X)
							if g == nil {
								g = loadedGlobal(cmp.Y)
							}
							if g != nil && p.Own[g.Pkg.Pkg] {
								sf := newSymFn(p, fn, 0)
								sf.inlineOK = func(*ssa.Function) bool { return false }
								var conds []string
								for _, b2 := range fn.Blocks {
									for _, in := range b2.Instrs {
										if st, ok := in.(*ssa.Store); ok && st.Addr == ssa.Value(g) {
											var cj []*Sym
											conjuncts(sf.pathCond(b2), &cj)
											conds = append(conds, regexp.MustCompile(`v[A-Za-z]+_\d+`).ReplaceAllString(cj[len(cj)-1].String(), "elem"))
										}
									}
								}
								sort.Strings(conds)
								cursor = " exit on " + g.Name() + ", set when " + clip(strings.Join(conds, " | "), 200)
							}
						}
					}
				}
			}
		}
	}
	key := "loop:" + ls.Func
	if bad != "" {
		key += cursor
		c.Ob(ls.Props, "E6.emission-loop", key, Violated, ls.What+": "+bad, badPos, false)
	} else {
		c.Ob(ls.Props, "E6.emission-loop", key, Discharged, fmt.Sprintf("%s: %d loop(s), each left only when its collection is exhausted", ls.What, len(loops)), p.FuncPos(fn), true)
	}
}

// ---------------------------------------------------------------------------------------------
// (e) termination

// sccs of the own call graph restricted to direct calls
func (p *Program) ownSCCs() [][]*ssa.Function {
	index := 0
	idx := map[*ssa.Function]int{}
	low := map[*ssa.Function]int{}
	on := map[*ssa.Function]bool{}
	var stack []*ssa.Function
	var out [][]*ssa.Function
	var strong func(v *ssa.Function)
	succs := func(v *ssa.Function) []*ssa.Function {
		var s []*ssa.Function
		if n := p.CG.Nodes[v]; n != nil {
			for _, e := range n.Out {
				if p.IsOwnFunc(e.Callee) {
					s = append(s, e.Callee)
				}
			}
		}
		return s
	}
	strong = func(v *ssa.Function) {
		idx[v] = index
		low[v] = index
		index++
		stack = append(stack, v)
		on[v] = true
		for _, w := range succs(v) {
			if _, ok := idx[w]; !ok {
				strong(w)
				if low[w] < low[v] {
					low[v] = low[w]
				}
			} else if on[w] && idx[w] < low[v] {
				low[v] = idx[w]
			}
		}
		if low[v] == idx[v] {
			var comp []*ssa.Function
			for {
				w := stack[len(stack)-1]
				stack = stack[:len(stack)-1]
				on[w] = false
				comp = append(comp, w)
				if w == v {
					break
				}
			}
			rec := len(comp) > 1
			if !rec {
				for _, w := range succs(v) {
					if w == v {
						rec = true
					}
				}
			}
			if rec {
				sort.Slice(comp, func(i, j int) bool { return p.FuncKey(comp[i]) < p.FuncKey(comp[j]) })
				out = append(out, comp)
			}
		}
	}
	for _, f := range p.OwnFuncs {
		if _, ok := idx[f]; !ok {
			strong(f)
		}
	}
	sort.Slice(out, func(i, j int) bool { return p.FuncKey(out[i][0]) < p.FuncKey(out[j][0]) })
	return out
}

// substructure: is v obtained from a parameter of fn by at least one field/element/range/assert step?
func substructure(v ssa.Value, fn *ssa.Function, steps int, seen map[ssa.Value]bool) bool {
	if seen[v] {
		return false
	}
	seen[v] = true
	switch x := v.(type) {
	case *ssa.Parameter:
		return steps > 0
	case *ssa.FieldAddr:
		return substructure(x.X, fn, steps+1, seen)
	case *ssa.Field:
		return substructure(x.X, fn, steps+1, seen)
	case *ssa.IndexAddr:
		return substructure(x.X, fn, steps+1, seen)
	case *ssa.Index:
		return substructure(x.X, fn, steps+1, seen)
	case *ssa.Lookup:
		return substructure(x.X, fn, steps+1, seen)
	case *ssa.UnOp:
		return substructure(x.X, fn, steps, seen)
	case *ssa.Extract:
		return substructure(x.Tuple, fn, steps, seen)
	case *ssa.Next:
		return substructure(x.Iter, fn, steps+1, seen)
	case *ssa.Range:
		return substructure(x.X, fn, steps, seen)
	case *ssa.TypeAssert:
		return substructure(x.X, fn, steps, seen)
	case *ssa.ChangeInterface:
		return substructure(x.X, fn, steps, seen)
	case *ssa.ChangeType:
		return substructure(x.X, fn, steps, seen)
	case *ssa.MakeInterface:
		return substructure(x.X, fn, steps, seen)
	case *ssa.Phi:
		for _, e := range x.Edges {
			if !substructure(e, fn, steps, map[ssa.Value]bool{}) {
				return false
			}
		}
		return len(x.Edges) > 0
	case *ssa.Alloc:
		// local copy of a struct parameter / range element: look at what is stored into it
		for _, ref := range *x.Referrers() {
			if st, ok := ref.(*ssa.Store); ok && st.Addr == ssa.Value(x) {
				if substructure(st.Val, fn, steps, seen) {
					return true
				}
			}
		}
	}
	return false
}

func runTermination(p *Program, sp *Spec, c *Collector) {
	a := getStateAn(p)
	ts := sp.Tables.Termination
	props := ts.Props
	sccs := p.ownSCCs()
	c.Count("E6.recursive_sccs", len(sccs))
	for _, comp := range sccs {
		inComp := map[*ssa.Function]bool{}
		var names []string
		for _, f := range comp {
			inComp[f] = true
			names = append(names, shortFn(p.FuncKey(f)))
		}
		key := "scc:" + strings.Join(names, ",")
		sccProps := append([]string{}, props...)
		for _, f := range comp {
			sccProps = append(sccProps, sp.Tables.FuncProps[p.FuncKey(f)]...)
		}
		sccProps = dedupStrings(sccProps)
		if len(sccProps) == 0 {
			continue // no property depends on this cycle (over-approximated call edges produce spurious ones)
		}
		// 1. budget counter
		if ok, why := budgetCounter(p, a, comp, inComp); ok {
			c.Ob(sccProps, "E6.termination", key, Discharged, "budget counter: "+why, p.FuncPos(comp[0]), true)
			continue
		} else {
			// 2. structural recursion: every recursive call passes (a part of) a parameter of its caller, and every
			// cycle of the SCC contains at least one call that passes a strict part (field / element).
			okStruct := true
			whyStruct := ""
			same := map[*ssa.Function][]*ssa.Function{} // edges that pass the parameter itself (no descent)
			for _, f := range comp {
				for _, b := range f.Blocks {
					for _, in := range b.Instrs {
						ci, isCall := in.(ssa.CallInstruction)
						if !isCall {
							continue
						}
						var recTo []*ssa.Function
						for _, cal := range p.Callees(ci) {
							if inComp[cal] {
								recTo = append(recTo, cal)
							}
						}
						if len(recTo) == 0 {
							continue
						}
						strict, weak := false, false
						for _, arg := range ci.Common().Args {
							if substructure(arg, f, 0, map[ssa.Value]bool{}) {
								strict = true
							} else if substructure(arg, f, 1, map[ssa.Value]bool{}) {
								weak = true // the parameter itself (possibly narrowed by a type switch)
							}
						}
						switch {
						case strict:
						case weak:
							same[f] = append(same[f], recTo...)
						default:
							okStruct = false
							whyStruct = "recursive call at " + p.InstrPos(in) + " passes no part of a parameter of its caller"
						}
					}
				}
			}
			if okStruct {
				// cycle among non-descending edges?
				color := map[*ssa.Function]int{}
				var dfs func(f *ssa.Function) bool
				dfs = func(f *ssa.Function) bool {
					color[f] = 1
					for _, g := range same[f] {
						if color[g] == 1 || (color[g] == 0 && dfs(g)) {
							return true
						}
					}
					color[f] = 2
					return false
				}
				for _, f := range comp {
					if color[f] == 0 && dfs(f) {
						okStruct = false
						whyStruct = "a cycle through " + shortFn(p.FuncKey(f)) + " passes its parameter on unchanged (no descent)"
					}
				}
			}
			if okStruct {
				c.Ob(sccProps, "E6.termination", key, Discharged, "structural recursion: every recursive call passes a part of a parameter of its caller and every cycle contains a call that passes a strict part (field/element)", p.FuncPos(comp[0]), true)
			} else {
				c.Ob(sccProps, "E6.termination", key, Violated, "no ranking argument: not a budget counter ("+why+"); not structural ("+whyStruct+")", p.FuncPos(comp[0]), false)
			}
		}
	}
	// non-range loops
	nLoops := 0
	for _, fn := range p.OwnFuncs {
		for _, loop := range naturalLoops(fn) {
			h := loopHeader(loop)
			if h == nil {
				continue
			}
			kind, why := classifyLoop(fn, loop, h)
			if kind == "range" {
				continue
			}
			nLoops++
			key := "loop:" + p.FuncKey(fn) + "@" + kind
			lp := append([]string{}, props...)
			lp = append(lp, sp.Tables.FuncProps[p.FuncKey(fn)]...)
			lp = dedupStrings(lp)
			if len(lp) == 0 {
				continue
			}
			pos := ""
			if len(h.Instrs) > 0 {
				pos = p.InstrPos(h.Instrs[len(h.Instrs)-1])
			}
			switch kind {
			case "counted":
				c.Ob(lp, "E6.termination", key, Discharged, "counted loop: "+why, pos, true)
			default:
				if r, ok := ts.LoopsTrusted[p.FuncKey(fn)]; ok {
					c.Ob(lp, "E6.termination", key, Discharged, "trusted ranking argument: "+r, pos, false)
				} else {
					c.Ob(lp, "E6.termination", key, Violated, "loop without a recognised ranking argument: "+why, pos, false)
				}
			}
		}
	}
	c.Count("E6.non_range_loops", nLoops)
}

// classifyLoop: "range" (range over slice/map/string/chan or integer: SSA emits Next or an index phi compared with len),
// "counted" (i compared with a loop-invariant bound, i += positive constant only), "other".
func classifyLoop(fn *ssa.Function, loop map[*ssa.BasicBlock]bool, h *ssa.BasicBlock) (string, string) {
	// range over map/string/chan: header contains Next
	for b := range loop {
		for _, in := range b.Instrs {
			if _, ok := in.(*ssa.Next); ok {
				return "range", ""
			}
		}
	}
	// find the exit test
	for b := range loop {
		if len(b.Instrs) == 0 {
			continue
		}
		iff, ok := b.Instrs[len(b.Instrs)-1].(*ssa.If)
		if !ok {
			continue
		}
		exits := false
		for _, s := range b.Succs {
			if !loop[s] {
				exits = true
			}
		}
		if !exits {
			continue
		}
		bin, ok := iff.Cond.(*ssa.BinOp)
		if !ok {
			continue
		}
		for _, side := range []ssa.Value{bin.X, bin.Y} {
			// range over a slice/array/int: t1 = phi [-1, t2]; t2 = t1 + 1; if t2 < len
			if bo, ok := side.(*ssa.BinOp); ok && bo.Op == token.ADD {
				if ph, ok := bo.X.(*ssa.Phi); ok && ph.Block() == h {
					if k, ok := constInt(bo.Y); ok && k > 0 {
						allSame := true
						for i, e := range ph.Edges {
							if loop[h.Preds[i]] && e != ssa.Value(bo) {
								allSame = false
							}
						}
						if allSame {
							return "range", ""
						}
					}
				}
			}
			phi, ok := side.(*ssa.Phi)
			if !ok || phi.Block() != h {
				continue
			}
			other := bin.Y
			if side == bin.Y {
				other = bin.X
			}
			// invariant bound
			if oi, ok := other.(ssa.Instruction); ok && loop[oi.Block()] {
				if _, isLen := isBuiltinCall(oi, "len"); !isLen {
					continue
				}
			}
			// phi increments: every in-loop edge is phi + positive const (or phi - for > tests)
			okInc := true
			for i, e := range phi.Edges {
				if !loop[h.Preds[i]] {
					continue
				}
				bo, ok := e.(*ssa.BinOp)
				if !ok || (bo.Op != token.ADD && bo.Op != token.SUB) || bo.X != ssa.Value(phi) {
					okInc = false
					break
				}
				k, ok := constInt(bo.Y)
				if !ok || k <= 0 {
					okInc = false
				}
			}
			if okInc {
				// range over slice is also of this shape (index phi vs len): treat both as terminating
				if phi.Comment == "rangeindex" || strings.Contains(phi.Name(), "rangeindex") {
					return "range", ""
				}
				if _, isLen := other.(*ssa.Call); isLen && phi.Pos() == token.NoPos {
					return "range", ""
				}
				return "counted", "index compared with a bound and stepped by a positive constant on every iteration"
			}
		}
	}
	return "other", "exit condition is not an index/bound comparison"
}

// budgetCounter: the SCC is guarded by a process-global counter.
func budgetCounter(p *Program, a *stateAn, comp []*ssa.Function, inComp map[*ssa.Function]bool) (bool, string) {
	if len(comp) != 1 {
		return false, "more than one function in the cycle"
	}
	fn := comp[0]
	// find guard: entry block ends in If on comparison between load of global g and an effectively final bound (or constant)
	var g *ssa.Global
	var guardBlock *ssa.BasicBlock
	for _, b := range fn.Blocks {
		if len(b.Instrs) == 0 {
			continue
		}
		iff, ok := b.Instrs[len(b.Instrs)-1].(*ssa.If)
		if !ok {
			continue
		}
		bin, ok := iff.Cond.(*ssa.BinOp)
		if !ok {
			continue
		}
		lg := loadedGlobal(bin.X)
		if lg == nil || !a.mutable[lg] {
			continue
		}
		bound := loadedGlobal(bin.Y)
		if bound != nil && a.mutable[bound] {
			continue
		}
		if bound == nil {
			if _, ok := constInt(bin.Y); !ok {
				continue
			}
		}
		if bin.Op != token.GTR && bin.Op != token.GEQ {
			continue
		}
		// true branch must return without recursion
		tb := b.Succs[0]
		if len(tb.Instrs) == 0 {
			continue
		}
		if _, ok := tb.Instrs[len(tb.Instrs)-1].(*ssa.Return); !ok {
			continue
		}
		g = lg
		guardBlock = b
		break
	}
	if g == nil {
		return false, "no guard `counter > bound → return` on a process-global counter"
	}
	// every recursive call is dominated by the guard and by an increment of g
	var incs []*ssa.Store
	for _, b := range fn.Blocks {
		for _, in := range b.Instrs {
			if st, ok := in.(*ssa.Store); ok {
				if gg, whole := globalOfAddr(st.Addr); gg == g {
					bo, ok := st.Val.(*ssa.BinOp)
					if !whole || !ok || bo.Op != token.ADD || loadedGlobal(bo.X) != g {
						return false, "the counter " + g.Name() + " is assigned something other than an increment inside the recursive function (" + p.InstrPos(in) + ")"
					}
					k, ok := constInt(bo.Y)
					if !ok || k <= 0 {
						return false, "increment of " + g.Name() + " is not a positive constant"
					}
					incs = append(incs, st)
				}
			}
		}
	}
	if len(incs) == 0 {
		return false, "the counter " + g.Name() + " is never incremented in the recursive function"
	}
	for _, b := range fn.Blocks {
		for _, in := range b.Instrs {
			ci, ok := in.(ssa.CallInstruction)
			if !ok {
				continue
			}
			rec := false
			for _, cal := range p.Callees(ci) {
				if inComp[cal] {
					rec = true
				}
			}
			if !rec {
				continue
			}
			if !guardBlock.Dominates(b) {
				return false, "recursive call at " + p.InstrPos(in) + " is not dominated by the budget guard"
			}
			dom := false
			for _, inc := range incs {
				if instrDominates(inc, in) {
					dom = true
				}
			}
			if !dom {
				return false, "recursive call at " + p.InstrPos(in) + " is not preceded by an increment of " + g.Name() + " on every path"
			}
		}
	}
	return true, fmt.Sprintf("guard on %s at function entry, positive increment dominating every recursive call, bound effectively final, no other writer in the cycle", g.Name())
}

// ---------------------------------------------------------------------------------------------
// (f) must-precede

func globalFullName(g *ssa.Global) string { return g.Pkg.Pkg.Path() + "." + g.Name() }

func runPrecede(p *Program, c *Collector, pr PrecedeSpec) {
	fn := p.Func(pr.Func)
	if fn == nil {
		c.Anchor(pr.Props, "E6: must-precede: %s does not resolve", pr.Func)
		return
	}
	fresh := map[string]bool{}
	for _, f := range pr.Fresh {
		fresh[f] = true
	}
	if pr.AutoReads {
		cf := p.Func(pr.Callee)
		if cf == nil {
			c.Anchor(pr.Props, "E6: must-precede: callee %s does not resolve", pr.Callee)
			return
		}
		a := getStateAn(p)
		have := map[string]bool{}
		for _, w := range pr.Stores {
			have[w] = true
		}
		var auto []string
		for g := range a.summary(cf).R {
			if !a.mutable[g] {
				continue
			}
			n := globalFullName(g)
			fresh[n] = true
			if !have[n] {
				auto = append(auto, n)
			}
		}
		sort.Strings(auto)
		pr.Stores = append(append([]string{}, pr.Stores...), auto...)
		if len(pr.Stores) == 0 {
			c.Ob(pr.Props, "E6.must-precede", "precede:"+pr.Func+" "+shortFn(pr.Callee)+" reads-nothing", Discharged, pr.What+": the callee reads no mutable package-level variable before assigning it", p.FuncPos(fn), true)
		}
	}
	n := 0
	for _, b := range fn.Blocks {
		for _, in := range b.Instrs {
			ci, ok := in.(ssa.CallInstruction)
			if !ok {
				continue
			}
			callee := ci.Common().StaticCallee()
			if callee == nil || (p.FuncKey(callee) != pr.Callee && fullFuncName(callee) != pr.Callee) {
				continue
			}
			n++
			region := loopRegion(fn, b)
			for _, want := range pr.Stores {
				key := fmt.Sprintf("precede:%s %s before %s#%d", pr.Func, shortPkg(want), shortFn(pr.Callee), n)
				ok := false
				why := "no assignment to " + want + " dominates the call"
				for _, b2 := range fn.Blocks {
					for _, in2 := range b2.Instrs {
						st, isSt := in2.(*ssa.Store)
						if !isSt {
							continue
						}
						g, whole := globalOfAddr(st.Addr)
						if g == nil || !whole || globalFullName(g) != want {
							continue
						}
						if !instrDominates(st, in) {
							continue
						}
						if fresh[want] && region != nil && !region[b2] {
							why = want + " is assigned only before the loop: every iteration after the first reuses the previous value"
							continue
						}
						ok = true
					}
				}
				if ok {
					c.Ob(pr.Props, "E6.must-precede", key, Discharged, pr.What+": assigned on every path before the call"+map[bool]string{true: " inside the same iteration", false: ""}[fresh[want] && region != nil], p.InstrPos(in), true)
				} else {
					c.Ob(pr.Props, "E6.must-precede", key, Violated, pr.What+": "+why, p.InstrPos(in), false)
				}
			}
		}
	}
	if n == 0 {
		c.Ob(pr.Props, "E6.must-precede", "precede:"+pr.Func+" "+shortFn(pr.Callee), Undecided, pr.What+": no call to "+pr.Callee+" found in "+pr.Func, p.FuncPos(fn), false)
	}
}

// ---------------------------------------------------------------------------------------------
// (g) consume-and-reset: on every path of Func on which the effect happens, the pending flag is cleared as well.

type ConsumeResetSpec struct {
	Props  []string `json:"props"`
	Func   string   `json:"func"`
	Effect string   `json:"effect"` // store target name (store:<global> / storefield:<global>.<F>)
	Reset  string   `json:"reset"`  // store:<global>
	Value  string   `json:"value"`  // constant the reset assigns ("false", "\"\"" …)
	What   string   `json:"what"`
	Ignore []string `json:"ignore_callees"` // callees whose own effect is a different kind of record (one line of reason in the spec)
}

type crAn struct {
	p    *Program
	spec ConsumeResetSpec
	memo map[*ssa.Function]int
	prog map[*ssa.Function]bool
}

// states are bitsets over the four (effect, reset) combinations: bit (e<<1|r)
func crApply(st int, f func(e, r int) (int, int)) int {
	out := 0
	for k := 0; k < 4; k++ {
		if st&(1<<k) != 0 {
			e, r := f(k>>1, k&1)
			out |= 1 << (e<<1 | r)
		}
	}
	return out
}

func (a *crAn) isResetValue(v ssa.Value) bool {
	c, ok := v.(*ssa.Const)
	if !ok {
		return false
	}
	if c.Value == nil {
		return a.spec.Value == "nil"
	}
	return c.Value.ExactString() == a.spec.Value
}

// summary: possible (effect, reset) outcomes of fn when entered in state (0,0).
func (a *crAn) summary(fn *ssa.Function) int {
	if v, ok := a.memo[fn]; ok {
		return v
	}
	if a.prog[fn] || len(fn.Blocks) == 0 {
		return 1 | 2 | 4 | 8
	}
	a.prog[fn] = true
	defer delete(a.prog, fn)
	nb := len(fn.Blocks)
	in := make([]int, nb)
	out := make([]int, nb)
	in[0] = 1 // (0,0)
	transfer := func(b *ssa.BasicBlock, st int) int {
		for _, ins := range b.Instrs {
			switch x := ins.(type) {
			case *ssa.Store:
				name := storeTargetName(a.p, x)
				if name == a.spec.Effect {
					st = crApply(st, func(e, r int) (int, int) { return 1, r })
				}
				if name == a.spec.Reset {
					if a.isResetValue(x.Val) {
						st = crApply(st, func(e, r int) (int, int) { return e, 1 })
					} else {
						st = crApply(st, func(e, r int) (int, int) { return e, 0 })
					}
				}
			case *ssa.Call:
				for _, cal := range a.p.ownCallees(x) {
					skip := false
					for _, ig := range a.spec.Ignore {
						if a.p.FuncKey(cal) == ig {
							skip = true
						}
					}
					if skip {
						continue
					}
					s := a.summary(cal)
					if s == 1 {
						continue
					}
					nst := 0
					for k := 0; k < 4; k++ {
						if s&(1<<k) == 0 {
							continue
						}
						ce, cr := k>>1, k&1
						nst |= crApply(st, func(e, r int) (int, int) { return e | ce, r | cr })
					}
					st = nst
				}
			}
		}
		return st
	}
	changed := true
	for changed {
		changed = false
		for _, b := range fn.Blocks {
			if b.Index != 0 {
				acc := 0
				for _, pr := range b.Preds {
					acc |= out[pr.Index]
				}
				in[b.Index] = acc
			}
			if in[b.Index] == 0 {
				continue
			}
			no := transfer(b, in[b.Index])
			if no != out[b.Index] {
				out[b.Index] = no
				changed = true
			}
		}
	}
	res := 0
	for _, b := range fn.Blocks {
		if in[b.Index] == 0 || len(b.Instrs) == 0 {
			continue
		}
		if _, ok := b.Instrs[len(b.Instrs)-1].(*ssa.Return); ok {
			res |= out[b.Index]
		}
	}
	if res == 0 {
		res = 1
	}
	a.memo[fn] = res
	return res
}

func runConsumeReset(p *Program, c *Collector, cs ConsumeResetSpec) {
	fn := p.Func(cs.Func)
	if fn == nil {
		c.Anchor(cs.Props, "E6: consume-reset: %s does not resolve", cs.Func)
		return
	}
	a := &crAn{p: p, spec: cs, memo: map[*ssa.Function]int{}, prog: map[*ssa.Function]bool{}}
	s := a.summary(fn)
	key := "consume-reset:" + cs.Func + " " + cs.Effect + " => " + cs.Reset + "=" + cs.Value
	switch {
	case s&(4|8) == 0:
		c.Ob(cs.Props, "E6.consume-reset", key, Violated, cs.What+": the effect "+cs.Effect+" never happens in "+shortFn(cs.Func)+" (anchor lost)", p.FuncPos(fn), false)
	case s&4 != 0:
		c.Ob(cs.Props, "E6.consume-reset", key, Violated, cs.What+": some path performs "+cs.Effect+" and returns without assigning "+cs.Value+" to "+cs.Reset+", so the pending state is consumed again by the next callback", p.FuncPos(fn), false)
	default:
		c.Ob(cs.Props, "E6.consume-reset", key, Discharged, cs.What+": every path that performs the effect also clears the pending state", p.FuncPos(fn), true)
	}
}

// ---------------------------------------------------------------------------------------------
// (h) nesting: a callback for a grammar rule that can contain itself (annotation -> elementValue -> annotation) fires for the
// nested occurrences too, in the same listener state. A callback that records "the X of the enclosing declaration" must
// therefore look at its parent (or keep a depth through the Exit callback); otherwise an annotation used as an argument is
// recorded as an annotation of the class.

type NestingSpec struct {
	Props    []string `json:"props"`
	Callback string   `json:"callback"` // function key of the Enter callback
	Grammar  string   `json:"grammar"`
	What     string   `json:"what"`
}

func runNesting(p *Program, sp *Spec, c *Collector, ns NestingSpec) {
	fn := p.Func(ns.Callback)
	g := sp.G[ns.Grammar]
	if fn == nil || g == nil {
		c.Anchor(ns.Props, "E6: nesting: %s / grammar %s does not resolve", ns.Callback, ns.Grammar)
		return
	}
	_, rule, ok := callbackRule(fn.Name())
	if !ok {
		c.Anchor(ns.Props, "E6: nesting: %s is not a callback", ns.Callback)
		return
	}
	key := "nesting:" + ns.Callback
	// is the rule reachable from one of its own children?
	recursive := false
	via := ""
	for child := range g.Refs(rule) {
		if g.ReachableWithout(child, nil, nil)[rule] {
			recursive = true
			via = child
		}
	}
	if !recursive {
		c.Ob(ns.Props, "E6.nesting", key, Discharged, "rule "+rule+" cannot contain itself: every occurrence is an outermost one", p.FuncPos(fn), true)
		return
	}
	tested := nestingTested(p, fn)
	if tested {
		c.Ob(ns.Props, "E6.nesting", key, Discharged, "rule "+rule+" can occur inside itself (through "+via+"); the callback inspects the type of its parent (or keeps a depth with its Exit callback)", p.FuncPos(fn), true)
	} else {
		c.Ob(ns.Props, "E6.nesting", key, Violated, ns.What+": rule "+rule+" can occur inside itself (through "+via+"), and the callback records every occurrence alike without looking at its parent: a nested occurrence is recorded as if it stood on the declaration", p.FuncPos(fn), false)
	}
}

// ---------------------------------------------------------------------------------------------
// (i) co-access: the grammar spreads one notion over two child symbols of a rule (formalParameterList: formalParameter
// (',' formalParameter)* (',' lastFormalParameter)? | lastFormalParameter — the parameters of a method are both). A function
// that enumerates the notion through one accessor must also consult the other, or the last (varargs) parameter is not counted.

type CoAccessSpec struct {
	Props   []string `json:"props"`
	Funcs   []string `json:"funcs"`
	Grammar string   `json:"grammar"`
	Rule    string   `json:"rule"`  // grammar rule
	Using   string   `json:"using"` // accessor name (AllFormalParameter)
	Also    string   `json:"also"`  // accessor that must be used as well (LastFormalParameter)
	What    string   `json:"what"`
}

func runCoAccess(p *Program, sp *Spec, c *Collector, ca CoAccessSpec) {
	g := sp.G[ca.Grammar]
	if g == nil || g.Rules[ca.Rule] == nil {
		c.Anchor(ca.Props, "E6: co-access: grammar rule %s/%s does not resolve", ca.Grammar, ca.Rule)
		return
	}
	// both symbols must still be children of the rule (the rule instance follows the grammar)
	syms := g.Symbols(ca.Rule, "")
	a, b := lowerFirst(strings.TrimPrefix(ca.Using, "All")), lowerFirst(ca.Also)
	if !syms[a] || !syms[b] {
		c.Anchor(ca.Props, "E6: co-access: rule %s no longer has the children %s and %s", ca.Rule, a, b)
		return
	}
	n := 0
	for _, fn := range expandFuncs(p, c, ca.Funcs, ca.Props...) {
		uses, also := false, false
		var at ssa.Instruction
		for _, blk := range fn.Blocks {
			for _, in := range blk.Instrs {
				call, ok := in.(ssa.CallInstruction)
				if !ok {
					continue
				}
				name := ""
				if call.Common().IsInvoke() {
					name = call.Common().Method.Name()
				} else if cal := call.Common().StaticCallee(); cal != nil {
					name = cal.Name()
				}
				if name == ca.Using {
					uses = true
					at = in
				}
				if name == ca.Also {
					also = true
				}
			}
		}
		if !uses {
			continue
		}
		if !also {
			// through an own helper
			for f := range p.reach([]*ssa.Function{fn}) {
				if f == fn {
					continue
				}
				for _, blk := range f.Blocks {
					for _, in := range blk.Instrs {
						if call, ok := in.(ssa.CallInstruction); ok {
							if call.Common().IsInvoke() && call.Common().Method.Name() == ca.Also {
								also = true
							} else if cal := call.Common().StaticCallee(); cal != nil && cal.Name() == ca.Also {
								also = true
							}
						}
					}
				}
			}
		}
		n++
		key := "coaccess:" + p.FuncKey(fn) + " " + ca.Using + "+" + ca.Also
		if also {
			c.Ob(ca.Props, "E6.co-access", key, Discharged, "both children of "+ca.Rule+" are consulted", p.InstrPos(at), true)
		} else {
			c.Ob(ca.Props, "E6.co-access", key, Violated, ca.What+": "+shortFn(p.FuncKey(fn))+" enumerates "+a+" children of "+ca.Rule+" only; the grammar also allows a "+b+" child, which is never looked at", p.InstrPos(at), false)
		}
	}
	if n == 0 {
		c.Ob(ca.Props, "E6.co-access", "coaccess:"+strings.Join(ca.Funcs, ","), Undecided, ca.What+": no use of "+ca.Using+" found (anchor lost)", "", false)
	}
}

// nestingTested: does the callback tell a nested occurrence from an outermost one — by a type test on ctx.GetParent(), or by a
// depth (integer counter) kept together with its Exit callback?
func nestingTested(p *Program, fn *ssa.Function) bool {
	// parent discrimination: a type test on ctx.GetParent()
	sf := newSymFn(p, fn, 0)
	tested := false
	for _, b := range fn.Blocks {
		for _, in := range b.Instrs {
			var operand ssa.Value
			switch x := in.(type) {
			case *ssa.TypeAssert:
				if x.CommaOk {
					operand = x.X
				}
			case *ssa.Call:
				if callee := x.Call.StaticCallee(); callee != nil && fullFuncName(callee) == "reflect.TypeOf" && len(x.Call.Args) == 1 {
					operand = x.Call.Args[0]
				}
			}
			if operand == nil {
				continue
			}
			t := sf.val(operand)
			if n, ok := invokeName(t); ok && n == "GetParent" && len(t.Kids) == 1 && t.Kids[0].Op == "param" {
				tested = true
			}
		}
	}
	if !tested {
		// the other discipline: a depth kept by the Enter/Exit pair (a package-level counter both callbacks touch)
		if recv := fn.Signature.Recv(); recv != nil {
			pr, tn := "", ""
			if pk, n := namedTypeName(recv.Type()); pk != "" {
				pr, tn = strings.TrimPrefix(pk, modPath+"/"), n
			}
			for _, m := range p.methodsDeclaredOn(pr, tn) {
				pair := "Exit" + strings.TrimPrefix(fn.Name(), "Enter")
				if strings.HasPrefix(fn.Name(), "Exit") {
					pair = "Enter" + strings.TrimPrefix(fn.Name(), "Exit")
				}
				if m.Name() != pair {
					continue
				}
				a := getStateAn(p)
				_, wExit := a.locals(m)
				rEnter, _ := a.locals(fn)
				for g := range wExit {
					// a counter, not a flag: a flag is cleared by the inner Exit while the outer construct is still open
					bt, isBasic := g.Type().Underlying().(*types.Pointer).Elem().Underlying().(*types.Basic)
					if _, ok := rEnter[g]; ok && isBasic && bt.Info()&types.IsInteger != 0 {
						tested = true
					}
				}
			}
		}
	}
	return tested
}

// ---------------------------------------------------------------------------------------------
// nested kill: a lookup table (map-typed package variable) that the callbacks of a listener fill must not be re-made inside a
// callback for a grammar rule that can contain itself (a method declaration inside an anonymous class inside a method body)
// unless that callback tells nested from outermost occurrences: the enclosing occurrence loses its entries mid-way.
type NestedKillSpec struct {
	Props    []string `json:"props"`
	Pkg      string   `json:"pkg"`      // package of the listener (relative)
	Listener string   `json:"listener"` // listener type name
	Grammar  string   `json:"grammar"`
	Min      int      `json:"min"` // self-nesting callbacks confirmed by hand
	What     string   `json:"what"`
}

func runNestedKills(p *Program, sp *Spec, c *Collector, nk NestedKillSpec) {
	g := sp.G[nk.Grammar]
	ms := p.methodsDeclaredOn(nk.Pkg, nk.Listener)
	if g == nil || len(ms) == 0 {
		c.Anchor(nk.Props, "E6: nested kill: listener %s.%s / grammar %s does not resolve", nk.Pkg, nk.Listener, nk.Grammar)
		return
	}
	n := 0
	for _, fn := range ms {
		_, rule, ok := callbackRule(fn.Name())
		if !ok {
			continue
		}
		recursive := false
		via := ""
		for child := range g.Refs(rule) {
			if g.ReachableWithout(child, nil, nil)[rule] {
				recursive = true
				if via == "" || child < via {
					via = child
				}
			}
		}
		if !recursive {
			continue
		}
		n++
		key := "nestedkill:" + p.FuncKey(fn)
		// kills of map-typed package variables in the callback and in the helpers it calls (not other callbacks)
		var bad ssa.Instruction
		var name string
		var siteBlock, curTop *ssa.BasicBlock // the block of the callback through which the kill is reached
		seen := map[*ssa.Function]bool{}
		var visit func(f *ssa.Function, depth int)
		visit = func(f *ssa.Function, depth int) {
			if seen[f] || depth > 2 || len(f.Blocks) == 0 {
				return
			}
			seen[f] = true
			for _, b := range f.Blocks {
				if depth == 0 {
					curTop = b
				}
				for _, in := range b.Instrs {
					switch x := in.(type) {
					case *ssa.Store:
						gv, isG := x.Addr.(*ssa.Global)
						if !isG || !p.Own[gv.Pkg.Pkg] || bad != nil {
							continue
						}
						if _, isMap := gv.Type().Underlying().(*types.Pointer).Elem().Underlying().(*types.Map); !isMap {
							continue
						}
						switch v := x.Val.(type) {
						case *ssa.MakeMap:
							bad, name, siteBlock = in, gv.Name(), curTop
						case *ssa.Const:
							if v.IsNil() {
								bad, name, siteBlock = in, gv.Name(), curTop
							}
						}
					case *ssa.Call:
						if callee := x.Call.StaticCallee(); callee != nil && callee.Pkg != nil && p.Own[callee.Pkg.Pkg] {
							if _, _, isCb := callbackRule(callee.Name()); !isCb || callee.Signature.Recv() == nil {
								visit(callee, depth+1)
							}
						}
					}
				}
			}
		}
		visit(fn, 0)
		switch {
		case bad == nil:
			c.Ob(nk.Props, "E6.nested-kill", key, Discharged, "rule "+rule+" can occur inside itself (through "+via+"); the callback re-makes no lookup table", p.FuncPos(fn), true)
		case nestingTested(p, fn) && killGuarded(p, fn, siteBlock):
			c.Ob(nk.Props, "E6.nested-kill", key, Discharged, "rule "+rule+" can occur inside itself; the callback re-makes "+name+" only under its test of nested against outermost occurrences", p.FuncPos(fn), true)
		default:
			c.Ob(nk.Props, "E6.nested-kill", key, Violated, nk.What+": rule "+rule+" can occur inside itself (through "+via+"), and the callback re-makes the lookup table "+name+" on every occurrence: what the enclosing occurrence had registered is gone for the rest of its body", p.InstrPos(bad), false)
		}
	}
	if n < nk.Min {
		c.Anchor(nk.Props, "E6: nested kill: %d self-nesting callbacks found on %s.%s, %d confirmed by hand", n, nk.Pkg, nk.Listener, nk.Min)
	}
	// asymmetric brackets: Enter<R> puts a package variable into a special state only for some R (a test on ctx), Exit<R>
	// takes it back for every R: an R nested inside the one that set the state ends that state early.
	byName := map[string]*ssa.Function{}
	for _, fn := range ms {
		byName[fn.Name()] = fn
	}
	var names []string
	for nme := range byName {
		names = append(names, nme)
	}
	sort.Strings(names)
	for _, nme := range names {
		if !strings.HasPrefix(nme, "Enter") {
			continue
		}
		enter, exit := byName[nme], byName["Exit"+strings.TrimPrefix(nme, "Enter")]
		if exit == nil || len(enter.Blocks) == 0 || len(exit.Blocks) == 0 {
			continue
		}
		_, rule, _ := callbackRule(nme)
		recursive := false
		for child := range g.Refs(rule) {
			if g.ReachableWithout(child, nil, nil)[rule] {
				recursive = true
			}
		}
		if !recursive {
			continue
		}
		mentionsCtx := func(t *Sym) bool {
			m := false
			t.walk(func(x *Sym) {
				if x.Op == "param" && x.Name == "p1" {
					m = true
				}
			})
			return m
		}
		globalOf := func(target string) string {
			if !strings.HasPrefix(target, "globalstore:") {
				return ""
			}
			k := strings.TrimPrefix(target, "globalstore:")
			// "<pkg path>.<var>[.<field>…]": keep package and variable
			slash := strings.LastIndex(k, "/")
			rest := k[slash+1:]
			parts := strings.Split(rest, ".")
			if len(parts) < 2 {
				return k
			}
			return k[:slash+1] + parts[0] + "." + parts[1]
		}
		se, sx := newSymFn(p, enter, 0), newSymFn(p, exit, 0)
		condSet := map[string]bool{}
		for _, e := range se.emissions() {
			if gk := globalOf(e.target); gk != "" && mentionsCtx(e.cond) {
				condSet[gk] = true
			}
		}
		for _, e := range se.emissions() {
			if gk := globalOf(e.target); gk != "" && !mentionsCtx(e.cond) {
				delete(condSet, gk) // also assigned for every R: not a conditional state
			}
		}
		var gks []string
		for gk := range condSet {
			gks = append(gks, gk)
		}
		sort.Strings(gks)
		for _, gk := range gks {
			key := "bracket:" + p.FuncKey(exit) + " " + gk
			var bad *emission
			for _, e := range sx.emissions() {
				e := e
				if globalOf(e.target) == gk && !mentionsCtx(e.cond) && bad == nil {
					// a value restored from a package-level stack is a stack discipline: nesting is handled
					restored := false
					if e.elem != nil {
						e.elem.walk(func(x *Sym) {
							if x.Op == "global" || strings.HasPrefix(x.String(), "global(") {
								restored = true
							}
						})
					}
					if !restored {
						bad = &e
					}
				}
			}
			switch {
			case bad == nil:
				c.Ob(nk.Props, "E6.nested-bracket", key, Discharged, "the Exit callback takes the state back only under a test on its own node, or not at all", p.FuncPos(exit), true)
			case nestingTested(p, exit):
				c.Ob(nk.Props, "E6.nested-bracket", key, Discharged, "the Exit callback tells nested from outermost occurrences", p.FuncPos(exit), true)
			default:
				c.Ob(nk.Props, "E6.nested-bracket", key, Violated, nk.What+": "+enter.Name()+" puts "+gk[strings.LastIndex(gk, ".")+1:]+" into a special state only for some "+rule+" nodes (a test on ctx), "+exit.Name()+" takes it back for every "+rule+" without such a test, and a "+rule+" can occur inside another: the inner one ends the outer one's state early", bad.pos, false)
			}
		}
	}
}

// crossBrackets: a flag that Enter<A> sets to one constant and Exit<B> (B ≠ A) sets back to another is a bracket only if every
// B belongs to an A: B's grammar parents must all be rules whose Enter callback sets the flag. classBody also hangs under
// classCreatorRest (anonymous classes) and enumConstant: their end takes the flag back although no class declaration set it.
func runCrossBrackets(p *Program, sp *Spec, c *Collector, nk NestedKillSpec) {
	g := sp.G[nk.Grammar]
	ms := p.methodsDeclaredOn(nk.Pkg, nk.Listener)
	if g == nil || len(ms) == 0 {
		return
	}
	type set struct {
		rule, val string
		pos       string
		ctxTest   bool
	}
	sets := map[string][]set{}   // global -> constants stored by Enter callbacks
	resets := map[string][]set{} // global -> constants stored by Exit callbacks
	for _, fn := range ms {
		kind, rule, ok := callbackRule(fn.Name())
		if !ok || len(fn.Blocks) == 0 {
			continue
		}
		sf := newSymFn(p, fn, 0)
		sf.inlineOK = func(*ssa.Function) bool { return false }
		for _, e := range sf.emissions() {
			if !strings.HasPrefix(e.target, "globalstore:") || e.elem == nil || len(e.elem.Kids) == 0 || e.elem.Kids[0].Op != "const" {
				continue
			}
			if strings.Count(strings.TrimPrefix(e.target, "globalstore:")[strings.LastIndex(e.target, "/")-len("globalstore:")+1:], ".") > 1 {
				continue // a field of a record, not a flag
			}
			ctxTest := false
			e.cond.walk(func(x *Sym) {
				if x.Op == "param" && x.Name == "p1" {
					ctxTest = true
				}
			})
			st := set{rule, e.elem.Kids[0].String(), e.pos, ctxTest}
			if kind == "Enter" {
				sets[e.target] = append(sets[e.target], st)
			} else {
				resets[e.target] = append(resets[e.target], st)
			}
		}
	}
	var targets []string
	for t := range resets {
		targets = append(targets, t)
	}
	sort.Strings(targets)
	for _, t := range targets {
		for _, rs := range resets[t] {
			setters := map[string]bool{}
			for _, st := range sets[t] {
				// a bracket: the setting rule encloses the resetting one (a flag set by an earlier sibling — an annotation in front
				// of the declaration that consumes it — is a pending register, E6's consume-and-reset rule)
				if st.val != rs.val && g.ReachableWithout(st.rule, nil, nil)[rs.rule] {
					setters[st.rule] = true
				}
			}
			if len(setters) == 0 || setters[rs.rule] {
				continue // not a cross-rule bracket (same-rule brackets are E3's and the nested-bracket rule's business)
			}
			// a register that the resetting rule's own callbacks read is consumed there (pending-flag pattern), not a bracket
			consumed := false
			gk := strings.TrimPrefix(t, "globalstore:")
			for _, fn := range ms {
				if _, r2, ok := callbackRule(fn.Name()); ok && r2 == rs.rule {
					rd, _ := getStateAn(p).locals(fn)
					for gv := range rd {
						if p.GlobalKey(gv) == gk {
							consumed = true
						}
					}
				}
			}
			if consumed {
				continue
			}
			key := "crossbracket:" + nk.Pkg + "." + nk.Listener + " Exit" + strings.ToUpper(rs.rule[:1]) + rs.rule[1:] + " " + t[strings.LastIndex(t, ".")+1:]
			var stray []string
			for _, par := range g.Parents(rs.rule) {
				if !setters[par] {
					stray = append(stray, par)
				}
			}
			sort.Strings(stray)
			switch {
			case len(stray) == 0:
				c.Ob(nk.Props, "E6.cross-bracket", key, Discharged, "every "+rs.rule+" is the body of a rule whose Enter callback sets the flag", rs.pos, true)
			case rs.ctxTest:
				c.Ob(nk.Props, "E6.cross-bracket", key, Discharged, "the Exit callback takes the flag back only under a test on its own node", rs.pos, true)
			default:
				c.Ob(nk.Props, "E6.cross-bracket", key, Violated, nk.What+": the flag "+t[strings.LastIndex(t, ".")+1:]+" is set when a "+strings.Join(keysOf(setters), "/")+" begins and taken back when any "+rs.rule+" ends, but a "+rs.rule+" also occurs under "+strings.Join(stray, ", ")+" (an anonymous class body, an enum constant's body), where nothing set it: the enclosing declaration's state ends there", rs.pos, false)
			}
		}
	}
}

func keysOf(m map[string]bool) []string {
	var out []string
	for k := range m {
		out = append(out, k)
	}
	sort.Strings(out)
	return out
}

// ---------------------------------------------------------------------------------------------
// rule coverage: the grammar spells one notion ("a method is declared") as several rules; the listener must see each of them —
// by a callback for the rule itself, or because the rule always contains a rule it has a callback for (genericMethodDeclaration
// wraps methodDeclaration; genericInterfaceMethodDeclaration does NOT wrap interfaceMethodDeclaration).
type RuleCoverageSpec struct {
	Props    []string `json:"props"`
	Pkg      string   `json:"pkg"`
	Listener string   `json:"listener"`
	Grammar  string   `json:"grammar"`
	Rules    []string `json:"rules"`
	What     string   `json:"what"`
}

func runRuleCoverage(p *Program, sp *Spec, c *Collector, rc RuleCoverageSpec) {
	g := sp.G[rc.Grammar]
	ms := p.methodsDeclaredOn(rc.Pkg, rc.Listener)
	if g == nil || len(ms) == 0 {
		c.Anchor(rc.Props, "E6: rule coverage: listener %s.%s / grammar %s does not resolve", rc.Pkg, rc.Listener, rc.Grammar)
		return
	}
	handled := map[string]bool{}
	for _, fn := range ms {
		if _, rule, ok := callbackRule(fn.Name()); ok {
			handled[rule] = true
		}
	}
	for _, r := range rc.Rules {
		key := "coverage:" + rc.Pkg + "." + rc.Listener + " " + r
		if _, ok := g.Rules[r]; !ok {
			c.Anchor(rc.Props, "E6: rule coverage: grammar %s has no rule %s", rc.Grammar, r)
			continue
		}
		switch {
		case handled[r]:
			c.Ob(rc.Props, "E6.rule-coverage", key, Discharged, "the listener has a callback for "+r, "", true)
		default:
			via := ""
			for d := range mandatoryDescendants(g, r) {
				if handled[d] {
					for _, w := range rc.Rules {
						if w == d && (via == "" || d < via) {
							via = d
						}
					}
				}
			}
			if via != "" {
				c.Ob(rc.Props, "E6.rule-coverage", key, Discharged, "every "+r+" contains a "+via+", which the listener handles", "", true)
			} else {
				c.Ob(rc.Props, "E6.rule-coverage", key, Violated, rc.What+": the grammar also spells this as rule "+r+", which contains none of the rules the listener handles and has no callback of its own: what is written that way is never seen", p.FuncPos(ms[0]), false)
			}
		}
	}
}

// ---------------------------------------------------------------------------------------------
// result overwrite: the list a listener hands out at the end (its getter returns a package-level slice) is what the callbacks
// accumulate during the walk. A callback (or a helper it calls) that assigns that variable a value which does not build on the
// variable itself replaces what earlier occurrences of the rule contributed — the second `dependencies { }` block of a build
// script replaced the first.
func runResultOverwrite(p *Program, sp *Spec, c *Collector, nk NestedKillSpec) {
	ms := p.methodsDeclaredOn(nk.Pkg, nk.Listener)
	if len(ms) == 0 {
		return
	}
	results := map[*ssa.Global]string{}
	for _, fn := range ms {
		if _, _, isCb := callbackRule(fn.Name()); isCb || len(fn.Blocks) == 0 {
			continue
		}
		for _, b := range fn.Blocks {
			for _, in := range b.Instrs {
				if ret, ok := in.(*ssa.Return); ok {
					for _, r := range ret.Results {
						if g := loadedGlobal(r); g != nil && p.Own[g.Pkg.Pkg] {
							if _, isSlice := g.Type().Underlying().(*types.Pointer).Elem().Underlying().(*types.Slice); isSlice {
								results[g] = fn.Name()
							}
						}
					}
				}
			}
		}
	}
	var gs []*ssa.Global
	for g := range results {
		gs = append(gs, g)
	}
	sort.Slice(gs, func(i, j int) bool { return gs[i].Name() < gs[j].Name() })
	for _, g := range gs {
		key := "resultoverwrite:" + nk.Pkg + "." + nk.Listener + " " + g.Name()
		var bad ssa.Instruction
		var where string
		seen := map[*ssa.Function]bool{}
		var visit func(f *ssa.Function, cb string, depth int)
		visit = func(f *ssa.Function, cb string, depth int) {
			if seen[f] || depth > 3 || len(f.Blocks) == 0 {
				return
			}
			seen[f] = true
			for _, b := range f.Blocks {
				for _, in := range b.Instrs {
					switch x := in.(type) {
					case *ssa.Store:
						if x.Addr != ssa.Value(g) || bad != nil {
							continue
						}
						// builds on itself? (append(g, …), g[:n])
						builds := false
						var walk func(v ssa.Value, d int)
						walk = func(v ssa.Value, d int) {
							if d > 6 || v == nil || builds {
								return
							}
							if loadedGlobal(v) == g {
								builds = true
								return
							}
							if i2, ok := v.(ssa.Instruction); ok {
								var ops []*ssa.Value
								for _, o := range i2.Operands(ops) {
									if o != nil && *o != nil {
										walk(*o, d+1)
									}
								}
							}
						}
						walk(x.Val, 0)
						if !builds {
							bad, where = in, cb
						}
					case *ssa.Call:
						if callee := x.Call.StaticCallee(); callee != nil && callee.Pkg != nil && p.Own[callee.Pkg.Pkg] {
							if _, _, isCb := callbackRule(callee.Name()); !isCb || callee.Signature.Recv() == nil {
								visit(callee, cb, depth+1)
							}
						}
					}
				}
			}
		}
		for _, fn := range ms {
			if _, _, isCb := callbackRule(fn.Name()); isCb {
				visit(fn, fn.Name(), 0)
			}
		}
		if bad != nil {
			c.Ob(nk.Props, "E6.result-overwrite", key, Violated, nk.What+": "+g.Name()+" is the list "+results[g]+" hands out, and "+where+" (or a helper it calls) assigns it a value that does not build on what it already holds: what earlier occurrences contributed is replaced", p.InstrPos(bad), false)
		} else {
			c.Ob(nk.Props, "E6.result-overwrite", key, Discharged, g.Name()+" (handed out by "+results[g]+") is only ever extended by the callbacks", "", true)
		}
	}
}

// ---------------------------------------------------------------------------------------------
// positional access: `x, ok := node.GetChild(k).(*parser.TContext)` (or the reflect.TypeOf(…).String() == "*parser.TContext"
// form) asks whether the k-th child is a T. When the grammar lets a T stand at another position of the same rule as well
// (formalParameters: '(' formalParameterList ')' — but also '(' receiverParameter ',' formalParameterList ')'), a function that
// tests one position only silently skips the T of the other derivation.
type PositionalSpec struct {
	Props   []string `json:"props"`
	Funcs   []string `json:"funcs"`
	Grammar string   `json:"grammar"`
	What    string   `json:"what"`
}

func runPositional(p *Program, sp *Spec, c *Collector, pa PositionalSpec) {
	g := sp.G[pa.Grammar]
	if g == nil {
		c.Anchor(pa.Props, "E6: positional access: grammar %s does not resolve", pa.Grammar)
		return
	}
	ctxRule := func(t types.Type) string {
		_, n := namedTypeName(t)
		if n == "" {
			return ""
		}
		r, _, ok := g.RuleOfContext(n)
		if !ok {
			return ""
		}
		return r
	}
	for _, fn := range expandFuncs(p, c, pa.Funcs, pa.Props...) {
		type test struct {
			recvRule, target string
			k                int
			at               ssa.Instruction
		}
		var tests []test
		getChild := func(v ssa.Value) (string, int, bool) {
			for {
				switch x := v.(type) {
				case *ssa.MakeInterface:
					v = x.X
					continue
				case *ssa.ChangeInterface:
					v = x.X
					continue
				}
				break
			}
			call, ok := v.(*ssa.Call)
			if !ok {
				return "", 0, false
			}
			name := ""
			var recv ssa.Value
			cc := call.Common()
			if cc.IsInvoke() {
				name, recv = cc.Method.Name(), cc.Value
			} else if f := cc.StaticCallee(); f != nil && f.Signature.Recv() != nil && len(cc.Args) > 0 {
				name, recv = f.Name(), cc.Args[0]
				for {
					fa, ok := recv.(*ssa.FieldAddr)
					if !ok {
						break
					}
					recv = fa.X
				}
			}
			if name != "GetChild" || recv == nil || len(cc.Args) == 0 {
				return "", 0, false
			}
			k, ok := constInt(cc.Args[len(cc.Args)-1])
			if !ok {
				return "", 0, false
			}
			r := ctxRule(recv.Type())
			return r, int(k), r != ""
		}
		for _, b := range fn.Blocks {
			for _, in := range b.Instrs {
				switch x := in.(type) {
				case *ssa.TypeAssert:
					if r, k, ok := getChild(x.X); ok {
						if t := ctxRule(x.AssertedType); t != "" {
							tests = append(tests, test{r, t, k, in})
						}
					}
				case *ssa.BinOp:
					// reflect.TypeOf(node.GetChild(k)).String() == "*parser.TContext"
					if x.Op != token.EQL && x.Op != token.NEQ {
						continue
					}
					for _, pair := range [][2]ssa.Value{{x.X, x.Y}, {x.Y, x.X}} {
						k, isConst := pair[1].(*ssa.Const)
						if !isConst || k.Value == nil || k.Value.Kind() != constant.String {
							continue
						}
						lit := constant.StringVal(k.Value)
						if !strings.HasPrefix(lit, "*parser.") {
							continue
						}
						sc, ok := pair[0].(*ssa.Call)
						if !ok || !sc.Call.IsInvoke() || sc.Call.Method.Name() != "String" {
							continue
						}
						tc, ok := sc.Call.Value.(*ssa.Call)
						if !ok || tc.Call.StaticCallee() == nil || fullFuncName(tc.Call.StaticCallee()) != "reflect.TypeOf" {
							continue
						}
						if r, kk, ok := getChild(tc.Call.Args[0]); ok {
							if tr, _, ok2 := g.RuleOfContext(strings.TrimPrefix(lit, "*parser.")); ok2 {
								tests = append(tests, test{r, tr, kk, in})
							}
						}
					}
				}
			}
		}
		done := map[string]bool{}
		for _, t := range tests {
			id := fmt.Sprintf("%s.%s", t.recvRule, t.target)
			if done[id] {
				continue
			}
			done[id] = true
			tested := map[int]bool{}
			for _, u := range tests {
				if u.recvRule == t.recvRule && u.target == t.target {
					tested[u.k] = true
				}
			}
			var missed []int
			if _, hi := g.MinMax(t.recvRule, t.target); hi != 1 {
				// a repeated child (pathElement*): "child 1" means the first of the list, not "the" T
				continue
			}
			for i := 0; i < 8; i++ {
				if g.ChildAt(t.recvRule, "", i)[t.target] && !tested[i] {
					missed = append(missed, i)
				}
			}
			key := fmt.Sprintf("positional:%s %s child %s", p.FuncKey(fn), t.recvRule, t.target)
			if len(missed) > 0 && tested[t.k] && g.ChildAt(t.recvRule, "", t.k)[t.target] {
				c.Ob(pa.Props, "E6.positional-access", key, Violated, fmt.Sprintf("%s: the function looks for a %s at child %d of a %s only; the grammar also puts one at child %v (another alternative of the rule), which is silently skipped — the rule's accessor %s() finds it wherever it stands", pa.What, t.target, t.k, t.recvRule, missed, strings.ToUpper(t.target[:1])+t.target[1:]), p.InstrPos(t.at), false)
			} else {
				c.Ob(pa.Props, "E6.positional-access", key, Discharged, fmt.Sprintf("every position at which a %s can stand in a %s is looked at", t.target, t.recvRule), p.InstrPos(t.at), true)
			}
		}
	}
}

// killGuarded: the block of the callback through which the table is re-made is reached only under a condition that looks at
// the node's parent or at a package-level depth counter (a parent test that guards something else does not count).
func killGuarded(p *Program, fn *ssa.Function, site *ssa.BasicBlock) bool {
	if site == nil {
		return false
	}
	sf := newSymFn(p, fn, 0)
	sf.inlineOK = func(*ssa.Function) bool { return false }
	guarded := false
	sf.pathCond(site).walk(func(x *Sym) {
		if n, ok := invokeName(x); ok && n == "GetParent" {
			guarded = true
		}
		if x.Op == "global" || strings.HasPrefix(x.String(), "global(") {
			guarded = true
		}
	})
	return guarded
}
