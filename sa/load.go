package main

import (
	"fmt"
	"go/ast"
	"go/token"
	"go/types"
	"io"
	"os"
	"path/filepath"
	"sort"
	"strings"
	"time"

	"golang.org/x/tools/go/packages"
	"golang.org/x/tools/go/ssa"
	"golang.org/x/tools/go/ssa/ssautil"
)

const modPath = "github.com/modernizing/coca"

// Program is the resolved view of /repo that every engine works on.
type Program struct {
	Repo    string
	Fset    *token.FileSet
	Pkgs    []*packages.Package // all packages of the module (non-test)
	ByPath  map[string]*packages.Package
	SSA     *ssa.Program
	SSAPkgs map[string]*ssa.Package
	CG      *OwnCG
	// Own = coca's hand-written packages (module packages minus generated languages/*)
	Own map[*types.Package]bool
	// all source functions of Own packages (incl. anonymous functions)
	OwnFuncs []*ssa.Function
}

func copyFile(dst, src string) error {
	in, err := os.Open(src)
	if err != nil {
		return err
	}
	defer in.Close()
	out, err := os.Create(dst)
	if err != nil {
		return err
	}
	defer out.Close()
	_, err = io.Copy(out, in)
	return err
}

// isGeneratedPkg: ANTLR output lives in languages/<lang>; it is the trusted base.
func isGeneratedPkg(path string) bool {
	return strings.HasPrefix(path, modPath+"/languages/")
}

func rel(p string) string { return strings.TrimPrefix(strings.TrimPrefix(p, modPath), "/") }

func LoadProgram(repo string) (*Program, error) {
	tmp, err := os.MkdirTemp("", "cocasa-mod-")
	if err != nil {
		return nil, err
	}
	defer os.RemoveAll(tmp)
	// -modfile keeps every go command from rewriting /repo/go.mod.
	if err := copyFile(filepath.Join(tmp, "go.mod"), filepath.Join(repo, "go.mod")); err != nil {
		return nil, err
	}
	if err := copyFile(filepath.Join(tmp, "go.sum"), filepath.Join(repo, "go.sum")); err != nil {
		return nil, err
	}
	env := []string{}
	for _, e := range os.Environ() {
		if strings.HasPrefix(e, "GOWORK=") || strings.HasPrefix(e, "GOFLAGS=") {
			continue
		}
		env = append(env, e)
	}
	env = append(env, "GOFLAGS=-mod=mod", "GOPROXY=off", "GOSUMDB=off", "GOTOOLCHAIN=local", "GOWORK=off")
	cfg := &packages.Config{
		Mode:       packages.LoadAllSyntax,
		Dir:        repo,
		Env:        env,
		Tests:      false,
		BuildFlags: []string{"-modfile=" + filepath.Join(tmp, "go.mod")},
	}
	tl := time.Now()
	initial, err := packages.Load(cfg, "./...")
	fmt.Fprintf(os.Stderr, "[load] packages.Load %.1fs\n", time.Since(tl).Seconds())
	if err != nil {
		return nil, err
	}
	if len(initial) == 0 {
		return nil, fmt.Errorf("no packages loaded from %s", repo)
	}
	p := &Program{Repo: repo, ByPath: map[string]*packages.Package{}, SSAPkgs: map[string]*ssa.Package{}, Own: map[*types.Package]bool{}}
	var errs []string
	for _, pk := range initial {
		if !strings.HasPrefix(pk.PkgPath, modPath) {
			continue
		}
		for _, e := range pk.Errors {
			errs = append(errs, pk.PkgPath+": "+e.Error())
		}
		p.Pkgs = append(p.Pkgs, pk)
		p.ByPath[pk.PkgPath] = pk
		p.Fset = pk.Fset
	}
	if len(errs) > 0 {
		return nil, fmt.Errorf("type/load errors:\n%s", strings.Join(errs, "\n"))
	}
	sort.Slice(p.Pkgs, func(i, j int) bool { return p.Pkgs[i].PkgPath < p.Pkgs[j].PkgPath })
	tl = time.Now()
	prog, _ := ssautil.AllPackages(initial, ssa.InstantiateGenerics)
	prog.Build()
	fmt.Fprintf(os.Stderr, "[load] ssa build %.1fs\n", time.Since(tl).Seconds())
	p.SSA = prog
	for _, pk := range p.Pkgs {
		sp := prog.Package(pk.Types)
		if sp == nil {
			return nil, fmt.Errorf("no SSA package for %s", pk.PkgPath)
		}
		p.SSAPkgs[pk.PkgPath] = sp
		if !isGeneratedPkg(pk.PkgPath) {
			p.Own[pk.Types] = true
		}
	}
	tl = time.Now()
	all := ssautil.AllFunctions(prog)
	for fn := range all {
		if fn.Pkg != nil && p.Own[fn.Pkg.Pkg] && fn.Synthetic == "" {
			p.OwnFuncs = append(p.OwnFuncs, fn)
		} else if fn.Pkg == nil && fn.Parent() != nil {
			// anonymous function: belongs to its outermost parent's package
			q := fn
			for q.Parent() != nil {
				q = q.Parent()
			}
			if q.Pkg != nil && p.Own[q.Pkg.Pkg] && fn.Synthetic == "" {
				p.OwnFuncs = append(p.OwnFuncs, fn)
			}
		}
	}
	sort.Slice(p.OwnFuncs, func(i, j int) bool { return p.FuncKey(p.OwnFuncs[i]) < p.FuncKey(p.OwnFuncs[j]) })
	p.buildOwnCG()
	fmt.Fprintf(os.Stderr, "[load] own call graph %.1fs (%d own of %d functions)\n", time.Since(tl).Seconds(), len(p.OwnFuncs), len(all))
	return p, nil
}

// FuncKey is a position-free, stable name: rel/pkg/path.Func or rel/pkg/path.(T).M, anonymous functions get $n.
func (p *Program) FuncKey(fn *ssa.Function) string {
	if fn == nil {
		return "<nil>"
	}
	if fn.Parent() != nil {
		return p.FuncKey(fn.Parent()) + "$" + strings.TrimPrefix(fn.Name(), fn.Parent().Name()+"$")
	}
	pk := ""
	if fn.Pkg != nil {
		pk = rel(fn.Pkg.Pkg.Path())
	}
	if recv := fn.Signature.Recv(); recv != nil {
		t := recv.Type()
		if pt, ok := t.(*types.Pointer); ok {
			t = pt.Elem()
		}
		if nt, ok := t.(*types.Named); ok {
			if nt.Obj().Pkg() != nil {
				pk = rel(nt.Obj().Pkg().Path())
			}
			return pk + ".(" + nt.Obj().Name() + ")." + fn.Name()
		}
	}
	return pk + "." + fn.Name()
}

// Func resolves "rel/pkg/path.Func", "rel/pkg/path.(T).M" or "var:rel/pkg/path.name" (the function literal a package
// variable is initialised with); nil if absent.
func (p *Program) Func(key string) *ssa.Function {
	if strings.HasPrefix(key, "varfield:") {
		// "varfield:rel/pkg.name.Field": the function literal stored in field Field of the record a package variable is
		// initialised with (cobra commands: var xCmd = &cobra.Command{Run: func…})
		rest := strings.TrimPrefix(key, "varfield:")
		k := strings.LastIndex(rest, ".")
		if k < 0 {
			return nil
		}
		g := p.Global(rest[:k])
		if g == nil {
			return nil
		}
		initFn := g.Pkg.Func("init")
		if initFn == nil {
			return nil
		}
		var rec ssa.Value
		for _, b := range initFn.Blocks {
			for _, in := range b.Instrs {
				if st, ok := in.(*ssa.Store); ok && st.Addr == ssa.Value(g) {
					rec = st.Val
				}
			}
		}
		if rec == nil {
			return nil
		}
		for _, b := range initFn.Blocks {
			for _, in := range b.Instrs {
				st, ok := in.(*ssa.Store)
				if !ok {
					continue
				}
				fa, ok := st.Addr.(*ssa.FieldAddr)
				if !ok || fa.X != rec {
					continue
				}
				if n, _ := fieldOf(fa.X.Type(), fa.Field); n != rest[k+1:] {
					continue
				}
				switch v := st.Val.(type) {
				case *ssa.Function:
					return v
				case *ssa.MakeClosure:
					f, _ := v.Fn.(*ssa.Function)
					return f
				}
			}
		}
		return nil
	}
	if strings.HasPrefix(key, "var:") {
		g := p.Global(strings.TrimPrefix(key, "var:"))
		if g == nil {
			return nil
		}
		initFn := g.Pkg.Func("init")
		if initFn == nil {
			return nil
		}
		for _, b := range initFn.Blocks {
			for _, in := range b.Instrs {
				if st, ok := in.(*ssa.Store); ok && st.Addr == ssa.Value(g) {
					switch v := st.Val.(type) {
					case *ssa.Function:
						return v
					case *ssa.MakeClosure:
						f, _ := v.Fn.(*ssa.Function)
						return f
					}
				}
			}
		}
		return nil
	}
	if k := strings.Index(key, "$"); k >= 0 {
		// anonymous function: parent$1, parent$1$2 …
		parent := p.Func(key[:k])
		if parent == nil {
			return nil
		}
		cur := parent
		for _, part := range strings.Split(key[k+1:], "$") {
			var next *ssa.Function
			for _, af := range cur.AnonFuncs {
				if strings.HasSuffix(af.Name(), "$"+part) {
					next = af
				}
			}
			if next == nil {
				return nil
			}
			cur = next
		}
		return cur
	}
	i := strings.LastIndex(key, ".(")
	if i >= 0 {
		pkgRel := key[:i]
		rest := key[i+2:]
		j := strings.Index(rest, ").")
		if j < 0 {
			return nil
		}
		tn, mn := rest[:j], rest[j+2:]
		sp := p.SSAPkgs[joinMod(pkgRel)]
		if sp == nil {
			return nil
		}
		tm := sp.Type(tn)
		if tm == nil {
			return nil
		}
		for _, t := range []types.Type{tm.Type(), types.NewPointer(tm.Type())} {
			ms := p.SSA.MethodSets.MethodSet(t)
			for k := 0; k < ms.Len(); k++ {
				sel := ms.At(k)
				if sel.Obj().Name() == mn {
					fn := p.SSA.MethodValue(sel)
					if fn != nil && fn.Synthetic != "" {
						// promoted through embedding: not declared on T itself
						continue
					}
					if fn != nil {
						return fn
					}
				}
			}
		}
		return nil
	}
	i = strings.LastIndex(key, ".")
	if i < 0 {
		return nil
	}
	sp := p.SSAPkgs[joinMod(key[:i])]
	if sp == nil {
		return nil
	}
	return sp.Func(key[i+1:])
}

func joinMod(relp string) string {
	if relp == "" {
		return modPath
	}
	return modPath + "/" + relp
}

// Global resolves "rel/pkg/path.name".
func (p *Program) Global(key string) *ssa.Global {
	i := strings.LastIndex(key, ".")
	if i < 0 {
		return nil
	}
	sp := p.SSAPkgs[joinMod(key[:i])]
	if sp == nil {
		return nil
	}
	g, _ := sp.Members[key[i+1:]].(*ssa.Global)
	return g
}

func (p *Program) GlobalKey(g *ssa.Global) string {
	return rel(g.Pkg.Pkg.Path()) + "." + g.Name()
}

func (p *Program) Pos(pos token.Pos) string {
	if !pos.IsValid() {
		return ""
	}
	ps := p.Fset.Position(pos)
	f := ps.Filename
	if r, err := filepath.Rel(p.Repo, f); err == nil && !strings.HasPrefix(r, "..") {
		f = r
	}
	return fmt.Sprintf("%s:%d", f, ps.Line)
}

// FuncPos: position of a function, falling back to its first instruction.
func (p *Program) FuncPos(fn *ssa.Function) string {
	if fn == nil {
		return ""
	}
	return p.Pos(fn.Pos())
}

// InstrPos returns the best position for an instruction (some SSA instructions carry NoPos).
func (p *Program) InstrPos(in ssa.Instruction) string {
	if in.Pos().IsValid() {
		return p.Pos(in.Pos())
	}
	if v, ok := in.(ssa.Value); ok {
		_ = v
	}
	// walk operands for a position
	var ops []*ssa.Value
	ops = in.Operands(ops)
	for _, o := range ops {
		if *o != nil && (*o).Pos().IsValid() {
			return p.Pos((*o).Pos())
		}
	}
	if in.Parent() != nil {
		return p.Pos(in.Parent().Pos())
	}
	return ""
}

// IsOwnFunc reports whether fn is hand-written coca code.
func (p *Program) IsOwnFunc(fn *ssa.Function) bool {
	if fn == nil {
		return false
	}
	q := fn
	for q.Parent() != nil {
		q = q.Parent()
	}
	return q.Pkg != nil && p.Own[q.Pkg.Pkg] && fn.Synthetic == ""
}

// Callees returns the resolved callees of a call site in coca's own code (see buildOwnCG).
func (p *Program) Callees(site ssa.CallInstruction) []*ssa.Function {
	return p.CG.Out[site]
}

// AstFile returns the syntax file containing pos in a module package.
func (p *Program) AstFile(pos token.Pos) (*ast.File, *packages.Package) {
	for _, pk := range p.Pkgs {
		for _, f := range pk.Syntax {
			if f.Pos() <= pos && pos <= f.End() {
				return f, pk
			}
		}
	}
	return nil, nil
}

// ---------------------------------------------------------------------------------------------
// Call graph over coca's own code. A whole-program CHA/VTA graph costs 30 s here because of the
// generated parsers (90 k functions); the engines only need edges whose caller is hand-written code.
//   - static calls: the callee;
//   - interface invocations: every named type declared in the module (T and *T) that implements the
//     interface (class-hierarchy analysis restricted to module types);
//   - calls of function values: every own function or closure with an identical signature whose value is
//     taken somewhere (address-taken functions).
// Calls that library code makes back into coca (listener callbacks, sort/walk closures, cobra commands)
// are not edges: the engines treat those functions as roots / as called by the function that creates them.

type CGEdge struct {
	Caller *ssa.Function
	Site   ssa.CallInstruction
	Callee *ssa.Function
}

type CGNode struct {
	Func *ssa.Function
	In   []*CGEdge
	Out  []*CGEdge
}

type OwnCG struct {
	Out   map[ssa.CallInstruction][]*ssa.Function
	Nodes map[*ssa.Function]*CGNode
}

func (p *Program) buildOwnCG() {
	cg := &OwnCG{Out: map[ssa.CallInstruction][]*ssa.Function{}, Nodes: map[*ssa.Function]*CGNode{}}
	p.CG = cg
	node := func(f *ssa.Function) *CGNode {
		n := cg.Nodes[f]
		if n == nil {
			n = &CGNode{Func: f}
			cg.Nodes[f] = n
		}
		return n
	}
	// module types for CHA
	var named []types.Type
	for _, pk := range p.Pkgs {
		sp := p.SSAPkgs[pk.PkgPath]
		if isGeneratedPkg(pk.PkgPath) {
			continue
		}
		var names []string
		for n, m := range sp.Members {
			if _, ok := m.(*ssa.Type); ok {
				names = append(names, n)
			}
		}
		sort.Strings(names)
		for _, n := range names {
			t := sp.Members[n].(*ssa.Type).Type()
			if _, isIface := t.Underlying().(*types.Interface); isIface {
				continue
			}
			named = append(named, t, types.NewPointer(t))
		}
	}
	// address-taken own functions by signature
	taken := map[string][]*ssa.Function{}
	sigKey := func(s *types.Signature) string {
		return types.TypeString(types.NewSignatureType(nil, nil, nil, s.Params(), s.Results(), s.Variadic()), nil)
	}
	addTaken := func(f *ssa.Function) {
		k := sigKey(f.Signature)
		for _, x := range taken[k] {
			if x == f {
				return
			}
		}
		taken[k] = append(taken[k], f)
	}
	unwrap := func(f *ssa.Function) []*ssa.Function {
		if f.Synthetic == "" {
			return []*ssa.Function{f}
		}
		var out []*ssa.Function
		for _, b := range f.Blocks {
			for _, in := range b.Instrs {
				if ci, ok := in.(ssa.CallInstruction); ok {
					if c := ci.Common().StaticCallee(); c != nil {
						out = append(out, c)
					}
				}
			}
		}
		return out
	}
	initFuncs := []*ssa.Function{}
	for _, pk := range p.Pkgs {
		if !isGeneratedPkg(pk.PkgPath) {
			if f := p.SSAPkgs[pk.PkgPath].Func("init"); f != nil {
				initFuncs = append(initFuncs, f)
			}
		}
	}
	scan := append(append([]*ssa.Function{}, p.OwnFuncs...), initFuncs...)
	for _, fn := range scan {
		for _, b := range fn.Blocks {
			for _, in := range b.Instrs {
				var ops []*ssa.Value
				ops = in.Operands(ops)
				for i, o := range ops {
					f, ok := (*o).(*ssa.Function)
					if !ok {
						continue
					}
					if ci, ok := in.(ssa.CallInstruction); ok && i == 0 && ci.Common().StaticCallee() == f {
						continue
					}
					for _, u := range unwrap(f) {
						if p.IsOwnFunc(u) {
							addTaken(u)
						}
					}
				}
			}
		}
	}
	msCache := map[string][]*ssa.Function{}
	for _, fn := range scan {
		node(fn)
		for _, b := range fn.Blocks {
			for _, in := range b.Instrs {
				ci, ok := in.(ssa.CallInstruction)
				if !ok {
					continue
				}
				cc := ci.Common()
				var callees []*ssa.Function
				cha := func(ifaceT types.Type, method *types.Func) []*ssa.Function {
					iface, _ := ifaceT.Underlying().(*types.Interface)
					if iface == nil {
						return nil
					}
					key := types.TypeString(ifaceT, nil) + "." + method.Name()
					if c, ok := msCache[key]; ok {
						return c
					}
					var out []*ssa.Function
					for _, t := range named {
						if !types.Implements(t, iface) {
							continue
						}
						sel := p.SSA.MethodSets.MethodSet(t).Lookup(method.Pkg(), method.Name())
						if sel == nil {
							continue
						}
						if mf := p.SSA.MethodValue(sel); mf != nil {
							for _, u := range unwrap(mf) {
								dup := false
								for _, x := range out {
									if x == u {
										dup = true
									}
								}
								if !dup {
									out = append(out, u)
								}
							}
						}
					}
					msCache[key] = out
					return out
				}
				switch {
				case cc.StaticCallee() != nil:
					callees = unwrap(cc.StaticCallee())
					if inv := delegatedInvoke(cc.StaticCallee()); inv != nil && cc.StaticCallee().Synthetic == "" {
						// a hand-written delegating method (`func (o *T) M(a) { o.F.M(a) }`) called on a record that was built
						// just before with a value of known type: the call goes to that type's method
						if t := localDynamicType(ci, inv.Common().Value); t != nil {
							if sel := p.SSA.MethodSets.MethodSet(t).Lookup(inv.Common().Method.Pkg(), inv.Common().Method.Name()); sel != nil {
								if mf := p.SSA.MethodValue(sel); mf != nil {
									callees = unwrap(mf)
								}
							}
						}
					}
					if len(callees) == 0 && cc.StaticCallee().Synthetic != "" {
						// a method promoted from an embedded interface field: the wrapper invokes the field's value
						for _, wb := range cc.StaticCallee().Blocks {
							for _, wi := range wb.Instrs {
								inv, ok := wi.(ssa.CallInstruction)
								if !ok || !inv.Common().IsInvoke() {
									continue
								}
								if t := localDynamicType(ci, inv.Common().Value); t != nil {
									// the record was built a few instructions earlier with a value of known type
									if sel := p.SSA.MethodSets.MethodSet(t).Lookup(inv.Common().Method.Pkg(), inv.Common().Method.Name()); sel != nil {
										if mf := p.SSA.MethodValue(sel); mf != nil {
											callees = append(callees, unwrap(mf)...)
										}
									}
								} else {
									callees = append(callees, cha(inv.Common().Value.Type(), inv.Common().Method)...)
								}
							}
						}
					}
				case cc.IsInvoke():
					iface, _ := cc.Value.Type().Underlying().(*types.Interface)
					if iface == nil {
						break
					}
					key := types.TypeString(cc.Value.Type(), nil) + "." + cc.Method.Name()
					if c, ok := msCache[key]; ok {
						callees = c
						break
					}
					for _, t := range named {
						if !types.Implements(t, iface) {
							continue
						}
						sel := p.SSA.MethodSets.MethodSet(t).Lookup(cc.Method.Pkg(), cc.Method.Name())
						if sel == nil {
							continue
						}
						if mf := p.SSA.MethodValue(sel); mf != nil {
							for _, u := range unwrap(mf) {
								dup := false
								for _, x := range callees {
									if x == u {
										dup = true
									}
								}
								if !dup {
									callees = append(callees, u)
								}
							}
						}
					}
					msCache[key] = callees
				default:
					if _, isB := cc.Value.(*ssa.Builtin); isB {
						break
					}
					if sig, ok := cc.Value.Type().Underlying().(*types.Signature); ok {
						callees = taken[sigKey(sig)]
					}
				}
				if len(callees) == 0 {
					continue
				}
				cg.Out[ci] = callees
				for _, c := range callees {
					e := &CGEdge{Caller: fn, Site: ci, Callee: c}
					node(fn).Out = append(node(fn).Out, e)
					node(c).In = append(node(c).In, e)
				}
			}
		}
	}
}

// localDynamicType: site calls a wrapper whose receiver (first argument) is a local record; wrapperField is the value the
// wrapper invokes on — a load of an embedded interface field of its receiver. If, in the block of the call and before it,
// the record was assigned a composite literal whose field of that index was set to a value of a concrete type, that type is
// returned (flow-sensitive, within one block: `e = Evaluation{Service{}}; e.EvaluateList(…)`).
func localDynamicType(site ssa.CallInstruction, wrapperField ssa.Value) types.Type {
	u, ok := wrapperField.(*ssa.UnOp)
	if !ok {
		return nil
	}
	fa, ok := u.X.(*ssa.FieldAddr)
	if !ok {
		return nil
	}
	if _, isParam := fa.X.(*ssa.Parameter); !isParam {
		return nil
	}
	field := fa.Field
	args := site.Common().Args
	if len(args) == 0 {
		return nil
	}
	recv, ok := args[0].(*ssa.Alloc)
	if !ok {
		return nil
	}
	call, ok := site.(ssa.Instruction)
	if !ok {
		return nil
	}
	// a record that is assigned exactly once in the whole function has that value wherever the call stands
	if refs := recv.Referrers(); refs != nil {
		var only *ssa.Store
		var onlyField *ssa.Store
		n, nf := 0, 0
		for _, r := range *refs {
			switch x := r.(type) {
			case *ssa.Store:
				if x.Addr == ssa.Value(recv) {
					only = x
					n++
				}
			case *ssa.FieldAddr:
				if x.Field == field && x.Referrers() != nil {
					for _, r2 := range *x.Referrers() {
						if s2, ok := r2.(*ssa.Store); ok && s2.Addr == ssa.Value(x) {
							onlyField = s2
							nf++
						}
					}
				}
			}
		}
		if n == 0 && nf == 1 {
			// built in place, field by field: w := Wrap{KeepLast{}}
			if mi, ok := onlyField.Val.(*ssa.MakeInterface); ok {
				return mi.X.Type()
			}
		}
		if nf > 0 {
			n += 2
		}
		if n == 1 {
			if ld, ok := only.Val.(*ssa.UnOp); ok {
				if lit, ok := ld.X.(*ssa.Alloc); ok && lit.Referrers() != nil {
					for _, r := range *lit.Referrers() {
						if f2, ok := r.(*ssa.FieldAddr); ok && f2.Field == field && f2.Referrers() != nil {
							for _, r2 := range *f2.Referrers() {
								if s2, ok := r2.(*ssa.Store); ok && s2.Addr == ssa.Value(f2) {
									if mi, ok := s2.Val.(*ssa.MakeInterface); ok {
										return mi.X.Type()
									}
								}
							}
						}
					}
				}
			}
		}
	}
	b := call.Block()
	idx := -1
	for i, in := range b.Instrs {
		if in == call {
			idx = i
		}
	}
	for i := idx - 1; i >= 0; i-- {
		st, ok := b.Instrs[i].(*ssa.Store)
		if !ok {
			if ci, isCall := b.Instrs[i].(ssa.CallInstruction); isCall {
				// an intervening call that receives the record's address may change it
				for _, a := range ci.Common().Args {
					if a == ssa.Value(recv) {
						return nil
					}
				}
			}
			continue
		}
		if st.Addr == ssa.Value(recv) {
			// whole-record assignment: value = load of a literal cell
			ld, ok := st.Val.(*ssa.UnOp)
			if !ok {
				return nil
			}
			lit, ok := ld.X.(*ssa.Alloc)
			if !ok || lit.Referrers() == nil {
				return nil
			}
			for _, r := range *lit.Referrers() {
				if f2, ok := r.(*ssa.FieldAddr); ok && f2.Field == field && f2.Referrers() != nil {
					for _, r2 := range *f2.Referrers() {
						if s2, ok := r2.(*ssa.Store); ok && s2.Addr == ssa.Value(f2) {
							if mi, ok := s2.Val.(*ssa.MakeInterface); ok {
								return mi.X.Type()
							}
						}
					}
				}
			}
			return nil
		}
		if f2, ok := st.Addr.(*ssa.FieldAddr); ok && f2.X == ssa.Value(recv) && f2.Field == field {
			if mi, ok := st.Val.(*ssa.MakeInterface); ok {
				return mi.X.Type()
			}
			return nil
		}
	}
	return nil
}

// delegatedInvoke: fn's body is nothing but one interface invocation on a field of its receiver (plus the return): the call
// instruction, else nil.
func delegatedInvoke(fn *ssa.Function) ssa.CallInstruction {
	if fn == nil || len(fn.Blocks) != 1 || fn.Signature.Recv() == nil {
		return nil
	}
	var inv ssa.CallInstruction
	for _, in := range fn.Blocks[0].Instrs {
		switch x := in.(type) {
		case *ssa.FieldAddr, *ssa.UnOp, *ssa.Return, *ssa.DebugRef, *ssa.Extract:
		case ssa.CallInstruction:
			if inv != nil || !x.Common().IsInvoke() {
				return nil
			}
			inv = x
		default:
			return nil
		}
	}
	return inv
}
