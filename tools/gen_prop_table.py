#!/usr/bin/env python3
"""Refreshes the per-property table of DESIGN.md (between the PROP-TABLE markers) from the evidence files of the last run."""
import json, os, re, glob
VERIF = os.path.dirname(os.path.dirname(os.path.abspath(__file__)))
known = json.load(open(os.path.join(VERIF, "known_findings.json")))
lines = ["| id | obligations (discharged) | rule instances on this tree | repaired (fix commits) | recorded findings |", "|---|---|---|---|---|"]
for f in sorted(glob.glob(os.path.join(VERIF, "evidence", "C??.json"))):
    ev = json.load(open(f))
    pid = ev["property_id"]
    cov = ev["coverage"]
    fixed = [re.search(r"property=\w+ (\w+)", x).group(1) for x in known["fixed"] if ("property=%s " % pid) in x]
    kf = sum(1 for x in known["findings"] if x["property"] == pid)
    lines.append("| %s | %d (%d) | %s | %s | %s |" % (pid, cov["obligations"], cov["discharged"], " ".join(cov["rule_instances"]), " ".join(fixed) or "—", kf or "—"))
p = os.path.join(VERIF, "DESIGN.md")
s = open(p).read()
s = re.sub(r"(<!-- PROP-TABLE-BEGIN -->\n).*?(<!-- PROP-TABLE-END -->)", lambda m: m.group(1) + "\n".join(lines) + "\n" + m.group(2), s, flags=re.S)
open(p, "w").write(s)
print(len(lines) - 2, "properties")
