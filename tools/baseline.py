#!/usr/bin/env python3
"""Runs /repo's pinned suite offline and compares with the stable_pass list of /root/.vp/BASELINE.json."""
import json, subprocess, os, sys
env = dict(os.environ, GOFLAGS="-mod=mod", GOPROXY="off", GOSUMDB="off", GOTOOLCHAIN="local")
env.pop("GOWORK", None)
repo = sys.argv[1] if len(sys.argv) > 1 else "/repo"
out = subprocess.run(["go", "test", "-json", "-vet=off", "-count=1", "-timeout", "25m", "./..."], cwd=repo, env=env, capture_output=True, text=True).stdout
res = {}
for ln in out.splitlines():
    try:
        e = json.loads(ln)
    except Exception:
        continue
    if e.get("Test") and e.get("Action") in ("pass", "fail", "skip"):
        res[e["Package"] + "::" + e["Test"]] = e["Action"]
b = json.load(open("/root/.vp/BASELINE.json"))
bad = [t for t in b["stable_pass"] if res.get(t) != "pass"]
print("stable_pass: %d, passing now: %d, not passing: %s" % (len(b["stable_pass"]), len(b["stable_pass"]) - len(bad), bad))
subprocess.run(["git", "checkout", "go.mod"], cwd=repo)
sys.exit(1 if bad else 0)
