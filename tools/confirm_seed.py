#!/usr/bin/env python3
"""Confirms a seeded change produced by a sub-agent and, if confirmed, stores it under /verif/seeded/<name>/.

usage: tools/confirm_seed.py /tmp/seed/C03-A [--keep-as NAME]

Checks, in a fresh scratch worktree of /repo (removed afterwards):
  1. the demo passes on the clean tree;
  2. the patch applies, `go build ./...` succeeds;
  3. the pinned suite (stable_pass of BASELINE.json) still passes with the patch;
  4. the demo fails with the patch.
"""
import json, os, re, shutil, subprocess, sys, glob, time

ENV = dict(os.environ, GOFLAGS="-mod=mod", GOPROXY="off", GOSUMDB="off", GOTOOLCHAIN="local")
ENV.pop("GOWORK", None)


def run(cmd, cwd, timeout=900):
    p = subprocess.run(cmd, cwd=cwd, env=ENV, shell=isinstance(cmd, str), capture_output=True, text=True, timeout=timeout)
    return p.returncode, p.stdout + p.stderr


def main():
    seed = os.path.abspath(sys.argv[1])
    name = os.path.basename(seed)
    if "--keep-as" in sys.argv:
        name = sys.argv[sys.argv.index("--keep-as") + 1]
    demo_md = ""
    if os.path.exists(os.path.join(seed, "demo.md")):
        demo_md = open(os.path.join(seed, "demo.md")).read()
    tests = [f for f in glob.glob(os.path.join(seed, "*_test.go"))]
    if not tests or not os.path.exists(os.path.join(seed, "patch.diff")):
        print(json.dumps({"seed": name, "ok": False, "why": "missing patch.diff or demo test"}))
        return 1
    # destination package directory
    m = re.search(r"go test[^\n]*?\s(\./(?:pkg|cmd|analysis)[\w/\.]*)", demo_md)
    dest = None
    if m:
        dest = m.group(1).rstrip("/").lstrip("./")
    if not dest:
        m = re.search(r"((?:pkg|cmd|analysis)/[\w/]+)/?", demo_md)
        dest = m.group(1) if m else None
    if dest and dest.endswith("..."):
        dest = dest[:-3].rstrip("/")
    m = re.search(r"-run\s+['\"]?([\w\|\^\$\(\)_]+)", demo_md)
    runpat = m.group(1) if m else "."
    if not dest:
        print(json.dumps({"seed": name, "ok": False, "why": "cannot find the demo destination in demo.md"}))
        return 1
    wt = "/tmp/wt/confirm-%s-%d" % (name, os.getpid())
    res = {"seed": name, "dest": dest, "run": runpat}
    try:
        rc, out = run(["git", "-C", "/repo", "worktree", "add", "-q", "--detach", wt, "HEAD"], "/")
        if rc != 0:
            res.update(ok=False, why="worktree: " + out)
            print(json.dumps(res))
            return 1
        for t in tests:
            shutil.copy(t, os.path.join(wt, dest, os.path.basename(t)))
        testcmd = "go test -vet=off -count=1 ./%s/ -run '%s'" % (dest, runpat)
        rc, out = run(testcmd, wt)
        res["demo_clean_passes"] = rc == 0
        res["demo_clean_tail"] = out[-600:] if rc != 0 else ""
        rc, out = run(["git", "apply", os.path.join(seed, "patch.diff")], wt)
        res["patch_applies"] = rc == 0
        if rc != 0:
            res["patch_err"] = out[-400:]
        rc, out = run("go build ./...", wt)
        res["builds"] = rc == 0
        rc, out = run(testcmd, wt)
        res["demo_patched_fails"] = rc != 0
        res["demo_patched_tail"] = out[-1200:]
        # suite without the demo files
        for t in tests:
            os.remove(os.path.join(wt, dest, os.path.basename(t)))
        rc, out = run(["python3", "/verif/tools/baseline.py", wt], "/")
        res["suite_passes"] = rc == 0
        res["suite_tail"] = out[-300:]
        if rc != 0:
            # flaky refactor tests: retry once
            rc, out = run(["python3", "/verif/tools/baseline.py", wt], "/")
            res["suite_passes"] = rc == 0
            res["suite_tail"] = out[-300:]
        res["ok"] = all(res.get(k) for k in ["demo_clean_passes", "patch_applies", "builds", "demo_patched_fails", "suite_passes"])
    finally:
        run(["git", "-C", "/repo", "worktree", "remove", "--force", wt], "/")
        shutil.rmtree(wt, ignore_errors=True)
    if res.get("ok"):
        out = os.path.join("/verif/seeded", name)
        os.makedirs(out, exist_ok=True)
        for f in os.listdir(seed):
            shutil.copy(os.path.join(seed, f), os.path.join(out, f))
        meta = {}
        mp = os.path.join(out, "meta.json")
        if os.path.exists(mp):
            try:
                meta = json.load(open(mp))
            except Exception:
                meta = {"raw": open(mp).read()}
        meta["confirmed"] = {"at": time.strftime("%Y-%m-%dT%H:%M:%SZ", time.gmtime()), "repo_head": subprocess.run(["git", "-C", "/repo", "rev-parse", "--short", "HEAD"], capture_output=True, text=True).stdout.strip(),
                             "demo_dest": dest, "demo_cmd": "go test -vet=off -count=1 ./%s/ -run '%s'" % (dest, runpat),
                             "checks": "demo passes on clean tree; patch applies; go build ./... ok; 191 stable tests pass with the patch; demo fails with the patch"}
        json.dump(meta, open(mp, "w"), indent=1)
    short = {k: v for k, v in res.items() if not k.endswith("_tail") or not res.get("ok")}
    print(json.dumps(short, indent=1))
    return 0 if res.get("ok") else 1


sys.exit(main())
