#!/usr/bin/env python3
"""Replays every kept seeded change against the analyser (scratch copies, 4 at a time), writes seeded/STATUS.json and refreshes the
table between the SEED-TABLE markers of DESIGN.md. Not a registered check: documentation of what the checks catch."""
import json, os, re, subprocess, glob, concurrent.futures as cf

VERIF = os.path.dirname(os.path.dirname(os.path.abspath(__file__)))


def one(d):
    name = os.path.basename(d)
    meta = json.load(open(os.path.join(d, "meta.json")))
    prop = meta.get("property", "")
    if str(meta.get("status", "")).startswith("obsolete"):
        return dict(seed=name, property=prop, result="obsolete", rules=[], other=[], summary=meta.get("summary", ""), needs=meta.get("needs", ""), note=meta["status"])
    out = subprocess.run([os.path.join(VERIF, "tools", "mutant.sh"), os.path.join(d, "patch.diff"), "all"], capture_output=True, text=True).stdout
    props = sorted(set(re.findall(r"^VIOLATION property=(\w+)", out, re.M)))
    rules = sorted(set(re.findall(r"^\s+(?:violated|undecided): \S* ?\[([\w.\-]+)\]", out, re.M)))
    return dict(seed=name, property=prop, result="caught" if prop in props else "missed", rules=rules, other=[p for p in props if p != prop],
                summary=meta.get("summary", ""), needs=meta.get("needs", ""))


def short(s, n):
    s = re.sub(r"\s+", " ", s).strip().replace("|", "/")
    return s if len(s) <= n else s[: n - 1] + "…"


def main():
    subprocess.run(["sh", os.path.join(VERIF, "build.sh")], check=True)
    dirs = sorted(glob.glob(os.path.join(VERIF, "seeded", "C*-*")))
    with cf.ThreadPoolExecutor(4) as ex:
        rows = list(ex.map(one, dirs))
    json.dump(rows, open(os.path.join(VERIF, "seeded", "STATUS.json"), "w"), indent=1, ensure_ascii=False)
    lines = ["| seed | change (needs) | result | rules that report it | also flagged |", "|---|---|---|---|---|"]
    for r in rows:
        lines.append("| %s | %s (%s) | %s | %s | %s |" % (r["seed"], short(r["summary"], 150), short(r["needs"], 90), r["result"], " ".join(r["rules"]) or "—", " ".join(r["other"]) or "—"))
    n = len(rows)
    caught = sum(1 for r in rows if r["result"] == "caught")
    obs = sum(1 for r in rows if r["result"] == "obsolete")
    lines.append("")
    lines.append("%d kept changes: %d caught by the check of their own property, %d missed, %d obsolete (neutralised by a repair)." % (n, caught, n - caught - obs, obs))
    p = os.path.join(VERIF, "DESIGN.md")
    s = open(p).read()
    s = re.sub(r"(<!-- SEED-TABLE-BEGIN -->\n).*?(<!-- SEED-TABLE-END -->)", lambda m: m.group(1) + "\n".join(lines) + "\n" + m.group(2), s, flags=re.S)
    open(p, "w").write(s)
    print(caught, "caught of", n)


if __name__ == "__main__":
    main()
