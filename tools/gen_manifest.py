#!/usr/bin/env python3
"""Regenerates /verif/MANIFEST.json from the table below (keeps the manifest valid at all times)."""
import json, os, sys
HERE = os.path.dirname(os.path.dirname(os.path.abspath(__file__)))
BASELINE_OFF = "cd /repo && go test -mod=mod -json -vet=off -count=1 -timeout 25m ./..."

# id -> (claimed?, technique, level text, level note, design ref, NA reason)
CLAIMS = json.load(open(os.path.join(HERE, "tools", "claims.json")))

def main():
    checks, na = [], []
    for i in range(1, 21):
        pid = "C%02d" % i
        c = CLAIMS.get(pid, {})
        if c.get("claimed"):
            checks.append({
                "property_id": pid,
                "quick_cmd": "./check %s quick" % pid,
                "thorough_cmd": "./check %s thorough" % pid,
                "evidence_file": "/verif/evidence/%s.json" % pid,
                "replay_cmd_template": "./check %s quick  # violations are functions of the tree; {path} lists the violated obligations" % pid,
                "engine": "cocasa",
                "level_claimed": {"category": "other", "text": c["level_text"], "design_ref": c.get("design_ref", "DESIGN.md §4 " + pid)},
                "level_note": c["level_note"],
                "technique": c["technique"],
            })
        else:
            na.append({"property_id": pid, "reason": c.get("na_reason", "no static rule implemented yet; see DESIGN.md")})
    m = {
        "version": 1,
        "setup_cmd": "sh ./build.sh",
        "hooks": {"guard": "verif", "enable": "none needed: the checks read source (go/packages + go/ssa); no hook commits exist", "baseline_off_cmd": BASELINE_OFF, "source_commits": [], "add_only": True},
        "engines": [{"name": "cocasa", "path": "sa/", "serves_properties": [c["property_id"] for c in checks],
                     "kind_free_text": "repository-specific static analyser over the type-checked program, SSA, CFG dominators and the shipped ANTLR grammars (engines E1-E7 of DESIGN.md)"}],
        "checks": checks,
        "notes": "Static analysis only: every check inspects /repo's current source on each run (result cached by a hash of the tree). Level 'other': a sound decision of the structural clauses listed per property in DESIGN.md §4, not of the behaviour over all inputs. Known genuine defects are listed in known_findings.json.",
        "not_applicable": na,
    }
    json.dump(m, open(os.path.join(HERE, "MANIFEST.json"), "w"), indent=1)
    print("claimed:", [c["property_id"] for c in checks])

main()
