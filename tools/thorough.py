#!/usr/bin/env python3
"""Thorough tier for one property (called by ./check <ID> thorough after the analyser has written the evidence):
  1. replays every kept seeded change for the property (/verif/seeded/<ID>-*/patch.diff) on a scratch copy of /repo's
     working tree and records whether the analyser raises a violation for the property (coverage of the checker, not a
     verdict on /repo: a missed seed is reported in the evidence, it does not fail the check);
  2. behaviour-preserving variants (/verif/mutants/preserve/*.diff) must leave the property silent (a false alarm here
     fails the check with exit 2 = checker broken);
  3. cross-reference: `go vet` and `staticcheck` diagnostics in the files the property is anchored in are counted as
     advisory notes.
The scratch copies live under /tmp and are removed."""
import json, os, subprocess, sys, tempfile, shutil, glob, time

VERIF = os.path.dirname(os.path.dirname(os.path.abspath(__file__)))
REPO = os.environ.get("COCA_REPO", "/repo")
ENV = dict(os.environ, GOFLAGS="-mod=mod", GOPROXY="off", GOSUMDB="off", GOTOOLCHAIN="local")
ENV.pop("GOWORK", None)


def scratch_copy():
    d = tempfile.mkdtemp(prefix="cocathorough.")
    files = subprocess.run(["git", "-C", REPO, "ls-files", "-z"], capture_output=True).stdout.split(b"\0")
    for f in files:
        if not f:
            continue
        src = os.path.join(REPO.encode(), f)
        dst = os.path.join(d.encode(), b"repo", f)
        os.makedirs(os.path.dirname(dst), exist_ok=True)
        if os.path.isfile(src):
            shutil.copy2(src, dst)
    return d


def analyse(repo, prop, out):
    p = subprocess.run([os.path.join(VERIF, ".bin", "cocasa"), "-repo", repo, "-verif", VERIF, "-evidence-dir", out, "-nocache", "-property", prop],
                       capture_output=True, text=True)
    return p.returncode, p.stdout


def main():
    prop = sys.argv[1]
    evp = os.path.join(VERIF, "evidence", prop + ".json")
    ev = json.load(open(evp))
    t0 = time.time()
    seeds = []
    jobs = []
    for d in sorted(glob.glob(os.path.join(VERIF, "seeded", "*"))):
        mp = os.path.join(d, "meta.json")
        if not os.path.exists(mp):
            continue
        meta = json.load(open(mp))
        if meta.get("property") != prop:
            continue
        if str(meta.get("status", "")).startswith("obsolete"):
            seeds.append({"seed": os.path.basename(d), "result": "obsolete (neutralised by a repair of /repo)"})
            continue
        jobs.append(("seed", os.path.basename(d), os.path.join(d, "patch.diff")))
    for pd in sorted(glob.glob(os.path.join(VERIF, "mutants", "preserve", "*.diff"))):
        jobs.append(("preserve", os.path.basename(pd), pd))

    def replay(job):
        kind, name, patch = job
        sc = scratch_copy()
        try:
            r = subprocess.run(["patch", "-p1", "-s", "-d", os.path.join(sc, "repo"), "-i", patch], capture_output=True, text=True)
            if r.returncode != 0:
                return kind, name, None, ""
            rc, out = analyse(os.path.join(sc, "repo"), prop, os.path.join(sc, "out"))
            return kind, name, rc, out
        finally:
            shutil.rmtree(sc, ignore_errors=True)

    false_alarms = []
    preserved = []
    import concurrent.futures as cf
    workers = int(os.environ.get("VERIF_WORKERS", "6"))
    with cf.ThreadPoolExecutor(max_workers=workers) as ex:
        results = list(ex.map(replay, jobs))
    for kind, name, rc, out in results:
        if kind == "seed":
            if rc is None:
                seeds.append({"seed": name, "result": "patch no longer applies"})
                continue
            viol = [l for l in out.splitlines() if l.startswith("  violated") or l.startswith("  undecided")]
            seeds.append({"seed": name, "result": "caught" if "VIOLATION property=" + prop in out else "missed",
                          "reported": [v.strip()[:300] for v in viol[:3]]})
        else:
            if rc is None:
                preserved.append({"variant": name, "result": "patch no longer applies"})
                continue
            ok = "VIOLATION property=" + prop not in out and rc in (0,)
            preserved.append({"variant": name, "result": "silent" if ok else "ALARM"})
            if not ok:
                false_alarms.append(name)
    seeds.sort(key=lambda x: x["seed"])
    # cross-reference (advisory)
    cross = {}
    anchors = []
    for l in open(os.path.join(VERIF, "properties.jsonl")):
        p = json.loads(l)
        if p["id"] == prop:
            anchors = [a for a in p["anchors"]["files"] if a.endswith(".go")]
    if anchors:
        tmp = tempfile.mkdtemp(prefix="cocamod.")
        try:
            shutil.copy(os.path.join(REPO, "go.mod"), tmp)
            shutil.copy(os.path.join(REPO, "go.sum"), tmp)
            env = dict(ENV, GOFLAGS="-mod=mod -modfile=" + os.path.join(tmp, "go.mod"))
            pkgs = sorted({"./" + os.path.dirname(a) for a in anchors})
            for tool, cmd in (("go vet", ["go", "vet"] + pkgs), ("staticcheck", ["staticcheck"] + pkgs)):
                try:
                    r = subprocess.run(cmd, cwd=REPO, env=env, capture_output=True, text=True, timeout=600)
                    lines = [l for l in (r.stdout + r.stderr).splitlines() if any(os.path.basename(a) in l for a in anchors)]
                    cross[tool] = {"diagnostics_in_anchor_files": len(lines), "examples": lines[:3]}
                except Exception as e:
                    cross[tool] = {"error": str(e)[:200]}
        finally:
            shutil.rmtree(tmp, ignore_errors=True)
    cov = ev["coverage"]
    cov["seeded_changes"] = seeds
    cov["seeded_caught"] = sum(1 for s in seeds if s["result"] == "caught")
    cov["seeded_total"] = sum(1 for s in seeds if s["result"] in ("caught", "missed"))
    cov["behaviour_preserving_variants"] = preserved
    cov["cross_reference_advisory"] = cross
    cov["explanation"] += " Thorough tier: additionally replays the kept seeded changes of this property and the behaviour-preserving variants on scratch copies of the working tree (coverage of the checker itself) and counts go vet / staticcheck diagnostics in the anchored files as advisory cross-references."
    ev["wall_s"] = ev.get("wall_s", 0) + (time.time() - t0)
    json.dump(ev, open(evp, "w"), indent=1)
    caught = cov["seeded_caught"]
    print("%s thorough: seeded changes caught %d/%d; behaviour-preserving variants silent %d/%d; cross-reference %s" % (
        prop, caught, cov["seeded_total"], sum(1 for p in preserved if p["result"] == "silent"), len(preserved),
        {k: v.get("diagnostics_in_anchor_files") for k, v in cross.items()}))
    for s in seeds:
        if s["result"] == "missed":
            print("  NOTE: seeded change %s is not detected by the static rules of %s (see DESIGN.md §7)" % (s["seed"], prop))
    if false_alarms:
        print("FATAL: the checker raises an alarm on behaviour-preserving variants: %s" % false_alarms)
        return 2
    return 0


sys.exit(main())
