#!/bin/sh
# usage: tools/mutant.sh <patch.diff> [property|all]  — applies the diff to a scratch copy of /repo (outside /repo and /verif),
# runs the analyser on it and prints the verdict lines; the copy is removed afterwards.
set -u
PATCH=$(readlink -f "$1"); PROP=${2:-all}
VERIF=$(cd "$(dirname "$0")/.." && pwd)
SCR=$(mktemp -d /tmp/cocamut.XXXXXX)
trap 'rm -rf "$SCR"' EXIT
mkdir -p "$SCR/repo" "$SCR/out"
(cd /repo && git ls-files -z | xargs -0 cp --parents -t "$SCR/repo") 2>/dev/null
if ! (cd "$SCR/repo" && patch -p1 -s < "$PATCH"); then echo "PATCH-FAILED $PATCH"; exit 3; fi
sh "$VERIF/build.sh" || exit 2
"$VERIF/.bin/cocasa" -repo "$SCR/repo" -verif "$VERIF" -evidence-dir "$SCR/out" -nocache -property "$PROP" 2>/dev/null | grep -E "VIOLATION|violated|undecided|FATAL|KNOWN" | sed "s#$SCR/##g"
exit 0
