#!/usr/bin/env python3
"""Re-freezes sa/testdata/controls/expected.json from the analyser's complaints (use only after reading each difference)."""
import json, re, subprocess, os
V = os.path.dirname(os.path.dirname(os.path.abspath(__file__)))
out = subprocess.run([V + "/.bin/cocasa", "-repo", "/repo", "-verif", V, "-nocache", "-property", "C01", "-evidence-dir", "/tmp/freeze-ev"], capture_output=True, text=True).stdout
p = V + "/sa/testdata/controls/expected.json"
exp = json.load(open(p))
for l in out.splitlines():
    m = re.match(r"FATAL: control (.*) \[([\w.\-]+)\] produced no obligation", l)
    if m:
        exp = [e for e in exp if not (e["rule"] == m.group(2) and e["construct"] == m.group(1))]
        continue
    m = re.match(r"FATAL: control (.*) \[([\w.\-]+)\] is (\w+), expected (\w+)", l)
    if m:
        for e in exp:
            if e["rule"] == m.group(2) and e["construct"] == m.group(1):
                e["status"] = m.group(3)
        continue
    m = re.match(r"FATAL: control produced an unexpected obligation ([^|]+)\|(.*) \((\w+)\)\s*$", l)
    if m:
        exp.append({"rule": m.group(1), "construct": m.group(2), "status": m.group(3)})
json.dump(exp, open(p, "w"), indent=1)
print(len(exp), "expectations,", sum(1 for e in exp if e["status"] != "discharged"), "must fire")
subprocess.run(["rm", "-rf", "/tmp/freeze-ev"])
