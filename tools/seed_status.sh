#!/bin/sh
# Runs the analyser against every kept seeded change and prints which properties raise a VIOLATION.
cd "$(dirname "$0")/.."
for d in seeded/*/; do
  n=$(basename "$d")
  want=$(python3 -c "import json;print(json.load(open('$d/meta.json')).get('property',''))" 2>/dev/null)
  got=$(tools/mutant.sh "$d/patch.diff" all 2>/dev/null | grep "^VIOLATION" | sed 's/.*property=\([A-Z0-9]*\).*/\1/' | sort -u | tr '\n' ' ')
  case " $got" in *" $want "*) st=CAUGHT;; *) st=MISSED;; esac
  echo "$n want=$want got=[$got] $st"
done
