#!/bin/bash
# Runs the analyser against every kept seeded change (4 at a time) and prints which properties raise a VIOLATION.
cd "$(dirname "$0")/.."
sh build.sh || exit 2
run1() {
  d=seeded/$1
  want=$(python3 -c "import json;print(json.load(open('$d/meta.json')).get('property',''))" 2>/dev/null)
  st0=$(python3 -c "import json;print(json.load(open('$d/meta.json')).get('status',''))" 2>/dev/null)
  got=$(tools/mutant.sh "$d/patch.diff" all 2>/dev/null | grep "^VIOLATION\|^PATCH-FAILED" | sed 's/.*property=\([A-Z0-9]*\).*/\1/' | sort -u | tr '\n' ' ')
  case " $got" in *" $want "*) st=CAUGHT;; *) st=MISSED;; esac
  case "$st0" in obsolete*) st="$st(obsolete)";; esac
  echo "$1 want=$want got=[$got] $st"
}
export -f run1
ls seeded | grep -E "${1:-.}" | xargs -P 4 -I{} bash -c 'run1 {}' | sort
