#!/usr/bin/env python3
"""Generates /verif/spec/e5.json — the decision/provenance tables derived from the property statements.
Expressions use Go syntax over the positional parameter names given in "params" (receiver first).
Helpers: len hasPrefix hasSuffix contains lower upper itoa exists/forall/count(coll, x, body) collect(coll, x, cond, expr)
lookup(m,k) has(m,k) list(...) ite(c,a,b) call("key", args…); capitalised names are parse-tree/token accessors."""
import json, os

rows = []


def row(**kw):
    rows.append(kw)


BS = "pkg/application/bs."
GETSET = 'hasPrefix(%s.Name, "set") || hasPrefix(%s.Name, "get")'
FULL = 'ite(c.FunctionName == "", c.Package + "." + c.NodeName, c.Package + "." + c.NodeName + "." + c.FunctionName)'

# ------------------------------------------------------------------ C10
for name, val in [("BS_LONG_PARAS_LENGTH", "5"), ("BS_IF_SWITCH_LENGTH", "8"), ("BS_LARGE_LENGTH", "20"), ("BS_METHOD_LENGTH", "30"), ("BS_IF_LINES_LENGTH", "3")]:
    row(props=["C10"], kind="final", **{"global": "pkg/application/bs." + name}, value=val, what="bad-smell threshold " + name)
row(props=["C10"], func=BS + "checkLongMethod", params=["method", "node", "out"], kind="emits", target="param:2", tag={"Bs": "longMethod"}, total=1,
    when="method.Position.StopLine - method.Position.StartLine > 30",
    fields={"File": "node.FilePath", "Line": "itoa(method.Position.StartLine)", "Size": "method.Position.StopLine - method.Position.StartLine"},
    what="longMethod ⇔ closing brace more than 30 lines below the declaration start")
row(props=["C10"], func=BS + "checkLongParameterList", params=["method", "node", "out"], kind="emits", target="param:2", tag={"Bs": "longParameterList"}, total=1,
    when="len(method.Parameters) > 5",
    fields={"File": "node.FilePath", "Line": "itoa(method.Position.StartLine)", "Size": "len(method.Parameters)"},
    what="longParameterList ⇔ more than 5 parameters")
row(props=["C10"], func=BS + "checkLargeClass", params=["node", "out"], kind="emits", target="param:1", tag={"Bs": "largeClass"}, total=1,
    when='node.Type == "Class" && count(node.Functions, m, !(%s)) >= 20' % (GETSET % ("m", "m")),
    fields={"File": "node.FilePath", "Size": "count(node.Functions, m, !(%s))" % (GETSET % ("m", "m"))},
    what="largeClass ⇔ class with at least 20 methods that are not getters/setters")
row(props=["C10"], func=BS + "checkDataClass", params=["only", "node", "out"], kind="emits", target="param:2", tag={"Bs": "dataClass"}, total=1,
    when='only && node.Type == "Class" && len(node.Functions) > 0',
    fields={"File": "node.FilePath", "Size": "len(node.Functions)"},
    what="dataClass ⇔ class that has methods and only getters/setters")
row(props=["C10", "C07"], func=BS + "AnalysisBadSmell", params=["nodes"], kind="callarg", callee=BS + "checkDataClass", arg=0, each={"coll": "nodes", "as": "node"},
    expr="forall(node.Functions, m, %s)" % (GETSET % ("m", "m")), what="dataClass flag = every method is a getter/setter")
row(props=["C10"], func=BS + "AnalysisBadSmell", params=["nodes"], kind="callguard", callee=BS + "checkDataClass", each={"coll": "nodes", "as": "node"}, expr="true",
    what="dataClass is checked for every node")
for callee in ["checkLazyElement", "checkLargeClass"]:
    row(props=["C10"], func=BS + "AnalysisBadSmell", params=["nodes"], kind="callguard", callee=BS + callee, each={"coll": "nodes", "as": "node"}, expr="true",
        what=callee + " runs for every node")
for callee in ["checkLongMethod", "checkLongParameterList", "checkRepeatedSwitches", "checkComplexIf"]:
    row(props=["C10"], func=BS + "AnalysisBadSmell", params=["nodes"], kind="callguard", callee=BS + callee, each={"coll": "nodes", "as": "node,method"}, expr="true",
        what=callee + " runs for every method of every node")
    row(props=["C10"], func=BS + "AnalysisBadSmell", params=["nodes"], kind="callarg", callee=BS + callee, arg=0, each={"coll": "nodes", "as": "node,method"}, expr="method",
        what=callee + " receives the method")
    row(props=["C10"], func=BS + "AnalysisBadSmell", params=["nodes"], kind="callarg", callee=BS + callee, arg=1, each={"coll": "nodes", "as": "node,method"}, expr="node",
        what=callee + " receives the method's own node")
row(props=["C10"], func=BS + "checkLazyElement", params=["node", "out"], kind="emits", target="param:1", tag={"Bs": "lazyElement"}, total=1,
    when='node.Type == "Class" && len(node.Functions) < 1', fields={"File": "node.FilePath"}, what="lazyElement ⇔ class without methods")
row(props=["C10"], func=BS + "checkRepeatedSwitches", params=["method", "node", "out"], kind="emits", target="param:2", tag={"Bs": "repeatedSwitches", "Description": "ifSize"}, total=2,
    when="method.FunctionBS.IfSize >= 8", fields={"File": "node.FilePath", "Line": "itoa(method.Position.StartLine)", "Size": "method.FunctionBS.IfSize"},
    what="repeatedSwitches ⇔ at least 8 top-level if statements")
row(props=["C10"], func=BS + "checkRepeatedSwitches", params=["method", "node", "out"], kind="emits", target="param:2", tag={"Bs": "repeatedSwitches", "Description": "switchSize"},
    when="method.FunctionBS.SwitchSize >= 8", fields={"File": "node.FilePath", "Line": "itoa(method.Position.StartLine)", "Size": "method.FunctionBS.SwitchSize"},
    what="repeatedSwitches ⇔ at least 8 top-level switch statements")
row(props=["C10"], func=BS + "checkComplexIf", params=["method", "node", "out"], kind="emits", target="param:2", tag={"Bs": "complexCondition"}, total=1,
    each={"coll": "method.FunctionBS.IfInfo", "as": "info"}, when="info.EndLine - info.StartLine >= 3",
    fields={"File": "node.FilePath", "Line": "itoa(info.StartLine)"}, what="complexCondition ⇔ top-level if condition spanning at least 4 lines")
row(props=["C10", "C18"], func="pkg/domain/core_domain.(CodeFunction).IsGetterSetter", params=["m"], kind="returns", expr=GETSET % ("m", "m"), what="getter/setter ⇔ name starts with get or set")
row(props=["C10"], func="pkg/domain/bs_domain.FilterBadSmellList", params=["models", "ignore"], kind="returns",
    expr="collect(models, m, !lookup(ignore, m.Bs), m)", what="the ignore option removes exactly the named kinds")
row(props=["C10"], func="cmd.isSmellHaveSize", params=["key"], kind="returns",
    expr='key == "largeClass" || key == "repeatedSwitches" || key == "longParameterList" || key == "longMethod" || key == "dataClass"', what="sized kinds")
row(props=["C10"], func="pkg/domain/bs_domain.WithoutGetterSetterClass", params=["ms"], kind="returns", expr="count(ms, m, !(%s))" % (GETSET % ("m", "m")),
    what="number of methods that are not getters/setters")
# bad-smell listener provenance (positions and counts)
BSL = "pkg/infrastructure/ast/bs_java."
row(props=["C10"], func=BSL + "(BadSmellListener).EnterMethodDeclaration", params=["s", "ctx"], kind="emits", target="global:pkg/infrastructure/ast/bs_java.methods", tag={}, total=1,
    when="true",
    fields={"Position.StartLine": "GetLine(GetStart(ctx))", "Position.StopLine": "GetLine(GetStop(ctx))", "Name": "GetText(Identifier(ctx))"},
    what="method lines: declaration start token to closing brace")
# ------------------------------------------------------------------ C11
TBS = "pkg/application/tbs."
CD = "pkg/domain/core_domain."
row(props=["C11"], kind="final", **{"global": "pkg/infrastructure/constants.DuplicatedAssertionLimitLength"}, value="5", what="duplicate-assert limit")
row(props=["C11"], kind="final", **{"global": "pkg/infrastructure/constants.ASSERTION_LIST"}, value='"assert","should","check","maynotbe","is","spec","verify"', what="assertion prefixes")
row(props=["C11"], func=CD + "(CodeFunction).IsJunitTest", params=["m"], kind="returns", expr='exists(m.Annotations, a, a.Name == "Test" || a.Name == "Ignore")',
    what="test method ⇔ annotated @Test or @Ignore")
row(props=["C11"], func=CD + "(CodeAnnotation).IsTest", params=["a"], kind="returns", expr='a.Name == "Test"', what="@Test")
row(props=["C11"], func=CD + "(CodeAnnotation).IsIgnoreTest", params=["a"], kind="returns", expr='a.Name == "Ignore"', what="@Ignore")
row(props=["C11"], func=CD + "(CodeCall).IsSystemOutput", params=["c"], kind="returns",
    expr='c.NodeName == "System.out" && (c.FunctionName == "println" || c.FunctionName == "printf" || c.FunctionName == "print")', what="System.out.print/println/printf")
row(props=["C11"], func=CD + "(CodeCall).IsThreadSleep", params=["c"], kind="returns", expr='c.FunctionName == "sleep" && c.NodeName == "Thread"', what="Thread.sleep")
row(props=["C11"], func=CD + "(CodeCall).HasAssertion", params=["c"], kind="returns",
    expr='exists(list("assert","should","check","maynotbe","is","spec","verify"), a, hasPrefix(lower(c.FunctionName), a))', what="assertion ⇔ lower-cased callee starts with an assertion prefix")
row(props=["C11"], func=TBS + "checkIgnoreTest", params=["path", "annotation", "results", "testType"], kind="emits", target="param:2", tag={"Type": "IgnoreTest"}, total=1,
    when='annotation.Name == "Ignore"', fields={"FileName": "path"}, what="IgnoreTest ⇔ @Ignore")
row(props=["C11"], func=TBS + "checkEmptyTest", params=["path", "annotation", "results", "method", "testType"], kind="emits", target="param:2", tag={"Type": "EmptyTest"}, total=1,
    when='annotation.Name == "Test" && len(method.FunctionCalls) == 0', fields={"FileName": "path", "Line": "method.Position.StartLine"},
    what="EmptyTest ⇔ @Test whose body makes no call")
row(props=["C11"], func=TBS + "checkRedundantPrintTest", params=["path", "call", "results", "testType"], kind="emits", target="param:2", tag={"Type": "RedundantPrintTest"}, total=1,
    when='call.NodeName == "System.out" && (call.FunctionName == "println" || call.FunctionName == "printf" || call.FunctionName == "print")',
    fields={"FileName": "path", "Line": "call.Position.StartLine"}, what="RedundantPrintTest at the call's line")
row(props=["C11"], func=TBS + "checkSleepyTest", params=["path", "call", "method", "results", "testType"], kind="emits", target="param:3", tag={"Type": "SleepyTest"}, total=1,
    when='call.FunctionName == "sleep" && call.NodeName == "Thread"', fields={"FileName": "path", "Line": "call.Position.StartLine"}, what="SleepyTest at the call's line")
row(props=["C11"], func=TBS + "checkRedundantAssertionTest", params=["path", "call", "method", "results", "testType"], kind="emits", target="param:3", tag={"Type": "RedundantAssertionTest"}, total=1,
    when="len(call.Parameters) == 2 && call.Parameters[0].TypeValue == call.Parameters[1].TypeValue", fields={"FileName": "path", "Line": "method.Position.StartLine"},
    what="RedundantAssertionTest ⇔ two textually identical arguments")
row(props=["C11"], func=TBS + "checkDuplicateAssertTest", params=["clz", "results", "callMap", "method", "testType"], kind="emits", target="param:1", tag={"Type": "DuplicateAssertTest"}, total=1,
    when='exists(callMap, g, len(g) >= 5 && exists(list("assert","should","check","maynotbe","is","spec","verify"), a, hasPrefix(lower(g[len(g)-1].FunctionName), a)))',
    fields={"FileName": "clz.FilePath", "Line": "method.Position.StartLine"}, what="DuplicateAssertTest ⇔ one assertion method called at least 5 times")
row(props=["C11"], func=TBS + "checkAssert", params=["hasAssert", "path", "method", "results", "testType"], kind="emits", target="param:3", tag={"Type": "UnknownTest"}, total=1,
    when="!hasAssert", fields={"FileName": "path", "Line": "method.Position.StartLine"}, what="UnknownTest ⇔ no assertion seen")
for callee in ["checkIgnoreTest", "checkEmptyTest"]:
    row(props=["C11"], func=TBS + "(TbsApp).AnalysisPath", params=["a", "deps", "idmap"], kind="callguard", callee=TBS + callee, each={"coll": "deps", "as": "clz,method,annotation"},
        no_inline=[CD + "(CodeFunction).IsJunitTest", TBS + "updateMethodCallsForSelfCall"],
        expr='call("%s(CodeFunction).IsJunitTest", method)' % CD, what=callee + " runs for every annotation of every junit method and for no other method")
for callee in ["checkRedundantPrintTest", "checkSleepyTest", "checkRedundantAssertionTest"]:
    row(props=["C11"], func=TBS + "(TbsApp).AnalysisPath", params=["a", "deps", "idmap"], kind="callguard", callee=TBS + callee, each={"coll": "deps", "as": "clz,method,call"},
        no_inline=[CD + "(CodeFunction).IsJunitTest", TBS + "updateMethodCallsForSelfCall"],
        expr='call("%s(CodeFunction).IsJunitTest", method) && call.FunctionName != ""' % CD, what=callee + " runs for every named call of every junit method")
row(props=["C11"], func=TBS + "(TbsApp).AnalysisPath", params=["a", "deps", "idmap"], kind="callguard", callee=TBS + "checkDuplicateAssertTest", each={"coll": "deps", "as": "clz,method"},
    no_inline=[CD + "(CodeFunction).IsJunitTest", TBS + "updateMethodCallsForSelfCall"],
    expr='call("%s(CodeFunction).IsJunitTest", method)' % CD, what="duplicate-assert check runs once per junit method")
row(props=["C11"], func=TBS + "updateMethodCallsForSelfCall", params=["method", "clz", "cmap"], kind="returns",
    expr='call("concat", method.FunctionCalls, collect(method.FunctionCalls, c, c.NodeName == clz.NodeName && lookup(cmap, ite(c.FunctionName == "", c.Package + "." + c.NodeName, c.Package + "." + c.NodeName + "." + c.FunctionName)).Name != "", call("spread", lookup(cmap, ite(c.FunctionName == "", c.Package + "." + c.NodeName, c.Package + "." + c.NodeName + "." + c.FunctionName)).FunctionCalls)))',
    what="helper inlining: calls of same-class helpers that exist are appended")
# file selection (C01 + C11)
CF = "pkg/adapter/cocafile."
row(props=["C01", "C11"], func="var:" + CF + "isJavaTestFile", params=["path"], kind="returns", expr='hasSuffix(path, "Test.java") || hasSuffix(path, "Tests.java")', what="test file names")
row(props=["C01", "C11"], func="var:" + CF + "isJavaTestPackage", params=["path"], kind="returns", expr='contains(toSlash(path), "src/test/java/")', what="Maven test tree")
TESTNAME = '(hasSuffix(path, "Test.java") || hasSuffix(path, "Tests.java") || contains(toSlash(path), "src/test/java/"))'
row(props=["C01", "C11"], func="var:" + CF + "JavaTestFileFilter", params=["path"], kind="returns",
    expr='hasSuffix(path, ".java") && ' + TESTNAME,
    what="test file ⇔ a .java file with a test name or inside the Maven test tree (the directories of that tree are not files)")
row(props=["C01", "C11"], func="var:" + CF + "JavaCodeFileFilter", params=["path"], kind="returns",
    expr='hasSuffix(path, ".java") && !' + TESTNAME, what="production file ⇔ .java and not a test file")
for g in ["isJavaTestFile", "isJavaTestPackage", "JavaTestFileFilter", "JavaCodeFileFilter"]:
    row(props=["C01", "C11"], kind="final", **{"global": CF + g}, value="", what="file filter %s is never reassigned" % g)

# ------------------------------------------------------------------ C03 / C04 / C18
row(props=["C03", "C04"], func=CD + "(CodeFunction).GetAllCallString", params=["m"], kind="returns",
    expr='collect(m.FunctionCalls, c, c.NodeName != "", ite(c.FunctionName == "", c.Package + "." + c.NodeName, c.Package + "." + c.NodeName + "." + c.FunctionName))',
    what="callee list = every call with a receiver type, by full name, in order")
row(props=["C03", "C04", "C18", "C11"], func=CD + "(CodeCall).BuildFullMethodName", params=["c"], kind="returns",
    expr='ite(c.FunctionName == "", c.Package + "." + c.NodeName, c.Package + "." + c.NodeName + "." + c.FunctionName)', what="full name of a callee")
row(props=["C03", "C04", "C18", "C11"], func=CD + "(CodeFunction).BuildFullMethodName", params=["m", "node"], kind="returns", expr='node.Package + "." + node.NodeName + "." + m.Name', what="full name of a method")
row(props=["C04"], func="pkg/application/rcall.BuildMethodCallMap", params=["structs", "project"], kind="emits", target="mapstore:makemap1", tag={}, total=1,
    each={"as": "clz,method,c"},
    when='method.Name != "" && c.NodeName != "" && !(lookup(project, ite(c.FunctionName == "", c.Package + "." + c.NodeName, c.Package + "." + c.NodeName + "." + c.FunctionName)) < 1)',
    fields={"key": 'ite(c.FunctionName == "", c.Package + "." + c.NodeName, c.Package + "." + c.NodeName + "." + c.FunctionName)'},
    what="reverse map: one entry per call site of a declared method (the nameless entry that holds the calls of initialisers is no method) whose callee is a declared method")
row(props=["C04"], func="pkg/application/rcall.BuildProjectMethodMap", params=["clzs"], kind="emits", target="mapstore:makemap1", tag={}, total=1,
    each={"as": "clz,method"}, when='method.Name != ""', fields={"key": 'clz.Package + "." + clz.NodeName + "." + method.Name', "value": "1"}, what="every declared method, and nothing else, is in the project map (the nameless entry that holds the calls of initialisers is no method)")
row(props=["C03"], func="pkg/application/call.BuildMethodMap", params=["structs"], kind="emits", target="mapstore:makemap1", tag={}, total=1,
    each={"as": "clz,method"}, when="true", fields={"key": 'clz.Package + "." + clz.NodeName + "." + method.Name'}, what="caller → callees for every function of every class")
row(props=["C03"], kind="final", **{"global": "pkg/application/call.maxLoopCount"}, value="6", what="expansion budget of the call graph")
row(props=["C04"], kind="final", **{"global": "pkg/application/rcall.loopDepth"}, value="6", what="expansion budget of the reverse call graph")
row(props=["C18"], func="pkg/application/count.BuildCallMap", params=["deps"], kind="emits", target="mapstore:makemap2", tag={}, merge=True,
    each={"as": "clz,method,c"},
    when='has(newmap(1), %s)' % FULL, fields={"key": FULL, "value": "lookup(newmap(2), %s) + 1" % FULL}, what="every call site of a declared method adds exactly 1 to its count")
row(props=["C18"], func=CD + "(CodeFunction).IsStatic", params=["m"], kind="returns", expr='exists(m.Modifiers, x, x == "static")', what="static ⇔ the modifier list contains static, wherever it stands")
row(props=["C18", "C10", "C08"], func="pkg/infrastructure/string_helper.StringArrayContains", params=["s", "term"], kind="returns", expr="exists(s, x, x == term)", what="membership is a linear scan")
row(props=["C18"], func=CD + "(CodeDataStruct).IsUtilClass", params=["d"], kind="returns", expr='contains(lower(d.NodeName), "util") || contains(lower(d.NodeName), "utils")', what="utility class ⇔ name contains util")

# ------------------------------------------------------------------ C12
row(props=["C12"], func="pkg/domain/api_domain.FilterApiByPrefix", params=["prefix", "apis"], kind="returns",
    expr='ite(prefix != "", collect(apis, a, hasPrefix(a.Uri, prefix), a), apis)', what="aggregate option keeps the APIs whose URI starts with the prefix")
row(props=["C12", "C03"], func="pkg/domain/api_domain.(RestAPI).BuildFullMethodPath", params=["r"], kind="returns", expr='r.PackageName + "." + r.ClassName + "." + r.MethodName', what="handler full name")

# ------------------------------------------------------------------ C13
ARCH = "pkg/application/arch."
row(props=["C13"], func=ARCH + "addCallInMethod", params=["clz", "idmap", "src", "graph"], kind="emits", target="mapstore:RelationList", tag={}, total=1,
    each={"as": "method,c"}, when='method.Name != "main" && src != c.Package + "." + c.NodeName && has(idmap, c.Package + "." + c.NodeName)',
    fields={"key": 'src + "->" + (c.Package + "." + c.NodeName)', "value.From": "src", "value.To": 'c.Package + "." + c.NodeName'},
    what="call edge ⇔ method other than main calls a different project type")
row(props=["C13"], func=ARCH + "addExtend", params=["clz", "src", "graph"], kind="emits", target="mapstore:RelationList", tag={}, total=1,
    when='clz.Extend != ""', fields={"key": 'src + "->" + clz.Extend', "value.From": "src", "value.To": "clz.Extend"}, what="extends edge")
row(props=["C13"], func=ARCH + "addCallInField", params=["clz", "src", "graph"], kind="emits", target="mapstore:RelationList", tag={}, total=1,
    each={"as": "f"}, when="true", fields={"key": 'src + "->" + (f.Package + "." + f.NodeName)', "value.From": "src", "value.To": 'f.Package + "." + f.NodeName'}, what="field edge")

# ------------------------------------------------------------------ C16 / C17 / C19
row(props=["C16"], func="pkg/application/cloc.IsIgnoreDir", params=["name"], kind="returns",
    expr='name == ".git" || name == ".svn" || name == ".hg" || name == ".idea" || name == "coca_reporter"', what="ignored directories")
row(props=["C17"], kind="final", **{"global": "pkg/application/todo/astitodo.todoIdentifiers"}, value='"TODO","FIXME"', what="todo markers")
row(props=["C17"], func="pkg/application/todo/astitodo.IsTodoIdentifier", params=["s"], kind="returns", result=1,
    expr='hasPrefix(upper(s), "TODO") || hasPrefix(upper(s), "FIXME")', what="marker recognised ⇔ text starts with TODO/FIXME in any case")
row(props=["C17"], func="pkg/application/todo/astitodo.IsTodoIdentifier", params=["s"], kind="returns", result=0,
    expr='ite(hasPrefix(upper(s), "TODO"), 4, ite(hasPrefix(upper(s), "FIXME"), 5, 0))', what="length of the recognised marker")


# ------------------------------------------------------------------ C12 (annotation / verb tables)
API = "pkg/infrastructure/ast/ast_java/ast_api_java."
NAME = "GetText(QualifiedName(ctx))"
CTRL = '(%s == "RestController" || %s == "Controller")' % (NAME, NAME)
MAPPING = "(" + " || ".join('%s == "%s"' % (NAME, n) for n in ["RequestMapping", "GetMapping", "PutMapping", "PostMapping", "DeleteMapping"]) + ")"
for verb, names in [("GET", ["GetMapping", "RequestMethod.GET", "GET"]), ("PUT", ["PutMapping", "RequestMethod.PUT", "PUT"]),
                    ("POST", ["PostMapping", "RequestMethod.POST", "POST"]), ("DELETE", ["DeleteMapping", "RequestMethod.DELETE", "DELETE"]),
                    ("PATCH", ["PatchMapping", "RequestMethod.PATCH", "PATCH"]), ("HEAD", ["RequestMethod.HEAD", "HEAD"]),
                    ("OPTIONS", ["RequestMethod.OPTIONS", "OPTIONS"]), ("TRACE", ["RequestMethod.TRACE", "TRACE"])]:
    row(props=["C12"], func=API + "addApiMethod", params=["name"], kind="emits", target="globalstore:" + API + "currentRestAPI.HttpMethod", tag={"value": verb}, total=8,
        when=" || ".join('name == "%s"' % n for n in names), what="HTTP verb %s ⇔ annotation / method= value in {%s}" % (verb, ", ".join(names)))
row(props=["C12"], func=API + "(JavaAPIListener).EnterAnnotation", params=["s", "ctx"], kind="emits", target="globalstore:" + API + "isSpringRestController", tag={}, total=1,
    when="QualifiedName(ctx) != nil && " + CTRL, fields={"value": "true"}, what="controller ⇔ annotated @RestController or @Controller")
row(props=["C12"], func=API + "(JavaAPIListener).EnterAnnotation", params=["s", "ctx"], kind="emits", target="globalstore:" + API + "hasEnterRestController", tag={}, total=1,
    when="QualifiedName(ctx) != nil && (%s || global(\"%sisSpringRestController\")) && %s && global(\"%shasEnterClass\")" % (CTRL, API, MAPPING, API), fields={"value": "true"},
    what="a handler entry is started ⇔ mapping annotation on a member of a controller (a class-level mapping only gives the base path)")
row(props=["C12"], func=API + "(JavaAPIListener).EnterAnnotation", params=["s", "ctx"], kind="callguard", callee=API + "buildBaseApiUrlString",
    expr="QualifiedName(ctx) != nil && !global(\"%shasEnterClass\")" % API,
    what="the base path is taken from the class-level annotations, whatever their order (@RequestMapping may precede @RestController)")

# ------------------------------------------------------------------ C01 / C02 / C17 extras
RELC = 'call("path/filepath.Rel", call("deref", free_codeDir), path)'
RELP = 'ite(call("extract1", %s) != nil, path, call("extract0", %s))' % (RELC, RELC)
row(props=["C01", "C06", "C09", "C10", "C11", "C12", "C17"], func="pkg/adapter/cocafile.GetFilesWithFilter$1", params=["path", "fi", "err"], kind="returns", expr="nil",
    what="the directory walk is never cut short: the callback returns nil for every entry")
row(props=["C01", "C06", "C09", "C10", "C11", "C12", "C17"], func="pkg/adapter/cocafile.GetFilesWithFilter$1", params=["path", "fi", "err"], kind="emits", target="free:files", tag={}, total=1,
    when='!(call("deref", free_gitIgnore) != nil && call("github.com/sabhiram/go-gitignore.(GitIgnore).MatchesPath", call("deref", free_gitIgnore), ' + RELP + ')) && !exists(call("strings.Split", toSlash(' + RELP + '), "/"), seg, seg == "testData") && fi != nil && !IsDir(fi) && call("dyn", call("deref", free_filter), path)',
    fields={"<elem>": "path"}, what="a file (never a directory) is selected ⇔ not below a fixture directory named testData (a path segment of the relative path, not a substring), not ignored (the ignore file's patterns apply to the path relative to the analysed directory), not under testData, accepted by the filter")
TT = "pkg/infrastructure/ast/ast_java."
# (no row for ParseTargetType: the order field > parameter > local it implements is not what the property asks for — Java scoping is the
#  reverse, and the tables are not scoped per method; a row copied from the code would raise an alarm on a correct repair. DESIGN.md §6.)
row(props=["C17"], func="pkg/application/todo.(TodoApp).AnalysisPath$1", params=["path"], kind="returns",
    expr='exists(call("deref", free_filters), ext, ext != "" && hasSuffix(path, ext))', what="a file is scanned ⇔ its path ends with one of the selected extensions (an empty entry of the list, as in --ext=\".java,\", selects nothing: every path ends with the empty string)")


# ------------------------------------------------------------------ second batch: C13 C20 C18 C16 C15 C05
SRC = 'clz.Package + "." + clz.NodeName'
row(props=["C13"], func=ARCH + "(ArchApp).Analysis", params=["a", "deps", "idmap"], kind="emits", target="mapstore:makemap1", tag={}, total=1, each={"as": "clz"},
    when='clz.NodeName != "Main"', fields={"key": SRC, "value": SRC}, what="one node per project type, the entry class Main excluded")
row(props=["C13"], func=ARCH + "(ArchApp).Analysis", params=["a", "deps", "idmap"], kind="emits", target="mapstore:makemap2", tag={}, total=1, each={"as": "clz,impl"},
    when='clz.NodeName != "Main"', fields={"key": SRC + ' + "->" + impl', "value.From": SRC, "value.To": "impl"}, what="implements edge per implemented interface")
for callee in ["addCallInField", "addExtend", "addCallInMethod"]:
    row(props=["C13"], func=ARCH + "(ArchApp).Analysis", params=["a", "deps", "idmap"], kind="callguard", callee=ARCH + callee, each={"as": "clz"}, expr='clz.NodeName != "Main"',
        what=callee + " runs for every type except Main")
row(props=["C20"], func="pkg/infrastructure/ast/ast_go.(CocagoParser).Visitor$1", params=["node"], kind="callarg", callee="pkg/infrastructure/ast/ast_go.AddStructType", arg=0,
    expr="free_currentStruct.NodeName", what="a struct type is registered under the name of its own type declaration")
EV = "pkg/application/evaluate/evaluator."
MPATH = 'ident.Package + "." + ident.NodeName + "." + method.Name'
row(props=["C18"], func=EV + "(NullPointException).EvaluateList", params=["n", "model", "nodes", "nodeMap", "identifiers"], kind="emits", target="mapstore:makemap1", tag={}, merge=True,
    each={"as": "ident,method"}, when='method.IsReturnNull || exists(method.Annotations, a, a.Name == "Nullable" || a.Name == "CheckForNull")', fields={"key": MPATH},
    what="nullable ⇔ returns null or is annotated @Nullable / @CheckForNull; collected under its full name so each method is listed once")
row(props=["C16"], func="pkg/domain/cloc.BuildLanguageMap", params=["languageMap", "keys", "filePath"], kind="emits", target="mapstore:p0", tag={}, total=1,
    when="true", fields={"key": "trimSuffix(base(filePath), ext(filePath))"}, what="the row is named after the output file without its extension (= the subdirectory name)")
row(props=["C16"], func="cmd.processTopFile", params=["dir"], kind="slicebound", field="Files", each={"as": "summary"},
    expr='ite(ite(len(summary.Files) >= global("cmd.clocConfig").TopSizes, global("cmd.clocConfig").TopSizes, len(summary.Files)) < 0, 0, ite(len(summary.Files) >= global("cmd.clocConfig").TopSizes, global("cmd.clocConfig").TopSizes, len(summary.Files)))',
    what="every language lists its first min(top-size, number of files) files")
def rename_terms(f):
    m = 'call("regexp.(Regexp).FindStringSubmatch", global("pkg/application/git.complexMoveReg"), %s)' % f
    b = 'call("regexp.(Regexp).FindStringSubmatch", global("pkg/application/git.basicMvReg"), %s)' % f
    def side(i):
        return '%s[1] + %s[%d] + ite(%s[%d] == "", call("strings.TrimPrefix", %s[4], "/"), %s[4])' % (m, m, i, m, i, m, m)
    newn = "ite(len(%s) == 5, %s, ite(len(%s) == 3, %s[2], %s))" % (m, side(3), b, b, f)
    oldn = "ite(len(%s) == 5, %s, ite(len(%s) == 3, %s[1], %s))" % (m, side(2), b, b, f)
    return newn, oldn
NEWN, OLDN = rename_terms("f")
for i, e in enumerate([NEWN, OLDN, NEWN]):
    row(props=["C15"], func="pkg/application/git.UpdateMessageForChange", params=["f"], kind="returns", result=i, expr=e,
        what="rename notation decoded into (current, old, new) names: dir/{old => new}/rest without a doubled slash when one side is empty, and old/path => new/path" + " [%d]" % i)
FL = "pkg/infrastructure/ast/ast_java."
IDCOL = "GetColumn(GetStart(Identifier(ctx)))"
NAMEX = 'ite(Identifier(ctx) != nil, GetText(Identifier(ctx)), "")'
for fld, ex in [("Position.StartLine", "GetLine(GetStart(ctx))"), ("Position.StartLinePosition", IDCOL), ("Position.StopLine", "GetLine(GetStop(ctx))"),
                ("Position.StopLinePosition", IDCOL + " + len(" + NAMEX + ")"), ("Name", NAMEX), ("ReturnType", "GetText(TypeTypeOrVoid(ctx))")]:
    row(props=["C05", "C02", "C01"], func=FL + "(JavaFullListener).EnterMethodDeclaration", params=["s", "ctx"], kind="callarg", callee=FL + "buildMethodParameters:1|" + FL + "updateMethod:0", arg=1, field=fld, expr=ex,
        what="declaration entry: " + fld)
for fld, ex in [("Position.StartLine", "GetLine(GetStart(ctx))"), ("Position.StartLinePosition", "GetColumn(GetStart(ctx))"), ("Position.StopLine", "GetLine(GetStop(ctx))"),
                ("Position.StopLinePosition", "GetColumn(GetStart(ctx)) + len(callee)")]:
    row(props=["C05", "C02"], func=FL + "BuildMethodCallLocation", params=["call", "ctx", "callee"], kind="emits", target="paramfield:0." + fld, tag={}, total=1, when="true",
        fields={"value": ex}, what="call site position: " + fld)
row(props=["C02"], func=FL + "(JavaFullListener).EnterMethodCall", params=["s", "ctx"], kind="callarg", callee=FL + "BuildMethodCallLocation", arg=2,
    expr='GetText(call("assert:antlr.ParseTree", GetChild(ctx, 0)))', what="the callee text is the first child of the methodCall node")

# ------------------------------------------------------------------ third batch (after the second round of seeded changes)
PARAM = 'param'
row(props=["C01", "C02"], func=FL + "BuildMethodParameters", params=["parameters"], kind="callarg", callee="pkg/domain/core_domain.NewCodeParameter", arg=0, each={"as": "param"},
    expr='GetText(TypeType(param)) + call("strings.TrimPrefix", GetText(VariableDeclaratorId(param)), GetText(Identifier(VariableDeclaratorId(param))))',
    what="parameter entry: the declared type, including array brackets written after the name (String args[] is a String[])")
row(props=["C01", "C02"], func=FL + "BuildMethodParameters", params=["parameters"], kind="callarg", callee="pkg/domain/core_domain.NewCodeParameter", arg=1, each={"as": "param"},
    expr="GetText(Identifier(VariableDeclaratorId(param)))", what="parameter entry: the declared identifier (not the declarator with its brackets)")
JP = "pkg/infrastructure/jpackage."
row(props=["C03"], func=JP + "GetClassName", params=["path"], kind="returns", expr='call("beforeLast", path, ".")',
    what="the class of a full method name is everything before its last dot")
row(props=["C03"], func=JP + "GetMethodName", params=["path"], kind="returns", expr='call("afterLast", path, ".")',
    what="the method of a full method name is everything after its last dot")
row(props=["C03"], func="pkg/application/call.(CallGraph).AnalysisByFiles", params=["c", "restApis", "deps", "diMap"], kind="returns", result=1, field="Size",
    expr='collect(restApis, api, true, call("strings.Count", anycall("pkg/application/call.BuildCallChain"), " -> ") + 1)',
    what="the reported size of an API's chain is its number of edges plus one")
row(props=["C04"], func="pkg/application/rcall.(RCallGraph).BuildRCallChain", params=["c", "funcName", "methodMap"], kind="callguard", callee="pkg/application/rcall.escapeStr",
    total=2, index=0, in_loop=True, each={"as": "child"}, expr='child != global("pkg/application/rcall.lastChild@loop1") && funcName != child',
    what="inside the caller loop an edge line is written for every caller except the node itself (and the repeated-caller cut-off)")
row(props=["C03"], func="pkg/application/call.BuildCallChain", params=["funcName", "methodMap", "diMap"], kind="callguard", callee="pkg/application/call.escapeStr",
    total=2, index=0, in_loop=True, each={"as": "child"}, expr="true", what="inside the callee loop an edge line is written for every callee")
row(props=["C10"], func="pkg/application/bs.(BadSmellApp).IdentifyBadSmell", params=["j", "nodeInfos", "ignoreRules"], kind="emits", target="mapstore:makemap1", tag={}, total=1,
    each={"as": "ignore"}, when="true", fields={"key": "ignore", "value": "true"}, what="every name of the ignore list is switched off, whatever the name")
EXP0 = "GetText(Expression(ctx, 0))"
row(props=["C06"], func="pkg/application/refactor/base.(JavaRefactorListener).EnterExpression", params=["s", "ctx"], kind="callguard", any_site=True,
    callee="pkg/application/refactor/base/models.(JFullIdentifier).AddField",
    expr='Expression(ctx, 0) != nil && !contains(%s, ".") && call("unicode.IsUpper", call("runes", %s)[0])' % (EXP0, EXP0),
    what="the left operand of every expression is recorded as a referenced name when it is a capitalised simple name (operators, method references, array access alike)")
row(props=["C15"], func="pkg/application/git.BuildChangeMap", params=["commits"], kind="emits", target="mapstore:inner", tag={}, total=1, each={"as": "commit,change"}, when="*",
    fields={"key": rename_terms("change.File")[0]}, what="a change is counted under the file's current (new) name, for both rename notations")
row(props=["C18"], func="pkg/application/evaluate.(Analyser).Analysis", params=["a", "classNodes", "identifiers"], kind="callguard", in_loop=True, each={"as": "node"},
    callee="pkg/application/evaluate.(Evaluation).Evaluate", expr='contains(lower(node.NodeName), "util")',
    what="every utility class is counted and evaluated as one, whatever else its name says")
row(props=["C19"], func="pkg/application/deps.(DepAnalysisApp).AnalysisPath", params=["d", "path", "nodes"], kind="emits", target="mapstore:makemap1", tag={}, total=1,
    each={"as": "dep,key"}, when="contains(key_k, dep.GroupId)", fields={}, what="a dependency counts as used ⇔ its group id occurs in some recorded import")
row(props=["C01", "C11"], func=FL + "(JavaFullListener).exitBody", params=["s"], kind="emits", target="globalstore:pkg/infrastructure/ast/ast_java.currentNode.FilePath", tag={}, total=1,
    when='global("pkg/infrastructure/ast/ast_java.currentNode").NodeName != ""', fields={"value": 'global("pkg/infrastructure/ast/ast_java.fileName")'},
    what="every finished type, not only the first of a file, is given the path of the file it was found in")
row(props=["C01", "C11"], func=FL + "NewJavaFullListener", params=["nodes", "file"], kind="emits", target="globalstore:pkg/infrastructure/ast/ast_java.fileName", tag={}, total=1,
    when="true", fields={"value": "file"}, what="the path of the file being analysed is recorded for its types")
row(props=["C12"], func=API + "(JavaAPIListener).EnterAnnotation", params=["s", "ctx"], kind="emits", target="globalstore:" + API + "currentRestAPI", tag={}, total=1,
    when="*", fields={}, what="the pending entry is started once per mapping annotation; its attribute pairs (method=, value=) only refine it, in any order")
ANN = 'call("assert:*parser.AnnotationContext", GetChild(m, 0))'
row(props=["C12"], func=API + "buildRestApiWithParameters", params=["ctx"], kind="emits", target="globalstore:" + API + "requestBodyClass", tag={}, total=2, each={"as": "param"},
    when='exists(AllVariableModifier(param), m, String(call("reflect.TypeOf", GetChild(m, 0))) == "*parser.AnnotationContext" && QualifiedName(%s) != nil && GetText(QualifiedName(%s)) == "RequestBody")' % (ANN, ANN),
    fields={"value": "GetText(TypeType(param))"}, what="the request body type is the type of the parameter that itself carries @RequestBody")
row(props=["C13"], func="var:pkg/application/arch/tequila.MergeHeaderFunc", params=["input"], kind="returns",
    expr='ite(contains(input, "."), call("beforeLast", input, "."), input)', what="merging by header maps a type to its package: everything before the last dot (the default package is the empty name)")
GIT = "pkg/application/git."
HEAD = 'call("regexp.(Regexp).FindStringSubmatch", global("pkg/application/git.headerReg"), text)'
row(props=["C14"], func=GIT + "ParseLog", params=["text"], kind="emits", target="globalstore:" + GIT + "currentCommit.Rev", tag={}, total=2, index=0,
    when="len(%s) == 5" % HEAD, fields={"value": HEAD + "[1]"},
    what="a line that has the header form starts a commit, whatever came before it (two headers may follow each other: merges, empty commits)")
for i, fld in [(2, "Author"), (3, "Date"), (4, "Message")]:
    row(props=["C14"], func=GIT + "ParseLog", params=["text"], kind="emits", target="globalstore:" + GIT + "currentCommit." + fld, tag={}, total=2, index=0,
        when="len(%s) == 5" % HEAD, fields={"value": HEAD + "[%d]" % i}, what="header field %s is the matching group of the header pattern, uncut" % fld)
CM = 'call("regexp.(Regexp).FindStringSubmatch", global("pkg/application/git.changeModeReg"), text)'
row(props=["C14"], func=GIT + "buildChangeMode", params=["text"], kind="emits", target="mapstore:currentFileChangeMap", tag={}, total=1,
    when='len(%s) > 4 && has(global("pkg/application/git.currentFileChangeMap"), %s[4])' % (CM, CM), fields={"key": CM + "[4]", "value.Mode": CM + "[1]"},
    what="a create/delete summary line sets the mode of the change recorded under exactly that path")
row(props=["C14"], func=GIT + "buildChangeMode", params=["text"], kind="emits", target="global:" + GIT + "currentFileChanges", tag={"Mode": "delete"}, total=1,
    when='len(%s) > 4 && !has(global("pkg/application/git.currentFileChangeMap"), %s[4]) && %s[1] == "delete"' % (CM, CM, CM), fields={"File": CM + "[4]"},
    what="a deletion without a numstat line is recorded under the path of the summary line")
DL = 'anycall("outparam:encoding/json.Unmarshal")'
row(props=["C16"], func="pkg/domain/cloc.BuildLanguageMap", params=["languageMap", "keys", "filePath"], kind="emits", target="mapstore:inner", tag={}, total=2, index=0, each={"as": "key"},
    when="exists(%s, l, key == l.Name)" % DL, fields={"key": "key"}, what="a header language gets the directory's figures ⇔ the directory's summary lists it, wherever in that list")
row(props=["C16"], func="pkg/domain/cloc.BuildLanguageMap", params=["languageMap", "keys", "filePath"], kind="emits", target="mapstore:inner", tag={}, total=2, index=1, each={"as": "key"},
    when="!exists(%s, l, key == l.Name)" % DL, fields={"key": "key"}, what="a header language the directory does not contain gets an empty cell")
PYN = 'ite(OPEN_PAREN(From_stmt_as_names(ctx)) != nil, GetText(Import_as_names(From_stmt_as_names(ctx))), GetText(From_stmt_as_names(ctx)))'
row(props=["C20"], func="pkg/infrastructure/ast/ast_python.(PythonIdentListener).EnterFrom_stmt", params=["s", "ctx"], kind="callarg", callee="strings.Split", arg=0,
    expr='trimSuffix(%s, ",")' % PYN, what="the imported names are split out of the name list without its parentheses and without the trailing comma Python allows inside them")
row(props=["C20"], func="pkg/infrastructure/ast/ast_python.(PythonIdentListener).EnterFrom_stmt", params=["s", "ctx"], kind="callguard", callee="strings.Split",
    expr='contains(trimSuffix(%s, ","), ",")' % PYN, what="a from-import with several names records each of them")
STARTED = 'QualifiedName(ctx) != nil && (%s || global("%sisSpringRestController")) && %s && global("%shasEnterClass")' % (CTRL, API, MAPPING, API)
PAIRTXT = 'GetText(ElementValue(pair))'
row(props=["C12"], func=API + "(JavaAPIListener).EnterAnnotation", params=["s", "ctx"], kind="emits", target="globalstore:" + API + "currentRestAPI.Uri", tag={}, total=2, each={"as": "pair"},
    when=STARTED + ' && ElementValuePairs(ctx) != nil && GetText(Identifier(pair)) == "value"',
    fields={"value": 'global("%sbaseApiUrl") + ite(len(%s) < 2, %s, call("slice", %s, 1, len(%s) - 1))' % (API, PAIRTXT, PAIRTXT, PAIRTXT, PAIRTXT)},
    what="the value= attribute gives the path of every mapping annotation, shorthand (@PutMapping(value = ...)) and @RequestMapping alike")
row(props=["C06"], func="pkg/application/refactor/unused.(RemoveUnusedImportApp).Refactoring", params=["j", "resultNodes"], kind="callguard", in_loop=True, each={"as": "node"},
    callee="pkg/application/refactor/unused.removeImportByLines", expr="true",
    what="every analysed file is cleaned, whatever kind its top-level type is (class, interface, enum, annotation type, record)")
RL = "pkg/application/refactor/base.(JavaRefactorListener)."
ADDF = "pkg/application/refactor/base/models.(JFullIdentifier).AddField"
row(props=["C06"], func=RL + "EnterAnnotation", params=["s", "ctx"], kind="callarg", callee=ADDF, arg=1, field="Name",
    expr='call("strings.Split", GetText(QualifiedName(ctx)), ".")[0]', what="an annotation references the first segment of its (possibly qualified) name: @Value.Immutable uses the import of Value")
row(props=["C06"], func=RL + "EnterQualifiedNameList", params=["s", "ctx"], kind="callarg", callee=ADDF, arg=1, field="Name", each={"as": "q"},
    expr='call("strings.Split", GetText(q), ".")[0]', what="a thrown type references the first segment of its name")
row(props=["C06"], func=RL + "EnterCatchType", params=["s", "ctx"], kind="callarg", callee=ADDF, arg=1, field="Name", each={"as": "q"},
    expr='call("strings.Split", GetText(q), ".")[0]', what="a caught type references the first segment of its name")
row(props=["C01", "C02"], func=FL + "getMethodMapName", params=["method"], kind="depends", fields={"Name": "", "Position.StartLine": "", "Position.StartLinePosition": ""},
    what="two declarations never share an entry of the per-class method table: the key identifies a declaration by name and start position (line and column)")
row(props=["C12"], func=API + "(JavaAPIListener).EnterAnnotation", params=["s", "ctx"], kind="callarg", callee=API + "addApiMethod", arg=0, total=2, index=1, each={"as": "pair"},
    expr='call("strings.Trim", %s, "{}")' % PAIRTXT, what="method= names the verb in plain or in array form: method = RequestMethod.GET and method = {RequestMethod.GET}")
IDL = "pkg/infrastructure/ast/ast_java/java_identify."
row(props=["C18"], func=IDL + "(JavaIdentifierListener).EnterExpression", params=["s", "ctx"], kind="emits", target="globalstore:" + IDL + "currentMethod.IsReturnNull", tag={}, total=1,
    when='String(call("reflect.TypeOf", GetParent(ctx))) == "*parser.StatementContext" && lower(GetText(GetChild(GetParent(ctx), 0))) == "return" && contains(GetText(ctx), "null")',
    fields={"value": "true"}, what="a method is nullable as soon as one of its return statements returns null: the flag is only ever set, a later return does not clear it")
row(props=["C02"], func=FL + "(JavaFullListener).EnterLocalVariableDeclaration", params=["s", "ctx"], kind="emits", target="mapstore:localVars", tag={}, total=1, each={"as": "d"},
    when="TypeType(ctx) != nil", fields={"key": "GetText(Identifier(VariableDeclaratorId(d)))", "value": "GetText(TypeType(ctx))"},
    what="every declarator of a local variable declaration is registered with the declared type, whatever modifiers (final, annotations) precede the type")
IBD = "InterfaceCommonBodyDeclaration(ctx)"
IIDCOL = "GetColumn(GetStart(Identifier(%s)))" % IBD
INAME = "GetText(Identifier(%s))" % IBD
for fld, ex in [("Position.StartLine", "GetLine(GetStart(ctx))"), ("Position.StartLinePosition", IIDCOL), ("Position.StopLine", "GetLine(GetStop(ctx))"),
                ("Position.StopLinePosition", IIDCOL + " + len(" + INAME + ")"), ("Name", INAME)]:
    row(props=["C05", "C01"], func=FL + "(JavaFullListener).EnterInterfaceMethodDeclaration", params=["s", "ctx"], kind="callarg", callee=FL + "buildMethodParameters:1|" + FL + "updateMethod:0", arg=1, field=fld, expr=ex,
        what="interface method entry, like a class method's: " + fld)
MRID = "Identifier(ctx)"
for fld, ex in [("Position.StartLine", "GetLine(GetStart(%s))" % MRID), ("Position.StartLinePosition", "GetColumn(GetStart(%s))" % MRID), ("Position.StopLine", "GetLine(GetStart(%s))" % MRID),
                ("Position.StopLinePosition", "GetColumn(GetStart(%s)) + len(GetText(%s))" % (MRID, MRID)), ("FunctionName", "GetText(%s)" % MRID)]:
    row(props=["C05", "C02"], func=FL + "(JavaFullListener).EnterExpression", params=["s", "ctx"], kind="callarg", callee=FL + "sendResultToMethodCallMap", arg=0, field=fld, expr=ex,
        what="method reference Type::name: the recorded position selects the name: " + fld)
row(props=["C16"], func="cmd.processTopFile", params=["dir"], kind="callguard", callee="cmd/cmd_util.NewOutput", each={"as": "summary"}, expr="true",
    what="every language of the tree gets its table of top files, however many languages there are")
UNQ = 'replaceAll(replaceAll(text, "\'", ""), "\\"", "")'
for i, w in [(0, "group id"), (1, "artifact id")]:
    row(props=["C19"], func="pkg/infrastructure/ast/ast_groovy.ConvertToJDep", params=["text"], kind="callarg", callee="pkg/domain/core_domain.NewCodeDependency", arg=i,
        expr='call("strings.Split", %s, ":")[%d]' % (UNQ, i), what="the %s of a Gradle notation, single- or double-quoted: the quotes are no part of it" % w)

# ---- round-3 additions
row(props=["C06"], func="pkg/application/refactor/base/models.(JFullIdentifier).AddImport", params=["identifier", "jImport"], kind="emits", target="field:p0.imports", tag={}, total=1,
    when="true", fields={}, what="every import declaration of a file is kept as its own entry (each is one line that may have to be deleted), also a repeated one")
CH = 'call("regexp.(Regexp).FindStringSubmatch", global("pkg/application/git.changesReg"), text)'
row(props=["C14"], func=GIT + "ParseLog", params=["text"], kind="emits", target="mapstore:currentFileChangeMap", tag={}, total=1,
    when='!(len(%s) == 5) && call("regexp.(Regexp).MatchString", global("pkg/application/git.changesReg"), text)' % HEAD,
    fields={"key": CH + "[3]", "value.File": CH + "[3]", "value.Added": 'call("extract0", call("strconv.Atoi", %s[1]))' % CH, "value.Deleted": 'call("extract0", call("strconv.Atoi", %s[2]))' % CH},
    what="a numstat line records one change under the path exactly as git prints it (the key the mode lines look it up by), with the added and deleted counts in git's column order")
row(props=["C15"], func=GIT + "switchMapFile", params=["infos", "oldFileName", "newFileName"], kind="emits", target="mapstore:p0", tag={}, total=1,
    when="has(infos, oldFileName)", fields={"key": "newFileName", "value.EntityName": "newFileName"},
    what="a rename moves the file's history to the new name in the summary table the caller keeps folding into")
GOV = "pkg/infrastructure/ast/ast_go.(CocagoParser).Visitor$1"
TS = 'call("assert:*ast.TypeSpec", node)'
row(props=["C20"], func=GOV, params=["node"], kind="emits", target="freestore:currentStruct.NodeName", tag={}, total=1,
    when='call("extract1", %s)' % TS, fields={"value": 'call("extract0", %s).Name.Name' % TS},
    what="every type declaration becomes the current type, so the struct body that follows is recorded under its own name, also when a method above it already registered the name")
WORD = '!(ite(call("regexp.(Regexp).MatchString", call("regexp.MustCompile", "^[0-9]+$"), w), "", trimSpace(w)) == "")'
for idx, c in [(2, "lookup(call(\"makemap1\"), w) == 0"), (3, "!(lookup(call(\"makemap1\"), w) == 0)")]:
    row(props=["C18"], func="pkg/application/concept.SegmentCamelcase", params=["names"], kind="emits", target="mapstore:makemap1", tag={}, total=4, index=idx, each={"as": "name,w"},
        when=WORD + " && " + c, fields={"key": "w"}, what="every non-empty word of every method name is counted under itself, and the empty string is no word")

T17 = "trimSpace(GetText(token))"
row(props=["C17"], func="pkg/application/todo/astitodo.ParseComment", params=["token", "filename"], kind="callarg", callee="pkg/application/todo/astitodo.IsTodoIdentifier", arg=0,
    assume='hasPrefix(%s, "//") || hasPrefix(%s, "/*") || hasPrefix(%s, "#")' % (T17, T17, T17),
    expr='ite(hasPrefix(%s, "#"), trimSpace(call("slice", %s, 1, len(%s))), trimSpace(call("slice", %s, 2, len(%s))))' % (T17, T17, T17, T17, T17),
    what="the marker test looks at the comment's text after ONE comment marker (// /* #, which the comment lexer guarantees) and blanks: a second marker-like sequence is text")

row(props=["C17"], func="varfield:cmd.todoCmd.Run", params=["cmd", "args"], kind="callarg", callee="pkg/application/todo.(TodoApp).AnalysisPath", arg=2,
    expr='call("strings.Split", global("cmd.todoCmdConfig").Extensions, ",")', what="the selected extensions are the entries of --ext as given (the match against the file name is case-sensitive)")

row(props=["C19"], func="varfield:analysis/dep/app.depsCmd.Run", params=["cmd", "args"], kind="callarg", callee="pkg/adapter/cocafile.GetFilesWithFilter", arg=1,
    expr='global("pkg/adapter/cocafile.JavaFileFilter")', no_inline=["pkg/adapter/cocafile.GetFilesWithFilter"],
    what="the imports are collected from every Java source file of the project, test sources included (the all-Java filter, not the code-only one)")

IGN = 'exists(list(".git", ".svn", ".hg", ".idea", "coca_reporter"), x, x == base(dir))'
row(props=["C16"], func="cmd.processDirs", params=["dirs"], kind="callguard", callee="cmd.runProcessor", in_loop=True, each={"as": "dir"},
    expr="!(%s)" % IGN, what="the counter is run for exactly the subdirectories that get a row (every one that is not a VCS/IDE/report directory), so each row's report file is written afresh — also for an empty directory, whose report would otherwise be a left-over of an earlier run")
row(props=["C16"], func="cmd.processDirs", params=["dirs"], kind="returns",
    expr='collect(dirs, dir, !(%s), call("path/filepath.FromSlash", global("cmd/config.CocaConfig").ReporterPath + "/cloc/" + base(dir) + ".json"))' % IGN,
    what="one report file per subdirectory that is not a VCS/IDE/report directory, named after the directory")

OLD = 'call("pkg/application/refactor/rename/support.BuildMethodPackageInfo", rel.OldObj)'
RN = "pkg/application/refactor/rename."
row(props=["C05"], func=RN + "startParse", params=["nodes", "relates"], kind="callguard", callee=RN + "updateSelfRefs", total=2, index=0, each={"as": "node,rel,m"},
    expr='node.Package == %s.Package && node.NodeName == %s.Class && m.Name == %s.Method' % (OLD, OLD, OLD),
    what="the declaration is rewritten ⇔ its class has the package and the name of the entry and the method its name (the two parts compared each for itself: package a + class bc is not package ab + class c)")
row(props=["C05"], func=RN + "startParse", params=["nodes", "relates"], kind="callguard", callee=RN + "updateSelfRefs", total=2, index=1, each={"as": "node,rel,m,call"},
    expr='call.Package == %s.Package && call.NodeName == %s.Class && call.FunctionName == %s.Method' % (OLD, OLD, OLD),
    what="a call site is rewritten ⇔ the call is recorded against the package, class and method of the entry")

row(props=["C20"], func="pkg/infrastructure/ast/ast_go.BuildImport", params=["x", "fileName", "manager"], kind="callarg", callee="strings.ReplaceAll", total=2, index=0, arg=0,
    expr='call("slice", x.Path.Value, 1, len(x.Path.Value) - 1)', what="an import is listed under the path between the delimiters of its literal — one character at each end, a double quote or a back quote (import `os` is valid Go)")

EVT = "GetText(ElementValue(ctx))"
EXCL = "!(ElementValuePairs(ctx) != nil && ElementValue(ctx) != nil)"  # grammar: annotation : '@' qualifiedName ('(' (elementValuePairs | elementValue)? ')')?
row(props=["C12"], func=API + "buildBaseApiUrlString", params=["name", "ctx"], kind="emits", target="globalstore:" + API + "baseApiUrl", tag={}, total=2, index=1, assume=EXCL,
    when='name == "RequestMapping" && ElementValuePairs(ctx) == nil && ElementValue(ctx) != nil',
    fields={"value": 'ite(len(%s) < 2, %s, call("slice", %s, 1, len(%s) - 1))' % (EVT, EVT, EVT, EVT)},
    what="the base path of a controller is the path its class-level @RequestMapping names (shorthand form); a mapping that names no path contributes none — the URI is the base path followed by the method's path, so no constant is ever put in front")
row(props=["C12"], func=API + "buildBaseApiUrlString", params=["name", "ctx"], kind="emits", target="globalstore:" + API + "baseApiUrl", tag={}, total=2, index=0, each={"as": "pair"}, assume=EXCL,
    when='name == "RequestMapping" && ElementValuePairs(ctx) != nil && GetText(Identifier(pair)) == "value"',
    fields={"value": 'ite(len(%s) < 2, %s, call("slice", %s, 1, len(%s) - 1))' % (PAIRTXT, PAIRTXT, PAIRTXT, PAIRTXT)},
    what="the base path of a controller is the value= of its class-level @RequestMapping")

IFACE = "lookup(idmap, impl)"
row(props=["C03"], func="pkg/domain/core_domain.BuildDIMap", params=["identifiers", "idmap"], kind="emits", target="mapstore:makemap1", tag={}, total=1, each={"as": "clz,ann,impl"},
    when="*", fields={"key": '%s.Package + "." + %s.NodeName' % (IFACE, IFACE), "value": 'clz.Package + "." + clz.NodeName'},
    what="the injection table maps every interface a component implements to that component (the registered implementation the call graph substitutes), not to itself")

for nm, base in [("PomXmlFilter", "pom.xml"), ("BuildGradleFilter", "build.gradle")]:
    row(props=["C19"], func="var:pkg/adapter/cocafile." + nm, params=["path"], kind="returns", expr='base(path) == "%s"' % base,
        what="a build manifest is a file named %s, not any file whose name ends that way (dependency-reduced-pom.xml, extra-build.gradle)" % base)
row(props=["C20"], func="varfield:analysis/python/app.analysisCmd.Run", params=["cmd", "args"], kind="callarg", callee="pkg/application/analysis.CommonAnalysis", arg=3,
    expr='global("pkg/adapter/cocafile.PythonFileFilter")', what="the Python analysis reads Python files")

IDS = "AllIdentifier(CreatedName(ctx))"
row(props=["C02"], func=FL + "(JavaFullListener).EnterCreator", params=["s", "ctx"], kind="callarg", callee=FL + "buildCreatorCall", arg=0,
    expr="GetText(%s[len(%s) - 1])" % (IDS, IDS), what="a creation is recorded under the last identifier of the created name (type arguments are no part of it: new ArrayList<Map.Entry<K,V>>() creates an ArrayList)")
row(props=["C02"], func=FL + "BuildMethodCallMethod", params=["call", "callee", "targetType", "ctx"], kind="callarg", callee=FL + "WarpTargetFullType", arg=0,
    expr="targetType", what="the receiver is resolved under the text it was written with (an unqualified call is recognised by its whole text; cutting that text at a '<' of its arguments loses the call)")

# ------------------------------------------------------------------ the text that is analysed is the text that was given
NIS = "github.com/antlr/antlr4/runtime/Go/antlr/v4.NewInputStream"
row(props=["C19"], func="pkg/infrastructure/ast/ast_groovy.ProcessGroovyString", params=["code"], kind="callarg", callee=NIS, arg=0, expr="code",
    what="the Gradle script reaches the lexer as it was read (what looks like a comment may stand inside a string)")
row(props=["C01", "C02", "C09"], func="pkg/infrastructure/ast/ast_java.ProcessJavaString", params=["code"], kind="callarg", callee=NIS, arg=0, expr="code",
    what="the Java text reaches the lexer as it was given")
row(props=["C20"], func="pkg/application/analysis/pyapp.ProcessPythonString", params=["code"], kind="callarg", callee=NIS, arg=0, expr="code",
    what="the Python text reaches the lexer as it was given")

json.dump({"e5": rows}, open(os.path.join(os.path.dirname(os.path.dirname(os.path.abspath(__file__))), "spec", "e5.json"), "w"), indent=1, ensure_ascii=False)
print(len(rows), "rows")
