package javaapp

import "testing"

// OPTIONAL extras for property C02 (beyond the four primary defects in
// defect_c02_test.go, whose helpers this file reuses). Each has its own root cause.

// Extra A: `f(x, new T())` re-types the local `x` as T, because EnterCreator
// takes "first child of the grand-parent" as the assigned variable name; for a
// creator inside an argument list that is the FIRST ARGUMENT.
func TestDefect_C02_Extra_NewInArgumentListRetypesFirstArgument(t *testing.T) {
	nodes, p := c02Analyse(t, map[string]string{
		"p/B.java":      c02B,
		"p/Helper.java": c02PHelper,
		"p/A.java": `package p;

public class A {
    public void work() {
        Helper h = make();
        register(h, new B());
        h.run();
    }

    Helper make() { return null; }

    void register(Helper h, B b) {}
}
`,
	})
	if p != nil {
		t.Fatalf("panic: %v", p)
	}
	c02Expect(t, nodes, "p", "A", "work", []c02Call{
		{"p", "A", "make"},
		{"p", "A", "register"},
		{"p", "B", ""},
		{"p", "Helper", "run"},
	})
}

// Extra B: an anonymous class whose body contains any `new X()` makes
// ExitCreator(new X()) clear currentType while still inside the anonymous
// body; the anonymous body's '}' is then treated as the end of the ENCLOSING
// class: calls written after the anonymous class are lost, and every later
// method of the class is dropped.
func TestDefect_C02_Extra_AnonymousClassContainingNew(t *testing.T) {
	nodes, p := c02Analyse(t, map[string]string{
		"p/B.java": c02B,
		"p/A.java": `package p;

public class A {
    private B b;

    public void work() {
        Runnable r = new Runnable() {
            public void run() {
                B x = new B();
            }
        };
        b.count();
    }

    public void later() {
        b.go();
    }
}
`,
	})
	if p != nil {
		t.Fatalf("panic: %v", p)
	}
	c02Expect(t, nodes, "p", "A", "later", []c02Call{{"p", "B", "go"}})
	c02Expect(t, nodes, "p", "A", "work", []c02Call{
		{"", "Runnable", ""},
		{"p", "B", ""},
		{"p", "B", "count"},
	})
}

// Extra C: a nested class declared between two methods. Methods written before
// it are dropped from the outer class, and after it currentClz is "" so an
// implicit-receiver call is recorded against the class name "".
func TestDefect_C02_Extra_NestedClassBetweenMethods(t *testing.T) {
	nodes, p := c02Analyse(t, map[string]string{
		"p/B.java": c02B,
		"p/A.java": `package p;

public class A {
    private B b;

    public void before() {
        b.go();
    }

    static class Inner {
        void innerM() {}
    }

    public void after() {
        helper();
    }

    void helper() {}
}
`,
	})
	if p != nil {
		t.Fatalf("panic: %v", p)
	}
	c02Expect(t, nodes, "p", "A", "after", []c02Call{{"p", "A", "helper"}})
	c02Expect(t, nodes, "p", "A", "before", []c02Call{{"p", "B", "go"}})
}
