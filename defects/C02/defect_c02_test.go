package javaapp

import (
	"fmt"
	"os"
	"path/filepath"
	"testing"

	"github.com/modernizing/coca/pkg/domain/core_domain"
)

// ---------------------------------------------------------------------------
// helpers (self-contained; only the public javaapp APIs are used)
// ---------------------------------------------------------------------------

// c02Analyse writes the given Java sources (relative path -> content) into a
// temporary directory and runs the two real passes (identifier pass, then the
// full pass) exactly like `coca analysis` does.
func c02Analyse(t *testing.T, files map[string]string) (nodes []core_domain.CodeDataStruct, panicked interface{}) {
	t.Helper()
	dir := t.TempDir()
	for name, content := range files {
		p := filepath.Join(dir, filepath.FromSlash(name))
		if err := os.MkdirAll(filepath.Dir(p), 0o755); err != nil {
			t.Fatal(err)
		}
		if err := os.WriteFile(p, []byte(content), 0o644); err != nil {
			t.Fatal(err)
		}
	}
	defer func() {
		if r := recover(); r != nil {
			panicked = r
		}
	}()
	identifierApp := NewJavaIdentifierApp()
	iNodes := identifierApp.AnalysisPath(dir)
	callApp := NewJavaFullApp()
	nodes = callApp.AnalysisPath(dir, iNodes)
	return nodes, nil
}

func c02Function(nodes []core_domain.CodeDataStruct, pkg, class, fn string) *core_domain.CodeFunction {
	for i := range nodes {
		if nodes[i].Package != pkg || nodes[i].NodeName != class {
			continue
		}
		for j := range nodes[i].Functions {
			if nodes[i].Functions[j].Name == fn {
				return &nodes[i].Functions[j]
			}
		}
	}
	return nil
}

type c02Call struct {
	Package, NodeName, FunctionName string
}

func c02Calls(f *core_domain.CodeFunction) []c02Call {
	var out []c02Call
	for _, c := range f.FunctionCalls {
		out = append(out, c02Call{c.Package, c.NodeName, c.FunctionName})
	}
	return out
}

func c02Expect(t *testing.T, nodes []core_domain.CodeDataStruct, pkg, class, fn string, want []c02Call) {
	t.Helper()
	f := c02Function(nodes, pkg, class, fn)
	if f == nil {
		t.Fatalf("function %s.%s.%s is not recorded at all", pkg, class, fn)
	}
	got := c02Calls(f)
	if fmt.Sprint(got) != fmt.Sprint(want) {
		t.Fatalf("calls recorded for %s.%s.%s\n got: %v\nwant: %v", pkg, class, fn, got, want)
	}
}

const c02B = `package p;

public class B {
    public B go() { return this; }
    public int count() { return 1; }
}
`

const c02PHelper = `package p;

public class Helper {
    public void run() {}
}
`

const c02QHelper = `package p.q;

public class Helper {
    public void run() {}
}
`

// ---------------------------------------------------------------------------
// Defect 1: the parameter table is never emptied between methods and is
// consulted before the local-variable table, so a parameter `Helper item` of
// an EARLIER method re-types the local `B item` of a later method.
// ---------------------------------------------------------------------------
func TestDefect_C02_StaleParameterRetypesLocal(t *testing.T) {
	nodes, p := c02Analyse(t, map[string]string{
		"p/B.java":      c02B,
		"p/Helper.java": c02PHelper,
		"p/A.java": `package p;

public class A {
    private B b;

    public void first(Helper item) {
        item.run();
    }

    public void second() {
        B item = b.go();
        item.go();
    }
}
`,
	})
	if p != nil {
		t.Fatalf("panic: %v", p)
	}
	c02Expect(t, nodes, "p", "A", "first", []c02Call{{"p", "Helper", "run"}})
	// `item` in second() is a local variable declared as B (project class p.B)
	c02Expect(t, nodes, "p", "A", "second", []c02Call{{"p", "B", "go"}, {"p", "B", "go"}})
}

// ---------------------------------------------------------------------------
// Defect 2: `this.<field>.m()` in a class that has at least one import is
// recorded against the literal text "this.<field>" in the package of the
// FIRST import of the file (HasSuffix(imp, "") is always true when the class
// has no `extends`).
// ---------------------------------------------------------------------------
func TestDefect_C02_ThisFieldReceiverWithImports(t *testing.T) {
	nodes, p := c02Analyse(t, map[string]string{
		"p/q/Helper.java": c02QHelper,
		"p/A.java": `package p;

import java.util.List;
import p.q.Helper;

public class A {
    private Helper helper;
    private List<String> names;

    public void work() {
        helper.run();
        this.helper.run();
    }
}
`,
	})
	if p != nil {
		t.Fatalf("panic: %v", p)
	}
	// both invocations have the field `helper` (declared type: imported class p.q.Helper) as receiver
	c02Expect(t, nodes, "p", "A", "work", []c02Call{{"p.q", "Helper", "run"}, {"p.q", "Helper", "run"}})
}

// ---------------------------------------------------------------------------
// Defect 3: an import is matched with HasSuffix(import, simpleName) without a
// '.' boundary, so the receiver type `Helper` is resolved through the earlier
// import `p.r.SuperHelper`.
// ---------------------------------------------------------------------------
func TestDefect_C02_ImportMatchedBySuffixOfSimpleName(t *testing.T) {
	nodes, p := c02Analyse(t, map[string]string{
		"p/q/Helper.java": c02QHelper,
		"p/r/SuperHelper.java": `package p.r;

public class SuperHelper {
    public void run() {}
}
`,
		"p/A.java": `package p;

import p.r.SuperHelper;
import p.q.Helper;

public class A {
    private SuperHelper superHelper;
    private Helper helper;

    public void work(Helper h) {
        superHelper.run();
        helper.run();
        h.run();
        Helper made = new Helper();
    }
}
`,
	})
	if p != nil {
		t.Fatalf("panic: %v", p)
	}
	c02Expect(t, nodes, "p", "A", "work", []c02Call{
		{"p.r", "SuperHelper", "run"},
		{"p.q", "Helper", "run"},
		{"p.q", "Helper", "run"},
		{"p.q", "Helper", ""}, // new Helper()
	})
}

// ---------------------------------------------------------------------------
// Defect 4: a local variable declared with a modifier (`final B fb = ...`) or
// as the second declarator of a declaration (`B m1 = ..., m2 = ...`) is not
// entered into the local-variable table, so calls on it are recorded against
// the variable NAME instead of its declared type.
// ---------------------------------------------------------------------------
func TestDefect_C02_FinalLocalReceiver(t *testing.T) {
	nodes, p := c02Analyse(t, map[string]string{
		"p/B.java": c02B,
		"p/A.java": `package p;

public class A {
    private B b;

    public void plain() {
        B pb = b.go();
        pb.go();
    }

    public void work() {
        final B fb = b.go();
        fb.go();
    }

    public void multi() {
        B m1 = b.go(), m2 = b.go();
        m2.go();
    }
}
`,
	})
	if p != nil {
		t.Fatalf("panic: %v", p)
	}
	// control: without the modifier the local is resolved
	c02Expect(t, nodes, "p", "A", "plain", []c02Call{{"p", "B", "go"}, {"p", "B", "go"}})
	c02Expect(t, nodes, "p", "A", "work", []c02Call{{"p", "B", "go"}, {"p", "B", "go"}})
	c02Expect(t, nodes, "p", "A", "multi", []c02Call{{"p", "B", "go"}, {"p", "B", "go"}, {"p", "B", "go"}})
}
