package arch

import (
	"fmt"
	"sort"
	"strings"
	"testing"

	"github.com/awalterschulze/gographviz"
	"github.com/modernizing/coca/pkg/application/arch/tequila"
	"github.com/modernizing/coca/pkg/domain/core_domain"
)

// ---------------------------------------------------------------------------
// helpers
// ---------------------------------------------------------------------------

var c13IncludeAll = func(string) bool { return true }

func c13Type(pkg string, name string) core_domain.CodeDataStruct {
	return core_domain.CodeDataStruct{Package: pkg, NodeName: name, Type: "Class"}
}

// the model shape the Java listener produces for `private <typ> x;` where <typ> resolves to pkg.typ
func c13FieldOf(clz *core_domain.CodeDataStruct, pkg string, typ string) {
	clz.Fields = append(clz.Fields, core_domain.CodeField{TypeType: typ, TypeValue: strings.ToLower(typ)})
	clz.FunctionCalls = append(clz.FunctionCalls, core_domain.CodeCall{Package: pkg, Type: "field", NodeName: typ})
}

func c13MethodCalling(clz *core_domain.CodeDataStruct, method string, pkg string, typ string, callee string) {
	clz.Functions = append(clz.Functions, core_domain.CodeFunction{
		Name: method,
		FunctionCalls: []core_domain.CodeCall{
			{Package: pkg, NodeName: typ, FunctionName: callee},
		},
	})
}

func c13Unquote(s string) string {
	return strings.Trim(s, "\"")
}

// c13Displayed returns, for every box drawn in the DOT, its full dotted path (labels of the enclosing clusters
// joined with the label of the box) -> DOT node name.
func c13Displayed(graph *gographviz.Graph) map[string][]string {
	result := make(map[string][]string)
	for _, node := range graph.Nodes.Nodes {
		path := []string{c13Unquote(node.Attrs[gographviz.Label])}
		current := node.Name
		for {
			parent := ""
			for p := range graph.Relations.ChildToParents[current] {
				parent = p
			}
			if parent == "" || parent == graph.Name {
				break
			}
			sub := graph.SubGraphs.SubGraphs[parent]
			if sub == nil {
				break
			}
			path = append([]string{c13Unquote(sub.Attrs[gographviz.Label])}, path...)
			current = parent
		}
		full := strings.Join(path, ".")
		result[full] = append(result[full], node.Name)
	}
	return result
}

// c13Edges returns the drawn edges as "fromPath->toPath", sorted.
func c13Edges(graph *gographviz.Graph) []string {
	nameToPath := make(map[string]string)
	for path, names := range c13Displayed(graph) {
		for _, name := range names {
			nameToPath[name] = path
		}
	}
	var edges []string
	for _, edge := range graph.Edges.Edges {
		edges = append(edges, nameToPath[edge.Src]+"->"+nameToPath[edge.Dst])
	}
	sort.Strings(edges)
	return edges
}

func c13RelationKeys(graph *tequila.FullGraph) []string {
	var keys []string
	for _, relation := range graph.RelationList {
		keys = append(keys, relation.From+"->"+relation.To)
	}
	sort.Strings(keys)
	return keys
}

func c13NodeKeys(graph *tequila.FullGraph) []string {
	var keys []string
	for key := range graph.NodeList {
		keys = append(keys, key)
	}
	sort.Strings(keys)
	return keys
}

// ---------------------------------------------------------------------------
// Defect 1: relations (extends / implements / field) to NON-project types are kept as edges, and merging
// attaches them to whatever project package happens to share the merged name (phantom edge in the DOT);
// SortedByFan even crashes on them.
//
// Java input the model below corresponds to:
//
//   package com.acme.web;
//   import org.springframework.core.Base;
//   import java.util.List;
//   public class Controller extends Base { private List<String> names; }
//
//   package org.acme.ext;
//   public class Plugin { }
// ---------------------------------------------------------------------------
func TestDefect_C13_ExternalTypeRelation(t *testing.T) {
	defer func() {
		if r := recover(); r != nil {
			t.Errorf("panic: %v", r)
		}
	}()

	controller := c13Type("com.acme.web", "Controller")
	controller.Extend = "org.springframework.core.Base"
	c13FieldOf(&controller, "java.util", "List")
	plugin := c13Type("org.acme.ext", "Plugin")

	deps := []core_domain.CodeDataStruct{controller, plugin}
	identifiersMap := core_domain.BuildIdentifierMap(deps)

	result := NewArchApp().Analysis(deps, identifiersMap)

	// (a) the two project types do not depend on each other at all: the graph has two nodes and no edge
	if got := c13NodeKeys(result); fmt.Sprint(got) != "[com.acme.web.Controller org.acme.ext.Plugin]" {
		t.Errorf("nodes: %v", got)
	}
	for _, relation := range result.RelationList {
		if _, ok := result.NodeList[relation.To]; !ok {
			t.Errorf("edge %s -> %s : target is not a project type (not a node of the graph)", relation.From, relation.To)
		}
	}

	// (b) quotient by the package function (coca arch -P): packages "com" and "org", no edge between them
	merged := result.MergeHeaderFile(tequila.MergePackageFunc)
	if got := c13NodeKeys(merged); fmt.Sprint(got) != "[com org]" {
		t.Errorf("merged nodes: %v", got)
	}
	if got := c13RelationKeys(merged); len(got) != 0 {
		t.Errorf("merged graph must have no edge (Controller and Plugin are unrelated), got %v", got)
	}
	dot := merged.ToMapDot(c13IncludeAll)
	if got := c13Edges(dot); len(got) != 0 {
		t.Errorf("DOT of the merged graph draws phantom edge(s) %v", got)
	}

	// (c) same root cause: fan-in / fan-out of the header-merged graph crashes on the edge to the external package
	func() {
		defer func() {
			if r := recover(); r != nil {
				t.Errorf("SortedByFan panics on a relation to a non-project type: %v", r)
			}
		}()
		fans := result.SortedByFan(tequila.MergeHeaderFunc)
		if len(fans) != 2 {
			t.Errorf("expected 2 fans, got %d", len(fans))
		}
		for _, fan := range fans {
			if fan.FanIn != 0 || fan.FanOut != 0 {
				t.Errorf("fan of %s should be 0/0, got in=%d out=%d", fan.Name, fan.FanIn, fan.FanOut)
			}
		}
	}()
}

// ---------------------------------------------------------------------------
// Defect 2: the entry class Main is excluded as a node but not as an edge target. Main is in the identifier map,
// so a call into Main passes the "is a project type" check; after merging, the edge is attached to Main's package.
//
//   package app;  public class Main { public static void main(String[] a) { } public static void boot() { } }
//   package app;  public class Config { }
//   package svc;  import app.Main; public class Service { public void run() { Main.boot(); } }
// ---------------------------------------------------------------------------
func TestDefect_C13_EdgeToExcludedMain(t *testing.T) {
	defer func() {
		if r := recover(); r != nil {
			t.Errorf("panic: %v", r)
		}
	}()

	mainClz := c13Type("app", "Main")
	mainClz.Functions = []core_domain.CodeFunction{{Name: "main"}, {Name: "boot"}}
	config := c13Type("app", "Config")
	service := c13Type("svc", "Service")
	c13MethodCalling(&service, "run", "app", "Main", "boot")

	deps := []core_domain.CodeDataStruct{mainClz, config, service}
	identifiersMap := core_domain.BuildIdentifierMap(deps)

	result := NewArchApp().Analysis(deps, identifiersMap)

	if got := c13NodeKeys(result); fmt.Sprint(got) != "[app.Config svc.Service]" {
		t.Errorf("nodes: %v", got)
	}
	// nodes are Config and Service; neither depends on the other -> no edge
	if got := c13RelationKeys(result); len(got) != 0 {
		t.Errorf("graph over {app.Config, svc.Service} must have no edge, got %v", got)
	}

	merged := result.MergeHeaderFile(tequila.MergeHeaderFunc)
	if got := c13RelationKeys(merged); len(got) != 0 {
		t.Errorf("quotient by package must have no edge, got %v", got)
	}
	if got := c13Edges(merged.ToMapDot(c13IncludeAll)); len(got) != 0 {
		t.Errorf("DOT of the header-merged graph draws phantom edge(s) %v (svc.Service does not depend on app.Config)", got)
	}
}

// ---------------------------------------------------------------------------
// Defect 3: after merge-header a package that has both types and a sub-package with types (a.b and a.b.c) is an
// inner node of the path trie; buildGraphNode only emits a box for trie leaves, so package a.b disappears from the
// DOT together with every edge from/to it.
//
//   package com.acme.app;      public class Config { }
//   package com.acme.app.sub;  import com.acme.app.Config; public class Worker { private Config config; }
// ---------------------------------------------------------------------------
func TestDefect_C13_PackageWithSubPackageNotDrawn(t *testing.T) {
	defer func() {
		if r := recover(); r != nil {
			t.Errorf("panic: %v", r)
		}
	}()

	config := c13Type("com.acme.app", "Config")
	worker := c13Type("com.acme.app.sub", "Worker")
	c13FieldOf(&worker, "com.acme.app", "Config")

	deps := []core_domain.CodeDataStruct{config, worker}
	identifiersMap := core_domain.BuildIdentifierMap(deps)

	result := NewArchApp().Analysis(deps, identifiersMap)
	merged := result.MergeHeaderFile(tequila.MergeHeaderFunc)

	// the quotient itself is right ...
	if got := c13NodeKeys(merged); fmt.Sprint(got) != "[com.acme.app com.acme.app.sub]" {
		t.Fatalf("merged nodes: %v", got)
	}
	if got := c13RelationKeys(merged); fmt.Sprint(got) != "[com.acme.app.sub->com.acme.app]" {
		t.Fatalf("merged relations: %v", got)
	}

	// ... but the DOT does not show it
	dot := merged.ToMapDot(c13IncludeAll)
	displayed := c13Displayed(dot)
	for _, want := range []string{"com.acme.app", "com.acme.app.sub"} {
		if len(displayed[want]) != 1 {
			t.Errorf("node %s must be drawn exactly once, drawn %d times (drawn: %v)", want, len(displayed[want]), displayed)
		}
	}
	if got := c13Edges(dot); fmt.Sprint(got) != "[com.acme.app.sub->com.acme.app]" {
		t.Errorf("DOT edges: want [com.acme.app.sub->com.acme.app], got %v", got)
	}
}

// ---------------------------------------------------------------------------
// Defect 4: types of the default package (Package == "") get the key ".A" in NodeList/RelationList, but
// buildGraphNode registers the drawn box under the key rebuilt from the trie ("A"); the edge lookup
// nodes[".A"] fails and the dependency between two displayed types is not drawn.
//
//   public class A { private B b; public void run() { b.go(); } }
//   public class B { public void go() { } }
// ---------------------------------------------------------------------------
func TestDefect_C13_DefaultPackageEdgeNotDrawn(t *testing.T) {
	defer func() {
		if r := recover(); r != nil {
			t.Errorf("panic: %v", r)
		}
	}()

	a := c13Type("", "A")
	c13FieldOf(&a, "", "B")
	c13MethodCalling(&a, "run", "", "B", "go")
	b := c13Type("", "B")
	b.Functions = []core_domain.CodeFunction{{Name: "go"}}

	deps := []core_domain.CodeDataStruct{a, b}
	identifiersMap := core_domain.BuildIdentifierMap(deps)

	result := NewArchApp().Analysis(deps, identifiersMap)
	if got := c13RelationKeys(result); fmt.Sprint(got) != "[.A->.B]" {
		t.Fatalf("relations: %v", got)
	}

	dot := result.ToMapDot(c13IncludeAll)
	displayed := c13Displayed(dot)
	if len(displayed["A"]) != 1 || len(displayed["B"]) != 1 {
		t.Fatalf("A and B must both be drawn once: %v", displayed)
	}
	if got := c13Edges(dot); fmt.Sprint(got) != "[A->B]" {
		t.Errorf("both types are drawn and A depends on B (field + call): DOT edges want [A->B], got %v", got)
	}
}
