package goapp

import (
	"reflect"
	"testing"

	"github.com/modernizing/coca/pkg/domain/core_domain"
)

func c20Analyse(t *testing.T, code string) (container core_domain.CodeContainer, ok bool) {
	defer func() {
		if r := recover(); r != nil {
			t.Errorf("front-end panicked on a file go/parser accepts: %v", r)
			ok = false
		}
	}()
	app := new(GoIdentApp)
	return app.Analysis(code, "src/shapes/shapes.go"), true
}

func c20Names(props []core_domain.CodeProperty) []string {
	names := []string{}
	for _, p := range props {
		names = append(names, p.ParamName)
	}
	return names
}

func c20FindDs(c core_domain.CodeContainer, name string) []core_domain.CodeDataStruct {
	var found []core_domain.CodeDataStruct
	for _, ds := range c.DataStructures {
		if ds.NodeName == name {
			found = append(found, ds)
		}
	}
	return found
}

// Several names sharing one type (`X, Y int`, `a, b int`) are one *ast.Field with len(Names) > 1.
// Every one of them is a field / parameter of its own and has to be listed under its own name.
func TestDefect_C20_MultiNameFieldsAndParams(t *testing.T) {
	code := `package shapes

type Point struct {
	X, Y int
	Name string
}

type Shape interface {
	Scale(w, h int) int
}

func Add(a, b int, label string) int {
	return 0
}

func (p *Point) Move(dx, dy int) {
}
`
	c, ok := c20Analyse(t, code)
	if !ok {
		return
	}

	points := c20FindDs(c, "Point")
	if len(points) != 1 {
		t.Fatalf("want exactly one data structure Point, got %d", len(points))
	}
	if got, want := c20Names(points[0].InOutProperties), []string{"X", "Y", "Name"}; !reflect.DeepEqual(got, want) {
		t.Errorf("fields of struct Point = %v, want %v", got, want)
	}
	if len(points[0].Functions) != 1 || points[0].Functions[0].Name != "Move" {
		t.Fatalf("want exactly method Move on Point, got %+v", points[0].Functions)
	}
	if got, want := c20Names(points[0].Functions[0].Parameters), []string{"dx", "dy"}; !reflect.DeepEqual(got, want) {
		t.Errorf("parameters of (*Point).Move = %v, want %v", got, want)
	}

	shapes := c20FindDs(c, "Shape")
	if len(shapes) != 1 || len(shapes[0].InOutProperties) != 1 {
		t.Fatalf("want exactly one interface Shape with one method, got %+v", shapes)
	}
	if got, want := c20Names(shapes[0].InOutProperties[0].Parameters), []string{"w", "h"}; !reflect.DeepEqual(got, want) {
		t.Errorf("parameters of Shape.Scale = %v, want %v", got, want)
	}

	var add *core_domain.CodeFunction
	for i, m := range c.Members {
		for j, f := range m.FunctionNodes {
			if f.Name == "Add" {
				if add != nil {
					t.Errorf("function Add listed more than once")
				}
				add = &c.Members[i].FunctionNodes[j]
			}
		}
	}
	if add == nil {
		t.Fatalf("function Add not listed")
	}
	if got, want := c20Names(add.Parameters), []string{"a", "b", "label"}; !reflect.DeepEqual(got, want) {
		t.Errorf("parameters of Add = %v, want %v", got, want)
	}
}

// An anonymous struct type that is not the body of a type declaration (here the very common
// `make(chan struct{})` in an assignment) must not touch the declared structs / interfaces.
func TestDefect_C20_AnonymousStructTypeClobbersLastDeclaredType(t *testing.T) {
	check := func(label string, code string, typeName string, wantFields []string, wantMemberType string) {
		c, ok := c20Analyse(t, code)
		if !ok {
			return
		}
		dss := c20FindDs(c, typeName)
		if len(dss) != 1 {
			t.Errorf("%s: want exactly one data structure %s, got %d", label, typeName, len(dss))
			return
		}
		if got := c20Names(dss[0].InOutProperties); !reflect.DeepEqual(got, wantFields) {
			t.Errorf("%s: members of %s = %v, want %v", label, typeName, got, wantFields)
		}
		var memberTypes []string
		for _, m := range c.Members {
			if m.DataStructID == typeName {
				memberTypes = append(memberTypes, m.Type)
			}
		}
		if !reflect.DeepEqual(memberTypes, []string{wantMemberType}) {
			t.Errorf("%s: members listed for %s = %v, want exactly [%s]", label, typeName, memberTypes, wantMemberType)
		}
	}

	check("struct, then make(chan struct{}) in an assignment", `package shapes

type Config struct {
	Host string
	Port int
}

func Start() {
	done := make(chan struct{})
	close(done)
}
`, "Config", []string{"Host", "Port"}, "struct")

	check("interface, then a chan struct{} parameter", `package shapes

type Runner interface {
	Run() error
	Stop()
}

func Wait(done chan struct{}) {
}
`, "Runner", []string{"Run", "Stop"}, "interface")

}
