package pyapp

import (
	"reflect"
	"sort"
	"testing"

	"github.com/modernizing/coca/pkg/domain/core_domain"
)

func c20Analyse(t *testing.T, code string) (container core_domain.CodeContainer, ok bool) {
	defer func() {
		if r := recover(); r != nil {
			t.Errorf("python front-end panicked on a module its parser accepts: %v", r)
			ok = false
		}
	}()
	app := new(PythonIdentApp)
	return app.Analysis(code, "mod.py"), true
}

// `import os, sys` imports two modules. Each one is an import of its own and has to be
// listed once under its own name.
func TestDefect_C20_ImportListSecondModuleNotListed(t *testing.T) {
	c, ok := c20Analyse(t, "import os, sys\nimport json\n")
	if !ok {
		return
	}

	var sources []string
	for _, imp := range c.Imports {
		sources = append(sources, imp.Source)
		if imp.Source == "os" && len(imp.UsageName) != 0 {
			t.Errorf("import os has no alias, but is listed with usage names %v", imp.UsageName)
		}
	}
	sort.Strings(sources)
	if want := []string{"json", "os", "sys"}; !reflect.DeepEqual(sources, want) {
		t.Errorf("imported modules = %v, want %v (imports: %+v)", sources, want, c.Imports)
	}
}

// A class declared in the body of another class (Django's `class Meta:`) is accepted by the
// parser; the front-end must not crash and has to keep the methods of the outer class with
// the outer class.
func TestDefect_C20_NestedClassCrashes(t *testing.T) {
	code := `class Article:
    class Meta:
        ordering = 1

    def title(self):
        pass
`
	c, ok := c20Analyse(t, code)
	if !ok {
		return
	}

	var article *core_domain.CodeDataStruct
	count := 0
	for i, ds := range c.DataStructures {
		if ds.NodeName == "Article" {
			article = &c.DataStructures[i]
			count++
		}
	}
	if count != 1 {
		t.Fatalf("class Article listed %d times, want once", count)
	}
	if len(article.Functions) != 1 || article.Functions[0].Name != "title" {
		t.Errorf("methods of Article = %+v, want exactly [title]", article.Functions)
	}
	for _, m := range c.Members {
		for _, f := range m.FunctionNodes {
			if f.Name == "title" {
				t.Errorf("method Article.title is listed as a module-level function")
			}
		}
	}
}
