package unused

import (
	"fmt"
	"io/ioutil"
	"os"
	"path/filepath"
	"strings"
	"testing"
)

// c06Run writes the given files into a fresh temporary directory, runs the
// unused-import removal once (Analysis + Refactoring, exactly like cmd/refactor.go)
// and returns the resulting file contents. A panic is turned into an error.
func c06Run(files map[string]string) (out map[string]string, err error) {
	dir, e := ioutil.TempDir("", "c06")
	if e != nil {
		return nil, e
	}
	defer os.RemoveAll(dir)
	defer func() {
		if r := recover(); r != nil {
			err = fmt.Errorf("panic: %v", r)
		}
	}()
	for n, c := range files {
		p := filepath.Join(dir, n)
		_ = os.MkdirAll(filepath.Dir(p), 0755)
		if e := ioutil.WriteFile(p, []byte(c), 0644); e != nil {
			return nil, e
		}
	}
	app := NewRemoveUnusedImportApp(dir)
	app.Refactoring(app.Analysis())

	out = map[string]string{}
	for n := range files {
		b, e := ioutil.ReadFile(filepath.Join(dir, n))
		if e != nil {
			return nil, e
		}
		out[n] = string(b)
	}
	return out, nil
}

// c06Without returns src with the given 1-based lines deleted.
func c06Without(src string, lines ...int) string {
	drop := map[int]bool{}
	for _, l := range lines {
		drop[l] = true
	}
	var kept []string
	for i, l := range strings.Split(src, "\n") {
		if !drop[i+1] {
			kept = append(kept, l)
		}
	}
	return strings.Join(kept, "\n")
}

// Defect 1: files whose only top-level type is an enum / @interface / record are
// never cleaned ("Every file with unused imports is cleaned, not just one").
func TestDefect_C06_EnumFileNotCleaned(t *testing.T) {
	files := map[string]string{
		"A.java": "package a;\n\nimport java.util.List;\n\npublic class A {\n}\n",
		"Color.java": "package a;\n\nimport java.util.List;\n\npublic enum Color {\n    RED, GREEN\n}\n",
		"Marker.java": "package a;\n\nimport java.util.List;\n\npublic @interface Marker {\n}\n",
		"Point.java": "package a;\n\nimport java.util.List;\n\npublic record Point(int x, int y) {\n}\n",
	}
	out, err := c06Run(files)
	if err != nil {
		t.Fatal(err)
	}
	for name, src := range files {
		want := c06Without(src, 3)
		if out[name] != want {
			t.Errorf("%s: unused import java.util.List was not removed.\nwant:\n%s\ngot:\n%s", name, want, out[name])
		}
	}
}

// Defect 2: a static import whose simple name is used as a bare identifier that is
// not the upper-case left-most operand of an expression is deleted although the
// name is referenced in the file.
func TestDefect_C06_StaticImportFieldDeleted(t *testing.T) {
	src := "package a;\n" +
		"\n" +
		"import static java.lang.Integer.MAX_VALUE;\n" + // used: field initializer
		"import static java.lang.Math.PI;\n" + // used: right operand
		"import static java.lang.System.out;\n" + // used: lower-case receiver
		"import java.util.List;\n" + // really unused
		"\n" +
		"public class S {\n" +
		"    private int limit = MAX_VALUE;\n" +
		"\n" +
		"    double area(double r) {\n" +
		"        out.println(r);\n" +
		"        return r * r * PI;\n" +
		"    }\n" +
		"}\n"
	out, err := c06Run(map[string]string{"S.java": src})
	if err != nil {
		t.Fatal(err)
	}
	want := c06Without(src, 6)
	got := out["S.java"]
	if got != want {
		t.Errorf("only line 6 (java.util.List) may be deleted.\nwant:\n%s\ngot:\n%s", want, got)
	}
	for _, imp := range []string{"Integer.MAX_VALUE", "Math.PI", "System.out"} {
		if !strings.Contains(got, "import static java.lang."+imp+";") {
			t.Errorf("static import of %s was deleted although its simple name is referenced in the file", imp)
		}
	}
}

// Defect 3: an import used only as the qualifier of a nested annotation
// (@Value.Immutable), nested thrown type or nested catch type is deleted.
func TestDefect_C06_QualifiedAnnotationImportDeleted(t *testing.T) {
	src := "package a;\n" +
		"\n" +
		"import org.immutables.value.Value;\n" + // used: @Value.Immutable
		"import a.b.Outer;\n" + // used: throws Outer.Boom
		"import a.b.Errs;\n" + // used: catch (Errs.Fatal e)
		"import java.util.List;\n" + // really unused
		"\n" +
		"@Value.Immutable\n" +
		"public class V {\n" +
		"    void f() throws Outer.Boom {\n" +
		"        try {\n" +
		"            g();\n" +
		"        } catch (Errs.Fatal e) {\n" +
		"        }\n" +
		"    }\n" +
		"\n" +
		"    void g() {\n" +
		"    }\n" +
		"}\n"
	out, err := c06Run(map[string]string{"V.java": src})
	if err != nil {
		t.Fatal(err)
	}
	want := c06Without(src, 6)
	got := out["V.java"]
	if got != want {
		t.Errorf("only line 6 (java.util.List) may be deleted.\nwant:\n%s\ngot:\n%s", want, got)
	}
	if !strings.Contains(got, "import org.immutables.value.Value;") {
		t.Errorf("import of Value deleted although it is used as annotation @Value.Immutable")
	}
	if !strings.Contains(got, "import a.b.Outer;") {
		t.Errorf("import of Outer deleted although it is used in 'throws Outer.Boom'")
	}
	if !strings.Contains(got, "import a.b.Errs;") {
		t.Errorf("import of Errs deleted although it is used as catch type Errs.Fatal")
	}
}

// Defect 4: deletion is done per line number with a running shift that assumes one
// import per line; two imports on one line make it delete foreign lines (the
// package declaration) and used imports.
func TestDefect_C06_TwoImportsOnOneLine(t *testing.T) {
	// (a) both unused: only line 2 may disappear
	srcA := "package a;\n" +
		"import java.util.List; import java.util.Map;\n" +
		"public class L {\n" +
		"}\n"
	// (b) List is used as a type, Map is unused: nothing but whole import lines may be
	// deleted and a used import must be kept, so the file has to stay as it is.
	srcB := "package a;\n" +
		"\n" +
		"import java.util.List; import java.util.Map;\n" +
		"\n" +
		"public class M {\n" +
		"    List names;\n" +
		"}\n"
	out, err := c06Run(map[string]string{"L.java": srcA, "M.java": srcB})
	if err != nil {
		t.Fatal(err)
	}
	if want := c06Without(srcA, 2); out["L.java"] != want {
		t.Errorf("L.java: a non-import line was deleted.\nwant:\n%s\ngot:\n%s", want, out["L.java"])
	}
	if !strings.Contains(out["L.java"], "package a;") {
		t.Errorf("L.java: the package declaration was deleted")
	}
	if !strings.Contains(out["M.java"], "import java.util.List;") {
		t.Errorf("M.java: used import java.util.List was deleted.\ngot:\n%s", out["M.java"])
	}
}
