package javaapp

// Defect demonstrations for PROPERTY C01 ("every declared Java type and method
// appears exactly once in the code model").  Each test builds a small,
// conventional Java source tree in a temporary directory, runs the real
// identifier pass and full pass over it and fails because the current code
// violates the property.
//
// copy to: pkg/application/analysis/javaapp/defect_c01_test.go
// run:     go test -vet=off -count=1 ./pkg/application/analysis/javaapp/ -run TestDefect_C01 -v

import (
	"fmt"
	"os"
	"path/filepath"
	"sort"
	"strings"
	"testing"

	"github.com/modernizing/coca/pkg/domain/core_domain"
)

func c01WriteTree(t *testing.T, root string, files map[string]string) {
	t.Helper()
	for p, c := range files {
		full := filepath.Join(root, filepath.FromSlash(p))
		if err := os.MkdirAll(filepath.Dir(full), 0o755); err != nil {
			t.Fatal(err)
		}
		if err := os.WriteFile(full, []byte(c), 0o644); err != nil {
			t.Fatal(err)
		}
	}
}

// c01Run runs the identifier pass and then the full pass exactly like cmd/analysis.go does.
func c01Run(t *testing.T, dir string) (idents []core_domain.CodeDataStruct, full []core_domain.CodeDataStruct) {
	t.Helper()
	defer func() {
		if r := recover(); r != nil {
			t.Fatalf("analysis panicked: %v", r)
		}
	}()
	identApp := NewJavaIdentifierApp()
	idents = identApp.AnalysisPath(dir)
	fullApp := NewJavaFullApp()
	full = fullApp.AnalysisPath(dir, idents)
	return idents, full
}

func c01Find(ds []core_domain.CodeDataStruct, name string) []core_domain.CodeDataStruct {
	var out []core_domain.CodeDataStruct
	for _, d := range ds {
		if d.NodeName == name {
			out = append(out, d)
		}
	}
	return out
}

// c01Sigs renders every function entry of a type as "name(type name, ...):ret", sorted.
func c01Sigs(d core_domain.CodeDataStruct, withParams bool) []string {
	var out []string
	for _, f := range d.Functions {
		s := f.Name
		if withParams {
			var ps []string
			for _, p := range f.Parameters {
				ps = append(ps, p.TypeType+" "+p.TypeValue)
			}
			s += "(" + strings.Join(ps, ", ") + ")"
		}
		s += ":" + f.ReturnType
		out = append(out, s)
	}
	sort.Strings(out)
	return out
}

func c01AnnNames(d core_domain.CodeDataStruct) []string {
	var out []string
	for _, a := range d.Annotations {
		out = append(out, a.Name)
	}
	return out
}

func c01Equal(a, b []string) bool {
	return fmt.Sprint(a) == fmt.Sprint(b) && len(a) == len(b)
}

// Defect 1: two overloads (same name) that start on the same source line are
// collapsed into one entry by the full pass (methodMap key = pkg.class.name:startLine).
func TestDefect_C01_OverloadsOnOneLine(t *testing.T) {
	dir := t.TempDir()
	c01WriteTree(t, dir, map[string]string{
		"shop/Cart.java": `package shop;

import java.util.List;

public class Cart {
    private int size;

    public Cart() { } public Cart(int size) { this.size = size; }

    public void add(String item) { } public void add(String item, int count) { }

    public int size() { return size; }
}
`,
		"shop/Store.java": `package shop;

public interface Store {
    Cart open(); Cart open(String owner);
}
`,
	})
	idents, full := c01Run(t, dir)

	wantCart := []string{"Cart():", "Cart(int size):", "add(String item):void", "add(String item, int count):void", "size():int"}
	wantStoreNames := []string{"open:Cart", "open:Cart"}

	// the identifier pass sees all five / both entries (names only, it records no parameters)
	if got := c01Sigs(c01Find(idents, "Cart")[0], false); len(got) != 5 {
		t.Errorf("identifier pass: Cart has %d function entries, want 5: %v", len(got), got)
	}

	carts := c01Find(full, "Cart")
	if len(carts) != 1 {
		t.Fatalf("full pass: %d entries for Cart, want 1", len(carts))
	}
	if got := c01Sigs(carts[0], true); !c01Equal(got, wantCart) {
		t.Errorf("full pass: Cart functions\n got  %v\n want %v", got, wantCart)
	}
	stores := c01Find(full, "Store")
	if len(stores) != 1 {
		t.Fatalf("full pass: %d entries for Store, want 1", len(stores))
	}
	if got := c01Sigs(stores[0], false); !c01Equal(got, wantStoreNames) {
		t.Errorf("full pass: Store functions\n got  %v\n want %v", got, wantStoreNames)
	}
}

// Defect 2: the full pass never records the parameters of an interface method.
func TestDefect_C01_InterfaceMethodParams(t *testing.T) {
	dir := t.TempDir()
	c01WriteTree(t, dir, map[string]string{
		"repo/UserRepository.java": `package repo;

import java.util.List;

public interface UserRepository {
    List<String> findByName(String name, int limit);

    void delete(long id);

    long count();
}
`,
	})
	_, full := c01Run(t, dir)
	nodes := c01Find(full, "UserRepository")
	if len(nodes) != 1 {
		t.Fatalf("full pass: %d entries for UserRepository, want 1", len(nodes))
	}
	want := []string{"count():long", "delete(long id):void", "findByName(String name, int limit):List<String>"}
	if got := c01Sigs(nodes[0], true); !c01Equal(got, want) {
		t.Errorf("full pass: UserRepository functions\n got  %v\n want %v", got, want)
	}
}

// Defect 3: an annotation that is the ARGUMENT of a class annotation is recorded
// as a further annotation of the class (both passes).
func TestDefect_C01_NestedAnnotationPhantom(t *testing.T) {
	dir := t.TempDir()
	c01WriteTree(t, dir, map[string]string{
		"model/Order.java": `package model;

import javax.persistence.Entity;
import javax.persistence.NamedQueries;
import javax.persistence.NamedQuery;

@Entity
@NamedQueries({@NamedQuery(name = "Order.all", query = "select o from Order o")})
public class Order {
    private long id;

    public long getId() { return id; }
}
`,
	})
	idents, full := c01Run(t, dir)
	want := []string{"Entity", "NamedQueries"}
	for _, pass := range []struct {
		name string
		ds   []core_domain.CodeDataStruct
	}{{"identifier", idents}, {"full", full}} {
		nodes := c01Find(pass.ds, "Order")
		if len(nodes) != 1 {
			t.Errorf("%s pass: %d entries for Order, want 1", pass.name, len(nodes))
			continue
		}
		if got := c01AnnNames(nodes[0]); !c01Equal(got, want) {
			t.Errorf("%s pass: annotations of Order\n got  %v\n want %v (NamedQuery is an argument, not an annotation of the class)", pass.name, got, want)
		}
	}
}

// Defect 4: .gitignore patterns are matched against the un-relativised walk path
// (codeDir + "/" + relative path) instead of the path relative to the .gitignore.
//   (a) an anchored pattern ("/generated/") therefore never matches -> ignored file is analysed;
//   (b) a directory name ABOVE the analysed tree can match -> every main file is dropped.
func TestDefect_C01_GitignoreRelativePath(t *testing.T) {
	files := map[string]string{
		"src/main/java/app/Keep.java": `package app;

public class Keep {
    public void run() { }
}
`,
		"generated/app/Gen.java": `package app;

public class Gen {
    public void gen() { }
}
`,
	}
	names := func(ds []core_domain.CodeDataStruct) []string {
		var out []string
		for _, d := range ds {
			out = append(out, d.NodeName)
		}
		sort.Strings(out)
		return out
	}

	t.Run("anchored_pattern", func(t *testing.T) {
		dir := t.TempDir()
		c01WriteTree(t, dir, files)
		c01WriteTree(t, dir, map[string]string{".gitignore": "/generated/\n"})
		idents, full := c01Run(t, dir)
		want := []string{"Keep"}
		if got := names(idents); !c01Equal(got, want) {
			t.Errorf("identifier pass: types %v, want %v (generated/ is ignored by /.gitignore)", got, want)
		}
		if got := names(full); !c01Equal(got, want) {
			t.Errorf("full pass: types %v, want %v (generated/ is ignored by /.gitignore)", got, want)
		}
	})

	t.Run("parent_directory_name", func(t *testing.T) {
		// the project is checked out below a directory that happens to be called "generated"
		dir := filepath.Join(t.TempDir(), "generated", "project")
		c01WriteTree(t, dir, map[string]string{
			"src/main/java/app/Keep.java": files["src/main/java/app/Keep.java"],
			".gitignore":                  "generated/\n",
		})
		idents, full := c01Run(t, dir)
		want := []string{"Keep"}
		if got := names(idents); !c01Equal(got, want) {
			t.Errorf("identifier pass: types %v, want %v (nothing inside the tree is ignored)", got, want)
		}
		if got := names(full); !c01Equal(got, want) {
			t.Errorf("full pass: types %v, want %v (nothing inside the tree is ignored)", got, want)
		}
	})
}

// Defect 5 (borderline w.r.t. the quantifier: the anonymous class sits in a method BODY,
// the members of the top-level class are still only a field, a constructor and methods):
// the body of an anonymous class is treated like the end of the top-level class.
func TestDefect_C01_AnonymousClassBody(t *testing.T) {
	dir := t.TempDir()
	c01WriteTree(t, dir, map[string]string{
		"svc/Worker.java": `package svc;

import java.util.List;

@Service
public class Worker {
    private int n;

    public Worker() { }

    public void start() {
        Runnable r = new Runnable() {
            @Override
            public void run() { }
        };
        r.run();
    }

    @Deprecated
    public int stop(int code) { return code; }
}
`,
	})
	idents, full := c01Run(t, dir)

	wantFns := []string{"Worker:", "start:void", "stop:int"}
	in := c01Find(idents, "Worker")
	if len(in) != 1 {
		t.Errorf("identifier pass: %d entries for Worker, want 1", len(in))
	} else if got := c01Sigs(in[0], false); !c01Equal(got, wantFns) {
		t.Errorf("identifier pass: Worker functions\n got  %v\n want %v", got, wantFns)
	}

	fn := c01Find(full, "Worker")
	if len(fn) != 1 {
		t.Fatalf("full pass: %d entries for Worker, want 1", len(fn))
	}
	if got := c01Sigs(fn[0], false); !c01Equal(got, wantFns) {
		t.Errorf("full pass: Worker functions\n got  %v\n want %v", got, wantFns)
	}
	if got, want := c01AnnNames(fn[0]), []string{"Service"}; !c01Equal(got, want) {
		t.Errorf("full pass: annotations of Worker\n got  %v\n want %v (@Deprecated belongs to stop())", got, want)
	}
}

// Defect 6: the superclass is resolved with an un-dotted suffix match against the imports,
// so "extends Base" becomes an unrelated imported type whose name merely ENDS in "Base".
func TestDefect_C01_SuperclassSuffixImport(t *testing.T) {
	dir := t.TempDir()
	c01WriteTree(t, dir, map[string]string{
		"a/Base.java": `package a;

public class Base {
    public void hello() { }
}
`,
		"a/Impl.java": `package a;

import q.AbstractBase;

public class Impl extends Base {
    private AbstractBase helper;

    public void work() { }
}
`,
		"q/AbstractBase.java": `package q;

public class AbstractBase {
    public void help() { }
}
`,
	})
	idents, full := c01Run(t, dir)
	if got := c01Find(idents, "Impl")[0].Extend; got != "Base" {
		t.Errorf("identifier pass: superclass of Impl = %q, want \"Base\"", got)
	}
	nodes := c01Find(full, "Impl")
	if len(nodes) != 1 {
		t.Fatalf("full pass: %d entries for Impl, want 1", len(nodes))
	}
	if got := nodes[0].Extend; got != "Base" && got != "a.Base" {
		t.Errorf("full pass: superclass of Impl = %q, want \"a.Base\" (or \"Base\")", got)
	}
}
