package api

import (
	"fmt"
	"os"
	"path/filepath"
	"sort"
	"strings"
	"testing"
)

// scanC12 writes the given files into a fresh project directory, runs the real API scan and
// returns one line "VERB URI body=<type> pkg.Class.method" per entry, sorted.
func scanC12(t *testing.T, files map[string]string) (lines []string) {
	t.Helper()
	dir := t.TempDir()
	for name, content := range files {
		p := filepath.Join(dir, filepath.FromSlash(name))
		if err := os.MkdirAll(filepath.Dir(p), 0755); err != nil {
			t.Fatal(err)
		}
		if err := os.WriteFile(p, []byte(content), 0644); err != nil {
			t.Fatal(err)
		}
	}
	defer func() {
		if r := recover(); r != nil {
			t.Fatalf("API scan panicked: %v", r)
		}
	}()
	apis := new(JavaApiApp).AnalysisPath(dir, nil, nil, nil)
	for _, a := range apis {
		lines = append(lines, fmt.Sprintf("%s %s body=%s %s.%s.%s", a.HttpMethod, a.Uri, a.RequestBodyClass, a.PackageName, a.ClassName, a.MethodName))
	}
	sort.Strings(lines)
	return lines
}

func expectC12(t *testing.T, got []string, want []string) {
	t.Helper()
	sort.Strings(want)
	if strings.Join(got, "\n") != strings.Join(want, "\n") {
		t.Errorf("API list differs\n got (%d):\n  %s\n want (%d):\n  %s", len(got), strings.Join(got, "\n  "), len(want), strings.Join(want, "\n  "))
	}
}

// A controller that declares a nested (static) DTO class between its handlers:
// every handler after the nested class is lost.
func TestDefect_C12_NestedClass(t *testing.T) {
	got := scanC12(t, map[string]string{"OrderController.java": `package shop;

@RestController
@RequestMapping("/orders")
public class OrderController {
    @GetMapping("/{id}")
    public Order find(@PathVariable String id) { return null; }

    public static class CreateOrder {
        private String sku;
        public String getSku() { return sku; }
    }

    @PostMapping
    public Order create(@RequestBody CreateOrder command) { return null; }

    @RequestMapping(value = "/{id}", method = RequestMethod.DELETE)
    public void cancel(@PathVariable String id) { }
}
`})
	expectC12(t, got, []string{
		"GET /orders/{id} body= shop.OrderController.find",
		"POST /orders body=CreateOrder shop.OrderController.create",
		"DELETE /orders/{id} body= shop.OrderController.cancel",
	})
}

// Several top-level classes in one compilation unit: the second controller has no class-level
// mapping but inherits the base path of the first one, and a class without any controller
// annotation contributes an entry.
func TestDefect_C12_TwoClassesOneFile(t *testing.T) {
	const a = `
@RestController
@RequestMapping("/a")
public class A {
    @GetMapping("/one")
    public String one() { return ""; }
}
`
	const b = `
@RestController
class B {
    @GetMapping("/two")
    public String two() { return ""; }
}
`
	const c = `
class C {
    @GetMapping("/three")
    public String three() { return ""; }
}
`
	want := []string{
		"GET /a/one body= p.A.one",
		"GET /two body= p.B.two",
	}
	// reference: the same three classes, one per file -> the expected list
	separate := scanC12(t, map[string]string{
		"A.java": "package p;\n" + a,
		"B.java": "package p;\n" + b,
		"C.java": "package p;\n" + c,
	})
	expectC12(t, separate, want)

	together := scanC12(t, map[string]string{"A.java": "package p;\n" + a + b + c})
	expectC12(t, together, want)
}

// method= given in the (equally valid) array-initializer form: the verb is lost.
func TestDefect_C12_MethodArrayForm(t *testing.T) {
	got := scanC12(t, map[string]string{"A.java": `package p;

@Controller
@RequestMapping("/a")
public class A {
    @RequestMapping(value = "/plain", method = RequestMethod.GET)
    public String plain() { return ""; }

    @RequestMapping(value = "/braces", method = {RequestMethod.GET})
    public String braces() { return ""; }

    @RequestMapping(method = {RequestMethod.POST}, value = "/save")
    public String save(@RequestBody Foo foo) { return ""; }
}
`})
	expectC12(t, got, []string{
		"GET /a/plain body= p.A.plain",
		"GET /a/braces body= p.A.braces",
		"POST /a/save body=Foo p.A.save",
	})
}

// class-level mapping present but without a path: the base path is empty, yet "/" is put in
// front of every method path.
func TestDefect_C12_BareClassMapping(t *testing.T) {
	got := scanC12(t, map[string]string{"A.java": `package p;

@RestController
@RequestMapping
public class A {
    @GetMapping("/one")
    public String one() { return ""; }

    @RequestMapping(value = "/two", method = RequestMethod.PUT)
    public String two(@RequestBody Foo foo) { return ""; }
}
`})
	expectC12(t, got, []string{
		"GET /one body= p.A.one",
		"PUT /two body=Foo p.A.two",
	})
}
