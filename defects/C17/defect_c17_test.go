package todo

import (
	"fmt"
	"os"
	"path/filepath"
	"strings"
	"testing"

	"github.com/modernizing/coca/pkg/application/todo/astitodo"
)

// the default value of `coca todo --ext`
var c17Extensions = []string{".java", ".py", ".go", ".ts", ".js", ".kt", ".groovy", ".gradle"}

type c17Want struct {
	Line     int
	Assignee string
	Message  string
}

// c17Scan writes one source file into a fresh directory and runs the real todo scan over the directory.
func c17Scan(t *testing.T, name, src string) (todos []*astitodo.TODO) {
	t.Helper()
	dir := t.TempDir()
	if err := os.WriteFile(filepath.Join(dir, name), []byte(src), 0644); err != nil {
		t.Fatal(err)
	}
	defer func() {
		if r := recover(); r != nil {
			t.Errorf("%s: scan panicked: %v", name, r)
		}
	}()
	return NewTodoApp().AnalysisPath(dir, c17Extensions)
}

func c17Check(t *testing.T, name, src string, want []c17Want) {
	t.Helper()
	todos := c17Scan(t, name, src)
	var got []string
	for _, td := range todos {
		got = append(got, fmt.Sprintf("line %d assignee %q message %q", td.Line, td.Assignee, td.Message))
	}
	var exp []string
	for _, w := range want {
		exp = append(exp, fmt.Sprintf("line %d assignee %q message %q", w.Line, w.Assignee, w.Message))
	}
	if strings.Join(got, "\n") != strings.Join(exp, "\n") {
		t.Errorf("%s\nsource:\n%s\nwant %d entries:\n  %s\ngot %d entries:\n  %s",
			name, src, len(exp), strings.Join(exp, "\n  "), len(got), strings.Join(got, "\n  "))
	}
}

// Defect 1: a single-quoted string literal of more than one character (Groovy/Gradle, JavaScript,
// TypeScript, Python) is not a token of the comment lexer, so a comment marker inside it opens a "comment".
func TestDefect_C17_SingleQuotedString(t *testing.T) {
	c17Check(t, "build.gradle",
		"repositories {\n"+
			"    maven { url 'https://todo.example.com/repo' }\n"+
			"}\n"+
			"// TODO: the only comment\n",
		[]c17Want{{4, "", "the only comment"}})

	c17Check(t, "a.py",
		"s = 'see # TODO: not a comment'\n"+
			"# FIXME: the only comment\n",
		[]c17Want{{2, "", "the only comment"}})

	c17Check(t, "a.js",
		"var s = 'a // FIXME(bob): not a comment';\n",
		nil)
}

// Defect 2: a double-quoted string literal with an escape sequence that Java does not have
// (Go "\x2f", "\a"; Kotlin "\$") is not recognised as a string, so its content is scanned as code.
func TestDefect_C17_StringEscape(t *testing.T) {
	c17Check(t, "a.go",
		"package a\n"+
			"\n"+
			"var hex = \"\\x2f// TODO: not a comment\"\n"+
			"var bell = \"\\a // FIXME: not a comment\"\n"+
			"// TODO: the only comment\n",
		[]c17Want{{5, "", "the only comment"}})

	c17Check(t, "a.kt",
		"val s = \"price in \\$ // TODO: not a comment\"\n",
		nil)
}

// Defect 3: the three comment token kinds are accepted in every language, so the Python floor division
// operator `//` and the JavaScript private name marker `#` (code tokens) start a "comment".
func TestDefect_C17_OperatorTakenAsComment(t *testing.T) {
	c17Check(t, "a.py",
		"pages = total // todo_per_page\n"+
			"# TODO: the only comment\n",
		[]c17Want{{2, "", "the only comment"}})

	// same cause, the other way round: the operator swallows the real comment that follows it on the line
	c17Check(t, "b.py",
		"pages = total // per_page  # TODO: round up\n",
		[]c17Want{{1, "", "round up"}})

	c17Check(t, "a.js",
		"class A {\n"+
			"  #todoList = [];\n"+
			"  // TODO: the only comment\n"+
			"}\n",
		[]c17Want{{3, "", "the only comment"}})
}

// Defect 4: every '*' of the remaining text is replaced by a blank, also in line and hash comments.
func TestDefect_C17_StarInMessage(t *testing.T) {
	c17Check(t, "A.java",
		"// TODO: handle *.java globs\n"+
			"// FIXME(bob): compute a*b\n",
		[]c17Want{{1, "", "handle *.java globs"}, {2, "bob", "compute a*b"}})

	c17Check(t, "a.py",
		"# TODO: support **kwargs\n",
		[]c17Want{{1, "", "support **kwargs"}})
}
