package evaluate

import (
	"os"
	"path/filepath"
	"sort"
	"testing"

	"github.com/modernizing/coca/cocatest/testhelper"
	"github.com/modernizing/coca/pkg/application/evaluate/evaluator"
)

// c18Evaluate writes the given Java sources into a fresh directory, runs the two real
// passes (identifier pass + full pass) over it and feeds both models to the real Analyser.
func c18Evaluate(t *testing.T, files map[string]string) (result evaluator.EvaluateModel, panicked interface{}) {
	t.Helper()
	dir := t.TempDir()
	for name, content := range files {
		if err := os.WriteFile(filepath.Join(dir, name), []byte(content), 0644); err != nil {
			t.Fatal(err)
		}
	}
	defer func() {
		if r := recover(); r != nil {
			panicked = r
		}
	}()
	callNodes, _, identifiers := testhelper.BuildAnalysisDeps(dir)
	result = NewEvaluateAnalyser().Analysis(callNodes, identifiers)
	return result, nil
}

func c18Set(items []string) map[string]int {
	m := make(map[string]int)
	for _, i := range items {
		m[i]++
	}
	return m
}

func c18Sorted(items []string) []string {
	out := append([]string(nil), items...)
	sort.Strings(out)
	return out
}

// Defect 1: a method that returns the null literal on an early path and something else on
// its last path is not listed as nullable (the flag is overwritten by every later return).
func TestDefect_C18_NullOnEarlyPathForgotten(t *testing.T) {
	result, p := c18Evaluate(t, map[string]string{"Finder.java": `package p;

public class Finder {
    public String find(int key) {
        if (key < 0) {
            return null;
        }
        return "value";
    }

    public String findLast(int key) {
        if (key >= 0) {
            return "value";
        }
        return null;
    }

    public String never(int key) {
        return "value";
    }
}
`})
	if p != nil {
		t.Fatalf("evaluation panicked: %v", p)
	}
	got := c18Set(result.Nullable.Items)
	// control: same method with the two returns swapped is found
	if got["p.Finder.findLast"] != 1 {
		t.Fatalf("control failed: p.Finder.findLast should be listed once, list = %v", c18Sorted(result.Nullable.Items))
	}
	if got["p.Finder.never"] != 0 {
		t.Fatalf("control failed: p.Finder.never must not be listed, list = %v", c18Sorted(result.Nullable.Items))
	}
	if got["p.Finder.find"] != 1 {
		t.Errorf("p.Finder.find returns the null literal on its first path and must be listed once as nullable; list = %v", c18Sorted(result.Nullable.Items))
	}
}

// Defect 2: a method whose returned expression merely contains the letters "null"
// (an identifier, a string, a method name) is listed as nullable although no null literal is returned.
func TestDefect_C18_PhantomNullableBySubstring(t *testing.T) {
	result, p := c18Evaluate(t, map[string]string{"Safe.java": `package p;

public class Safe {
    public String keep(String nullableValue) {
        return nullableValue;
    }

    public String text() {
        return "null";
    }

    public int annulled(int annulledOrders) {
        return annulledOrders + 1;
    }

    public String real() {
        return null;
    }
}
`})
	if p != nil {
		t.Fatalf("evaluation panicked: %v", p)
	}
	got := c18Set(result.Nullable.Items)
	if got["p.Safe.real"] != 1 {
		t.Fatalf("control failed: p.Safe.real should be listed once, list = %v", c18Sorted(result.Nullable.Items))
	}
	for _, name := range []string{"p.Safe.keep", "p.Safe.text", "p.Safe.annulled"} {
		if got[name] != 0 {
			t.Errorf("%s neither returns the null literal nor is annotated @Nullable/@CheckForNull, but it is listed as nullable; list = %v", name, c18Sorted(result.Nullable.Items))
		}
	}
	if len(result.Nullable.Items) != 1 {
		t.Errorf("exactly 1 nullable method (p.Safe.real) is derivable from the source, got %d: %v", len(result.Nullable.Items), c18Sorted(result.Nullable.Items))
	}
}

// Defect 3: a static method that declares type parameters (public static <T> ...) is not counted
// as static: the identifier pass drops the whole modifier list of generic methods.
func TestDefect_C18_GenericStaticMethodNotCounted(t *testing.T) {
	result, p := c18Evaluate(t, map[string]string{"Lists.java": `package p;

public class Lists {
    public static int size(Object[] a) {
        return a.length;
    }

    static public final <T> T first(T[] a) {
        return a[0];
    }

    public synchronized static <K, V> void put(K k, V v) {
    }

    public <T> T self(T a) {
        return a;
    }
}
`})
	if p != nil {
		t.Fatalf("evaluation panicked: %v", p)
	}
	if result.Summary.ClassCount != 1 || result.Summary.MethodCount != 4 {
		t.Fatalf("control failed: want 1 class / 4 methods, got %d / %d", result.Summary.ClassCount, result.Summary.MethodCount)
	}
	if result.Summary.StaticMethodCount != 3 {
		t.Errorf("the source declares 3 static methods (size, first, put); StaticMethodCount = %d", result.Summary.StaticMethodCount)
	}
}

// Defect 4: @Nullable / @CheckForNull is only seen when it is the very first modifier of the method.
func TestDefect_C18_NullableAnnotationNotFirstModifier(t *testing.T) {
	result, p := c18Evaluate(t, map[string]string{"Repo.java": `package p;

import javax.annotation.CheckForNull;
import javax.annotation.Nullable;

public class Repo {
    @Nullable
    public String first(int id) {
        return "a";
    }

    public @Nullable String afterVisibility(int id) {
        return "b";
    }

    @Deprecated
    @CheckForNull
    public String afterOtherAnnotation(int id) {
        return "c";
    }

    @Deprecated
    public String plain(int id) {
        return "d";
    }
}
`})
	if p != nil {
		t.Fatalf("evaluation panicked: %v", p)
	}
	got := c18Set(result.Nullable.Items)
	if got["p.Repo.first"] != 1 || got["p.Repo.plain"] != 0 {
		t.Fatalf("control failed: first must be listed once and plain not at all; list = %v", c18Sorted(result.Nullable.Items))
	}
	for _, name := range []string{"p.Repo.afterVisibility", "p.Repo.afterOtherAnnotation"} {
		if got[name] != 1 {
			t.Errorf("%s is annotated @Nullable/@CheckForNull and must be listed once as nullable; list = %v", name, c18Sorted(result.Nullable.Items))
		}
	}
}
