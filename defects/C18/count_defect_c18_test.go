package count

import (
	"os"
	"path/filepath"
	"testing"

	"github.com/modernizing/coca/cocatest/testhelper"
	"github.com/modernizing/coca/pkg/domain/core_domain"
)

// Defect 5: call sites recorded under CodeDataStruct.InnerStructures (nested classes) are
// never counted, and methods declared there are never project methods.
func TestDefect_C18_CallSitesInInnerStructuresNotCounted(t *testing.T) {
	call := func(fn string) core_domain.CodeCall {
		return core_domain.CodeCall{Package: "p", NodeName: "Helper", FunctionName: fn}
	}

	// 1. hand-built model
	model := []core_domain.CodeDataStruct{
		{
			Package: "p", NodeName: "Helper", Type: "Class",
			Functions: []core_domain.CodeFunction{{Name: "run"}, {Name: "never"}},
		},
		{
			Package: "p", NodeName: "Outer", Type: "Class",
			Functions: []core_domain.CodeFunction{
				{Name: "direct", FunctionCalls: []core_domain.CodeCall{call("run"), call("undeclared")}},
			},
			InnerStructures: []core_domain.CodeDataStruct{
				{
					Package: "p", NodeName: "Builder", Type: "InnerStructures",
					Functions: []core_domain.CodeFunction{
						{Name: "build", FunctionCalls: []core_domain.CodeCall{call("run"), call("run"), call("undeclared")}},
					},
				},
			},
		},
	}

	var callMap map[string]int
	func() {
		defer func() {
			if r := recover(); r != nil {
				t.Fatalf("BuildCallMap panicked: %v", r)
			}
		}()
		callMap = BuildCallMap(model)
	}()

	if _, ok := callMap["p.Helper.never"]; ok {
		t.Fatalf("control failed: p.Helper.never is never called, map = %v", callMap)
	}
	if _, ok := callMap["p.Helper.undeclared"]; ok {
		t.Fatalf("control failed: p.Helper.undeclared is not a project method, map = %v", callMap)
	}
	if callMap["p.Helper.run"] != 3 {
		t.Errorf("model: 3 recorded call sites resolve to p.Helper.run (1 in Outer.direct, 2 in Outer.Builder.build); count = %d, map = %v", callMap["p.Helper.run"], callMap)
	}

	// 2. the same shape produced by the real Java passes
	dir := t.TempDir()
	files := map[string]string{
		"Helper.java": `package p;

public class Helper {
    public static void run() { }
    public static void never() { }
}
`,
		"Outer.java": `package p;

public class Outer {
    public void direct() {
        Helper.run();
        Helper.undeclared();
    }

    public static class Builder {
        public void build() {
            Helper.run();
            Helper.run();
        }
    }
}
`,
	}
	for name, content := range files {
		if err := os.WriteFile(filepath.Join(dir, name), []byte(content), 0644); err != nil {
			t.Fatal(err)
		}
	}
	nodes, _, _ := testhelper.BuildAnalysisDeps(dir)
	srcMap := BuildCallMap(nodes)
	if srcMap["p.Helper.run"] != 3 {
		t.Errorf("source: Helper.run() is called 3 times (1 in Outer.direct, 2 in Outer.Builder.build); count = %d, map = %v", srcMap["p.Helper.run"], srcMap)
	}
}
