package javaapp_test

import (
	"os"
	"path/filepath"
	"sort"
	"strings"
	"testing"

	"github.com/modernizing/coca/pkg/application/analysis/javaapp"
	"github.com/modernizing/coca/pkg/application/call"
)

// One file, analysed again and again in one process with the same identifier set.
// Property C07: the model entries of the file are unchanged when the same analysis is run again.
// The list of methods of the class comes out in a different order from run to run, and the call graph
// derived from it (two overloads of f, expansion budget of BuildCallChain) loses different edges.
func TestDefect_C07_RepeatedRunMethodOrder(t *testing.T) {
	dir := t.TempDir()
	src := "package p;\n\npublic class A {\n" +
		"    public void f(int x) {\n        b1();\n    }\n" +
		"    public void f(String s) {\n        c1();\n    }\n"
	for _, chain := range []string{"b", "c"} {
		for i := 1; i <= 7; i++ {
			src += "    public void " + chain + string(rune('0'+i)) + "() {\n"
			if i < 7 {
				src += "        " + chain + string(rune('0'+i+1)) + "();\n"
			}
			src += "    }\n"
		}
	}
	src += "}\n"
	file := filepath.Join(dir, "A.java")
	if err := os.WriteFile(file, []byte(src), 0o644); err != nil {
		t.Fatal(err)
	}

	run := func() (order string, edges string) {
		defer func() {
			if r := recover(); r != nil {
				t.Fatalf("panic: %v", r)
			}
		}()
		identApp := javaapp.NewJavaIdentifierApp()
		identNodes := identApp.AnalysisFiles([]string{file})
		fullApp := javaapp.NewJavaFullApp()
		nodes := fullApp.AnalysisFiles(identNodes, []string{file})
		if len(nodes) != 1 {
			t.Fatalf("expected one class, got %d", len(nodes))
		}
		var names []string
		for _, f := range nodes[0].Functions {
			names = append(names, f.Name)
		}
		dot := call.NewCallGraph().Analysis("p.A.f", nodes, false)
		var lines []string
		for _, l := range strings.Split(dot, "\n") {
			if strings.Contains(l, "->") {
				lines = append(lines, l)
			}
		}
		sort.Strings(lines)
		return strings.Join(names, ","), strings.Join(lines, " ")
	}

	firstOrder, firstEdges := run()
	orderChanged, edgesChanged := "", ""
	for i := 0; i < 40; i++ {
		o, e := run()
		if o != firstOrder && orderChanged == "" {
			orderChanged = o
		}
		if e != firstEdges && edgesChanged == "" {
			edgesChanged = e
		}
	}
	if orderChanged != "" {
		t.Errorf("methods of p.A listed in another order by a later identical run\nfirst: %s\nlater: %s", firstOrder, orderChanged)
	}
	if edgesChanged != "" {
		t.Errorf("call graph of p.A.f built from a later identical run has another set of edges\nfirst: %s\nlater: %s", firstEdges, edgesChanged)
	}
}
