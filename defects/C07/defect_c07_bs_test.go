package bs

import (
	"fmt"
	"os"
	"path/filepath"
	"testing"

	"github.com/modernizing/coca/pkg/domain/bs_domain"
)

func c07WriteFiles(t *testing.T, files map[string]string) string {
	t.Helper()
	dir := t.TempDir()
	for name, content := range files {
		full := filepath.Join(dir, filepath.FromSlash(name))
		if err := os.MkdirAll(filepath.Dir(full), 0o755); err != nil {
			t.Fatal(err)
		}
		if err := os.WriteFile(full, []byte(content), 0o644); err != nil {
			t.Fatal(err)
		}
	}
	return dir
}

func c07Smells(t *testing.T, dir string) (list []bs_domain.BadSmellModel) {
	t.Helper()
	defer func() {
		if r := recover(); r != nil {
			t.Fatalf("panic while analysing %s: %v", dir, r)
		}
	}()
	app := NewBadSmellApp()
	return app.IdentifyBadSmell(app.AnalysisPath(dir), nil)
}

func c07Count(list []bs_domain.BadSmellModel, kind string) int {
	n := 0
	for _, m := range list {
		if m.Bs == kind {
			n++
		}
	}
	return n
}

// Project X has one "graphConnectedCall" smell (A calls B and C, B calls C); project Y has none.
// Property C07: the bad-smell entries of a set of files are the same when the analysis is run again in the
// same process, and do not depend on other files analysed before.
func TestDefect_C07_GraphCallSmellAccumulates(t *testing.T) {
	projectX := c07WriteFiles(t, map[string]string{
		"px/Alpha.java": "package px;\n\npublic class Alpha {\n    private Beta beta;\n    private Gamma gamma;\n\n    public void run() {\n        beta.run();\n        gamma.run();\n    }\n}\n",
		"px/Beta.java":  "package px;\n\npublic class Beta {\n    private Gamma gamma;\n\n    public void run() {\n        gamma.run();\n    }\n}\n",
		"px/Gamma.java": "package px;\n\npublic class Gamma {\n    public void run() {\n        System.out.println(\"hi\");\n    }\n}\n",
	})
	projectY := c07WriteFiles(t, map[string]string{
		"py/Solo.java":  "package py;\n\npublic class Solo {\n    public void run() {\n        System.out.println(\"solo\");\n    }\n}\n",
		"py/Other.java": "package py;\n\npublic class Other {\n    public void walk() {\n        System.out.println(\"other\");\n    }\n}\n",
	})

	first := c07Smells(t, projectX)
	second := c07Smells(t, projectX)
	third := c07Smells(t, projectY)

	n1 := c07Count(first, SMELL_GARPH_CONNECTED_CALL)
	n2 := c07Count(second, SMELL_GARPH_CONNECTED_CALL)
	n3 := c07Count(third, SMELL_GARPH_CONNECTED_CALL)

	if n2 != n1 {
		t.Errorf("same project analysed twice: %d graphConnectedCall entries the first time, %d the second time\nfirst : %v\nsecond: %v", n1, n2, first, second)
	}
	if n3 != 0 {
		t.Errorf("project Y has no connected call triangle, but its report has %d graphConnectedCall entries (left over from project X): %v", n3, third)
	}
}

// Property C07: the entries produced for a file do not change when other files are analysed afterwards.
// AnalysisPath hands out a pointer to a package-level slice, so a later run replaces the content of an
// earlier result.
func TestDefect_C07_AnalysisPathResultOverwritten(t *testing.T) {
	dirA := c07WriteFiles(t, map[string]string{
		"pa/OnlyA.java": "package pa;\n\npublic class OnlyA {\n    public void a() {\n        System.out.println(\"a\");\n    }\n}\n",
	})
	dirB := c07WriteFiles(t, map[string]string{
		"pb/FirstB.java":  "package pb;\n\npublic class FirstB {\n}\n",
		"pb/SecondB.java": "package pb;\n\npublic class SecondB {\n}\n",
	})

	defer func() {
		if r := recover(); r != nil {
			t.Fatalf("panic: %v", r)
		}
	}()

	app := NewBadSmellApp()
	resultA := app.AnalysisPath(dirA)
	describe := func(nodes *[]bs_domain.BSDataStruct) string {
		s := ""
		for _, n := range *nodes {
			s += fmt.Sprintf("[%s.%s functions=%d]", n.Package, n.NodeName, len(n.Functions))
		}
		return s
	}
	before := describe(resultA)
	// the project-wide graphConnectedCall entries are left out: they have a defect of their own
	ignore := []string{SMELL_GARPH_CONNECTED_CALL}
	smellsBefore := fmt.Sprint(app.IdentifyBadSmell(resultA, ignore))

	_ = app.AnalysisPath(dirB) // another analysis in the same process

	after := describe(resultA)
	smellsAfter := fmt.Sprint(app.IdentifyBadSmell(resultA, ignore))

	if before != after {
		t.Errorf("the result of the first analysis changed after a second one ran:\nbefore: %s\nafter : %s", before, after)
	}
	if smellsBefore != smellsAfter {
		t.Errorf("bad smells derived from the first result changed:\nbefore: %s\nafter : %s", smellsBefore, smellsAfter)
	}
}
