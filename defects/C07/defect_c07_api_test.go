package api

import (
	"fmt"
	"os"
	"path/filepath"
	"sort"
	"testing"

	"github.com/modernizing/coca/pkg/application/analysis/javaapp"
	"github.com/modernizing/coca/pkg/domain/core_domain"
)

func c07WriteJava(t *testing.T, dir string, name string, content string) string {
	t.Helper()
	full := filepath.Join(dir, filepath.FromSlash(name))
	if err := os.MkdirAll(filepath.Dir(full), 0o755); err != nil {
		t.Fatal(err)
	}
	if err := os.WriteFile(full, []byte(content), 0o644); err != nil {
		t.Fatal(err)
	}
	return full
}

// c07Apis runs identifier pass, full pass (both over the files in the given order) and then the API scan of dir.
func c07Apis(t *testing.T, dir string, files []string) (out string) {
	t.Helper()
	defer func() {
		if r := recover(); r != nil {
			t.Fatalf("panic: %v", r)
		}
	}()
	identApp := javaapp.NewJavaIdentifierApp()
	identifiers := identApp.AnalysisFiles(files)
	fullApp := javaapp.NewJavaFullApp()
	deps := fullApp.AnalysisFiles(identifiers, files)
	identifiersMap := core_domain.BuildIdentifierMap(identifiers)
	diMap := core_domain.BuildDIMap(identifiers, identifiersMap)

	app := new(JavaApiApp)
	apis := app.AnalysisPath(dir, deps, identifiersMap, diMap)
	for _, a := range apis {
		var keys []string
		for k := range a.MethodParams {
			keys = append(keys, k)
		}
		sort.Strings(keys)
		params := ""
		for _, k := range keys {
			params += k + ":" + a.MethodParams[k] + " "
		}
		out += fmt.Sprintf("%s %s -> %s.%s.%s body=%s params={ %s}\n", a.HttpMethod, a.Uri, a.PackageName, a.ClassName, a.MethodName, a.RequestBodyClass, params)
	}
	return out
}

// web.UserController takes a web.dto.UserRequest (imported) as request body; admin.dto has a class of the
// same simple name whose field "id" has another type.
// Property C07: the API entries of UserController.java do not depend on the order in which the other files
// of the project were processed.
func TestDefect_C07_ApiParamsDependOnFileOrder(t *testing.T) {
	dir := t.TempDir()
	controller := c07WriteJava(t, dir, "web/UserController.java", "package web;\n\nimport web.dto.UserRequest;\nimport org.springframework.web.bind.annotation.PostMapping;\nimport org.springframework.web.bind.annotation.RequestBody;\nimport org.springframework.web.bind.annotation.RestController;\n\n@RestController\npublic class UserController {\n    @PostMapping(\"/users\")\n    public String create(@RequestBody UserRequest request) {\n        return \"ok\";\n    }\n}\n")
	webDto := c07WriteJava(t, dir, "web/dto/UserRequest.java", "package web.dto;\n\npublic class UserRequest {\n    private String id;\n}\n")
	adminDto := c07WriteJava(t, dir, "admin/dto/UserRequest.java", "package admin.dto;\n\npublic class UserRequest {\n    private Long id;\n}\n")

	one := c07Apis(t, dir, []string{adminDto, webDto, controller})
	two := c07Apis(t, dir, []string{webDto, adminDto, controller})

	if one == "" {
		t.Fatalf("no API found")
	}
	if one != two {
		t.Errorf("API entries of web/UserController.java depend on the order of the two UserRequest files\norder admin, web: %sorder web, admin: %s", one, two)
	}
}
