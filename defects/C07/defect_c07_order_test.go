package javaapp

import (
	"fmt"
	"os"
	"path/filepath"
	"sort"
	"testing"

	"github.com/modernizing/coca/pkg/domain/core_domain"
)

func c07Write(t *testing.T, dir string, name string, content string) string {
	t.Helper()
	full := filepath.Join(dir, filepath.FromSlash(name))
	if err := os.MkdirAll(filepath.Dir(full), 0o755); err != nil {
		t.Fatal(err)
	}
	if err := os.WriteFile(full, []byte(content), 0o644); err != nil {
		t.Fatal(err)
	}
	return full
}

// c07Pipeline runs the identifier pass and then the full pass over the files in the given order and
// returns the model entries of one file as canonical text (methods sorted by position).
func c07Pipeline(t *testing.T, files []string, of string) (out string) {
	t.Helper()
	defer func() {
		if r := recover(); r != nil {
			t.Fatalf("panic: %v", r)
		}
	}()
	identApp := NewJavaIdentifierApp()
	identNodes := identApp.AnalysisFiles(files)
	fullApp := NewJavaFullApp()
	nodes := fullApp.AnalysisFiles(identNodes, files)

	// canonical text: one line per call, methods sorted by position
	for _, n := range nodes {
		if n.FilePath != of {
			continue
		}
		out += fmt.Sprintf("class %s.%s extend=%q implements=%v\n", n.Package, n.NodeName, n.Extend, n.Implements)
		for _, c := range n.FunctionCalls {
			out += fmt.Sprintf("  field call -> package=%q type=%q %s\n", c.Package, c.Type, c.NodeName)
		}
		fs := append([]core_domain.CodeFunction(nil), n.Functions...)
		sort.SliceStable(fs, func(i, j int) bool {
			if fs[i].Position.StartLine != fs[j].Position.StartLine {
				return fs[i].Position.StartLine < fs[j].Position.StartLine
			}
			return fs[i].Position.StartLinePosition < fs[j].Position.StartLinePosition
		})
		for _, f := range fs {
			out += fmt.Sprintf("  method %s\n", f.Name)
			for _, c := range f.FunctionCalls {
				out += fmt.Sprintf("    call -> package=%q type=%q %s.%s\n", c.Package, c.Type, c.NodeName, c.FunctionName)
			}
		}
	}
	return out
}

// Two packages each have a class Order. shop.Checkout uses Order of its own package (plain Java name
// resolution: a class of the same package needs no import).
// Property C07: the model entries of Checkout.java depend only on its content and on the SET of project
// identifiers, not on the order in which the files were processed.
func TestDefect_C07_SameNameClassOrder(t *testing.T) {
	dir := t.TempDir()
	shopOrder := c07Write(t, dir, "shop/Order.java", "package shop;\n\npublic class Order {\n    public void pay() {\n    }\n}\n")
	billingOrder := c07Write(t, dir, "billing/Order.java", "package billing;\n\npublic class Order {\n    public void pay() {\n    }\n}\n")
	checkout := c07Write(t, dir, "shop/Checkout.java", "package shop;\n\npublic class Checkout {\n    private Order order;\n\n    public void run(Order incoming) {\n        incoming.pay();\n        order.pay();\n        Order fresh = new Order();\n    }\n}\n")

	one := c07Pipeline(t, []string{shopOrder, billingOrder, checkout}, checkout)
	two := c07Pipeline(t, []string{billingOrder, shopOrder, checkout}, checkout)
	three := c07Pipeline(t, []string{checkout, shopOrder, billingOrder}, checkout)

	if one != two {
		t.Errorf("entries of shop/Checkout.java differ between two processing orders of the same three files\n--- order shop/Order, billing/Order, shop/Checkout:\n%s\n--- order billing/Order, shop/Order, shop/Checkout:\n%s", one, two)
	}
	if one != three {
		t.Errorf("entries of shop/Checkout.java differ when Checkout.java is processed first instead of last\n--- last:\n%s\n--- first:\n%s", one, three)
	}
}
