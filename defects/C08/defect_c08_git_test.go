package git_test

import (
	"fmt"
	"sort"
	"strings"
	"testing"

	"github.com/modernizing/coca/pkg/application/git"
)

// The text "git log --pretty=format:[%h] %aN %ad %s --date=short --numstat --reverse --summary" (cmd/git.go) prints
// for a two-commit history when copy detection is on (diff.renames=copies in the git configuration, or -C):
// the second commit edits src/a.go and also copies it to src/b.go (text taken from a real git 2.x run).
const c08CopyLog = `[aaa1111] dev 2020-01-01 add a
30	0	src/a.go
 create mode 100644 src/a.go

[bbb2222] dev 2020-02-01 edit a, start b from a
1	0	src/a.go
0	0	src/{a.go => b.go}
 copy src/{a.go => b.go} (100%)

`

func c08GitRun() string {
	commits := git.BuildMessageByInput(c08CopyLog)

	var rows []string
	for _, row := range git.GetTeamSummary(commits) {
		rows = append(rows, fmt.Sprintf("team{%s revs=%d authors=%d}", row.EntityName, row.RevsCount, row.AuthorCount))
	}
	for _, row := range git.CalculateCodeAge(commits) {
		rows = append(rows, fmt.Sprintf("age{%s since=%s}", row.EntityName, row.Age.Format("2006-01-02")))
	}
	sort.Strings(rows)
	return strings.Join(rows, " ")
}

func TestDefect_C08_GitChangeOrderInCommit(t *testing.T) {
	defer func() {
		if r := recover(); r != nil {
			t.Fatalf("panic: %v", r)
		}
	}()

	seen := make(map[string]int)
	const runs = 300
	for i := 0; i < runs; i++ {
		seen[c08GitRun()]++
	}

	if len(seen) != 1 {
		var reports []string
		for report, count := range seen {
			reports = append(reports, fmt.Sprintf("%4d x %s", count, report))
		}
		sort.Strings(reports)
		t.Fatalf("the same log gave %d different team / code-age summaries over %d runs:\n%s", len(seen), runs, strings.Join(reports, "\n"))
	}
}
