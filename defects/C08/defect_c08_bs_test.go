package bs_test

import (
	"fmt"
	"io/ioutil"
	"os"
	"path/filepath"
	"sort"
	"strings"
	"testing"

	"github.com/modernizing/coca/pkg/application/bs"
)

// A calls B and C, B calls C: one "graphConnectedCall" smell (A->B->C next to A->C).
var c08BsSources = map[string]string{
	"A.java": "package com.demo;\nimport com.demo.B;\nimport com.demo.C;\npublic class A {\n    private B b;\n    private C c;\n    public void run() { b.go(); c.stop(); }\n}\n",
	"B.java": "package com.demo;\nimport com.demo.C;\npublic class B {\n    private C c;\n    public void go() { c.stop(); }\n}\n",
	"C.java": "package com.demo;\npublic class C {\n    public void stop() { }\n}\n",
}

// c08BsRun does what "coca bs -p <dir>" does (cmd/bs.go).
func c08BsRun(dir string) string {
	app := bs.NewBadSmellApp()
	nodes := app.AnalysisPath(dir)
	var rows []string
	for _, smell := range app.IdentifyBadSmell(nodes, nil) {
		rows = append(rows, fmt.Sprintf("%s %s %s", smell.Bs, filepath.Base(smell.File), smell.Description))
	}
	sort.Strings(rows)
	return fmt.Sprintf("%d entries: [%s]", len(rows), strings.Join(rows, "; "))
}

func TestDefect_C08_BadSmellRepeatedRun(t *testing.T) {
	defer func() {
		if r := recover(); r != nil {
			t.Fatalf("panic: %v", r)
		}
	}()

	dir, err := ioutil.TempDir("", "c08bs")
	if err != nil {
		t.Fatal(err)
	}
	defer os.RemoveAll(dir)
	for name, content := range c08BsSources {
		if err := ioutil.WriteFile(filepath.Join(dir, name), []byte(content), 0644); err != nil {
			t.Fatal(err)
		}
	}
	// an empty ignore file keeps the file walker quiet
	_ = ioutil.WriteFile(filepath.Join(dir, ".gitignore"), []byte(""), 0644)

	// silence "parse java call: ..." of the analysis app
	stdout := os.Stdout
	null, _ := os.OpenFile(os.DevNull, os.O_WRONLY, 0)
	os.Stdout = null
	first := c08BsRun(dir)
	second := c08BsRun(dir)
	os.Stdout = stdout
	null.Close()

	if first != second {
		t.Fatalf("the same directory, analysed twice, gave two different bad-smell lists:\n first: %s\nsecond: %s", first, second)
	}
}
