package rcall_test

import (
	"fmt"
	"io/ioutil"
	"os"
	"path/filepath"
	"sort"
	"strings"
	"testing"

	"github.com/modernizing/coca/pkg/application/analysis/javaapp"
	"github.com/modernizing/coca/pkg/application/rcall"
)

// Target.hit has two direct callers in one class, m1 and m2 (no overloads anywhere):
// m1 is reached through a long chain (p1 .. p6), m2 through a short one (q1).
const c08Target = `package com.demo;

public class Target {
    public void hit() { }
}
`

const c08Callers = `package com.demo;

public class Callers {
    private Target target;

    public void m1() { target.hit(); }
    public void m2() { target.hit(); }

    public void p1() { m1(); }
    public void p2() { p1(); }
    public void p3() { p2(); }
    public void p4() { p3(); }
    public void p5() { p4(); }
    public void p6() { p5(); }

    public void q1() { m2(); }
}
`

// c08RCallRun does "coca analysis -p <dir>" followed by "coca rcall -c com.demo.Target.hit" and returns the edge set of the graph.
func c08RCallRun(dir string) string {
	identifierApp := javaapp.NewJavaIdentifierApp()
	identifiers := identifierApp.AnalysisPath(dir)
	fullApp := javaapp.NewJavaFullApp()
	deps := fullApp.AnalysisPath(dir, identifiers)

	dot := rcall.NewRCallGraph().Analysis("com.demo.Target.hit", deps, func(map[string][]string) {})

	edgeSet := make(map[string]bool)
	for _, line := range strings.Split(dot, "\n") {
		if strings.Contains(line, " -> ") {
			edgeSet[strings.ReplaceAll(strings.TrimSpace(line), "com.demo.", "")] = true
		}
	}
	var edges []string
	for edge := range edgeSet {
		edges = append(edges, edge)
	}
	sort.Strings(edges)
	return strings.Join(edges, " ")
}

func TestDefect_C08_RCallCallerOrder(t *testing.T) {
	defer func() {
		if r := recover(); r != nil {
			t.Fatalf("panic: %v", r)
		}
	}()

	dir, err := ioutil.TempDir("", "c08rcall")
	if err != nil {
		t.Fatal(err)
	}
	defer os.RemoveAll(dir)
	if err := ioutil.WriteFile(filepath.Join(dir, "Target.java"), []byte(c08Target), 0644); err != nil {
		t.Fatal(err)
	}
	if err := ioutil.WriteFile(filepath.Join(dir, "Callers.java"), []byte(c08Callers), 0644); err != nil {
		t.Fatal(err)
	}

	// silence "parse java call: ..." of the analysis app
	stdout := os.Stdout
	null, _ := os.OpenFile(os.DevNull, os.O_WRONLY, 0)
	os.Stdout = null
	seen := make(map[string]int)
	const runs = 300
	for i := 0; i < runs; i++ {
		seen[c08RCallRun(dir)]++
	}
	os.Stdout = stdout
	null.Close()

	if len(seen) != 1 {
		var reports []string
		for report, count := range seen {
			reports = append(reports, fmt.Sprintf("%4d x %s", count, report))
		}
		sort.Strings(reports)
		t.Fatalf("the same source gave %d different reverse-call edge sets for Target.hit over %d runs:\n%s", len(seen), runs, strings.Join(reports, "\n"))
	}
}
