package call_test

import (
	"fmt"
	"io/ioutil"
	"os"
	"path/filepath"
	"sort"
	"strings"
	"testing"

	"github.com/modernizing/coca/pkg/application/analysis/javaapp"
	"github.com/modernizing/coca/pkg/application/call"
)

// process is overloaded: one overload starts a long chain (a1 .. a7), the other one a short chain (b1, b2).
const c08OverloadedFlow = `package com.demo;

public class Flow {
    public void start() {
        process(1);
    }

    public void process(int number) {
        a1();
    }

    public void process(String text) {
        b1();
    }

    public void a1() { a2(); }
    public void a2() { a3(); }
    public void a3() { a4(); }
    public void a4() { a5(); }
    public void a5() { a6(); }
    public void a6() { a7(); }
    public void a7() { }

    public void b1() { b2(); }
    public void b2() { }
}
`

// c08CallRun does "coca analysis -p <dir>" followed by "coca call -c com.demo.Flow.start" and returns the edge set of the graph.
func c08CallRun(dir string) string {
	identifierApp := javaapp.NewJavaIdentifierApp()
	identifiers := identifierApp.AnalysisPath(dir)
	fullApp := javaapp.NewJavaFullApp()
	deps := fullApp.AnalysisPath(dir, identifiers)

	dot := call.NewCallGraph().Analysis("com.demo.Flow.start", deps, false)

	edgeSet := make(map[string]bool)
	for _, line := range strings.Split(dot, "\n") {
		if strings.Contains(line, " -> ") {
			edgeSet[strings.ReplaceAll(strings.TrimSpace(line), "com.demo.Flow.", "")] = true
		}
	}
	var edges []string
	for edge := range edgeSet {
		edges = append(edges, edge)
	}
	sort.Strings(edges)
	return strings.Join(edges, " ")
}

func TestDefect_C08_CallGraphOverloadBudget(t *testing.T) {
	defer func() {
		if r := recover(); r != nil {
			t.Fatalf("panic: %v", r)
		}
	}()

	dir, err := ioutil.TempDir("", "c08call")
	if err != nil {
		t.Fatal(err)
	}
	defer os.RemoveAll(dir)
	if err := ioutil.WriteFile(filepath.Join(dir, "Flow.java"), []byte(c08OverloadedFlow), 0644); err != nil {
		t.Fatal(err)
	}

	// silence "parse java call: ..." of the analysis app
	stdout := os.Stdout
	null, _ := os.OpenFile(os.DevNull, os.O_WRONLY, 0)
	os.Stdout = null
	seen := make(map[string]int)
	const runs = 300
	for i := 0; i < runs; i++ {
		seen[c08CallRun(dir)]++
	}
	os.Stdout = stdout
	null.Close()

	if len(seen) != 1 {
		var reports []string
		for report, count := range seen {
			reports = append(reports, fmt.Sprintf("%4d x %s", count, report))
		}
		sort.Strings(reports)
		t.Fatalf("the same source gave %d different call edge sets for Flow.start over %d runs:\n%s", len(seen), runs, strings.Join(reports, "\n"))
	}
}
