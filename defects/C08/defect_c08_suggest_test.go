package suggest_test

import (
	"fmt"
	"io/ioutil"
	"os"
	"path/filepath"
	"sort"
	"strings"
	"testing"

	"github.com/modernizing/coca/pkg/application/analysis/javaapp"
	"github.com/modernizing/coca/pkg/application/suggest"
)

// One constructor without parameters, one ordinary method with six parameters.
const c08Order = `package com.demo;

public class Order {
    public Order() { }

    public void fill(String a, String b, String c, String d, String e, String f) { }
}
`

// c08SuggestRun does "coca analysis -p <dir>" followed by "coca suggest".
func c08SuggestRun(dir string) string {
	identifierApp := javaapp.NewJavaIdentifierApp()
	identifiers := identifierApp.AnalysisPath(dir)
	fullApp := javaapp.NewJavaFullApp()
	deps := fullApp.AnalysisPath(dir, identifiers)

	var rows []string
	for _, s := range suggest.NewSuggestApp().AnalysisPath(deps) {
		rows = append(rows, fmt.Sprintf("%s: %s (%s, size %d)", s.Class, s.Pattern, s.Reason, s.Size))
	}
	sort.Strings(rows)
	return "[" + strings.Join(rows, "; ") + "]"
}

func TestDefect_C08_SuggestFirstFunctionSeed(t *testing.T) {
	defer func() {
		if r := recover(); r != nil {
			t.Fatalf("panic: %v", r)
		}
	}()

	dir, err := ioutil.TempDir("", "c08suggest")
	if err != nil {
		t.Fatal(err)
	}
	defer os.RemoveAll(dir)
	if err := ioutil.WriteFile(filepath.Join(dir, "Order.java"), []byte(c08Order), 0644); err != nil {
		t.Fatal(err)
	}

	// silence "parse java call: ..." of the analysis app
	stdout := os.Stdout
	null, _ := os.OpenFile(os.DevNull, os.O_WRONLY, 0)
	os.Stdout = null
	seen := make(map[string]int)
	const runs = 300
	for i := 0; i < runs; i++ {
		seen[c08SuggestRun(dir)]++
	}
	os.Stdout = stdout
	null.Close()

	if len(seen) != 1 {
		var reports []string
		for report, count := range seen {
			reports = append(reports, fmt.Sprintf("%4d x %s", count, report))
		}
		sort.Strings(reports)
		t.Fatalf("the same source gave %d different suggestion lists over %d runs:\n%s", len(seen), runs, strings.Join(reports, "\n"))
	}
}
