package tbs_test

import (
	"fmt"
	"io/ioutil"
	"os"
	"path/filepath"
	"sort"
	"strings"
	"testing"

	"github.com/modernizing/coca/pkg/adapter/cocafile"
	"github.com/modernizing/coca/pkg/application/analysis/javaapp"
	"github.com/modernizing/coca/pkg/application/tbs"
	"github.com/modernizing/coca/pkg/domain/core_domain"
)

// A JUnit test class with an overloaded private helper: one overload asserts, the other one prints.
const c08OverloadedHelperTest = `package com.demo;

import org.junit.Test;
import static org.junit.Assert.assertEquals;

public class PriceTest {
    @Test
    public void shouldCheckPrice() {
        compare(42);
    }

    private void compare(int price) {
        assertEquals(42, price);
    }

    private void compare(String label) {
        System.out.println(label);
    }
}
`

// c08TbsRun does what "coca tbs -p <dir>" does (cmd/tbs.go), without the tidentify.json cache of the reporter directory.
func c08TbsRun(dir string) string {
	files := cocafile.GetJavaTestFiles(dir)
	identifierApp := javaapp.NewJavaIdentifierApp()
	identifiers := identifierApp.AnalysisFiles(files)
	identifiersMap := core_domain.BuildIdentifierMap(identifiers)

	analysisApp := javaapp.NewJavaFullApp()
	classNodes := analysisApp.AnalysisFiles(identifiers, files)

	result := tbs.NewTbsApp().AnalysisPath(classNodes, identifiersMap)

	// the report as a collection: order of the entries does not count
	var rows []string
	for _, smell := range result {
		rows = append(rows, fmt.Sprintf("%s@%s:%d", smell.Type, filepath.Base(smell.FileName), smell.Line))
	}
	sort.Strings(rows)
	return "[" + strings.Join(rows, ", ") + "]"
}

func TestDefect_C08_TbsOverloadedHelper(t *testing.T) {
	defer func() {
		if r := recover(); r != nil {
			t.Fatalf("panic: %v", r)
		}
	}()

	dir, err := ioutil.TempDir("", "c08tbs")
	if err != nil {
		t.Fatal(err)
	}
	defer os.RemoveAll(dir)
	if err := ioutil.WriteFile(filepath.Join(dir, "PriceTest.java"), []byte(c08OverloadedHelperTest), 0644); err != nil {
		t.Fatal(err)
	}

	// silence "parse java call: ..." of the analysis app
	stdout := os.Stdout
	null, _ := os.OpenFile(os.DevNull, os.O_WRONLY, 0)
	os.Stdout = null
	seen := make(map[string]int)
	const runs = 300
	for i := 0; i < runs; i++ {
		seen[c08TbsRun(dir)]++
	}
	os.Stdout = stdout
	null.Close()

	if len(seen) != 1 {
		var reports []string
		for report, count := range seen {
			reports = append(reports, fmt.Sprintf("%4d x %s", count, report))
		}
		sort.Strings(reports)
		t.Fatalf("the same test directory gave %d different test-smell lists over %d runs:\n%s", len(seen), runs, strings.Join(reports, "\n"))
	}
}
