package deps

import "testing"

func TestDefect_C19_BareDependencies(t *testing.T) {
	defer func() {
		if r := recover(); r != nil {
			t.Fatalf("panic: %v", r)
		}
	}()
	AnalysisGradleString("def x = 1\ndependencies\n")
}
func TestDefect_C19_BareDependencies2(t *testing.T) {
	defer func() {
		if r := recover(); r != nil {
			t.Fatalf("panic: %v", r)
		}
	}()
	AnalysisGradleString("dependencies 'x'\n")
}
