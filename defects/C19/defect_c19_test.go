package deps

import (
	"fmt"
	"os"
	"path/filepath"
	"strings"
	"testing"

	"github.com/modernizing/coca/cocatest/testhelper"
	"github.com/modernizing/coca/pkg/domain/core_domain"
)

// helpers -------------------------------------------------------------

func c19Write(t *testing.T, root, rel, content string) string {
	t.Helper()
	p := filepath.Join(root, filepath.FromSlash(rel))
	if err := os.MkdirAll(filepath.Dir(p), 0755); err != nil {
		t.Fatal(err)
	}
	if err := os.WriteFile(p, []byte(content), 0644); err != nil {
		t.Fatal(err)
	}
	return p
}

func c19Render(deps []core_domain.CodeDependency) string {
	var parts []string
	for _, d := range deps {
		parts = append(parts, fmt.Sprintf("%s:%s@%s", d.GroupId, d.ArtifactId, d.Scope))
	}
	return strings.Join(parts, " | ")
}

func c19Gradle(t *testing.T, script string) (deps []core_domain.CodeDependency) {
	t.Helper()
	defer func() {
		if r := recover(); r != nil {
			t.Fatalf("AnalysisGradleString panicked: %v", r)
		}
	}()
	return AnalysisGradleString(script)
}

func c19Unused(t *testing.T, dir string) (deps []core_domain.CodeDependency) {
	t.Helper()
	defer func() {
		if r := recover(); r != nil {
			t.Fatalf("unused-dependency pipeline panicked: %v", r)
		}
	}()
	// same pipeline as `coca deps` (analysis/dep/app/dep_analysis.go):
	// identifier pass + full pass over all *.java, then DepAnalysisApp.AnalysisPath
	classNodes, _, _ := testhelper.BuildAnalysisDeps(dir)
	return NewDepApp().AnalysisPath(dir, classNodes)
}

// Defect 1 -------------------------------------------------------------
// Double-quoted string notation keeps the opening quote in the group id.
func TestDefect_C19_GradleDoubleQuoted(t *testing.T) {
	script := `plugins {
    id 'java'
}

dependencies {
    implementation "org.foo:bar:1.0"
    api("org.baz:qux:2.0")
    testImplementation 'junit:junit:4.12'
}
`
	got := c19Render(c19Gradle(t, script))
	want := "org.foo:bar@implementation | org.baz:qux@api | junit:junit@testImplementation"
	if got != want {
		t.Errorf("extracted dependencies\n got: %s\nwant: %s", got, want)
	}

	// consequence for the report: a dependency that IS imported is reported as unused
	dir := t.TempDir()
	c19Write(t, dir, "build.gradle", script)
	c19Write(t, dir, "src/main/java/p/C.java",
		"package p;\nimport org.foo.Thing;\nimport org.baz.Other;\npublic class C { Thing t; Other o; }\n")
	unused := c19Render(c19Unused(t, dir))
	if unused != "junit:junit@testImplementation" {
		t.Errorf("unused report\n got: %s\nwant: junit:junit@testImplementation", unused)
	}
}

// Defect 2 -------------------------------------------------------------
// Several notations in one statement: only the last one survives.
func TestDefect_C19_GradleSeveralNotationsInOneStatement(t *testing.T) {
	script := `dependencies {
    implementation 'org.foo:bar:1.0', 'org.baz:qux:2.0'
    runtimeOnly('org.one:a:1', 'org.two:b:2')
    testImplementation 'junit:junit:4.12'
}
`
	got := c19Render(c19Gradle(t, script))
	want := "org.foo:bar@implementation | org.baz:qux@implementation | " +
		"org.one:a@runtimeOnly | org.two:b@runtimeOnly | junit:junit@testImplementation"
	if got != want {
		t.Errorf("extracted dependencies\n got: %s\nwant: %s", got, want)
	}
}

// Defect 3 -------------------------------------------------------------
// Imports of Java files that declare only an enum / an annotation type never
// reach the import map, so a dependency that is imported is reported unused.
func TestDefect_C19_UnusedIgnoresImportsOfEnumAndAnnotationFiles(t *testing.T) {
	dir := t.TempDir()
	c19Write(t, dir, "pom.xml", `<?xml version="1.0" encoding="UTF-8"?>
<project xmlns="http://maven.apache.org/POM/4.0.0">
  <modelVersion>4.0.0</modelVersion>
  <groupId>p</groupId>
  <artifactId>demo</artifactId>
  <version>1</version>
  <dependencies>
    <dependency><groupId>org.usedbyenum</groupId><artifactId>a</artifactId></dependency>
    <dependency><groupId>org.nobody</groupId><artifactId>b</artifactId><scope>runtime</scope></dependency>
    <dependency><groupId>org.usedbyclass</groupId><artifactId>c</artifactId></dependency>
    <dependency><groupId>org.usedbyannotation</groupId><artifactId>d</artifactId></dependency>
  </dependencies>
</project>
`)
	c19Write(t, dir, "src/main/java/p/C.java",
		"package p;\nimport org.usedbyclass.Thing;\npublic class C { Thing t; }\n")
	c19Write(t, dir, "src/main/java/p/Color.java",
		"package p;\nimport org.usedbyenum.Label;\npublic enum Color {\n    RED, GREEN;\n    Label label;\n}\n")
	c19Write(t, dir, "src/main/java/p/Marker.java",
		"package p;\nimport org.usedbyannotation.Kind;\npublic @interface Marker {\n    Class<?> value() default Kind.class;\n}\n")

	got := c19Render(c19Unused(t, dir))
	want := "org.nobody:b@runtime"
	if got != want {
		t.Errorf("unused report\n got: %s\nwant: %s", got, want)
	}
}

// Defect 4 -------------------------------------------------------------
// A pom.xml whose XML declaration names a non-UTF-8 encoding yields no
// dependency at all (the decoder error is swallowed by ParseXML).
func TestDefect_C19_MavenEncodingDeclaration(t *testing.T) {
	dir := t.TempDir()
	pom := c19Write(t, dir, "pom.xml", `<?xml version="1.0" encoding="ISO-8859-1"?>
<project xmlns="http://maven.apache.org/POM/4.0.0">
  <modelVersion>4.0.0</modelVersion>
  <groupId>p</groupId>
  <artifactId>demo</artifactId>
  <version>1</version>
  <dependencies>
    <dependency>
      <groupId>org.foo</groupId>
      <artifactId>bar</artifactId>
      <version>1.0</version>
    </dependency>
    <dependency>
      <groupId>junit</groupId>
      <artifactId>junit</artifactId>
      <version>4.12</version>
      <scope>test</scope>
    </dependency>
  </dependencies>
</project>
`)
	var deps []core_domain.CodeDependency
	func() {
		defer func() {
			if r := recover(); r != nil {
				t.Fatalf("AnalysisMaven panicked: %v", r)
			}
		}()
		deps = AnalysisMaven(pom)
	}()
	got := c19Render(deps)
	want := "org.foo:bar@ | junit:junit@test"
	if got != want {
		t.Errorf("extracted dependencies\n got: %q\nwant: %q", got, want)
	}
}

// Defect 5 (minor) -------------------------------------------------------
// A comment (or CDATA section) inside the text of <groupId>/<artifactId>/<scope>
// splits the character data; only the last fragment is kept.
func TestDefect_C19_MavenCommentInsideText(t *testing.T) {
	dir := t.TempDir()
	pom := c19Write(t, dir, "pom.xml", `<?xml version="1.0" encoding="UTF-8"?>
<project>
  <dependencies>
    <dependency>
      <groupId>org.foo<!-- was: org.oldfoo -->.core</groupId>
      <artifactId>bar</artifactId>
      <scope>test<!-- for now --></scope>
    </dependency>
    <dependency>
      <groupId>org.baz</groupId>
      <artifactId>qux-<![CDATA[api]]></artifactId>
    </dependency>
  </dependencies>
</project>
`)
	var deps []core_domain.CodeDependency
	func() {
		defer func() {
			if r := recover(); r != nil {
				t.Fatalf("AnalysisMaven panicked: %v", r)
			}
		}()
		deps = AnalysisMaven(pom)
	}()
	got := c19Render(deps)
	want := "org.foo.core:bar@test | org.baz:qux-api@"
	if got != want {
		t.Errorf("extracted dependencies\n got: %q\nwant: %q", got, want)
	}
}
