package rcall_test

import (
	"fmt"
	"os"
	"path/filepath"
	"strings"
	"testing"

	"github.com/modernizing/coca/pkg/application/analysis/javaapp"
	"github.com/modernizing/coca/pkg/application/rcall"
	"github.com/modernizing/coca/pkg/domain/core_domain"
)

// defect3C04Model writes the Java sources to a temporary directory and runs the two passes of `coca analysis` over it.
func defect3C04Model(t *testing.T, files map[string]string) []core_domain.CodeDataStruct {
	t.Helper()
	dir := t.TempDir()
	for name, src := range files {
		path := filepath.Join(dir, filepath.FromSlash(name))
		if err := os.MkdirAll(filepath.Dir(path), 0o755); err != nil {
			t.Fatal(err)
		}
		if err := os.WriteFile(path, []byte(src), 0o644); err != nil {
			t.Fatal(err)
		}
	}
	identApp := javaapp.NewJavaIdentifierApp()
	identifiers := identApp.AnalysisPath(dir)
	fullApp := javaapp.NewJavaFullApp()
	return fullApp.AnalysisPath(dir, identifiers)
}

func defect3C04Count(list []string, want string) int {
	n := 0
	for _, s := range list {
		if s == want {
			n++
		}
	}
	return n
}

// A method called through a static import (`import static p.Clock.now; ... now()`) is recorded in the model as a call
// with Package "p.Clock.now", no NodeName and FunctionName "now". p.Clock.now is a declared project method and
// q.Report.stamp calls it, so the reverse-call map has to list q.Report.stamp under p.Clock.now, and the reverse call
// graph of p.Clock.now has to contain that direct caller.
func TestDefect3_C04_StaticImportCaller(t *testing.T) {
	defer func() {
		if r := recover(); r != nil {
			t.Fatalf("panic: %v", r)
		}
	}()

	check := func(t *testing.T, model []core_domain.CodeDataStruct) {
		declared := rcall.BuildProjectMethodMap(model)
		if declared["p.Clock.now"] < 1 {
			t.Fatalf("precondition: p.Clock.now is not a declared method of the model: %v", declared)
		}
		rcallMap := rcall.BuildMethodCallMap(model, declared)
		callers := rcallMap["p.Clock.now"]
		if n := defect3C04Count(callers, "q.Other.direct"); n != 1 {
			t.Errorf("control: the qualified call Clock.now() of q.Other.direct should be listed once, got %d in %v", n, callers)
		}
		if n := defect3C04Count(callers, "q.Report.stamp"); n != 1 {
			t.Errorf("reverse-call map: q.Report.stamp calls p.Clock.now once (static import), listed %d times: callers = %v", n, callers)
		}
		dot := rcall.NewRCallGraph().Analysis("p.Clock.now", model, func(map[string][]string) {})
		if !strings.Contains(dot, `"q.Report.stamp" -> "p.Clock.now";`) {
			t.Errorf("reverse call graph: the direct caller q.Report.stamp is missing:\n%s", dot)
		}
	}

	t.Run("model produced by the analyser", func(t *testing.T) {
		model := defect3C04Model(t, map[string]string{
			"p/Clock.java": `package p;
public class Clock {
    public static String now() { return ""; }
}
`,
			"q/Report.java": `package q;
import static p.Clock.now;
public class Report {
    public String stamp() { return now(); }
}
`,
			"q/Other.java": `package q;
import p.Clock;
public class Other {
    public String direct() { return Clock.now(); }
}
`,
		})
		// the input really holds the call, in the model's spelling for statically imported methods
		found := false
		for _, clz := range core_domain.WithInnerStructures(model) {
			for _, fn := range clz.Functions {
				for _, c := range fn.FunctionCalls {
					if clz.NodeName == "Report" && fn.Name == "stamp" && c.Package == "p.Clock.now" && c.NodeName == "" && c.FunctionName == "now" {
						found = true
					}
				}
			}
		}
		if !found {
			t.Fatalf("precondition: the analyser did not record the statically imported call as expected")
		}
		check(t, model)
	})

	t.Run("same model written by hand", func(t *testing.T) {
		model := []core_domain.CodeDataStruct{
			{Package: "p", NodeName: "Clock", Functions: []core_domain.CodeFunction{{Name: "now"}}},
			{Package: "q", NodeName: "Report", Functions: []core_domain.CodeFunction{{Name: "stamp", FunctionCalls: []core_domain.CodeCall{
				{Package: "p.Clock.now", NodeName: "", FunctionName: "now"},
			}}}},
			{Package: "q", NodeName: "Other", Functions: []core_domain.CodeFunction{{Name: "direct", FunctionCalls: []core_domain.CodeCall{
				{Package: "p", NodeName: "Clock", FunctionName: "now"},
			}}}},
		}
		check(t, model)
	})
}

// The calls of field initialisers and initialiser blocks are kept in a function entry without a name. The reverse-call
// map must contain declared methods only: "q.Order." (class name, dot, nothing) is no method of the project, it may be
// neither a "project method" nor a caller, and it may not be a node of the reverse call graph.
func TestDefect3_C04_NamelessInitialiserIsNoMethod(t *testing.T) {
	defer func() {
		if r := recover(); r != nil {
			t.Fatalf("panic: %v", r)
		}
	}()

	model := defect3C04Model(t, map[string]string{
		"p/Ids.java": `package p;
public class Ids {
    public static String next() { return ""; }
}
`,
		"q/Order.java": `package q;
import p.Ids;
public class Order {
    private String id = Ids.next();
    static { Ids.next(); }
    public String fresh() { return Ids.next(); }
}
`,
	})

	// what the project declares, read off the model: every function entry that has a name
	declaredByName := map[string]bool{}
	for _, clz := range core_domain.WithInnerStructures(model) {
		for _, fn := range clz.Functions {
			if fn.Name != "" {
				declaredByName[clz.Package+"."+clz.NodeName+"."+fn.Name] = true
			}
		}
	}
	if !declaredByName["p.Ids.next"] || !declaredByName["q.Order.fresh"] || len(declaredByName) != 2 {
		t.Fatalf("precondition: declared methods of the input are %v", declaredByName)
	}

	projectMethods := rcall.BuildProjectMethodMap(model)
	for name := range projectMethods {
		if !declaredByName[name] {
			t.Errorf("project method set holds %q, which no class declares", name)
		}
	}

	rcallMap := rcall.BuildMethodCallMap(model, projectMethods)
	for callee, callers := range rcallMap {
		for _, caller := range callers {
			if !declaredByName[caller] {
				t.Errorf("reverse-call map lists %q as a caller of %s; the project declares no such method", caller, callee)
			}
		}
	}
	if got := fmt.Sprint(rcallMap["p.Ids.next"]); got != "[q.Order.fresh]" {
		t.Errorf("callers of p.Ids.next: want [q.Order.fresh], got %s", got)
	}

	dot := rcall.NewRCallGraph().Analysis("p.Ids.next", model, func(map[string][]string) {})
	if strings.Contains(dot, `"q.Order."`) {
		t.Errorf("reverse call graph has the node \"q.Order.\", which is no method:\n%s", dot)
	}
	if !strings.Contains(dot, `"q.Order.fresh" -> "p.Ids.next";`) {
		t.Errorf("reverse call graph lacks the direct caller q.Order.fresh:\n%s", dot)
	}
}
