package tbs

import (
	"fmt"
	"os"
	"path/filepath"
	"sort"
	"strings"
	"testing"

	"github.com/modernizing/coca/pkg/adapter/cocafile"
	"github.com/modernizing/coca/pkg/application/analysis/javaapp"
	"github.com/modernizing/coca/pkg/domain/core_domain"
)

// defect3C11Run writes the tree, lists its test files with the real filter, runs the identifier pass and the full pass
// (the steps of `coca tbs`, without the tidentify.json cache) and returns the findings as "Type file:line" strings,
// the file relative to the tree root, sorted.
func defect3C11Run(t *testing.T, files map[string]string) (found []string, panicked interface{}) {
	dir := t.TempDir()
	for name, src := range files {
		p := filepath.Join(dir, filepath.FromSlash(name))
		if err := os.MkdirAll(filepath.Dir(p), 0o755); err != nil {
			t.Fatal(err)
		}
		if err := os.WriteFile(p, []byte(src), 0o644); err != nil {
			t.Fatal(err)
		}
	}

	defer func() {
		if r := recover(); r != nil {
			panicked = r
		}
	}()

	testFiles := cocafile.GetJavaTestFiles(dir)
	identifierApp := javaapp.NewJavaIdentifierApp()
	identifiers := identifierApp.AnalysisFiles(testFiles)
	identifiersMap := core_domain.BuildIdentifierMap(identifiers)
	fullApp := javaapp.NewJavaFullApp()
	classNodes := fullApp.AnalysisFiles(identifiers, testFiles)

	for _, smell := range NewTbsApp().AnalysisPath(classNodes, identifiersMap) {
		rel, err := filepath.Rel(dir, smell.FileName)
		if err != nil {
			rel = smell.FileName
		}
		found = append(found, fmt.Sprintf("%s %s:%d", smell.Type, filepath.ToSlash(rel), smell.Line))
	}
	sort.Strings(found)
	return found, nil
}

func defect3C11Compare(t *testing.T, found []string, panicked interface{}, want []string) {
	if panicked != nil {
		t.Fatalf("the analysis panicked: %v", panicked)
	}
	sort.Strings(want)
	if strings.Join(found, "\n") != strings.Join(want, "\n") {
		t.Fatalf("findings differ from the evidence in the sources\nwant:\n  %s\ngot:\n  %s",
			strings.Join(want, "\n  "), strings.Join(found, "\n  "))
	}
}

// Two Maven modules each hold a test class p.SmokeTest. In module-a the helper prepare() asserts nothing, so starts()
// makes calls and none of them is an assertion, directly or through a helper of ITS OWN class: UnknownTest. In module-b
// the helper asserts, so that test is fine. The helper is looked up in one table for the whole tree, keyed by
// package.Class.method: the two classes share the keys, the calls of both prepare() are merged, and module-a's test
// borrows the assertion of module-b's helper.
func TestDefect3_C11_SameNamedClassInOtherModule(t *testing.T) {
	moduleA := `package p;

import org.junit.Test;

public class SmokeTest {
    private Service service;

    @Test
    public void starts() {
        prepare();
        service.run();
    }

    private void prepare() {
        service.init();
    }
}
`
	moduleB := `package p;

import org.junit.Test;
import static org.junit.Assert.assertTrue;

public class SmokeTest {
    private Service service;

    @Test
    public void starts() {
        prepare();
        service.run();
    }

    private void prepare() {
        assertTrue(service.init());
    }
}
`
	found, panicked := defect3C11Run(t, map[string]string{
		"module-a/src/test/java/p/SmokeTest.java": moduleA,
		"module-b/src/test/java/p/SmokeTest.java": moduleB,
	})
	defect3C11Compare(t, found, panicked, []string{
		"UnknownTest module-a/src/test/java/p/SmokeTest.java:9",
	})
}

// A test file with a second (package-private) top-level test class. The test of the second class asserts through a
// helper of its own class, like the test of the first class does: no finding for either. The second class is filed
// without its package, its helper is not found, and the test is reported as UnknownTest.
func TestDefect3_C11_SecondTopLevelClass(t *testing.T) {
	source := `package p;

import org.junit.Test;
import static org.junit.Assert.assertTrue;

public class FooTest {
    private Service service;

    @Test
    public void first() {
        service.run();
        expectRunning(1);
    }

    private void expectRunning(int x) {
        assertTrue(service.running(x));
    }
}

class FooSlowTest {
    private Service service;

    @Test
    public void second() {
        service.run();
        expectRunning(2);
    }

    private void expectRunning(int x) {
        assertTrue(service.running(x));
    }
}
`
	found, panicked := defect3C11Run(t, map[string]string{"FooTest.java": source})
	defect3C11Compare(t, found, panicked, nil)
}

// A test builds its fixture with nested double-brace initialisers (an anonymous class inside an anonymous class) and
// then asserts; the next test sleeps and asserts. The evidence in the file: one Thread.sleep, on line 25. The end of
// the inner anonymous class ends the "inside an anonymous class" state of the outer one: the end of the outer body
// then closes the test class, the assertion of the first test and every later method are lost.
func TestDefect3_C11_NestedAnonymousClass(t *testing.T) {
	source := `package p;

import org.junit.Test;
import java.util.ArrayList;
import static org.junit.Assert.assertEquals;

public class OrderTest {
    private Service service;

    @Test
    public void buildsOrder() {
        Order order = new Order() {{
            setLines(new ArrayList<Line>() {{
                add(new Line("a"));
            }});
            setName("x");
        }};
        service.save(order);
        assertEquals(1, service.count());
    }

    @Test
    public void waits() throws Exception {
        service.run();
        Thread.sleep(50);
        assertEquals(2, service.count());
    }
}
`
	found, panicked := defect3C11Run(t, map[string]string{"src/test/java/p/OrderTest.java": source})
	defect3C11Compare(t, found, panicked, []string{
		"SleepyTest src/test/java/p/OrderTest.java:25",
	})
}
