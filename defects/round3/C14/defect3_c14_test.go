package cmd

import (
	"fmt"
	"os"
	"os/exec"
	"path/filepath"
	"strings"
	"testing"

	. "github.com/modernizing/coca/pkg/application/git"
)

// helpers: a real repository built by real git in a temporary directory

func c14Git(t *testing.T, dir string, env []string, args ...string) string {
	t.Helper()
	cmd := exec.Command("git", args...)
	cmd.Dir = dir
	cmd.Env = append(os.Environ(), env...)
	out, err := cmd.CombinedOutput()
	if err != nil {
		t.Fatalf("git %v: %v\n%s", args, err, out)
	}
	return string(out)
}

func c14Repo(t *testing.T) string {
	t.Helper()
	dir, err := os.MkdirTemp("", "c14h3")
	if err != nil {
		t.Fatal(err)
	}
	c14Git(t, dir, nil, "init", "-q")
	c14Git(t, dir, nil, "config", "user.email", "dev@example.invalid")
	c14Git(t, dir, nil, "config", "user.name", "Committer")
	return dir
}

// one commit: write the files, stage everything, commit as author at date
func c14Commit(t *testing.T, dir, author, date, subject string, files map[string]string) {
	t.Helper()
	for name, content := range files {
		p := filepath.Join(dir, name)
		if err := os.MkdirAll(filepath.Dir(p), 0755); err != nil {
			t.Fatal(err)
		}
		if err := os.WriteFile(p, []byte(content), 0644); err != nil {
			t.Fatal(err)
		}
	}
	env := []string{"GIT_AUTHOR_NAME=" + author, "GIT_AUTHOR_DATE=" + date, "GIT_COMMITTER_DATE=2021-06-01T12:00:00 +0000"}
	c14Git(t, dir, env, "add", "-A")
	c14Git(t, dir, env, "commit", "-q", "-m", subject)
}

// what `coca git` parses: the log exactly as cmd/git.go asks git for it, run inside dir
func c14Parse(t *testing.T, dir string) (commits []CommitMessage) {
	t.Helper()
	old, err := os.Getwd()
	if err != nil {
		t.Fatal(err)
	}
	if err := os.Chdir(dir); err != nil {
		t.Fatal(err)
	}
	defer os.Chdir(old)
	defer func() {
		if r := recover(); r != nil {
			t.Errorf("panic while parsing the log: %v", r)
		}
	}()
	return BuildMessageByInput(getCommitMessage())
}

type c14Want struct {
	rev, author, date, subject string
	files                      []string // "added deleted path mode", sorted by path
}

// ground truth from git plumbing, NUL separated, nothing to guess
func c14Truth(t *testing.T, dir string) []c14Want {
	t.Helper()
	var want []c14Want
	for _, rev := range strings.Fields(c14Git(t, dir, nil, "log", "--reverse", "--no-merges", "--format=%H")) {
		meta := strings.Split(strings.TrimSuffix(c14Git(t, dir, nil, "log", "-1", "--date=short", "--format=%h%x00%aN%x00%ad%x00%s", rev), "\n"), "\x00")
		w := c14Want{rev: meta[0], author: meta[1], date: meta[2], subject: meta[3]}
		status := map[string]string{}
		st := strings.Split(c14Git(t, dir, nil, "diff-tree", "--root", "--no-commit-id", "-r", "--no-renames", "--name-status", "-z", rev), "\x00")
		for i := 0; i+1 < len(st); i += 2 {
			status[st[i+1]] = st[i]
		}
		for _, line := range strings.Split(c14Git(t, dir, nil, "diff-tree", "--root", "--no-commit-id", "-r", "--no-renames", "--numstat", "-z", rev), "\x00") {
			if line == "" {
				continue
			}
			parts := strings.SplitN(line, "\t", 3)
			mode := map[string]string{"A": "create", "D": "delete"}[status[parts[2]]]
			w.files = append(w.files, fmt.Sprintf("%s %s %s %s", strings.Replace(parts[0], "-", "0", 1), strings.Replace(parts[1], "-", "0", 1), parts[2], mode))
		}
		if len(w.files) > 0 {
			want = append(want, w)
		}
	}
	return want
}

func c14Compare(t *testing.T, got []CommitMessage, want []c14Want) {
	t.Helper()
	if len(got) != len(want) {
		t.Errorf("parsed %d commits, git has %d non-merge commits that change a file", len(got), len(want))
	}
	for i := 0; i < len(got) && i < len(want); i++ {
		g, w := got[i], want[i]
		if g.Rev != w.rev || g.Author != w.author || g.Date != w.date || g.Message != w.subject {
			t.Errorf("commit %d: parsed rev=%q author=%q date=%q subject=%q\n          git says rev=%q author=%q date=%q subject=%q",
				i, g.Rev, g.Author, g.Date, g.Message, w.rev, w.author, w.date, w.subject)
		}
		var files []string
		for _, c := range g.Changes {
			files = append(files, fmt.Sprintf("%d %d %s %s", c.Added, c.Deleted, c.File, c.Mode))
		}
		if strings.Join(files, "\n") != strings.Join(w.files, "\n") {
			t.Errorf("commit %d (%s %q): parsed changes %q\n          git says %q", i, w.rev, w.subject, files, w.files)
		}
	}
}

// Defect 1: an author name that contains a word shaped like a date. The header is cut at the first
// date-shaped word, which belongs to the name: author, date and subject of the commit are all wrong.
func TestDefect3_C14_AuthorNameWithDate(t *testing.T) {
	dir := c14Repo(t)
	defer os.RemoveAll(dir)
	c14Commit(t, dir, "Ann Lee", "2021-03-04T12:00:00 +0000", "first", map[string]string{"a.txt": "a\n"})
	c14Commit(t, dir, "Build Bot 2020-01-01", "2021-03-05T12:00:00 +0000", "nightly: bump to 2021-03-05", map[string]string{"a.txt": "a\nb\n", "b.txt": "b\n"})
	c14Commit(t, dir, "Ann Lee", "2021-03-06T12:00:00 +0000", "third", map[string]string{"c.txt": "c\n"})

	c14Compare(t, c14Parse(t, dir), c14Truth(t, dir))
}

// Defect 2: an author date whose year has more than four digits (git accepts and prints it).
// The header is not recognised: the commit is lost and its changes are filed under the next commit.
func TestDefect3_C14_FiveDigitYear(t *testing.T) {
	dir := c14Repo(t)
	defer os.RemoveAll(dir)
	c14Commit(t, dir, "Ann Lee", "2021-03-04T12:00:00 +0000", "first", map[string]string{"a.txt": "a\n"})
	// a clock gone wrong: 10000-01-01 00:00:00 UTC
	c14Commit(t, dir, "Ann Lee", "@253402300800 +0000", "from the far future", map[string]string{"far.txt": "1\n2\n"})
	c14Commit(t, dir, "Zoë 3rd", "2021-03-06T12:00:00 +0000", "third", map[string]string{"c.txt": "c\n"})

	c14Compare(t, c14Parse(t, dir), c14Truth(t, dir))
}
