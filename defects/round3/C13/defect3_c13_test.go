package arch

import (
	"fmt"
	"os"
	"path/filepath"
	"sort"
	"strings"
	"testing"

	"github.com/modernizing/coca/cocatest/testhelper"
	"github.com/modernizing/coca/pkg/application/arch/tequila"
)

// PROPERTY C13: the architecture graph has an edge A -> B between two project types exactly when A implements or
// extends B, has a field whose type resolves to B, or a method of A calls a method of B.

func defect3C13Project(t *testing.T, files map[string]string) string {
	t.Helper()
	dir := t.TempDir()
	// the analysers look for the ignore files of the root
	_ = os.WriteFile(filepath.Join(dir, ".gitignore"), []byte(""), 0o644)
	for name, src := range files {
		p := filepath.Join(dir, filepath.FromSlash(name))
		if err := os.MkdirAll(filepath.Dir(p), 0o755); err != nil {
			t.Fatal(err)
		}
		if err := os.WriteFile(p, []byte(src), 0o644); err != nil {
			t.Fatal(err)
		}
	}
	return dir
}

func defect3C13Graph(t *testing.T, files map[string]string) (graph *tequila.FullGraph) {
	t.Helper()
	defer func() {
		if r := recover(); r != nil {
			t.Fatalf("building the architecture graph panicked: %v", r)
		}
	}()
	dir := defect3C13Project(t, files)
	deps, identifiersMap, _ := testhelper.BuildAnalysisDeps(dir)
	return NewArchApp().Analysis(deps, identifiersMap)
}

func defect3C13Edges(graph *tequila.FullGraph) []string {
	var edges []string
	for _, relation := range graph.RelationList {
		edges = append(edges, relation.From+"->"+relation.To)
	}
	sort.Strings(edges)
	return edges
}

func defect3C13Nodes(graph *tequila.FullGraph) []string {
	var nodes []string
	for node := range graph.NodeList {
		nodes = append(nodes, node)
	}
	sort.Strings(nodes)
	return nodes
}

func defect3C13Check(t *testing.T, graph *tequila.FullGraph, wantNodes []string, wantEdges []string) {
	t.Helper()
	sort.Strings(wantNodes)
	sort.Strings(wantEdges)
	gotNodes := defect3C13Nodes(graph)
	gotEdges := defect3C13Edges(graph)
	if fmt.Sprint(gotNodes) != fmt.Sprint(wantNodes) {
		t.Errorf("nodes:\n got  %v\n want %v", gotNodes, wantNodes)
	}
	if fmt.Sprint(gotEdges) != fmt.Sprint(wantEdges) {
		t.Errorf("edges:\n got  %v\n want %v", gotEdges, wantEdges)
	}
}

// A supertype written with type arguments (`extends Base<Foo>`, `implements Repository<Foo>`) is still the project
// type Base / Repository: the class extends and implements them, so both edges belong to the graph. The same class
// written with raw supertypes (Plain) is the control: it gets its two edges.
func TestDefect3_C13_GenericSupertype(t *testing.T) {
	graph := defect3C13Graph(t, map[string]string{
		"a/Repository.java": "package a;\n\npublic interface Repository<T> {\n    T find();\n}\n",
		"a/Base.java":       "package a;\n\npublic class Base<T> {\n}\n",
		"a/Foo.java":        "package a;\n\npublic class Foo {\n}\n",
		"b/FooRepo.java": "package b;\n\nimport a.Base;\nimport a.Foo;\nimport a.Repository;\n\n" +
			"public class FooRepo extends Base<Foo> implements Repository<Foo> {\n    public Foo find() {\n        return null;\n    }\n}\n",
		"c/Plain.java": "package c;\n\nimport a.Base;\nimport a.Repository;\n\n" +
			"public class Plain extends Base implements Repository {\n    public Object find() {\n        return null;\n    }\n}\n",
	})

	defect3C13Check(t, graph,
		[]string{"a.Repository", "a.Base", "a.Foo", "b.FooRepo", "c.Plain"},
		[]string{
			"c.Plain->a.Base", "c.Plain->a.Repository",
			"b.FooRepo->a.Base", "b.FooRepo->a.Repository",
		})

	// the quotient by package: b depends on a, as c does
	merged := graph.MergeHeaderFile(tequila.MergeHeaderFunc)
	for _, want := range []string{"b->a", "c->a"} {
		if _, ok := merged.RelationList[want]; !ok {
			t.Errorf("merged by package: no edge %s, got %v", want, defect3C13Edges(merged))
		}
	}
}

// An interface may extend several interfaces; it extends every one of them, so each is an edge of the graph.
func TestDefect3_C13_InterfaceExtendsSeveral(t *testing.T) {
	graph := defect3C13Graph(t, map[string]string{
		"a/Readable.java": "package a;\n\npublic interface Readable {\n    String read();\n}\n",
		"a/Writable.java": "package a;\n\npublic interface Writable {\n    void write(String s);\n}\n",
		"a/Closable.java": "package a;\n\npublic interface Closable {\n    void close();\n}\n",
		"b/Channel.java": "package b;\n\nimport a.Closable;\nimport a.Readable;\nimport a.Writable;\n\n" +
			"public interface Channel extends Readable, Writable, Closable {\n    boolean isOpen();\n}\n",
	})

	defect3C13Check(t, graph,
		[]string{"a.Readable", "a.Writable", "a.Closable", "b.Channel"},
		[]string{"b.Channel->a.Readable", "b.Channel->a.Writable", "b.Channel->a.Closable"})
}

// A member class that extends nothing, implements nothing, has no field of a project type and calls nothing has no
// outgoing edge: the supertypes and the fields of the enclosing class are not its own.
func TestDefect3_C13_MemberClassInheritsOuterEdges(t *testing.T) {
	graph := defect3C13Graph(t, map[string]string{
		"a/Base.java":   "package a;\n\npublic class Base {\n}\n",
		"a/Svc.java":    "package a;\n\npublic interface Svc {\n}\n",
		"a/Helper.java": "package a;\n\npublic class Helper {\n}\n",
		"d/Outer.java": "package d;\n\nimport a.Base;\nimport a.Helper;\nimport a.Svc;\n\n" +
			"public class Outer extends Base implements Svc {\n    private Helper helper;\n\n" +
			"    public static class Inner {\n        int x;\n    }\n}\n",
	})

	if _, ok := graph.NodeList["d.Inner"]; !ok {
		t.Fatalf("the member class is not a node: %v", defect3C13Nodes(graph))
	}
	for _, edge := range defect3C13Edges(graph) {
		if strings.HasPrefix(edge, "d.Inner->") {
			t.Errorf("phantom edge %s: Inner extends/implements nothing and has no field of a project type", edge)
		}
	}
	// the edges of the enclosing class by its supertypes are there, once, from Outer
	for _, want := range []string{"d.Outer->a.Base", "d.Outer->a.Svc"} {
		if _, ok := graph.RelationList[want]; !ok {
			t.Errorf("missing edge %s", want)
		}
	}

	// the phantom edges reach the DOT: Inner is drawn with arrows to Base, Svc and Helper
	dot := graph.ToMapDot(func(string) bool { return true }).String()
	if n := strings.Count(dot, "->"); n > 3 {
		t.Errorf("DOT draws %d edges, the model has at most 3 (Outer->Base, Outer->Svc, Outer->Helper):\n%s", n, dot)
	}
}
