package bs

import (
	"fmt"
	"io/ioutil"
	"os"
	"path/filepath"
	"strings"
	"testing"

	"github.com/modernizing/coca/pkg/domain/bs_domain"
)

// defect3C10Run writes one Java source per entry into a fresh directory, runs the real
// bad-smell pass over it and returns the findings per file base name.
func defect3C10Run(t *testing.T, sources map[string]string) (found map[string][]bs_domain.BadSmellModel, panicked interface{}) {
	dir, err := ioutil.TempDir("", "defect3c10")
	if err != nil {
		t.Fatal(err)
	}
	defer os.RemoveAll(dir)
	for name, src := range sources {
		if err := ioutil.WriteFile(filepath.Join(dir, name), []byte(src), 0644); err != nil {
			t.Fatal(err)
		}
	}
	found = map[string][]bs_domain.BadSmellModel{}
	defer func() {
		if r := recover(); r != nil {
			panicked = r
		}
	}()
	app := NewBadSmellApp()
	nodes := app.AnalysisPath(dir)
	for _, b := range app.IdentifyBadSmell(nodes, nil) {
		base := filepath.Base(b.File)
		found[base] = append(found[base], b)
	}
	return found, nil
}

func defect3C10Kinds(list []bs_domain.BadSmellModel) string {
	var kinds []string
	for _, b := range list {
		kinds = append(kinds, fmt.Sprintf("%s(size %d)", b.Bs, b.Size))
	}
	return "[" + strings.Join(kinds, ", ") + "]"
}

func defect3C10Has(list []bs_domain.BadSmellModel, kind string, size int) bool {
	for _, b := range list {
		if b.Bs == kind && b.Size == size {
			return true
		}
	}
	return false
}

// A member type that has no methods of its own (a marker / listener interface) must not change
// what the file's class is: the class is still a class, so the class-level kinds still apply.
func TestDefect3_C10_MemberTypeTakesOverClass(t *testing.T) {
	var large strings.Builder
	large.WriteString("package p;\n\npublic class Large {\n")
	for i := 0; i < 20; i++ {
		large.WriteString(fmt.Sprintf("    public void work%d() { }\n", i))
	}
	large.WriteString("\n    public interface Listener { }\n}\n")

	sources := map[string]string{
		// a class without methods -> lazyElement
		"Lazy.java": "package p;\n\npublic class Lazy {\n    int x;\n\n    interface Marker { }\n}\n",
		// 20 ordinary methods -> largeClass, size 20
		"Large.java": large.String(),
		// only getters and setters -> dataClass, size 2
		"Bean.java": "package p;\n\npublic class Bean {\n    private int a;\n    public int getA() { return a; }\n    public void setA(int a) { this.a = a; }\n\n    public interface Marker { }\n}\n",
		// controls: the same three classes without the member interface
		"LazyControl.java": "package p;\n\npublic class LazyControl {\n    int x;\n}\n",
		"BeanControl.java": "package p;\n\npublic class BeanControl {\n    private int a;\n    public int getA() { return a; }\n    public void setA(int a) { this.a = a; }\n}\n",
	}
	found, p := defect3C10Run(t, sources)
	if p != nil {
		t.Fatalf("bad-smell pass panicked: %v", p)
	}

	if !defect3C10Has(found["LazyControl.java"], "lazyElement", 0) || !defect3C10Has(found["BeanControl.java"], "dataClass", 2) {
		t.Fatalf("controls broken: %v / %v", defect3C10Kinds(found["LazyControl.java"]), defect3C10Kinds(found["BeanControl.java"]))
	}
	if !defect3C10Has(found["Lazy.java"], "lazyElement", 0) {
		t.Errorf("Lazy.java: class Lazy has no methods, want lazyElement, got %s", defect3C10Kinds(found["Lazy.java"]))
	}
	if !defect3C10Has(found["Large.java"], "largeClass", 20) {
		t.Errorf("Large.java: class Large has 20 ordinary methods, want largeClass(size 20), got %s", defect3C10Kinds(found["Large.java"]))
	}
	if !defect3C10Has(found["Bean.java"], "dataClass", 2) {
		t.Errorf("Bean.java: class Bean has only a getter and a setter, want dataClass(size 2), got %s", defect3C10Kinds(found["Bean.java"]))
	}
}

// isX() is the getter of a boolean property (JavaBeans): a bean with a boolean property is still a
// data class, and isX() methods do not count towards the 20 ordinary methods of a large class.
func TestDefect3_C10_BooleanGetter(t *testing.T) {
	var nineteen strings.Builder
	nineteen.WriteString("package p;\n\npublic class Nineteen {\n    private boolean ready;\n")
	for i := 0; i < 19; i++ {
		nineteen.WriteString(fmt.Sprintf("    public void work%d() { }\n", i))
	}
	nineteen.WriteString("    public boolean isReady() { return ready; }\n}\n")

	sources := map[string]string{
		"Flag.java":     "package p;\n\npublic class Flag {\n    private boolean active;\n    private String name;\n    public boolean isActive() { return active; }\n    public void setActive(boolean active) { this.active = active; }\n    public String getName() { return name; }\n    public void setName(String name) { this.name = name; }\n}\n",
		"Nineteen.java": nineteen.String(),
	}
	found, p := defect3C10Run(t, sources)
	if p != nil {
		t.Fatalf("bad-smell pass panicked: %v", p)
	}
	if !defect3C10Has(found["Flag.java"], "dataClass", 4) {
		t.Errorf("Flag.java: only getters/setters (isActive, setActive, getName, setName), want dataClass(size 4), got %s", defect3C10Kinds(found["Flag.java"]))
	}
	for _, b := range found["Nineteen.java"] {
		if b.Bs == "largeClass" {
			t.Errorf("Nineteen.java: 19 ordinary methods and one boolean getter, want no largeClass, got %s", defect3C10Kinds(found["Nineteen.java"]))
		}
	}
}
