package call_test

import (
	"os"
	"path/filepath"
	"strings"
	"testing"

	"github.com/modernizing/coca/cocatest/testhelper"
	"github.com/modernizing/coca/pkg/application/api"
	"github.com/modernizing/coca/pkg/application/call"
	apidomain "github.com/modernizing/coca/pkg/domain/api_domain"
	"github.com/modernizing/coca/pkg/domain/core_domain"
)

func defect3C03Call(pkg, node, fn string) core_domain.CodeCall {
	return core_domain.CodeCall{Package: pkg, NodeName: node, FunctionName: fn}
}

// A component that implements two project interfaces is the registered implementation of both. The controller is injected
// with the second one; the chain of its API must go on into the component (Store.save -> Db.write).
func TestDefect3_C03_SecondInterfaceOfComponent(t *testing.T) {
	defer func() {
		if r := recover(); r != nil {
			t.Fatalf("panic: %v", r)
		}
	}()

	finder := core_domain.CodeDataStruct{Package: "p.api", NodeName: "Finder", Type: "Interface"}
	saver := core_domain.CodeDataStruct{Package: "p.api", NodeName: "Saver", Type: "Interface"}
	store := core_domain.CodeDataStruct{
		Package: "p.impl", NodeName: "Store", Type: "Class",
		Implements:  []string{"p.api.Finder", "p.api.Saver"},
		Annotations: []core_domain.CodeAnnotation{{Name: "Component"}},
		Functions: []core_domain.CodeFunction{
			{Name: "find", FunctionCalls: []core_domain.CodeCall{defect3C03Call("p.impl", "Db", "read")}},
			{Name: "save", FunctionCalls: []core_domain.CodeCall{defect3C03Call("p.impl", "Db", "write")}},
		},
	}
	ctl := core_domain.CodeDataStruct{
		Package: "p.web", NodeName: "Ctl", Type: "Class",
		Functions: []core_domain.CodeFunction{
			{Name: "f", FunctionCalls: []core_domain.CodeCall{defect3C03Call("p.api", "Finder", "find")}},
			{Name: "s", FunctionCalls: []core_domain.CodeCall{defect3C03Call("p.api", "Saver", "save")}},
		},
	}
	identifiers := []core_domain.CodeDataStruct{finder, saver, store, ctl}
	deps := []core_domain.CodeDataStruct{finder, saver, store, ctl}

	diMap := core_domain.BuildDIMap(identifiers, core_domain.BuildIdentifierMap(identifiers))
	if diMap["p.api.Finder"] != "p.impl.Store" {
		t.Fatalf("control: the first interface is not registered: %v", diMap)
	}
	if diMap["p.api.Saver"] != "p.impl.Store" {
		t.Errorf("the component p.impl.Store implements p.api.Saver, the injection table has no entry for it: %v", diMap)
	}

	apis := []apidomain.RestAPI{
		{HttpMethod: "GET", Uri: "/f", PackageName: "p.web", ClassName: "Ctl", MethodName: "f"},
		{HttpMethod: "GET", Uri: "/s", PackageName: "p.web", ClassName: "Ctl", MethodName: "s"},
	}
	dot, counts := call.NewCallGraph().AnalysisByFiles(apis, deps, diMap)

	// control: the first interface is replaced and the chain goes on
	if !strings.Contains(dot, `"p.web.Ctl.f" -> "p.impl.Store.find";`) || !strings.Contains(dot, `"p.impl.Store.find" -> "p.impl.Db.read";`) {
		t.Fatalf("control: chain through the first interface is wrong:\n%s", dot)
	}
	if !strings.Contains(dot, `"p.web.Ctl.s" -> "p.impl.Store.save";`) {
		t.Errorf("GET /s: the injected interface p.api.Saver is not replaced by its implementation p.impl.Store:\n%s", dot)
	}
	if !strings.Contains(dot, `"p.impl.Store.save" -> "p.impl.Db.write";`) {
		t.Errorf("GET /s: the call Store.save -> Db.write is reachable from the API and missing:\n%s", dot)
	}
	if counts[1].Size != 3 {
		t.Errorf("GET /s: size = %d, want 3 (two edges plus one)", counts[1].Size)
	}
}

func defect3C03Write(t *testing.T, dir, rel, content string) {
	t.Helper()
	full := filepath.Join(dir, filepath.FromSlash(rel))
	if err := os.MkdirAll(filepath.Dir(full), 0o755); err != nil {
		t.Fatal(err)
	}
	if err := os.WriteFile(full, []byte(content), 0o644); err != nil {
		t.Fatal(err)
	}
}

// The usual layout: the interface and the component that implements it live in the same package, so the component has
// no import for the interface. The chain of the API must still go on into the component.
func TestDefect3_C03_InterfaceOfTheSamePackage(t *testing.T) {
	defer func() {
		if r := recover(); r != nil {
			t.Fatalf("panic: %v", r)
		}
	}()

	dir := t.TempDir()
	defect3C03Write(t, dir, "p/repo/Db.java", "package p.repo;\n\npublic class Db {\n    public void write() {}\n    public void read() {}\n}\n")
	// control pair: interface imported from another package
	defect3C03Write(t, dir, "p/api/Finder.java", "package p.api;\n\npublic interface Finder {\n    void find();\n}\n")
	defect3C03Write(t, dir, "p/repo/FinderImpl.java", `package p.repo;

import org.springframework.stereotype.Component;
import p.api.Finder;

@Component
public class FinderImpl implements Finder {
    private Db db;

    public void find() {
        db.read();
    }
}
`)
	// the pair under test: interface in the package of the component
	defect3C03Write(t, dir, "p/repo/Saver.java", "package p.repo;\n\npublic interface Saver {\n    void save();\n}\n")
	defect3C03Write(t, dir, "p/repo/SaverImpl.java", `package p.repo;

import org.springframework.stereotype.Component;

@Component
public class SaverImpl implements Saver {
    private Db db;

    public void save() {
        db.write();
    }
}
`)
	defect3C03Write(t, dir, "p/web/Ctl.java", `package p.web;

import org.springframework.beans.factory.annotation.Autowired;
import org.springframework.web.bind.annotation.GetMapping;
import org.springframework.web.bind.annotation.RestController;
import p.api.Finder;
import p.repo.Saver;

@RestController
public class Ctl {
    @Autowired
    private Finder finder;
    @Autowired
    private Saver saver;

    @GetMapping("/f")
    public void f() {
        finder.find();
    }

    @GetMapping("/s")
    public void s() {
        saver.save();
    }
}
`)

	callNodes, identifiersMap, identifiers := testhelper.BuildAnalysisDeps(dir)
	diMap := core_domain.BuildDIMap(identifiers, identifiersMap)
	if diMap["p.api.Finder"] != "p.repo.FinderImpl" {
		t.Fatalf("control: the imported interface is not registered: %v", diMap)
	}
	if diMap["p.repo.Saver"] != "p.repo.SaverImpl" {
		t.Errorf("the component p.repo.SaverImpl implements p.repo.Saver of its own package, the injection table has no entry for it: %v", diMap)
	}

	app := new(api.JavaApiApp)
	restApis := app.AnalysisPath(dir, callNodes, identifiersMap, diMap)
	dot, _ := call.NewCallGraph().AnalysisByFiles(restApis, callNodes, diMap)

	if !strings.Contains(dot, `"p.web.Ctl.f" -> "p.repo.FinderImpl.find";`) || !strings.Contains(dot, `"p.repo.FinderImpl.find" -> "p.repo.Db.read";`) {
		t.Fatalf("control: chain through the imported interface is wrong:\n%s", dot)
	}
	if !strings.Contains(dot, `"p.web.Ctl.s" -> "p.repo.SaverImpl.save";`) {
		t.Errorf("GET /s: the injected interface p.repo.Saver is not replaced by its implementation p.repo.SaverImpl:\n%s", dot)
	}
	if !strings.Contains(dot, `"p.repo.SaverImpl.save" -> "p.repo.Db.write";`) {
		t.Errorf("GET /s: the call SaverImpl.save -> Db.write is reachable from the API and missing:\n%s", dot)
	}
}
