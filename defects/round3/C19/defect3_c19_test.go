package deps

import (
	"fmt"
	"os"
	"path/filepath"
	"reflect"
	"testing"
)

// the declared dependencies as "group:artifact:scope", in the order they were extracted; a panic is reported, not raised
func defect3C19Gradle(t *testing.T, script string) (got []string) {
	t.Helper()
	defer func() {
		if r := recover(); r != nil {
			t.Errorf("panic while analysing the script: %v", r)
		}
	}()
	for _, dep := range AnalysisGradleString(script) {
		got = append(got, fmt.Sprintf("%s:%s:%s", dep.GroupId, dep.ArtifactId, dep.Scope))
	}
	return got
}

// Parenthesised notation written over several lines, and a list / map literal written over several lines in a block
// beside the dependencies block: the Go lexer emits the newlines inside (...) and [...] as NL tokens (the Java lexer
// drops them in ignoreTokenInsideParens), the script does not parse and NO dependency at all is extracted.
func TestDefect3_C19_NewlineInsideParens(t *testing.T) {
	t.Run("parenthesised notation over several lines", func(t *testing.T) {
		got := defect3C19Gradle(t, `dependencies {
    implementation 'org.a:a1:1.0'
    implementation(
        'org.c:c1:1.0'
    )
    runtimeOnly(
        "org.d:d1:1.0",
        "org.e:e1:1.0"
    ) {
        exclude group: 'org.x'
    }
    testImplementation 'org.b:b1:1.0'
}
`)
		want := []string{
			"org.a:a1:implementation",
			"org.c:c1:implementation",
			"org.d:d1:runtimeOnly",
			"org.e:e1:runtimeOnly",
			"org.b:b1:testImplementation",
		}
		if !reflect.DeepEqual(got, want) {
			t.Errorf("declared dependencies\n got: %v\nwant: %v", got, want)
		}
	})

	t.Run("a list over several lines in another block", func(t *testing.T) {
		got := defect3C19Gradle(t, `plugins {
    id 'java'
}

ext.versions = [
    junit: '4.12'
]

sourceSets {
    main {
        java {
            srcDirs = ['src/main/java',
                       'src/generated/java']
        }
    }
}

dependencies {
    implementation 'org.a:a1:1.0'
    testImplementation('org.b:b1:1.0')
}
`)
		want := []string{"org.a:a1:implementation", "org.b:b1:testImplementation"}
		if !reflect.DeepEqual(got, want) {
			t.Errorf("declared dependencies\n got: %v\nwant: %v", got, want)
		}
	})
}

// A pom whose free-text sections (name, description, developers, organization …) use one of the Latin-1 / HTML
// entities Maven's own model reader defines (&oslash; &copy; &nbsp; …): encoding/xml in strict mode with no Entity
// table stops at the entity, ParseXML leaves its loop with the open elements on the stack and panics.
func TestDefect3_C19_PomHtmlEntity(t *testing.T) {
	pom := `<?xml version="1.0" encoding="UTF-8"?>
<project xmlns="http://maven.apache.org/POM/4.0.0">
  <modelVersion>4.0.0</modelVersion>
  <groupId>com.example</groupId>
  <artifactId>demo</artifactId>
  <version>1.0</version>
  <name>Demo &copy; Example</name>
  <developers>
    <developer><name>J&oslash;rn H&aring;kon</name></developer>
  </developers>
  <dependencies>
    <dependency>
      <groupId>org.a</groupId>
      <artifactId>a1</artifactId>
      <version>1.0</version>
    </dependency>
    <dependency>
      <groupId>org.b</groupId>
      <artifactId>b1</artifactId>
      <scope>test</scope>
    </dependency>
  </dependencies>
</project>
`
	pomPath := filepath.Join(t.TempDir(), "pom.xml")
	if err := os.WriteFile(pomPath, []byte(pom), 0o644); err != nil {
		t.Fatal(err)
	}

	var got []string
	func() {
		defer func() {
			if r := recover(); r != nil {
				t.Errorf("panic while analysing the pom: %v", r)
			}
		}()
		for _, dep := range AnalysisMaven(pomPath) {
			got = append(got, fmt.Sprintf("%s:%s:%s", dep.GroupId, dep.ArtifactId, dep.Scope))
		}
	}()

	want := []string{"org.a:a1:", "org.b:b1:test"}
	if !reflect.DeepEqual(got, want) {
		t.Errorf("declared dependencies\n got: %v\nwant: %v", got, want)
	}
}

// A '/' that divides (after an operand) is taken for the opening of a slashy string: the Java lexer guards the slashy
// alternative of StringLiteral with { isRegexAllowed() && LA(1) != '*' }?, the Go lexer has no such guard. The
// "string" runs to the next '/' of the file — a comment, a path, the '/' of a URL inside a quoted string — the script
// no longer parses and no dependency at all is extracted. Second half of the same guard: a block comment with no '/'
// inside is exactly as long as the slashy string "/* … */", StringLiteral is the earlier rule and wins, so the comment
// is an operand and `/* libraries */ dependencies { … }` is no dependencies block any more.
func TestDefect3_C19_DivisionOpensSlashyString(t *testing.T) {
	want := []string{"org.a:a1:implementation", "org.b:b1:testImplementation"}

	t.Run("a division in another block", func(t *testing.T) {
		got := defect3C19Gradle(t, `plugins {
    id 'java'
}

test {
    maxParallelForks = Runtime.runtime.availableProcessors() / 2
}

repositories {
    maven { url 'https://repo.example.org/maven2' }
}

dependencies {
    // web
    implementation 'org.a:a1:1.0'
    testImplementation('org.b:b1:1.0')
}
`)
		if !reflect.DeepEqual(got, want) {
			t.Errorf("declared dependencies\n got: %v\nwant: %v", got, want)
		}
	})

	t.Run("a block comment before the block", func(t *testing.T) {
		got := defect3C19Gradle(t, `repositories {
    mavenCentral()
}

/* libraries */ dependencies {
    implementation 'org.a:a1:1.0'
    testImplementation('org.b:b1:1.0')
}
`)
		if !reflect.DeepEqual(got, want) {
			t.Errorf("declared dependencies\n got: %v\nwant: %v", got, want)
		}
	})
}
