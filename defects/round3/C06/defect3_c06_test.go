package unused

import (
	"fmt"
	"io/ioutil"
	"os"
	"path/filepath"
	"strings"
	"testing"
)

// writes the files (name -> content) below a fresh directory and returns the directory
func d3c06Dir(t *testing.T, files map[string]string) string {
	dir, err := ioutil.TempDir("", "d3c06")
	if err != nil {
		t.Fatal(err)
	}
	for name, content := range files {
		p := filepath.Join(dir, filepath.FromSlash(name))
		if err := os.MkdirAll(filepath.Dir(p), 0755); err != nil {
			t.Fatal(err)
		}
		if err := ioutil.WriteFile(p, []byte(content), 0644); err != nil {
			t.Fatal(err)
		}
	}
	return dir
}

func d3c06Read(t *testing.T, dir string, name string) string {
	b, err := ioutil.ReadFile(filepath.Join(dir, filepath.FromSlash(name)))
	if err != nil {
		t.Fatal(err)
	}
	return string(b)
}

// the original without the given whole lines
func d3c06Without(original string, lines ...string) string {
	var kept []string
next:
	for _, l := range strings.Split(original, "\n") {
		for _, drop := range lines {
			if l == drop {
				continue next
			}
		}
		kept = append(kept, l)
	}
	return strings.Join(kept, "\n")
}

// one whole run of the removal on a directory; a panic is reported as an error
func d3c06Run(app *RemoveUnusedImportApp) (err error) {
	defer func() {
		if r := recover(); r != nil {
			err = fmt.Errorf("panic: %v", r)
		}
	}()
	app.Refactoring(app.Analysis())
	return nil
}

// Defect 1: a static import whose only use is `yield NAME;` is deleted.
func TestDefect3_C06_YieldOperandStaticImport(t *testing.T) {
	const name = "src/main/java/p/C.java"
	original := `package p;

import java.util.concurrent.TimeUnit;
import static java.util.concurrent.TimeUnit.HOURS;
import static java.util.concurrent.TimeUnit.MILLISECONDS;
import static java.util.concurrent.TimeUnit.SECONDS;

class C {
    TimeUnit unit(int precision) {
        return switch (precision) {
            case 0 -> SECONDS;
            default -> {
                warn(precision);
                yield MILLISECONDS;
            }
        };
    }

    void warn(int precision) {
    }
}
`
	dir := d3c06Dir(t, map[string]string{name: original})
	defer os.RemoveAll(dir)

	// HOURS is referenced nowhere: its line goes. MILLISECONDS is referenced on the yield line: it stays.
	want := d3c06Without(original, "import static java.util.concurrent.TimeUnit.HOURS;")

	if err := d3c06Run(NewRemoveUnusedImportApp(dir)); err != nil {
		t.Fatalf("first run: %v", err)
	}
	got := d3c06Read(t, dir, name)
	if got != want {
		t.Errorf("after the first run the file is not the original minus the one unused import line.\n--- want\n%s\n--- got\n%s", want, got)
	}
	if !strings.Contains(got, "import static java.util.concurrent.TimeUnit.MILLISECONDS;") {
		t.Errorf("the import of MILLISECONDS was deleted although `yield MILLISECONDS;` references it")
	}

	if err := d3c06Run(NewRemoveUnusedImportApp(dir)); err != nil {
		t.Fatalf("second run: %v", err)
	}
	if again := d3c06Read(t, dir, name); again != got {
		t.Errorf("the second run changed the file.\n--- before\n%s\n--- after\n%s", got, again)
	}
}

// Defect 2: the directory is kept in a package-level variable, so an app made before another one
// works on the other one's directory: its own directory is never cleaned.
func TestDefect3_C06_TwoAppsOneProcess(t *testing.T) {
	const nameA = "src/main/java/a/A.java"
	const nameB = "src/main/java/b/B.java"
	originalA := `package a;

import java.util.List;
import java.util.Map;

class A {
    List<String> names;
}
`
	originalB := `package b;

import java.util.Set;
import java.util.Optional;

class B {
    Optional<String> name;
}
`
	dirA := d3c06Dir(t, map[string]string{nameA: originalA})
	defer os.RemoveAll(dirA)
	dirB := d3c06Dir(t, map[string]string{nameB: originalB})
	defer os.RemoveAll(dirB)

	// one app per module directory, made first, run afterwards
	apps := []*RemoveUnusedImportApp{NewRemoveUnusedImportApp(dirA), NewRemoveUnusedImportApp(dirB)}
	for i, app := range apps {
		if err := d3c06Run(app); err != nil {
			t.Fatalf("app %d: %v", i, err)
		}
	}

	wantA := d3c06Without(originalA, "import java.util.Map;")
	wantB := d3c06Without(originalB, "import java.util.Set;")
	if got := d3c06Read(t, dirA, nameA); got != wantA {
		t.Errorf("directory A (the app made first) was not cleaned.\n--- want\n%s\n--- got\n%s", wantA, got)
	}
	if got := d3c06Read(t, dirB, nameB); got != wantB {
		t.Errorf("directory B is not its original minus the unused import line.\n--- want\n%s\n--- got\n%s", wantB, got)
	}
}

// Defect 3: a string with the escape \s (Java 15) as a call argument makes the analysis panic;
// no file of the directory is cleaned, not even the ordinary A.java.
func TestDefect3_C06_SpaceEscapeArgumentPanics(t *testing.T) {
	const nameA = "src/main/java/p/A.java"
	const nameB = "src/main/java/p/B.java"
	originalA := `package p;

import a.Unused;
import a.Used;

class A {
    Used u;
}
`
	originalB := `package p;

import a.Column;
import a.Other;

class B {
    Column column;

    String pad(StringBuilder sb) {
        sb.append("\s");
        String padded = sb.toString();
        return padded;
    }
}
`
	dir := d3c06Dir(t, map[string]string{nameA: originalA, nameB: originalB})
	defer os.RemoveAll(dir)

	err := d3c06Run(NewRemoveUnusedImportApp(dir))
	if err != nil {
		t.Errorf("the run did not complete: %v", err)
	}

	wantA := d3c06Without(originalA, "import a.Unused;")
	wantB := d3c06Without(originalB, "import a.Other;")
	if got := d3c06Read(t, dir, nameA); got != wantA {
		t.Errorf("A.java was not cleaned.\n--- want\n%s\n--- got\n%s", wantA, got)
	}
	if got := d3c06Read(t, dir, nameB); got != wantB {
		t.Errorf("B.java is not its original minus the unused import line.\n--- want\n%s\n--- got\n%s", wantB, got)
	}
}
