package git

import "testing"

// git log --numstat --summary prints " rewrite <path> (NN%)" for a file that was rewritten by more than half.
// It is a summary line of the current commit, like " create mode …" and " delete mode …".
func TestDefect_C14_RewriteSummaryLineDoesNotEndTheCommit(t *testing.T) {
	log := `[aaaaaaa] Ann 2020-01-01 first
10	90	src/a.go
0	5	old/b.sh
 rewrite src/a.go (85%)
 delete mode 100755 old/b.sh

[bbbbbbb] Bob 2020-01-02 second
1	0	c.txt
 create mode 100644 c.txt
`
	commits := BuildMessageByInput(log)
	if len(commits) != 2 {
		t.Fatalf("want 2 commits, got %d: %+v", len(commits), commits)
	}
	if len(commits[0].Changes) != 2 {
		t.Errorf("first commit: want 2 changes, got %+v", commits[0].Changes)
	}
	for _, ch := range commits[0].Changes {
		if ch.File == "old/b.sh" && ch.Mode != "delete" {
			t.Errorf("old/b.sh must carry mode delete, got %+v", ch)
		}
	}
	if len(commits[1].Changes) != 1 || commits[1].Changes[0].File != "c.txt" {
		t.Errorf("second commit: want exactly the change of c.txt, got %+v", commits[1].Changes)
	}
}
