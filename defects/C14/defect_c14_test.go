package cmd

import (
	"fmt"
	"io/ioutil"
	"os"
	"os/exec"
	"path/filepath"
	"sort"
	"strings"
	"testing"

	"github.com/modernizing/coca/pkg/application/git"
)

// Defect A: getCommitMessage passes the --pretty argument with LITERAL double quotes
// (exec.Command does no shell unquoting). git therefore does not see "format:..."
// but an unknown string containing '%', which it treats as a tformat: every header
// is printed as  "format:[hash] author date subject"  (with the quotes), followed by
// an empty line, and commits are no longer separated by an empty line. The parser
// flushes a commit at the empty line, i.e. BEFORE its numstat lines, so every change
// is attributed to the following commit, the first commit is empty, the changes of
// the last commit are lost and every subject ends with a stray quote.
func TestDefect_C14_RealInvocationShiftsChanges(t *testing.T) {
	if _, err := exec.LookPath("git"); err != nil {
		t.Skip("git binary not available")
	}
	dir, err := ioutil.TempDir("", "c14cmd")
	if err != nil {
		t.Fatal(err)
	}
	defer os.RemoveAll(dir)

	run := func(date string, args ...string) string {
		c := exec.Command("git", args...)
		c.Dir = dir
		c.Env = append(os.Environ(),
			"HOME="+dir, "GIT_CONFIG_GLOBAL=/dev/null", "GIT_CONFIG_NOSYSTEM=1",
			"GIT_AUTHOR_NAME=Al Bob", "GIT_AUTHOR_EMAIL=a@example.com",
			"GIT_COMMITTER_NAME=Al Bob", "GIT_COMMITTER_EMAIL=a@example.com",
			"GIT_AUTHOR_DATE="+date, "GIT_COMMITTER_DATE="+date)
		out, err := c.CombinedOutput()
		if err != nil {
			t.Fatalf("git %v: %v\n%s", args, err, out)
		}
		return strings.TrimSpace(string(out))
	}
	write := func(name, content string) {
		if err := ioutil.WriteFile(filepath.Join(dir, name), []byte(content), 0644); err != nil {
			t.Fatal(err)
		}
	}

	run("2020-01-02T10:00:00", "init", "-q", ".")
	write("a.txt", "a\n")
	run("2020-01-02T10:00:00", "add", "-A")
	run("2020-01-02T10:00:00", "commit", "-q", "-m", "add a")
	h1 := run("2020-01-02T10:00:00", "log", "-1", "--format=%h")
	write("b.txt", "b\nb\n")
	run("2020-01-03T10:00:00", "add", "-A")
	run("2020-01-03T10:00:00", "commit", "-q", "-m", "add b")
	h2 := run("2020-01-03T10:00:00", "log", "-1", "--format=%h")

	wd, _ := os.Getwd()
	if err := os.Chdir(dir); err != nil {
		t.Fatal(err)
	}
	defer os.Chdir(wd)

	var text string
	var commits []git.CommitMessage
	func() {
		defer func() {
			if r := recover(); r != nil {
				t.Errorf("panic: %v", r)
			}
		}()
		text = getCommitMessage()
		commits = git.BuildMessageByInput(text)
	}()

	describe := func() string {
		var sb strings.Builder
		for _, c := range commits {
			var ch []string
			for _, f := range c.Changes {
				ch = append(ch, fmt.Sprintf("{%s +%d -%d %q}", f.File, f.Added, f.Deleted, f.Mode))
			}
			sort.Strings(ch)
			sb.WriteString(fmt.Sprintf("  [%s] author=%q date=%q msg=%q changes=%v\n", c.Rev, c.Author, c.Date, c.Message, ch))
		}
		return sb.String()
	}

	if len(commits) != 2 {
		t.Fatalf("want 2 commits, got %d:\n%sgit printed:\n%s", len(commits), describe(), text)
	}
	type want struct {
		rev, msg, date, file string
		added              int
	}
	for i, w := range []want{{h1, "add a", "2020-01-02", "a.txt", 1}, {h2, "add b", "2020-01-03", "b.txt", 2}} {
		c := commits[i]
		if c.Rev != w.rev || c.Author != "Al Bob" || c.Date != w.date || c.Message != w.msg {
			t.Errorf("commit %d header: want [%s] Al Bob %s %q, got [%s] %s %s %q", i, w.rev, w.date, w.msg, c.Rev, c.Author, c.Date, c.Message)
		}
		if len(c.Changes) != 1 || c.Changes[0].File != w.file || c.Changes[0].Added != w.added || c.Changes[0].Deleted != 0 || c.Changes[0].Mode != "create" {
			t.Errorf("commit %d changes: want [{%s +%d -0 create}], got %v", i, w.file, w.added, c.Changes)
		}
	}
	if t.Failed() {
		t.Logf("parsed:\n%sgit printed:\n%s", describe(), text)
	}
}
