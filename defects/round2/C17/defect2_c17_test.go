package todo

import (
	"fmt"
	"os"
	"path/filepath"
	"strings"
	"testing"

	"github.com/modernizing/coca/pkg/application/todo/astitodo"
)

// c17Scan writes the given files (name -> content) into a fresh directory and runs the real todo scan on it.
func c17Scan(t *testing.T, files map[string]string, filters []string) (todos []*astitodo.TODO) {
	t.Helper()
	dir := t.TempDir()
	for name, src := range files {
		p := filepath.Join(dir, name)
		if err := os.WriteFile(p, []byte(src), 0644); err != nil {
			t.Fatal(err)
		}
	}
	defer func() {
		if r := recover(); r != nil {
			t.Fatalf("scan panicked: %v", r)
		}
	}()
	return NewTodoApp().AnalysisPath(dir, filters)
}

func c17Dump(todos []*astitodo.TODO) string {
	s := ""
	for _, td := range todos {
		s += fmt.Sprintf("\n    %s:%d assignee=%q message=%q", filepath.Base(td.Filename), td.Line, td.Assignee, td.Message)
	}
	return s
}

// Defect 1: the closing marker of a block comment is not removed, it is turned into blanks that stay in the message.
func TestDefect2_C17_BlockCloserLeaksIntoMessage(t *testing.T) {
	src := "/* TODO: x */\n" + // line 1
		"/*FIXME*/\n" + // line 2: marker only
		"/* TODO(bob) */\n" + // line 3: marker and assignee only
		"// TODO: x\n" // line 4: the same text as line 1, as a line comment
	todos := c17Scan(t, map[string]string{"A.java": src}, []string{".java"})
	if len(todos) != 4 {
		t.Fatalf("want 4 entries, got %d:%s", len(todos), c17Dump(todos))
	}
	want := []struct{ assignee, message string }{{"", "x"}, {"", ""}, {"bob", ""}, {"", "x"}}
	for i, w := range want {
		if todos[i].Line != i+1 || todos[i].Assignee != w.assignee || todos[i].Message != w.message {
			t.Errorf("line %d: want assignee=%q message=%q, got line=%d assignee=%q message=%q",
				i+1, w.assignee, w.message, todos[i].Line, todos[i].Assignee, todos[i].Message)
		}
	}
}

// Defect 2: a parenthesised name that is not plain ASCII [A-Za-z0-9_ .+-@] is not taken as the assignee.
func TestDefect2_C17_AssigneeNonASCIIName(t *testing.T) {
	src := "// TODO(José): x\n" +
		"# FIXME(张三) y\n" +
		"/* todo(Łukasz Żak): z */\n"
	todos := c17Scan(t, map[string]string{"A.java": src}, []string{".java"})
	if len(todos) != 3 {
		t.Fatalf("want 3 entries, got %d:%s", len(todos), c17Dump(todos))
	}
	want := []struct{ assignee, message string }{{"José", "x"}, {"张三", "y"}, {"Łukasz Żak", "z"}}
	for i, w := range want {
		if todos[i].Assignee != w.assignee || strings.TrimSpace(todos[i].Message) != w.message {
			t.Errorf("line %d: want assignee=%q message=%q, got assignee=%q message=%q",
				i+1, w.assignee, w.message, todos[i].Assignee, todos[i].Message)
		}
	}
}

// Defect 3: in a file with CRLF line ends, the carriage returns of a multi-line block comment stay in the message.
func TestDefect2_C17_CarriageReturnInMessage(t *testing.T) {
	lf := "class A {\n    /* TODO: first\n     * second\n     */\n}\n"
	crlf := strings.ReplaceAll(lf, "\n", "\r\n")
	a := c17Scan(t, map[string]string{"A.java": lf}, []string{".java"})
	b := c17Scan(t, map[string]string{"A.java": crlf}, []string{".java"})
	if len(a) != 1 || len(b) != 1 {
		t.Fatalf("want 1 entry each, got LF:%s\n CRLF:%s", c17Dump(a), c17Dump(b))
	}
	if b[0].Line != 2 {
		t.Errorf("CRLF: want line 2, got %d", b[0].Line)
	}
	if strings.ContainsAny(b[0].Message, "\r\n") {
		t.Errorf("CRLF: the message still contains a line-end character: %q", b[0].Message)
	}
	if strings.Join(strings.Fields(a[0].Message), " ") != strings.Join(strings.Fields(b[0].Message), " ") ||
		strings.Join(strings.Fields(b[0].Message), " ") != "first second" {
		t.Errorf("want the words \"first second\" for both line-end styles, got LF %q, CRLF %q", a[0].Message, b[0].Message)
	}
}

// Defect 4: an empty element of the extension list (".java," as split by cmd/todo.go) selects every file.
func TestDefect2_C17_EmptyExtensionSelectsEveryFile(t *testing.T) {
	files := map[string]string{
		"A.java":    "// TODO: in java\n",
		"notes.txt": "// TODO: in a text file\n",
		"Makefile":  "# TODO: in a makefile\n",
	}
	filters := strings.Split(".java,", ",") // what cmd/todo.go does with --ext=".java,"
	todos := c17Scan(t, files, filters)
	for _, td := range todos {
		if !strings.HasSuffix(td.Filename, ".java") {
			t.Errorf("file %s has no selected extension but was scanned: message=%q", filepath.Base(td.Filename), td.Message)
		}
	}
	if len(todos) != 1 {
		t.Errorf("want exactly the entry of A.java, got %d:%s", len(todos), c17Dump(todos))
	}
}

// Defect 5 (minor): the marker is recognised on the upper-cased text but cut from the original text by the
// byte length of the marker; U+0131 (dotless i, two bytes) upper-cases to "I" (one byte), so the cut is one byte short.
func TestDefect2_C17_MarkerLengthAfterToUpper(t *testing.T) {
	todos := c17Scan(t, map[string]string{"A.java": "// fıxme: abc\n"}, []string{".java"})
	// either this spelling is not FIXME (no entry), or it is FIXME and the message is "abc"
	if len(todos) == 0 {
		return
	}
	if len(todos) != 1 || todos[0].Message != "abc" {
		t.Errorf("want no entry or message \"abc\", got:%s", c17Dump(todos))
	}
}
