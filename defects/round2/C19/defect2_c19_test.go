package deps

import (
	"fmt"
	"os"
	"path/filepath"
	"strings"
	"testing"

	"github.com/modernizing/coca/pkg/domain/core_domain"
)

// helpers -------------------------------------------------------------------

func c19Gradle(t *testing.T, script string) (deps []core_domain.CodeDependency, panicked interface{}) {
	t.Helper()
	defer func() {
		if r := recover(); r != nil {
			panicked = r
		}
	}()
	return AnalysisGradleString(script), nil
}

func c19Show(deps []core_domain.CodeDependency) string {
	var parts []string
	for _, d := range deps {
		parts = append(parts, fmt.Sprintf("%s:%s[%s]", d.GroupId, d.ArtifactId, d.Scope))
	}
	return "{" + strings.Join(parts, ", ") + "}"
}

func c19Expect(t *testing.T, got []core_domain.CodeDependency, want [][3]string) {
	t.Helper()
	ok := len(got) == len(want)
	if ok {
		for i, w := range want {
			if got[i].GroupId != w[0] || got[i].ArtifactId != w[1] || got[i].Scope != w[2] {
				ok = false
			}
		}
	}
	if !ok {
		var parts []string
		for _, w := range want {
			parts = append(parts, fmt.Sprintf("%s:%s[%s]", w[0], w[1], w[2]))
		}
		t.Errorf("extracted dependencies\n  got  %s\n  want {%s}", c19Show(got), strings.Join(parts, ", "))
	}
}

// Defect 1 --------------------------------------------------------------------
// A parenthesised entry whose argument is not a string (project reference, file tree, platform(...),
// map notation) must be skipped; instead the text of the expression is split at ':' and a phantom
// dependency is reported.
func TestDefect2_C19_ParenNonStringPhantom(t *testing.T) {
	script := `dependencies {
    implementation 'org.foo:bar:1.0'
    implementation(project(':core'))
    implementation(fileTree(dir: 'libs'))
    testImplementation('junit:junit:4.13')
}
`
	got, p := c19Gradle(t, script)
	if p != nil {
		t.Fatalf("panic: %v", p)
	}
	c19Expect(t, got, [][3]string{
		{"org.foo", "bar", "implementation"},
		{"junit", "junit", "testImplementation"},
	})

	// map notation inside parentheses: whatever one decides about extracting it, its keys are not group ids
	got, p = c19Gradle(t, "dependencies {\n    implementation(group: 'org.baz', name: 'qux', version: '2.0')\n}\n")
	if p != nil {
		t.Fatalf("panic: %v", p)
	}
	for _, d := range got {
		if d.GroupId == "group" || d.GroupId == "name" || d.GroupId == "version" {
			t.Errorf("map notation produced the phantom dependency %s:%s; all: %s", d.GroupId, d.ArtifactId, c19Show(got))
			break
		}
	}
}

// Defect 2 --------------------------------------------------------------------
// A build script may contain more than one top-level dependencies block (Gradle merges them);
// every later block replaces what was collected before.
func TestDefect2_C19_SecondDependenciesBlockReplacesFirst(t *testing.T) {
	script := `plugins {
    id 'java'
}

dependencies {
    implementation 'org.foo:bar:1.0'
    runtimeOnly 'mysql:mysql-connector-java:8.0'
}

repositories {
    mavenCentral()
}

dependencies {
    testImplementation 'junit:junit:4.13'
}
`
	got, p := c19Gradle(t, script)
	if p != nil {
		t.Fatalf("panic: %v", p)
	}
	c19Expect(t, got, [][3]string{
		{"org.foo", "bar", "implementation"},
		{"mysql", "mysql-connector-java", "runtimeOnly"},
		{"junit", "junit", "testImplementation"},
	})
}

// Defect 3 --------------------------------------------------------------------
// A double-quoted notation with a `$name` placeholder (no braces) derails the lexer: the character
// after the placeholder is swallowed, the string never ends, the script does not parse and NO
// dependency of the file is extracted (silently).
func TestDefect2_C19_DollarPlaceholderLosesWholeBlock(t *testing.T) {
	script := `dependencies {
    implementation 'org.foo:bar:1.0'
    implementation("org.baz:qux:$quxVersion")
    testImplementation('junit:junit:4.13')
}
`
	got, p := c19Gradle(t, script)
	if p != nil {
		t.Fatalf("panic: %v", p)
	}
	c19Expect(t, got, [][3]string{
		{"org.foo", "bar", "implementation"},
		{"org.baz", "qux", "implementation"},
		{"junit", "junit", "testImplementation"},
	})

	// the same notation with braces works today, which shows that the placeholder itself is supported
	got, p = c19Gradle(t, "dependencies {\n    implementation(\"org.baz:qux:${quxVersion}\")\n}\n")
	if p != nil {
		t.Fatalf("panic: %v", p)
	}
	c19Expect(t, got, [][3]string{{"org.baz", "qux", "implementation"}})
}

// Defect 4 --------------------------------------------------------------------
// Files whose name merely ends in "pom.xml" / "build.gradle" (dependency-reduced-pom.xml of the shade
// plugin, .flattened-pom.xml, an included "extra-build.gradle") are read as manifests too, so the
// declared dependencies are reported twice (and the dependencies of unrelated scripts are added).
func TestDefect2_C19_SuffixNamedFilesReadAsManifests(t *testing.T) {
	dir := t.TempDir()
	pom := `<?xml version="1.0" encoding="UTF-8"?>
<project xmlns="http://maven.apache.org/POM/4.0.0">
  <modelVersion>4.0.0</modelVersion>
  <groupId>g</groupId><artifactId>a</artifactId><version>1</version>
  <dependencies>
    <dependency><groupId>org.foo</groupId><artifactId>bar</artifactId><version>1.0</version></dependency>
    <dependency><groupId>junit</groupId><artifactId>junit</artifactId><version>4.13</version><scope>test</scope></dependency>
  </dependencies>
</project>
`
	for _, name := range []string{"pom.xml", "dependency-reduced-pom.xml"} {
		if err := os.WriteFile(filepath.Join(dir, name), []byte(pom), 0644); err != nil {
			t.Fatal(err)
		}
	}

	var got []core_domain.CodeDependency
	var p interface{}
	func() {
		defer func() { p = recover() }()
		got = NewDepApp().AnalysisPath(dir, nil) // no Java source: every declared dependency is unused
	}()
	if p != nil {
		t.Fatalf("panic: %v", p)
	}
	c19Expect(t, got, [][3]string{
		{"org.foo", "bar", ""},
		{"junit", "junit", "test"},
	})
}
