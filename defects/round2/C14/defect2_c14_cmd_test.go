package cmd

import (
	"bytes"
	"fmt"
	"os"
	"os/exec"
	"path/filepath"
	"strings"
	"testing"

	cocagit "github.com/modernizing/coca/pkg/application/git"
)

func c14Git(t *testing.T, dir string, args ...string) string {
	t.Helper()
	cmd := exec.Command("git", args...)
	cmd.Dir = dir
	cmd.Env = append(os.Environ(), "HOME="+dir, "GIT_CONFIG_NOSYSTEM=1",
		"GIT_AUTHOR_DATE=2020-03-04T10:00:00", "GIT_COMMITTER_DATE=2020-03-04T10:00:00")
	var out, errb bytes.Buffer
	cmd.Stdout = &out
	cmd.Stderr = &errb
	if err := cmd.Run(); err != nil {
		t.Fatalf("git %v: %v\n%s", args, err, errb.String())
	}
	return out.String()
}

// A history with one big reorganisation (1010 files deleted, 1010 similar files
// added: more than diff.renameLimit**2 candidate pairs) whose tip is a merge
// commit.  For such a history `git log` writes, after its last byte of standard
// output,
//
//	warning: exhaustive rename detection was skipped due to too many files.
//	warning: you may want to set your diff.renameLimit variable to at least 1010 and retry the command.
//
// to standard ERROR.  getCommitMessage reads the log with CombinedOutput, so the
// two lines become part of the "log".  The header of the merge commit (the last
// line of the log, not terminated by a newline in format: mode) is glued to the
// first warning, and the second warning is an "other" line that flushes it: the
// merge commit is reported as a commit (with no changes and a subject that git
// never printed).
func TestDefect2_C14_StderrInLog(t *testing.T) {
	if _, err := exec.LookPath("git"); err != nil {
		t.Skip("git is not installed")
	}
	defer func() {
		if r := recover(); r != nil {
			t.Fatalf("panic: %v", r)
		}
	}()
	dir, err := os.MkdirTemp("", "c14cmd")
	if err != nil {
		t.Fatal(err)
	}
	defer os.RemoveAll(dir)

	c14Git(t, dir, "init", "-q", ".")
	c14Git(t, dir, "config", "user.name", "Ann Lee")
	c14Git(t, dir, "config", "user.email", "ann@example.org")

	const n = 1010
	_ = os.MkdirAll(filepath.Join(dir, "old"), 0755)
	for i := 0; i < n; i++ {
		body := fmt.Sprintf("line %d\ncommon a\ncommon b\ncommon c\ncommon d\n", i)
		_ = os.WriteFile(filepath.Join(dir, "old", fmt.Sprintf("f%d.txt", i)), []byte(body), 0644)
	}
	c14Git(t, dir, "add", "-A")
	c14Git(t, dir, "commit", "-q", "-m", "import")

	c14Git(t, dir, "rm", "-r", "-q", "old")
	_ = os.MkdirAll(filepath.Join(dir, "new"), 0755)
	for i := 0; i < n; i++ {
		body := fmt.Sprintf("line %d\ncommon a\ncommon b\ncommon c\ncommon d\nextra %d\n", i, i)
		_ = os.WriteFile(filepath.Join(dir, "new", fmt.Sprintf("g%d.dat", i)), []byte(body), 0644)
	}
	c14Git(t, dir, "add", "-A")
	c14Git(t, dir, "commit", "-q", "-m", "reorganise")

	c14Git(t, dir, "checkout", "-q", "-b", "side")
	_ = os.WriteFile(filepath.Join(dir, "side.txt"), []byte("s\n"), 0644)
	c14Git(t, dir, "add", "-A")
	c14Git(t, dir, "commit", "-q", "-m", "side work")
	c14Git(t, dir, "checkout", "-q", "-")
	_ = os.WriteFile(filepath.Join(dir, "main.txt"), []byte("m\n"), 0644)
	c14Git(t, dir, "add", "-A")
	c14Git(t, dir, "commit", "-q", "-m", "main work")
	c14Git(t, dir, "merge", "-q", "--no-ff", "-m", "Merge branch 'side'", "side")

	// ground truth: the non-merge commits, oldest first (all of them change files)
	var want []string
	for _, l := range strings.Split(strings.TrimSpace(c14Git(t, dir, "log", "--reverse", "--no-merges", "--format=%h %s")), "\n") {
		want = append(want, l)
	}

	// run the real command function inside the repository
	cwd, _ := os.Getwd()
	if err := os.Chdir(dir); err != nil {
		t.Fatal(err)
	}
	oldHome, hadHome := os.LookupEnv("HOME")
	_ = os.Setenv("HOME", dir)
	message := getCommitMessage()
	if hadHome {
		_ = os.Setenv("HOME", oldHome)
	} else {
		_ = os.Unsetenv("HOME")
	}
	_ = os.Chdir(cwd)

	commits := cocagit.BuildMessageByInput(message)
	var got []string
	for _, c := range commits {
		got = append(got, c.Rev+" "+c.Message)
	}
	if strings.Join(got, "\n") != strings.Join(want, "\n") {
		t.Errorf("parsed commits\n   got  (%d) %q\n   want (%d) %q", len(got), got, len(want), want)
		lines := strings.Split(message, "\n")
		if len(lines) > 4 {
			lines = lines[len(lines)-4:]
		}
		t.Logf("tail of what getCommitMessage returned:\n%s", strings.Join(lines, "\n"))
	}
	for _, c := range commits {
		if len(c.Changes) == 0 {
			t.Errorf("commit [%s] %q reported with no change at all", c.Rev, c.Message)
		}
	}
}
