package git

import (
	"bytes"
	"fmt"
	"os"
	"os/exec"
	"path/filepath"
	"testing"
)

// helpers -------------------------------------------------------------------

type c14Repo struct {
	t   *testing.T
	dir string
}

func newC14Repo(t *testing.T) *c14Repo {
	if _, err := exec.LookPath("git"); err != nil {
		t.Skip("git is not installed")
	}
	dir, err := os.MkdirTemp("", "c14repo")
	if err != nil {
		t.Fatal(err)
	}
	t.Cleanup(func() { _ = os.RemoveAll(dir) })
	r := &c14Repo{t, dir}
	r.git("init", "-q", ".")
	r.git("config", "user.name", "Ann Lee")
	r.git("config", "user.email", "ann@example.org")
	return r
}

func (r *c14Repo) git(args ...string) string {
	cmd := exec.Command("git", args...)
	cmd.Dir = r.dir
	cmd.Env = append(os.Environ(), "HOME="+r.dir, "GIT_CONFIG_NOSYSTEM=1",
		"GIT_AUTHOR_DATE=2020-03-04T10:00:00", "GIT_COMMITTER_DATE=2020-03-04T10:00:00")
	var out, errb bytes.Buffer
	cmd.Stdout = &out
	cmd.Stderr = &errb
	if err := cmd.Run(); err != nil {
		r.t.Fatalf("git %v: %v\n%s", args, err, errb.String())
	}
	return out.String()
}

func (r *c14Repo) write(name, content string) {
	p := filepath.Join(r.dir, name)
	_ = os.MkdirAll(filepath.Dir(p), 0755)
	if err := os.WriteFile(p, []byte(content), 0644); err != nil {
		r.t.Fatal(err)
	}
}

// the log exactly as cmd.getCommitMessage asks for it (stdout only)
func (r *c14Repo) cocaLog() string {
	return r.git("log", "--pretty=format:[%h] %aN %ad %s", "--date=short", "--numstat", "--reverse", "--summary")
}

func c14Describe(commits []CommitMessage) string {
	s := ""
	for _, c := range commits {
		s += fmt.Sprintf("  [%s] %q %s %q\n", c.Rev, c.Author, c.Date, c.Message)
		for _, ch := range c.Changes {
			s += fmt.Sprintf("      +%d -%d %q mode=%q\n", ch.Added, ch.Deleted, ch.File, ch.Mode)
		}
	}
	return s
}

func c14ExpectChanges(t *testing.T, what string, got []FileChange, want []FileChange) {
	t.Helper()
	ok := len(got) == len(want)
	if ok {
		for i := range want {
			if got[i] != want[i] {
				ok = false
			}
		}
	}
	if !ok {
		t.Errorf("%s: changes\n   got  %+v\n   want %+v", what, got, want)
	}
}

// defect 1 --------------------------------------------------------------------

// A path with spaces whose FIRST character is a space (" notes.txt" in the
// root of the repository).  git prints it unquoted:
//
//	2<TAB>0<TAB> notes.txt
//	 create mode 100644  notes.txt
//
// The numstat classifier eats the space together with the tab, so the change is
// recorded for the path "notes.txt"; the summary line then names " notes.txt",
// which is not in the map: the create mode is lost, and on deletion a second,
// phantom change (0/0, mode delete) is added for the same path.
func TestDefect2_C14_LeadingSpacePath(t *testing.T) {
	defer func() {
		if r := recover(); r != nil {
			t.Fatalf("panic: %v", r)
		}
	}()
	r := newC14Repo(t)
	r.write(" notes.txt", "one\ntwo\n")
	r.write("docs/readme.txt", "x\n")
	r.git("add", "-A")
	r.git("commit", "-q", "-m", "add notes")
	r.git("rm", "-q", " notes.txt")
	r.git("commit", "-q", "-m", "drop notes")

	log := r.cocaLog()
	commits := BuildMessageByInput(log)
	if len(commits) != 2 {
		t.Fatalf("want 2 commits, got %d\nlog:\n%s\nparsed:\n%s", len(commits), log, c14Describe(commits))
	}
	c14ExpectChanges(t, "commit 1 (add notes)", commits[0].Changes, []FileChange{
		{Added: 2, Deleted: 0, File: " notes.txt", Mode: "create"},
		{Added: 1, Deleted: 0, File: "docs/readme.txt", Mode: "create"},
	})
	c14ExpectChanges(t, "commit 2 (drop notes)", commits[1].Changes, []FileChange{
		{Added: 0, Deleted: 2, File: " notes.txt", Mode: "delete"},
	})
	if t.Failed() {
		t.Logf("log:\n%s\nparsed:\n%s", log, c14Describe(commits))
	}
}

// defect 3 --------------------------------------------------------------------

// Entries that are not regular files: a symbolic link (mode 120000).  git prints
//
//	1<TAB>0<TAB>current
//	 create mode 120000 current
//
// The summary classifier only knows `mode 100ddd`; for any other mode the words
// "mode 120000" become part of the path ("mode 120000 current"), so the create
// mode is lost and, on deletion, a phantom change for the path
// "mode 120000 current" is added to the commit.
func TestDefect2_C14_SymlinkMode(t *testing.T) {
	defer func() {
		if r := recover(); r != nil {
			t.Fatalf("panic: %v", r)
		}
	}()
	r := newC14Repo(t)
	r.write("releases/v1.txt", "v1\n")
	if err := os.Symlink("releases/v1.txt", filepath.Join(r.dir, "current")); err != nil {
		t.Skip("no symlinks here: " + err.Error())
	}
	r.git("add", "-A")
	r.git("commit", "-q", "-m", "add release and link")
	r.git("rm", "-q", "current")
	r.git("commit", "-q", "-m", "drop link")

	log := r.cocaLog()
	commits := BuildMessageByInput(log)
	if len(commits) != 2 {
		t.Fatalf("want 2 commits, got %d\nlog:\n%s\nparsed:\n%s", len(commits), log, c14Describe(commits))
	}
	c14ExpectChanges(t, "commit 1 (add release and link)", commits[0].Changes, []FileChange{
		{Added: 1, Deleted: 0, File: "current", Mode: "create"},
		{Added: 1, Deleted: 0, File: "releases/v1.txt", Mode: "create"},
	})
	c14ExpectChanges(t, "commit 2 (drop link)", commits[1].Changes, []FileChange{
		{Added: 0, Deleted: 1, File: "current", Mode: "delete"},
	})
	if t.Failed() {
		t.Logf("log:\n%s\nparsed:\n%s", log, c14Describe(commits))
	}
}
