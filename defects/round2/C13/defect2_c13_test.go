package arch

import (
	"os"
	"path/filepath"
	"sort"
	"testing"

	"github.com/modernizing/coca/cocatest/testhelper"
	"github.com/modernizing/coca/pkg/application/arch/tequila"
	"github.com/modernizing/coca/pkg/domain/core_domain"
)

func c13WriteJava(t *testing.T, root string, files map[string]string) {
	t.Helper()
	for name, content := range files {
		path := filepath.Join(root, filepath.FromSlash(name))
		if err := os.MkdirAll(filepath.Dir(path), 0o755); err != nil {
			t.Fatal(err)
		}
		if err := os.WriteFile(path, []byte(content), 0o644); err != nil {
			t.Fatal(err)
		}
	}
}

func c13Keys(g *tequila.FullGraph) (nodes []string, relations []string) {
	for k := range g.NodeList {
		nodes = append(nodes, k)
	}
	for _, r := range g.RelationList {
		relations = append(relations, r.From+"->"+r.To)
	}
	sort.Strings(nodes)
	sort.Strings(relations)
	return
}

func c13Analyse(t *testing.T, files map[string]string) *tequila.FullGraph {
	t.Helper()
	root := t.TempDir()
	c13WriteJava(t, root, files)
	deps, identifiersMap, _ := testhelper.BuildAnalysisDeps(root)
	return NewArchApp().Analysis(deps, identifiersMap)
}

// Svc.run() calls the static method Outer.top(); both are project types and both are nodes of the graph.
// The only thing special about Outer is that it declares a nested class.
func TestDefect2_C13_CallEdgeToNodeMissingFromIdentifiers(t *testing.T) {
	t.Run("java-sources", c13JavaSourcesCallEdge)
	t.Run("hand-built-model", c13HandBuiltCallEdge)
}

func c13JavaSourcesCallEdge(t *testing.T) {
	svc := "package app;\n\nimport dom.Outer;\n\npublic class Svc {\n    public void run() {\n        Outer.top();\n    }\n}\n"

	// control: without the nested class the call edge is there
	plain := c13Analyse(t, map[string]string{
		"app/Svc.java":   svc,
		"dom/Outer.java": "package dom;\n\npublic class Outer {\n    public static void top() {}\n}\n",
	})
	if _, ok := plain.RelationList["app.Svc->dom.Outer"]; !ok {
		_, rel := c13Keys(plain)
		t.Fatalf("control project: edge app.Svc->dom.Outer expected, relations: %v", rel)
	}

	nested := c13Analyse(t, map[string]string{
		"app/Svc.java":   svc,
		"dom/Outer.java": "package dom;\n\npublic class Outer {\n    public static void top() {}\n\n    public static class Inner {\n    }\n}\n",
	})
	nodes, rel := c13Keys(nested)
	if _, ok := nested.NodeList["app.Svc"]; !ok {
		t.Fatalf("precondition: app.Svc is a node; nodes: %v", nodes)
	}
	if _, ok := nested.NodeList["dom.Outer"]; !ok {
		t.Fatalf("precondition: dom.Outer is a node; nodes: %v", nodes)
	}
	if _, ok := nested.RelationList["app.Svc->dom.Outer"]; !ok {
		t.Errorf("a method of app.Svc calls a method of the project type dom.Outer, both are nodes %v, but the edge app.Svc->dom.Outer is missing; relations: %v", nodes, rel)
	}
}

// The same thing on a hand-built model: the graph decides "project type" by its own node list for
// implements / extends / fields, but by a second table for calls. When the two disagree the call edge is lost
// although an extends edge between the very same two nodes is drawn.
func c13HandBuiltCallEdge(t *testing.T) {
	call := core_domain.CodeCall{Package: "dom", NodeName: "B", FunctionName: "m"}
	deps := []core_domain.CodeDataStruct{
		{Package: "app", NodeName: "A", Type: "Class", Functions: []core_domain.CodeFunction{{Name: "run", FunctionCalls: []core_domain.CodeCall{call}}}},
		{Package: "app", NodeName: "C", Type: "Class", Extend: "dom.B"},
		{Package: "dom", NodeName: "B", Type: "Class", Functions: []core_domain.CodeFunction{{Name: "m"}}},
	}
	// the identifiers as the identifier pass delivers them for a class with a nested class: the outer class is absent
	identifiers := []core_domain.CodeDataStruct{deps[0], deps[1], {Package: "dom", NodeName: "Inner", Type: "Class"}}
	g := NewArchApp().Analysis(deps, core_domain.BuildIdentifierMap(identifiers))

	nodes, rel := c13Keys(g)
	if _, ok := g.RelationList["app.C->dom.B"]; !ok {
		t.Fatalf("precondition: extends edge app.C->dom.B; relations %v", rel)
	}
	if _, ok := g.RelationList["app.A->dom.B"]; !ok {
		t.Errorf("dom.B is a node %v and app.A.run() calls dom.B.m(), edge app.A->dom.B missing; relations %v", nodes, rel)
	}
}

// A nested class is a project type too. Its extends / field relations are in the model (InnerStructures, the
// shape the Java listener produces) but nothing of it reaches the graph: neither a node nor an edge,
// not even attributed to the enclosing class.
func TestDefect2_C13_NestedTypeRelationsLost(t *testing.T) {
	inner := core_domain.CodeDataStruct{
		Package:  "dom",
		NodeName: "Inner",
		Type:     "InnerStructures",
		Extend:   "dom.Plain",
		FunctionCalls: []core_domain.CodeCall{
			{Package: "dom", NodeName: "Repo", Type: "field"},
		},
	}
	deps := []core_domain.CodeDataStruct{
		{Package: "dom", NodeName: "Outer", Type: "Class", InnerStructures: []core_domain.CodeDataStruct{inner}},
		{Package: "dom", NodeName: "Plain", Type: "Class"},
		{Package: "dom", NodeName: "Repo", Type: "Interface"},
	}
	g := NewArchApp().Analysis(deps, core_domain.BuildIdentifierMap(deps))
	nodes, rel := c13Keys(g)

	// whichever node stands for the nested type (itself, or its enclosing class) must depend on Plain and Repo
	holders := []string{"dom.Inner", "dom.Outer.Inner", "dom.Outer$Inner", "dom.Outer"}
	for _, target := range []string{"dom.Plain", "dom.Repo"} {
		found := false
		for _, h := range holders {
			if _, ok := g.RelationList[h+"->"+target]; ok {
				found = true
			}
		}
		if !found {
			t.Errorf("nested type dom.Outer.Inner depends on %s, but no edge from it (or from its enclosing type) to %s; nodes %v relations %v", target, target, nodes, rel)
		}
	}
}
