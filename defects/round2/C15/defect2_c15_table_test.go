package cmd

import (
	"bytes"
	"io/ioutil"
	"os"
	"os/exec"
	"path/filepath"
	"strings"
	"testing"
)

// coca git -b -t: the team-summary table must list the files of the history and
// nothing else. One tablewriter is shared by all sections of the command and is never
// cleared, so the rows of the basic summary (Commits/Entities/Changes/Authors) are
// printed again as "files" of the team summary.
func TestDefect2_C15_SharedTable(t *testing.T) {
	dir, err := ioutil.TempDir("", "c15table")
	if err != nil {
		t.Fatal(err)
	}
	defer os.RemoveAll(dir)

	git := func(args ...string) {
		c := exec.Command("git", append([]string{"-c", "user.name=Ann", "-c", "user.email=ann@example.org", "-c", "commit.gpgsign=false"}, args...)...)
		c.Dir = dir
		if out, err := c.CombinedOutput(); err != nil {
			t.Fatalf("git %v: %v\n%s", args, err, out)
		}
	}
	git("init", "-q")
	for i, content := range []string{"one\n", "one\ntwo\n"} {
		if err := ioutil.WriteFile(filepath.Join(dir, "alpha.txt"), []byte(content), 0644); err != nil {
			t.Fatal(err)
		}
		git("add", "alpha.txt")
		git("commit", "-q", "-m", "fix: step "+string(rune('a'+i)))
	}

	wd, _ := os.Getwd()
	if err := os.Chdir(dir); err != nil {
		t.Fatal(err)
	}
	defer os.Chdir(wd)

	buf := new(bytes.Buffer)
	root := NewRootCmd(buf)
	root.SetArgs([]string{"git", "--basic=true", "--team=true", "--age=false", "--top=false", "--full=false", "--summary=false", "--related="})
	func() {
		defer func() {
			if r := recover(); r != nil {
				t.Fatalf("panic: %v", r)
			}
		}()
		if err := root.Execute(); err != nil {
			t.Fatal(err)
		}
	}()

	out := buf.String()
	idx := strings.Index(out, "ENTITYNAME")
	if idx < 0 {
		t.Fatalf("no team table in output:\n%s", out)
	}
	team := out[idx:]
	var rows []string
	for _, line := range strings.Split(team, "\n")[1:] {
		if strings.HasPrefix(strings.TrimSpace(line), "|") && !strings.Contains(line, "---") {
			rows = append(rows, line)
		}
	}
	if len(rows) != 1 || !strings.Contains(rows[0], "alpha.txt") {
		t.Errorf("team summary of a history with one file (alpha.txt, 2 revisions, 1 author) must have exactly one row; got %d rows:\n%s", len(rows), team)
	}
}
