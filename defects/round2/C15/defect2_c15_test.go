package git

import (
	"bytes"
	"fmt"
	"strings"
	"testing"
)

// Defect: an in-directory rename whose unchanged tail contains braces, e.g. a
// cookiecutter/mustache template directory "{{name}}", is decoded with the wrong old and
// new names: `(.*)\{(.*)\s=>\s(.*)\}(.*)` lets the new-side group run up to the LAST `}`.
// The log text below is what `git log --numstat --summary` prints for `git mv old new`.
func TestDefect2_C15_BracesInRenamedPath(t *testing.T) {
	defer func() {
		if r := recover(); r != nil {
			t.Fatalf("panic: %v", r)
		}
	}()

	changed, oldName, newName := UpdateMessageForChange("{old => new}/{{name}}/setup.py")
	if oldName != "old/{{name}}/setup.py" || newName != "new/{{name}}/setup.py" || changed != newName {
		t.Errorf("decode of {old => new}/{{name}}/setup.py: got old=%q new=%q changed=%q, want old/{{name}}/setup.py -> new/{{name}}/setup.py", oldName, newName, changed)
	}

	messages := BuildMessageByInput(`
[0f0255f] Ann 2020-01-01 feat: add template
1	0	old/{{name}}/setup.py
 create mode 100644 old/{{name}}/setup.py

[1f0255f] Bob 2020-02-01 fix: template
1	1	old/{{name}}/setup.py

[57cb376] Ann 2020-03-01 chore: rename template dir
0	0	{old => new}/{{name}}/setup.py
 rename {old => new}/{{name}}/setup.py (100%)

[67cb376] Ann 2020-04-01 fix: template again
1	1	new/{{name}}/setup.py

`)
	summary := GetTeamSummary(messages)
	if len(summary) != 1 || summary[0].EntityName != "new/{{name}}/setup.py" || summary[0].RevsCount != 4 || summary[0].AuthorCount != 2 {
		t.Errorf("team summary: want exactly [{new/{{name}}/setup.py authors=2 revs=4}], got %+v", summary)
	}

	ages := CalculateCodeAge(messages)
	if len(ages) != 1 || ages[0].EntityName != "new/{{name}}/setup.py" || ages[0].Age.Format("2006-01-02") != "2020-01-01" {
		t.Errorf("code age: want exactly [new/{{name}}/setup.py 2020-01-01], got %+v", ages)
	}

	changeMap := BuildChangeMap(messages)
	if changeMap["chore"]["new/{{name}}/setup.py"] != 1 || len(changeMap["chore"]) != 1 {
		t.Errorf("changelog: the chore commit touched new/{{name}}/setup.py once, got %+v", changeMap["chore"])
	}
}

// Defect: the deletion of a symbolic link (mode 120000) or of a submodule (mode 160000)
// is not recognised, the summary-line pattern only knows `mode 100xxx`. The deleted path
// stays in the team summary / code age, and a phantom path "mode 120000 <path>" is put
// into the commit (it is counted by the basic summary and the changelog).
func TestDefect2_C15_DeletedSymlinkStays(t *testing.T) {
	defer func() {
		if r := recover(); r != nil {
			t.Fatalf("panic: %v", r)
		}
	}()

	messages := BuildMessageByInput(`
[0f0255f] Ann 2020-01-01 feat: add
1	0	current
1	0	real.txt
1	0	vendor/lib
 create mode 120000 current
 create mode 100644 real.txt
 create mode 160000 vendor/lib

[57cb376] Ann 2020-02-01 chore: drop the link and the submodule
0	1	current
0	1	vendor/lib
 delete mode 120000 current
 delete mode 160000 vendor/lib

`)
	summary := GetTeamSummary(messages)
	if len(summary) != 1 || summary[0].EntityName != "real.txt" {
		t.Errorf("team summary: deleted files must be dropped, want only real.txt, got %+v", summary)
	}
	ages := CalculateCodeAge(messages)
	if len(ages) != 1 || ages[0].EntityName != "real.txt" {
		var names []string
		for _, a := range ages {
			names = append(names, a.EntityName)
		}
		t.Errorf("code age: want only real.txt, got %v", names)
	}
	if basic := BasicSummary(messages); basic.Entities != 3 {
		t.Errorf("basic summary: the history has 3 distinct paths (current, real.txt, vendor/lib), got %d", basic.Entities)
	}
	chore := BuildChangeMap(messages)["chore"]
	if len(chore) != 2 || chore["current"] != 1 || chore["vendor/lib"] != 1 {
		t.Errorf("changelog: the chore commit touched current and vendor/lib, got %+v", chore)
	}
}

// Defect: a conventional commit that marks a breaking change with `!`
// (`feat!: ...`, `feat(api)!: ...`, Conventional Commits 1.0.0) is not counted at all.
func TestDefect2_C15_BreakingChangeMarker(t *testing.T) {
	commits := []CommitMessage{
		{Rev: "aaaaaa1", Author: "Ann", Date: "2020-01-01", Message: "feat: add api", Changes: []FileChange{{Added: 5, File: "api.go"}}},
		{Rev: "aaaaaa2", Author: "Ann", Date: "2020-01-02", Message: "feat!: drop the v1 api", Changes: []FileChange{{Added: 1, Deleted: 9, File: "api.go"}}},
		{Rev: "aaaaaa3", Author: "Bob", Date: "2020-01-03", Message: "feat(api)!: new signature", Changes: []FileChange{{Added: 2, Deleted: 2, File: "api.go"}}},
		{Rev: "aaaaaa4", Author: "Bob", Date: "2020-01-04", Message: "fix(api): typo", Changes: []FileChange{{Added: 1, Deleted: 1, File: "api.go"}}},
	}
	changeMap := BuildChangeMap(commits)
	if changeMap["feat"]["api.go"] != 3 {
		t.Errorf("three commits of type feat touched api.go, got %d (map: %+v)", changeMap["feat"]["api.go"], changeMap)
	}
	if changeMap["fix"]["api.go"] != 1 {
		t.Errorf("one commit of type fix touched api.go, got %d", changeMap["fix"]["api.go"])
	}
}

// Defect: the printed changelog summary keeps ten files per type, chosen by NAME
// (string_helper.SortWord orders by key), not the ten most often touched files: a file
// touched by every fix commit is missing while files touched once are listed.
func TestDefect2_C15_ChangelogTopTen(t *testing.T) {
	var commits []CommitMessage
	for i := 0; i < 12; i++ {
		commits = append(commits, CommitMessage{
			Rev: fmt.Sprintf("abcde%02d", i), Author: "Ann", Date: "2020-01-01", Message: "fix: something",
			Changes: []FileChange{
				{Added: 1, File: fmt.Sprintf("a/file%02d.go", i)},
				{Added: 1, File: "zcore/hot.go"},
			},
		})
	}
	if got := BuildChangeMap(commits)["fix"]["zcore/hot.go"]; got != 12 {
		t.Fatalf("precondition: hot.go touched by 12 fix commits, got %d", got)
	}
	buf := new(bytes.Buffer)
	ShowChangeLogSummary(commits, buf)
	if !strings.Contains(buf.String(), "zcore/hot.go, 12") {
		t.Errorf("the file touched by the most fix commits (zcore/hot.go, 12) is missing from the summary:\n%s", buf.String())
	}
}
